//! C16, format layer tied to the Lean poll machines (`Noodles/Io/AsyncLoops.lean`).
//!
//! CORRESPONDENCE (`c16 tok|bamrec|bam|gff …`): the real async functions (tokio `read_exact` /
//! `read_u32_le` / `read`; `bam::r#async::io::Reader::{read_header, read_record}` on a raw stream;
//! `gff::r#async::io::Reader::read_line` over a tokio `BufReader`) run under a scripted async source
//! (`Ready(n)` / `Pending`), the sync twins under a scripted sync source (short reads, `Interrupted`);
//! the Lean model answers both sides from the same request. Besides values, errors and the number of
//! bytes consumed, the async answer carries the number of `poll_read` calls and of `Pending` answers
//! the source has seen: the model has to follow the real futures poll by poll.
//!
//! ORACLE: async vs sync on the real code, directly (header `==`, records `==` on the raw bytes,
//! return values, error classes, bytes consumed), each case under several poll schedules.
use super::c01::{stored_member, EOF};
use super::c02::{resolve, table as c02_table, Blk};
use super::{c05, c06};
use noodles_bgzf as bgzf;
use crate::adversary::{block_on, poll_schedule, schedule, AsyncSchedReader, Delivery, Poll1, SchedReader};
use crate::common::*;
use noodles_bam as bam;
use noodles_gff as gff;
use noodles_sam as sam;
use std::io::Read;
use std::pin::Pin;
use std::task::{Context, Poll};
use tokio::io::AsyncReadExt;

// ------------------------------------------------------------------ instrumented sources

/// the scripted async source plus what the correspondence prints: `poll_read` calls, `Pending`
/// answers, and the size of the buffer offered at every call (the `asks` of the Lean model)
pub struct Counting {
    inner: AsyncSchedReader,
    polls: usize,
    pendings: usize,
    asks: Vec<usize>,
}

impl Counting {
    fn new(data: &[u8], sched: &[Poll1], fallback: usize) -> Self {
        Self { inner: AsyncSchedReader::new(data.to_vec(), sched.to_vec(), fallback), polls: 0, pendings: 0, asks: vec![] }
    }
    fn tail(&self) -> String {
        format!("@{} s{} p{}", self.inner.pos, self.polls, self.pendings)
    }
}

impl tokio::io::AsyncRead for Counting {
    fn poll_read(mut self: Pin<&mut Self>, cx: &mut Context<'_>, buf: &mut tokio::io::ReadBuf<'_>) -> Poll<std::io::Result<()>> {
        self.polls += 1;
        let ask = buf.remaining();
        self.asks.push(ask);
        let r = Pin::new(&mut self.inner).poll_read(cx, buf);
        if r.is_pending() {
            self.pendings += 1;
        }
        r
    }
}

/// the scripted sync source; counts `read` calls with an empty buffer (the assumed law of the
/// `read_to_end` models: at least one byte is always asked for)
struct AskCheck {
    inner: SchedReader,
    zero_asks: usize,
}

impl Read for AskCheck {
    fn read(&mut self, buf: &mut [u8]) -> std::io::Result<usize> {
        if buf.is_empty() {
            self.zero_asks += 1;
        }
        self.inner.read(buf)
    }
}

// ------------------------------------------------------------------ schedules

#[derive(Clone)]
struct ASched {
    sched: Vec<Poll1>,
    fallback: usize,
    name: String,
}

/// the four families of `adversary::poll_schedule` plus: a fixed 2 / 3 bytes per poll (splits every
/// 4-byte integer), everything at once, and chunks that end one byte before / at / one byte after
/// every structure boundary with `Pending`s in between and at the end of the stream
fn asched(rng: &mut Rng, kind: usize, len: usize, boundaries: &[usize]) -> ASched {
    match kind % 8 {
        k @ 0..=3 => {
            let (sched, fallback, name) = poll_schedule(rng, k, len);
            ASched { sched, fallback, name }
        }
        4 => ASched { sched: vec![], fallback: 2, name: "two-byte".into() },
        5 => ASched { sched: vec![Poll1::Pending], fallback: 3, name: "three-byte".into() },
        6 => ASched { sched: vec![], fallback: usize::MAX, name: "all-at-once".into() },
        _ => {
            let mut s = vec![];
            let mut at = 0usize;
            for &b in boundaries {
                let cut = match rng.below(3) {
                    0 => b.saturating_sub(1),
                    1 => b,
                    _ => b + 1,
                };
                if cut > at && cut <= len {
                    if rng.chance(1, 2) {
                        s.push(Poll1::Pending);
                    }
                    s.push(Poll1::Ready(cut - at));
                    at = cut;
                }
            }
            if at < len {
                s.push(Poll1::Ready(len - at));
            }
            for _ in 0..rng.below(3) {
                s.push(Poll1::Pending); // Pending at the end of the stream
            }
            ASched { sched: s, fallback: usize::MAX, name: "boundary-straddling+pending".into() }
        }
    }
}

fn runs<T: PartialEq, F: Fn(&T) -> String>(xs: &[T], f: F) -> String {
    if xs.is_empty() {
        return "-".into();
    }
    let mut out: Vec<String> = vec![];
    let mut i = 0;
    while i < xs.len() {
        let mut j = i + 1;
        while j < xs.len() && xs[j] == xs[i] {
            j += 1;
        }
        out.push(if j - i > 1 { format!("{}*{}", f(&xs[i]), j - i) } else { f(&xs[i]) });
        i = j;
    }
    out.join(",")
}

fn fmt_asched(s: &[Poll1]) -> String {
    let v: Vec<Option<usize>> = s.iter().map(|p| match p { Poll1::Pending => None, Poll1::Ready(n) => Some(*n) }).collect();
    runs(&v, |p| match p { None => "p".to_string(), Some(n) => n.to_string() })
}

fn fmt_asks(a: &[usize]) -> String {
    runs(a, |n| n.to_string())
}

fn fmt_ssched(s: &[Delivery]) -> String {
    runs(s, |d| match d { Delivery::Interrupted => "i".to_string(), Delivery::Chunk(n) => format!("c{n}") })
}

/// a sync schedule whose fallback is "whatever is asked" (the Lean `Src` after its schedule)
fn ssched(rng: &mut Rng, kind: usize, len: usize, boundaries: &[usize]) -> (Vec<Delivery>, String) {
    let (mut s, fallback, name) = schedule(rng, kind, len, boundaries);
    if fallback != usize::MAX {
        // spell the fixed-size fallback out as schedule entries
        let n = len / fallback + 8;
        s.extend(std::iter::repeat_n(Delivery::Chunk(fallback), n));
    }
    (s, name)
}

// ------------------------------------------------------------------ tokio futures

#[derive(Clone, Debug)]
enum TokOp {
    Exact(usize),
    U32,
    Read(usize),
}

fn tok_real(data: &[u8], a: &ASched, ops: &[TokOp]) -> String {
    let mut r = Counting::new(data, &a.sched, a.fallback);
    let res = guarded(|| {
        block_on(async {
            let mut out = vec![];
            for op in ops {
                out.push(match op {
                    TokOp::Exact(n) => {
                        let mut buf = vec![0u8; *n];
                        match r.read_exact(&mut buf).await {
                            Ok(_) => hex(&buf),
                            Err(e) => errclass(&e).to_string(),
                        }
                    }
                    TokOp::U32 => match r.read_u32_le().await {
                        Ok(v) => v.to_string(),
                        Err(e) => errclass(&e).to_string(),
                    },
                    TokOp::Read(n) => {
                        let mut buf = vec![0u8; *n];
                        match r.read(&mut buf).await {
                            Ok(k) => hex(&buf[..k]),
                            Err(e) => errclass(&e).to_string(),
                        }
                    }
                });
            }
            out
        })
    });
    match res {
        Ok(out) => format!("{} {}", if out.is_empty() { "-".to_string() } else { out.join(",") }, r.tail()),
        Err(_) => "panic".into(),
    }
}

fn tok_case(ctx: &mut Ctx, sub: u64) {
    let mut rng = Rng::new(sub);
    let len = *rng.pick(&[0usize, 1, 3, 4, 5, 9, 17, 40, 100]);
    let data = rng.bytes(len);
    let n = 1 + rng.below(6) as usize;
    let ops: Vec<TokOp> = (0..n)
        .map(|_| match rng.below(6) {
            0 | 1 => TokOp::Exact(*rng.pick(&[0usize, 1, 2, 4, 7, 8, 33, 64])),
            2 | 3 => TokOp::U32,
            _ => TokOp::Read(*rng.pick(&[0usize, 1, 3, 4, 16, 200])),
        })
        .collect();
    let kind = rng.below(8) as usize;
    let a = asched(&mut rng, kind, len, &[4, 8]);
    tok_check(ctx, &data, &a, &ops);
}

fn tok_check(ctx: &mut Ctx, data: &[u8], a: &ASched, ops: &[TokOp]) {
    let ops_s: Vec<String> = ops.iter().map(|o| match o { TokOp::Exact(n) => format!("x{n}"), TokOp::U32 => "u".into(), TokOp::Read(n) => format!("r{n}") }).collect();
    let ans = tok_real(data, a, ops);
    for o in ops {
        ctx.bump(match o { TokOp::Exact(_) => "fm_tok_read_exact", TokOp::U32 => "fm_tok_read_u32_le", TokOp::Read(_) => "fm_tok_read" });
    }
    if ans.contains("err:eof") {
        ctx.bump("fm_tok_unexpected_eof");
    }
    ctx.corr(format!("c16 tok {} {} {} {}", hex(data), fmt_asched(&a.sched), a.fallback, ops_s.join(",")), ans);
}

// ------------------------------------------------------------------ BAM: observations

/// everything one run of a BAM reader shows
#[derive(Clone, PartialEq, Debug)]
struct BamObs {
    /// None = no header was read (records-only stream)
    header: Option<Result<sam::Header, String>>,
    records: Vec<(usize, bam::Record)>,
    /// canonical record lines (computed where a panic is caught)
    rec_lines: Vec<String>,
    /// "eof" or the error class of the failing `read_record`
    end: String,
    consumed: usize,
}

fn rec_line(n: usize, r: &bam::Record) -> String {
    let name: Vec<u8> = r.name().map(|n| n.to_vec()).unwrap_or_else(|| b"*".to_vec());
    let mut body = r.sequence().as_ref().to_vec();
    body.extend_from_slice(r.data().as_ref());
    format!("{n}:{}:{}:{}", hex(&name), r.flags().bits(), crc32(&body))
}

fn recs_str(o: &BamObs) -> String {
    if o.rec_lines.is_empty() { "-".into() } else { o.rec_lines.join(",") }
}

fn refs_of(h: &sam::Header) -> Vec<(Vec<u8>, usize)> {
    h.reference_sequences().iter().map(|(n, m)| (n.to_vec(), usize::from(m.length()))).collect()
}

fn refs_str(r: &[(Vec<u8>, usize)]) -> String {
    if r.is_empty() { "-".into() } else { r.iter().map(|(n, l)| format!("{}.{l}", hex(n))).collect::<Vec<_>>().join(";") }
}

fn without_refs(h: &sam::Header) -> sam::Header {
    let mut c = h.clone();
    c.reference_sequences_mut().clear();
    c
}

/// what the harness expects the header readers to feed the SAM header parser, and the real parser's
/// verdict on it (the parser is a parameter of the Lean model)
struct PTable {
    lines: Vec<Vec<u8>>,
    /// Err(k): line k is rejected
    verdict: Result<sam::Header, usize>,
}

impl PTable {
    fn fmt(&self) -> String {
        let ls = if self.lines.is_empty() { "-".to_string() } else { self.lines.iter().map(|l| hex(l)).collect::<Vec<_>>().join(",") };
        match &self.verdict {
            Err(k) => format!("{ls}|e{k}"),
            Ok(h) => format!("{ls}|k:same:{}", refs_str(&refs_of(h))),
        }
    }
    fn hdr_str(&self, h: &Result<sam::Header, String>) -> String {
        match h {
            Err(c) => c.clone(),
            Ok(h) => {
                // the parsed header without its dictionary is the harness-parsed one; a dictionary
                // that came from the text is kept as parsed (with its other fields)
                let same = match &self.verdict {
                    Ok(h0) => without_refs(h0) == without_refs(h) && (h0.reference_sequences().is_empty() || h0.reference_sequences() == h.reference_sequences()),
                    Err(_) => false,
                };
                format!("ok:{}:{}", if same { "same" } else { "DIFFERENT" }, refs_str(&refs_of(h)))
            }
        }
    }
}

/// the header lines as the SAM header sub-reader frames them: the text region is the `l_text` bytes
/// after the 8-byte prologue (or what is there of them); lines end at LF; at the start of a line the
/// end of the region or a NUL ends the text; LF and a CR before it are stripped
fn ptable(data: &[u8]) -> PTable {
    let mut lines = vec![];
    if data.len() >= 8 && &data[..4] == b"BAM\x01" {
        let l_text = u32::from_le_bytes(data[4..8].try_into().unwrap()) as usize;
        let text = &data[8..(8usize.saturating_add(l_text)).min(data.len())];
        let mut at = 0;
        let mut is_eol = true;
        loop {
            if is_eol && (at >= text.len() || text[at] == 0) {
                break;
            }
            if at >= text.len() {
                break; // a last line without LF was read; the next read returns 0
            }
            let end = text[at..].iter().position(|&b| b == b'\n').map(|i| at + i + 1).unwrap_or(text.len());
            let mut line = text[at..end].to_vec();
            is_eol = line.last() == Some(&b'\n');
            if is_eol {
                line.pop();
                if line.last() == Some(&b'\r') {
                    line.pop();
                }
            }
            lines.push(line);
            at = end;
        }
    }
    let mut parser = sam::header::Parser::default();
    let mut verdict = None;
    for (k, l) in lines.iter().enumerate() {
        if parser.parse_partial(l).is_err() {
            verdict = Some(k);
            break;
        }
    }
    match verdict {
        Some(k) => PTable { lines, verdict: Err(k) },
        None => PTable { lines, verdict: Ok(parser.finish()) },
    }
}

fn bam_async(data: &[u8], a: &ASched, with_header: bool) -> Result<(BamObs, Counting), String> {
    let src = Counting::new(data, &a.sched, a.fallback);
    guarded(move || {
        block_on(async move {
            let mut rd = bam::r#async::io::Reader::from(src);
            let mut obs = BamObs { header: None, records: vec![], rec_lines: vec![], end: "eof".into(), consumed: 0 };
            let mut go = true;
            if with_header {
                let h = rd.read_header().await.map_err(|e| errclass(&e).to_string());
                go = h.is_ok();
                obs.header = Some(h);
            }
            let mut rec = bam::Record::default();
            while go {
                match rd.read_record(&mut rec).await {
                    Ok(0) => break,
                    Ok(n) => {
                        obs.rec_lines.push(rec_line(n, &rec));
                        obs.records.push((n, rec.clone()));
                    }
                    Err(e) => {
                        obs.end = errclass(&e).to_string();
                        break;
                    }
                }
            }
            let src = rd.into_inner();
            obs.consumed = src.inner.pos;
            (obs, src)
        })
    })
}

fn bam_sync(data: &[u8], sched: &[Delivery], with_header: bool) -> Result<(BamObs, usize), String> {
    let src = AskCheck { inner: SchedReader::new(data.to_vec(), sched.to_vec(), usize::MAX), zero_asks: 0 };
    guarded(move || {
        let mut rd = bam::io::Reader::from(src);
        let mut obs = BamObs { header: None, records: vec![], rec_lines: vec![], end: "eof".into(), consumed: 0 };
        let mut go = true;
        if with_header {
            let h = rd.read_header().map_err(|e| errclass(&e).to_string());
            go = h.is_ok();
            obs.header = Some(h);
        }
        let mut rec = bam::Record::default();
        while go {
            match rd.read_record(&mut rec) {
                Ok(0) => break,
                Ok(n) => {
                    obs.rec_lines.push(rec_line(n, &rec));
                    obs.records.push((n, rec.clone()));
                }
                Err(e) => {
                    obs.end = errclass(&e).to_string();
                    break;
                }
            }
        }
        let src = rd.into_inner();
        obs.consumed = src.inner.pos;
        (obs, src.zero_asks)
    })
}

// ------------------------------------------------------------------ BAM: generators

fn put_u32(v: &mut Vec<u8>, n: usize) {
    v.extend_from_slice(&(n as u32).to_le_bytes());
}

struct BamCase {
    data: Vec<u8>,
    boundaries: Vec<usize>,
    with_header: bool,
    label: String,
}

/// record bodies written by the real encoder
fn gen_bodies(rng: &mut Rng, max: usize) -> Vec<Vec<u8>> {
    let n = if rng.chance(1, 6) { 0 } else { 1 + rng.below(max as u64) as usize };
    let mut out = vec![];
    let mut tries = 0;
    while out.len() < n && tries < 4 * n {
        tries += 1;
        let (nref, r, _) = c05::gen_rec(rng);
        if let Ok(b) = c05::real_encode(nref, &r) {
            if b.len() <= 600 {
                out.push(b);
            }
        }
    }
    out
}

/// damage to the record framing (as in C12's loop suite, plus huge block sizes, which
/// `read_exact_to_vec` has to survive without allocating them)
fn frame_records(rng: &mut Rng, bodies: &[Vec<u8>], out: &mut Vec<u8>, boundaries: &mut Vec<usize>, label: &mut String) {
    let starts: Vec<usize> = {
        let mut v = vec![];
        let mut at = out.len();
        for b in bodies {
            v.push(at);
            at += 4 + b.len();
        }
        v
    };
    for b in bodies {
        boundaries.push(out.len());
        boundaries.push(out.len() + 4);
        put_u32(out, b.len());
        out.extend_from_slice(b);
    }
    boundaries.push(out.len());
    match rng.below(12) {
        0 if !bodies.is_empty() => {
            let base = starts[0];
            let cut = base + rng.below((out.len() - base) as u64) as usize;
            out.truncate(cut);
            *label = "records-cut-anywhere".into();
        }
        1 if !bodies.is_empty() => {
            let k = *rng.pick(&starts);
            out[k..k + 4].copy_from_slice(&0u32.to_le_bytes());
            *label = "block-size-0-mid-stream".into();
        }
        2 if !bodies.is_empty() => {
            let k = *rng.pick(&starts);
            let n = *rng.pick(&[1u32, 31, 32, 33]);
            out[k..k + 4].copy_from_slice(&n.to_le_bytes());
            *label = "block-size-below-record".into();
        }
        3 => {
            let n = 1 + rng.below(3) as usize;
            out.extend_from_slice(&[1, 0, 0][..n]);
            *label = "partial-block-size-at-end".into();
        }
        4 => {
            out.extend_from_slice(&(*rng.pick(&[0xffff_ffffu32, 0x8000_0000, 100_000])).to_le_bytes());
            let extra = rng.below(40) as usize;
            out.extend(rng.bytes(extra));
            *label = "huge-block-size".into();
        }
        5 if !bodies.is_empty() => {
            // name / CIGAR / sequence lengths that point past the record: `validate` fails
            let k = *rng.pick(&starts);
            let field = *rng.pick(&[8usize, 12, 16]);
            if k + 4 + field < out.len() {
                out[k + 4 + field] = 0xf0;
            }
            *label = "record-lengths-past-block".into();
        }
        6 if !bodies.is_empty() => {
            let k = rng.below(out.len() as u64) as usize;
            out[k] ^= 1 << rng.below(8);
            *label = "bit-flip".into();
        }
        _ => {}
    }
}

fn bamrec_case_of(sub: u64) -> BamCase {
    let mut rng = Rng::new(sub);
    let bodies = gen_bodies(&mut rng, 5);
    let mut data = vec![];
    let mut boundaries = vec![];
    let mut label = "records-intact".to_string();
    frame_records(&mut rng, &bodies, &mut data, &mut boundaries, &mut label);
    BamCase { data, boundaries, with_header: false, label }
}

fn bam_case_of(sub: u64) -> Option<BamCase> {
    let mut rng = Rng::new(sub);
    let mut mh = c06::gen_hdr(&mut rng, false);
    mh.sq.truncate(8);
    let h = c06::to_real_hdr(&mh)?;
    let raw = c06::real_bam_hdr_write(&h).ok()?;
    if raw.len() < 12 || raw.len() > 4000 {
        return None;
    }
    let l_text = u32::from_le_bytes(raw[4..8].try_into().unwrap()) as usize;
    let text = raw[8..8 + l_text].to_vec();
    let dict = raw[8 + l_text..].to_vec();
    let mut label = "header-intact".to_string();
    // the text region: (declared length, bytes)
    let mut t = text.clone();
    let mut declared: Option<usize> = None;
    let mut magic = b"BAM\x01".to_vec();
    let mut dict = dict;
    match rng.below(24) {
        0 | 1 | 2 => {
            let pad = *rng.pick(&[1usize, 2, 16, 700, 8192, 9000]);
            t.extend(std::iter::repeat_n(0u8, pad));
            label = format!("nul-padding-{}", if pad < 100 { "small" } else { "large" });
        }
        3 => {
            // NUL padding followed by bytes that are not NUL: discarded by `discard_to_end`
            t.extend_from_slice(&[0, 0]);
            t.extend_from_slice(b"@CO\tafter the padding\n");
            label = "text-after-nul".into();
        }
        4 => {
            if t.last() == Some(&b'\n') {
                t.pop();
            }
            label = "text-without-final-newline".into();
        }
        5 => {
            t = t.iter().flat_map(|&b| if b == b'\n' { vec![b'\r', b'\n'] } else { vec![b] }).collect();
            label = "text-crlf".into();
        }
        6 => {
            // enough comment lines to cross the 8 KiB buffer of the sub-reader
            while t.len() < 8192 + 300 {
                let n = 20 + rng.below(60) as usize;
                t.extend_from_slice(b"@CO\t");
                t.extend((0..n).map(|_| 32 + rng.below(95) as u8));
                t.push(b'\n');
            }
            label = "text-longer-than-buffer".into();
        }
        7 => {
            let at = rng.below(t.len() as u64 + 1) as usize;
            t.insert(at, 0);
            label = "nul-inside-text".into();
        }
        8 => {
            t.extend_from_slice(*rng.pick(&[&b"@XX\tbad\n"[..], b"@HD\tVN:1.6\n", b"garbage\n", b"@SQ\tSN:x\n", b"\n"]));
            label = "line-rejected-by-parser".into();
        }
        9 => {
            declared = Some(t.len() + 1 + rng.below(40) as usize);
            label = "l-text-runs-into-dictionary".into();
        }
        10 => {
            declared = Some(rng.below(t.len() as u64 + 1) as usize);
            label = "l-text-too-small".into();
        }
        11 => {
            magic = rng.pick(&[&b"BAM\x02"[..], b"BAI\x01", b"CRAM"]).to_vec();
            label = "bad-magic".into();
        }
        12 => {
            // dictionary damage
            match rng.below(6) {
                0 if dict.len() >= 4 => {
                    let n = u32::from_le_bytes(dict[..4].try_into().unwrap());
                    dict[..4].copy_from_slice(&(n + 1).to_le_bytes());
                    label = "n-ref-one-more".into();
                }
                1 if dict.len() >= 4 => {
                    dict[..4].copy_from_slice(&0xffff_ffffu32.to_le_bytes());
                    label = "n-ref-huge".into();
                }
                2 if dict.len() >= 12 => {
                    dict[4..8].copy_from_slice(&(*rng.pick(&[0u32, 0xffff_fff0, 3])).to_le_bytes());
                    label = "l-name-wrong".into();
                }
                3 if dict.len() >= 12 => {
                    let l = dict.len();
                    dict[l - 4..].copy_from_slice(&0u32.to_le_bytes());
                    label = "l-ref-zero".into();
                }
                4 if dict.len() >= 12 => {
                    let l_name = u32::from_le_bytes(dict[4..8].try_into().unwrap()) as usize;
                    if l_name >= 2 && 8 + l_name <= dict.len() {
                        let k = 8 + rng.below(l_name as u64) as usize;
                        dict[k] = if k == 8 + l_name - 1 { b'x' } else { 0 };
                    }
                    label = "name-nul-misplaced".into();
                }
                _ => {
                    // a dictionary with a repeated name and no @SQ lines in the text
                    t = t.split(|&b| b == b'\n').filter(|l| !l.starts_with(b"@SQ") && !l.is_empty()).flat_map(|l| [l, b"\n"].concat()).collect();
                    dict = vec![];
                    put_u32(&mut dict, 3);
                    for (n, l) in [(&b"a\0"[..], 5usize), (&b"b\0"[..], 6), (&b"a\0"[..], 7)] {
                        put_u32(&mut dict, n.len());
                        dict.extend_from_slice(n);
                        put_u32(&mut dict, l);
                    }
                    label = "dictionary-repeats-a-name".into();
                }
            }
        }
        13 => {
            // @SQ lines removed from the text: the dictionary comes from the binary part
            t = t.split(|&b| b == b'\n').filter(|l| !l.starts_with(b"@SQ") && !l.is_empty()).flat_map(|l| [l, b"\n"].concat()).collect();
            label = "text-without-sq".into();
        }
        14 => {
            // the two dictionaries disagree
            if dict.len() >= 12 {
                let l = dict.len();
                dict[l - 4] ^= 1;
            }
            label = "dictionaries-disagree".into();
        }
        _ => {}
    }
    let mut data = magic;
    put_u32(&mut data, declared.unwrap_or(t.len()));
    let mut boundaries = vec![4, 8];
    // line ends inside the text are structure boundaries too
    for (i, &b) in t.iter().enumerate() {
        if b == b'\n' && boundaries.len() < 40 {
            boundaries.push(8 + i + 1);
        }
    }
    data.extend_from_slice(&t);
    boundaries.push(data.len());
    boundaries.push(data.len() + 4);
    data.extend_from_slice(&dict);
    boundaries.push(data.len());
    let bodies = gen_bodies(&mut rng, 3);
    let mut rlabel = "records-intact".to_string();
    frame_records(&mut rng, &bodies, &mut data, &mut boundaries, &mut rlabel);
    if rng.chance(1, 16) {
        let cut = rng.below(data.len() as u64 + 1) as usize;
        data.truncate(cut);
        label = "file-cut-anywhere".into();
    }
    boundaries.sort_unstable();
    boundaries.dedup();
    Some(BamCase { data, boundaries, with_header: true, label: format!("{label}/{rlabel}") })
}

// ------------------------------------------------------------------ BAM: checks

fn bam_answer_async(t: Option<&PTable>, r: &Result<(BamObs, Counting), String>) -> String {
    match r {
        Err(_) => "A panic".into(),
        Ok((o, src)) => {
            let hdr = match (&o.header, t) {
                (Some(h), Some(t)) => format!("hdr={} ", t.hdr_str(h)),
                _ => String::new(),
            };
            format!("A {hdr}recs={} end={}{}", recs_str(o), o.end, src.tail())
        }
    }
}

fn bam_answer_sync(t: Option<&PTable>, r: &Result<(BamObs, usize), String>) -> String {
    match r {
        Err(_) => "S panic".into(),
        Ok((o, _)) => {
            let (hdr, pos) = match (&o.header, t) {
                (Some(h), Some(t)) => (format!("hdr={} ", t.hdr_str(h)), if h.is_ok() { format!("@{}", o.consumed) } else { "@-".into() }),
                _ => (String::new(), format!("@{}", o.consumed)),
            };
            format!("S {hdr}recs={} end={}{pos}", recs_str(o), o.end)
        }
    }
}

fn bam_check(ctx: &mut Ctx, cs: &BamCase, rng: &mut Rng, case: &str, corr: bool) {
    let len = cs.data.len();
    let table = if cs.with_header { Some(ptable(&cs.data)) } else { None };
    let (ss, ss_name) = {
        let kind = rng.below(7) as usize;
        ssched(rng, kind, len, &cs.boundaries)
    };
    let sync = bam_sync(&cs.data, &ss, cs.with_header);
    let kind0 = rng.below(8) as usize;
    let n_sched = if corr { 3 } else { 2 };
    for j in 0..n_sched {
        let a = asched(rng, kind0 + j * 3, len, &cs.boundaries);
        let asy = bam_async(&cs.data, &a, cs.with_header);
        ctx.bump(&format!("fm_bam_aschedule_{}", a.name));
        // ---- oracle: async vs sync on the real code
        ctx.eval(if len > 8 { Some(fnv(&cs.data) ^ fnv(a.name.as_bytes())) } else { None });
        match (&asy, &sync) {
            (Err(p), _) => ctx.fail("c16fmt-panic", format!("async BAM reader panicked ({p}) under schedule {}; input {} bytes [{}]", a.name, len, cs.label), case.into()),
            (_, Err(p)) => ctx.fail("c16fmt-panic", format!("sync BAM reader panicked ({p}); input {} bytes [{}]", len, cs.label), case.into()),
            (Ok((ao, _)), Ok((so, zero))) => {
                if *zero > 0 {
                    ctx.fail("c16fmt-assumed-law", format!("std read_to_end asked for 0 bytes {zero} times (assumed law of the model)"), case.into());
                }
                if ao.header != so.header {
                    ctx.fail("c16fmt-bam-header", format!("read_header differs under schedule {}: async {}, sync {} [{}]", a.name, show_hdr(&ao.header), show_hdr(&so.header), cs.label), case.into());
                } else if ao.records != so.records || ao.end != so.end {
                    ctx.fail("c16fmt-bam-record", format!("records differ under schedule {}: async {} records then {}, sync {} records then {} [{}]", a.name, ao.records.len(), ao.end, so.records.len(), so.end, cs.label), case.into());
                } else if ao.consumed != so.consumed && ao.header.as_ref().map(|h| h.is_ok()).unwrap_or(true) {
                    ctx.fail("c16fmt-bam-consumed", format!("bytes consumed differ under schedule {}: async {}, sync {} [{}]", a.name, ao.consumed, so.consumed, cs.label), case.into());
                }
            }
        }
        if let Ok((_, src)) = &asy {
            if src.asks.iter().any(|&n| n == 0) {
                ctx.fail("c16fmt-assumed-law", "a tokio future polled the source with an empty buffer (assumed law of the model: at least one byte is asked for)".into(), case.into());
            }
        }
        // ---- correspondence with the Lean poll machines
        if corr && len <= 12_000 {
            let asks = asy.as_ref().map(|(_, s)| fmt_asks(&s.asks)).unwrap_or_else(|_| "-".into());
            let ans = format!("{} | {}", bam_answer_async(table.as_ref(), &asy), bam_answer_sync(table.as_ref(), &sync));
            let req = match &table {
                Some(t) => format!("c16 bam {} {} {} {} {} {}", hex(&cs.data), fmt_asched(&a.sched), a.fallback, asks, fmt_ssched(&ss), t.fmt()),
                None => format!("c16 bamrec {} {} {} {} {}", hex(&cs.data), fmt_asched(&a.sched), a.fallback, asks, fmt_ssched(&ss)),
            };
            ctx.corr(req, ans);
        }
    }
    ctx.bump(&format!("fm_bam_sschedule_{ss_name}"));
    ctx.bump(&format!("fm_bam_input_{}", cs.label));
    if let Ok((so, _)) = &sync {
        ctx.bump(&format!("fm_bam_end_{}", so.end));
        ctx.bump(&format!("fm_bam_records_{}", so.records.len().min(4)));
        match &so.header {
            Some(Ok(_)) => ctx.bump("fm_bam_header_ok"),
            Some(Err(c)) => ctx.bump(&format!("fm_bam_header_{c}")),
            None => {}
        }
    }
    if let Some(t) = &table {
        ctx.bump(&format!("fm_bam_header_lines_{}", match t.lines.len() { 0 => "0", 1..=3 => "1-3", 4..=20 => "4-20", _ => "21+" }));
        if let Err(_) = t.verdict {
            ctx.bump("fm_bam_parser_rejects_a_line");
        }
        if let Ok(h) = &t.verdict {
            ctx.bump(if h.reference_sequences().is_empty() { "fm_bam_text_dictionary_empty" } else { "fm_bam_text_dictionary_present" });
        }
    }
    ctx.bump(&format!("fm_bam_size_{}", match len { 0..=11 => "lt12", 12..=255 => "lt256", 256..=2047 => "lt2k", 2048..=8191 => "lt8k", _ => "ge8k" }));
}

fn show_hdr(h: &Option<Result<sam::Header, String>>) -> String {
    match h {
        None => "-".into(),
        Some(Err(c)) => c.clone(),
        Some(Ok(h)) => format!("ok({} reference sequences, {} comments)", h.reference_sequences().len(), h.comments().len()),
    }
}

// ------------------------------------------------------------------ GFF lines

#[derive(PartialEq, Debug, Clone)]
struct GffObs {
    lines: Vec<(usize, Vec<u8>)>,
    end: String,
    /// position in the stream (bytes consumed from the logical stream)
    pos: usize,
}

fn gff_async(data: &[u8], a: &ASched, cap: usize) -> Result<(GffObs, String), String> {
    let src = Counting::new(data, &a.sched, a.fallback);
    guarded(move || {
        block_on(async move {
            let mut rd = gff::r#async::io::Reader::new(tokio::io::BufReader::with_capacity(cap, src));
            let mut line = gff::Line::default();
            let mut obs = GffObs { lines: vec![], end: "eof".into(), pos: 0 };
            loop {
                match rd.read_line(&mut line).await {
                    Ok(0) => break,
                    Ok(n) => {
                        let b: &bstr::BStr = line.as_ref();
                        obs.lines.push((n, b.to_vec()));
                    }
                    Err(e) => {
                        obs.end = errclass(&e).to_string();
                        break;
                    }
                }
            }
            let br = rd.into_inner();
            let buffered = br.buffer().len();
            let src = br.into_inner();
            obs.pos = src.inner.pos - buffered;
            let tail = format!("@{} s{} p{}", obs.pos, src.polls, src.pendings);
            (obs, tail)
        })
    })
}

fn gff_sync(data: &[u8], sched: &[Delivery], cap: usize) -> Result<GffObs, String> {
    let src = SchedReader::new(data.to_vec(), sched.to_vec(), usize::MAX);
    guarded(move || {
        let mut rd = gff::io::Reader::new(std::io::BufReader::with_capacity(cap, src));
        let mut line = gff::Line::default();
        let mut obs = GffObs { lines: vec![], end: "eof".into(), pos: 0 };
        loop {
            match rd.read_line(&mut line) {
                Ok(0) => break,
                Ok(n) => {
                    let b: &bstr::BStr = line.as_ref();
                    obs.lines.push((n, b.to_vec()));
                }
                Err(e) => {
                    obs.end = errclass(&e).to_string();
                    break;
                }
            }
        }
        let br = rd.into_inner();
        let buffered = br.buffer().len();
        obs.pos = br.get_ref().pos - buffered;
        obs
    })
}

fn lines_str(ls: &[(usize, Vec<u8>)]) -> String {
    if ls.is_empty() { "-".into() } else { ls.iter().map(|(n, l)| format!("{n}:{}", hex(l))).collect::<Vec<_>>().join(",") }
}

fn gen_gff_text(rng: &mut Rng) -> (Vec<u8>, &'static str) {
    let eol: &[u8] = if rng.chance(1, 3) { b"\r\n" } else { b"\n" };
    let mut out = vec![];
    let n = rng.below(9) as usize;
    let mut label = if eol.len() == 2 { "crlf" } else { "lf" };
    for _ in 0..n {
        match rng.below(10) {
            0 => {} // empty line
            1 => out.extend_from_slice(*rng.pick(&[&b" "[..], b"\t", b" \t ", b"\x0c", b"\r", b"\x0b"])), // blank (or VT: not blank)
            2 => out.extend_from_slice(b"##gff-version 3"),
            3 => out.extend_from_slice(b"#comment"),
            4 => {
                // a long line (crosses small buffers many times)
                let k = 100 + rng.below(400) as usize;
                out.extend((0..k).map(|_| 33 + rng.below(90) as u8));
            }
            5 => out.extend_from_slice(b"sq0\t.\tgene\t1\t9\t.\t+\t.\tID=g0;Note=a%3Bb\r"), // CR inside / before the line end
            _ => {
                let k = 1 + rng.below(30) as usize;
                out.extend_from_slice(b"sq0\t.\texon\t");
                out.extend((0..k).map(|_| 33 + rng.below(90) as u8));
            }
        }
        out.extend_from_slice(eol);
    }
    match rng.below(6) {
        0 => {
            out.extend_from_slice(b"last line without newline");
            label = "no-final-newline";
        }
        1 => {
            out.extend_from_slice(b"line\r");
            label = "ends-with-cr";
        }
        2 => {
            out.extend_from_slice(b" \t");
            label = "ends-with-blank-without-newline";
        }
        _ => {}
    }
    (out, label)
}

fn gff_check(ctx: &mut Ctx, data: &[u8], label: &str, rng: &mut Rng, case: &str) {
    let len = data.len();
    let boundaries: Vec<usize> = data.iter().enumerate().filter(|(_, b)| **b == b'\n').map(|(i, _)| i + 1).take(30).collect();
    let scap = *rng.pick(&[1usize, 2, 3, 7, 64, 8192]);
    let (ss, ss_name) = {
        let kind = rng.below(7) as usize;
        ssched(rng, kind, len, &boundaries)
    };
    let sync = gff_sync(data, &ss, scap);
    let kind0 = rng.below(8) as usize;
    for j in 0..2 {
        let cap = *rng.pick(&[1usize, 2, 3, 5, 16, 100, 8192]);
        let a = asched(rng, kind0 + j * 3, len, &boundaries);
        let asy = gff_async(data, &a, cap);
        ctx.eval(if len > 4 { Some(fnv(data) ^ cap as u64 ^ fnv(a.name.as_bytes())) } else { None });
        match (&asy, &sync) {
            (Err(p), _) => ctx.fail("c16fmt-panic", format!("async GFF read_line panicked ({p}) under schedule {}, capacity {cap}", a.name), case.into()),
            (_, Err(p)) => ctx.fail("c16fmt-panic", format!("sync GFF read_line panicked ({p})"), case.into()),
            (Ok((ao, _)), Ok(so)) => {
                if ao != so {
                    let k = (0..ao.lines.len().max(so.lines.len())).find(|&i| ao.lines.get(i) != so.lines.get(i));
                    ctx.fail("c16fmt-gff-line", format!("read_line differs under schedule {}, capacity {cap} (sync capacity {scap}): first difference at line {:?}: async {:?}, sync {:?}; ends {} / {}, positions {} / {}", a.name, k, k.and_then(|i| ao.lines.get(i)).map(|l| (l.0, hex(&l.1))), k.and_then(|i| so.lines.get(i)).map(|l| (l.0, hex(&l.1))), ao.end, so.end, ao.pos, so.pos), case.into());
                }
            }
        }
        let ans_a = match &asy {
            Ok((o, tail)) => format!("A lines={} end={}{tail}", lines_str(&o.lines), o.end),
            Err(_) => "A panic".into(),
        };
        let ans_s = match &sync {
            Ok(o) => format!("S lines={} end={}@{}", lines_str(&o.lines), o.end, o.pos),
            Err(_) => "S panic".into(),
        };
        ctx.corr(format!("c16 gff {} {} {} {cap} {} {scap}", hex(data), fmt_asched(&a.sched), a.fallback, fmt_ssched(&ss)), format!("{ans_a} | {ans_s}"));
        ctx.bump(&format!("fm_gff_aschedule_{}", a.name));
        ctx.bump(&format!("fm_gff_capacity_{}", if cap == 1 { "1" } else if cap < 8 { "2-7" } else if cap <= 100 { "8-100" } else { "8192" }));
    }
    ctx.bump(&format!("fm_gff_sschedule_{ss_name}"));
    ctx.bump(&format!("fm_gff_input_{label}"));
    if let Ok(o) = &sync {
        ctx.bump(&format!("fm_gff_lines_{}", o.lines.len().min(5)));
        let raw_lines = data.split(|&b| b == b'\n').count();
        if raw_lines > o.lines.len() + 1 {
            ctx.bump("fm_gff_blank_lines_skipped");
        }
    }
}

fn gff_case(ctx: &mut Ctx, sub: u64) {
    let mut rng = Rng::new(sub);
    let (data, label) = gen_gff_text(&mut rng);
    gff_check(ctx, &data, label, &mut rng, &format!("fm-gff {sub}"));
}

// ------------------------------------------------------------------ corpus

fn hand_header(text: &[u8], pad: usize, refs: &[(&[u8], usize)]) -> Vec<u8> {
    let mut d = b"BAM\x01".to_vec();
    put_u32(&mut d, text.len() + pad);
    d.extend_from_slice(text);
    d.extend(std::iter::repeat_n(0u8, pad));
    put_u32(&mut d, refs.len());
    for (n, l) in refs {
        put_u32(&mut d, n.len() + 1);
        d.extend_from_slice(n);
        d.push(0);
        put_u32(&mut d, *l);
    }
    d
}

fn hand_record(name: &[u8], l_seq: usize, data: &[u8]) -> Vec<u8> {
    let mut b = vec![];
    b.extend_from_slice(&(-1i32).to_le_bytes()); // ref_id
    b.extend_from_slice(&(-1i32).to_le_bytes()); // pos
    b.push(name.len() as u8 + 1);
    b.push(255); // mapq
    b.extend_from_slice(&4680u16.to_le_bytes()); // bin
    b.extend_from_slice(&0u16.to_le_bytes()); // n_cigar_op
    b.extend_from_slice(&4u16.to_le_bytes()); // flag
    b.extend_from_slice(&(l_seq as u32).to_le_bytes());
    b.extend_from_slice(&(-1i32).to_le_bytes());
    b.extend_from_slice(&(-1i32).to_le_bytes());
    b.extend_from_slice(&0i32.to_le_bytes());
    b.extend_from_slice(name);
    b.push(0);
    b.extend(std::iter::repeat_n(0x12u8, l_seq.div_ceil(2)));
    b.extend(std::iter::repeat_n(30u8, l_seq));
    b.extend_from_slice(data);
    let mut out = vec![];
    put_u32(&mut out, b.len());
    out.extend_from_slice(&b);
    out
}

/// hand-written boundary cases, each under fixed schedules; always run first
fn corpus(ctx: &mut Ctx) {
    let mut rng = Rng::new(0xC16F);
    // tokio futures: every branch of ReadExact / ReadU32Le / Read
    let ten: Vec<u8> = (1..=10).collect();
    let pend = |n: usize| ASched { sched: (0..8).flat_map(|_| [Poll1::Pending, Poll1::Ready(n)]).collect(), fallback: usize::MAX, name: "pending+n".into() };
    tok_check(ctx, &ten, &pend(1), &[TokOp::U32, TokOp::Exact(3), TokOp::Read(2), TokOp::Exact(5)]);
    tok_check(ctx, &ten, &pend(3), &[TokOp::Exact(0), TokOp::Read(0), TokOp::U32, TokOp::U32, TokOp::U32]);
    tok_check(ctx, &[], &pend(1), &[TokOp::Read(4), TokOp::U32, TokOp::Exact(1)]);
    tok_check(ctx, &ten, &ASched { sched: vec![], fallback: 3, name: "three-byte".into() }, &[TokOp::Exact(10), TokOp::Read(1)]);
    tok_check(ctx, &ten[..3], &ASched { sched: vec![Poll1::Ready(2), Poll1::Pending, Poll1::Pending], fallback: 1, name: "x".into() }, &[TokOp::U32]);
    // BAM records: block_size split 1+3, 2+2, 3+1 (seed C16-2 lives here), clean EOF, partial size, size 0
    let r1 = hand_record(b"r1", 4, b"NMC\x01");
    let r2 = hand_record(b"*", 0, b"");
    let mut recs = r1.clone();
    recs.extend_from_slice(&r2);
    for (k, name) in [(1usize, "corpus-recs-split-1"), (2, "corpus-recs-split-2"), (3, "corpus-recs-split-3")] {
        let cs = BamCase { data: recs.clone(), boundaries: vec![k, 4, r1.len() + k, r1.len() + 4], with_header: false, label: name.into() };
        bam_check_fixed(ctx, &cs, &ASched { sched: vec![Poll1::Ready(k), Poll1::Pending, Poll1::Ready(4 - k), Poll1::Ready(r1.len() - 4 + k), Poll1::Pending, Poll1::Pending], fallback: 5, name: name.into() }, &format!("fm-corpus {name}"));
    }
    let mut partial = recs.clone();
    partial.extend_from_slice(&[7, 0]);
    bam_check_fixed(ctx, &BamCase { data: partial, boundaries: vec![], with_header: false, label: "corpus-recs-partial-size".into() }, &ASched { sched: vec![], fallback: 1, name: "one-byte".into() }, "fm-corpus recs-partial-size");
    let mut zero = r1.clone();
    zero.extend_from_slice(&[0, 0, 0, 0]);
    zero.extend_from_slice(&r2);
    bam_check_fixed(ctx, &BamCase { data: zero, boundaries: vec![], with_header: false, label: "corpus-recs-size-0".into() }, &ASched { sched: vec![Poll1::Pending], fallback: 7, name: "seven-byte".into() }, "fm-corpus recs-size-0");
    let mut cut = recs.clone();
    cut.truncate(r1.len() + 20);
    bam_check_fixed(ctx, &BamCase { data: cut, boundaries: vec![], with_header: false, label: "corpus-recs-cut-in-body".into() }, &ASched { sched: vec![], fallback: 64, name: "64-byte".into() }, "fm-corpus recs-cut-in-body");
    let mut huge = r1.clone();
    huge.extend_from_slice(&0xffff_ffffu32.to_le_bytes());
    huge.extend_from_slice(b"tail");
    bam_check_fixed(ctx, &BamCase { data: huge, boundaries: vec![], with_header: false, label: "corpus-recs-huge-size".into() }, &ASched { sched: vec![], fallback: 3, name: "three-byte".into() }, "fm-corpus recs-huge-size");
    let mut short = vec![];
    put_u32(&mut short, 31);
    short.extend(std::iter::repeat_n(0u8, 31));
    bam_check_fixed(ctx, &BamCase { data: short, boundaries: vec![], with_header: false, label: "corpus-recs-31-byte-record".into() }, &ASched { sched: vec![], fallback: usize::MAX, name: "all-at-once".into() }, "fm-corpus recs-31");
    bam_check_fixed(ctx, &BamCase { data: vec![], boundaries: vec![], with_header: false, label: "corpus-recs-empty".into() }, &ASched { sched: vec![Poll1::Pending, Poll1::Pending], fallback: 1, name: "pending-at-eof".into() }, "fm-corpus recs-empty");
    // BAM headers: padding split across fills (seed C16-3 lives here), text ending without LF, CRLF,
    // NUL at a line start mid-text, text region cut by the end of the file, dictionary from the binary part
    let text = b"@HD\tVN:1.6\n@SQ\tSN:sq0\tLN:8\n@CO\tc\n";
    let with = |pad: usize, tail: &[u8]| {
        let mut d = hand_header(text, pad, &[(&b"sq0"[..], 8)]);
        d.extend_from_slice(tail);
        d
    };
    let three = |name: &str| ASched { sched: vec![Poll1::Pending], fallback: 3, name: name.into() };
    for (data, name) in [
        (with(0, &recs), "hdr-plain"),
        (with(5, &recs), "hdr-padding-5"),
        (with(9000, &r1), "hdr-padding-9000"),
        (hand_header(b"@HD\tVN:1.6\r\n@CO\tx\r\n", 0, &[(&b"a"[..], 1), (&b"b"[..], 2)]), "hdr-crlf-binary-dictionary"),
        (hand_header(b"@HD\tVN:1.6\n@CO\tno newline", 0, &[]), "hdr-no-final-newline"),
        (hand_header(b"@HD\tVN:1.6\n\0@CO\tafter nul\n", 3, &[]), "hdr-nul-then-text"),
        (hand_header(b"@CO\ta\0b\n", 0, &[]), "hdr-nul-inside-line"),
        (hand_header(b"", 0, &[(&b"a"[..], 1)]), "hdr-empty-text"),
        (hand_header(b"@SQ\tSN:sq0\tLN:9\n", 0, &[(&b"sq0"[..], 8)]), "hdr-dictionaries-disagree"),
        (hand_header(b"@SQ\tSN:sq0\tLN:8\n", 0, &[(&b"sq0"[..], 8), (&b"sq0"[..], 8)]), "hdr-binary-repeats-name"),
        (hand_header(b"@XY\tbad\n@CO\tnot read\n", 0, &[]), "hdr-line-rejected"),
        (b"BAM\x01\x40\0\0\0@HD\tVN:1.6\n".to_vec(), "hdr-text-cut-by-eof"),
        (b"BAM\x02\0\0\0\0\0\0\0\0".to_vec(), "hdr-bad-magic"),
        (b"BA".to_vec(), "hdr-cut-in-magic"),
        (b"BAM\x01\x01\0".to_vec(), "hdr-cut-in-l-text"),
        ({ let mut d = hand_header(b"", 0, &[]); let l = d.len(); d[l - 4..].copy_from_slice(&2u32.to_le_bytes()); put_u32(&mut d, 0); d.extend_from_slice(&[9, 9, 9, 9]); d }, "hdr-l-name-0"),
        ({ let mut d = hand_header(b"", 0, &[(&b"a"[..], 1)]); let l = d.len(); d[l - 4..].copy_from_slice(&0u32.to_le_bytes()); d }, "hdr-l-ref-0"),
        ({ let mut d = hand_header(b"", 0, &[(&b"ab"[..], 1)]); let l = d.len(); d[l - 6] = 0; d }, "hdr-name-interior-nul"),
    ] {
        let cs = BamCase { data, boundaries: vec![4, 8, 8 + text.len()], with_header: true, label: format!("corpus-{name}") };
        bam_check_fixed(ctx, &cs, &three(name), &format!("fm-corpus {name}"));
        let _ = &mut rng;
    }
    // GFF lines
    for (data, name) in [
        (&b"##gff-version 3\n\n \t\n#c\nsq0\t.\tgene\t1\t9\t.\t+\t.\tID=g0\n"[..], "gff-basic"),
        (&b"a\r\n\r\nb\r\n"[..], "gff-crlf"),
        (&b"a\n\x0b\nb"[..], "gff-vt-is-not-blank"),
        (&b"\n\n\n"[..], "gff-only-blank"),
        (&b""[..], "gff-empty"),
        (&b"x\r"[..], "gff-ends-with-cr"),
    ] {
        let mut r = Rng::new(fnv(name.as_bytes()));
        gff_check(ctx, data, name, &mut r, &format!("fm-corpus {name}"));
    }
}

fn corpus_hdr(ctx: &mut Ctx) {
    for (vcf, data, name) in [
        (false, &b"@HD\tVN:1.6\n@CO\tx\nr0\t4\n"[..], "hdr-sam-basic"),
        (false, &b"@HD\tVN:1.6\r\n@CO\tx\r\n\r\n@CO\tnot header\r\n"[..], "hdr-sam-crlf-empty-line"),
        (false, &b"@CO\tno newline"[..], "hdr-sam-no-newline"),
        (false, &b""[..], "hdr-sam-empty"),
        (true, &b"##fileformat=VCFv4.3\n#CHROM\tPOS\nsq0\t1\n#late\n"[..], "hdr-vcf-basic"),
        (true, &b"##a=@b\n"[..], "hdr-vcf-header-only"),
    ] {
        let mut r = Rng::new(fnv(name.as_bytes()));
        hdr_check(ctx, vcf, data, name, &mut r, &format!("fm-corpus {name}"));
    }
}

/// one BAM case under ONE given async schedule (corpus), plus the generic check
fn bam_check_fixed(ctx: &mut Ctx, cs: &BamCase, a: &ASched, case: &str) {
    let table = if cs.with_header { Some(ptable(&cs.data)) } else { None };
    let ss = vec![Delivery::Chunk(3), Delivery::Interrupted, Delivery::Chunk(1), Delivery::Chunk(5), Delivery::Interrupted];
    let sync = bam_sync(&cs.data, &ss, cs.with_header);
    let asy = bam_async(&cs.data, a, cs.with_header);
    let asks = asy.as_ref().map(|(_, s)| fmt_asks(&s.asks)).unwrap_or_else(|_| "-".into());
    let ans = format!("{} | {}", bam_answer_async(table.as_ref(), &asy), bam_answer_sync(table.as_ref(), &sync));
    let req = match &table {
        Some(t) => format!("c16 bam {} {} {} {} {} {}", hex(&cs.data), fmt_asched(&a.sched), a.fallback, asks, fmt_ssched(&ss), t.fmt()),
        None => format!("c16 bamrec {} {} {} {} {}", hex(&cs.data), fmt_asched(&a.sched), a.fallback, asks, fmt_ssched(&ss)),
    };
    ctx.corr(req, ans);
    let mut rng = Rng::new(fnv(case.as_bytes()));
    bam_check(ctx, cs, &mut rng, case, true);
}

// ------------------------------------------------------------------ SAM / VCF header sub-readers

#[derive(PartialEq, Debug, Clone)]
struct HdrObs {
    lines: Vec<Vec<u8>>,
    end: String,
    pos: usize,
}

fn strip_eol(buf: &mut Vec<u8>) {
    if buf.last() == Some(&b'\n') {
        buf.pop();
        if buf.last() == Some(&b'\r') {
            buf.pop();
        }
    }
}

fn hdr_async(vcf: bool, data: &[u8], a: &ASched, cap: usize) -> Result<(HdrObs, String), String> {
    use tokio::io::AsyncBufReadExt;
    let src = Counting::new(data, &a.sched, a.fallback);
    guarded(move || {
        block_on(async move {
            let br = tokio::io::BufReader::with_capacity(cap, src);
            let mut obs = HdrObs { lines: vec![], end: "ok".into(), pos: 0 };
            let mut buf = vec![];
            macro_rules! lines {
                ($hr:expr) => {{
                    let mut hr = $hr;
                    loop {
                        buf.clear();
                        match hr.read_until(b'\n', &mut buf).await {
                            Ok(0) => break,
                            Ok(_) => {
                                strip_eol(&mut buf);
                                obs.lines.push(buf.clone());
                            }
                            Err(e) => {
                                obs.end = errclass(&e).to_string();
                                break;
                            }
                        }
                    }
                }};
            }
            let br = if vcf {
                let mut rd = noodles_vcf::r#async::io::Reader::new(br);
                lines!(rd.header_reader());
                rd.into_inner()
            } else {
                let mut rd = sam::r#async::io::Reader::new(br);
                lines!(rd.header_reader());
                rd.into_inner()
            };
            let buffered = br.buffer().len();
            let src = br.into_inner();
            obs.pos = src.inner.pos - buffered;
            let tail = format!("@{} s{} p{}", obs.pos, src.polls, src.pendings);
            (obs, tail)
        })
    })
}

fn hdr_sync(vcf: bool, data: &[u8], sched: &[Delivery], cap: usize) -> Result<HdrObs, String> {
    use std::io::BufRead;
    let src = SchedReader::new(data.to_vec(), sched.to_vec(), usize::MAX);
    guarded(move || {
        let br = std::io::BufReader::with_capacity(cap, src);
        let mut obs = HdrObs { lines: vec![], end: "ok".into(), pos: 0 };
        let mut buf = vec![];
        macro_rules! lines {
            ($hr:expr) => {{
                let mut hr = $hr;
                loop {
                    buf.clear();
                    match hr.read_until(b'\n', &mut buf) {
                        Ok(0) => break,
                        Ok(_) => {
                            strip_eol(&mut buf);
                            obs.lines.push(buf.clone());
                        }
                        Err(e) => {
                            obs.end = errclass(&e).to_string();
                            break;
                        }
                    }
                }
            }};
        }
        let br = if vcf {
            let mut rd = noodles_vcf::io::Reader::new(br);
            lines!(rd.header_reader());
            rd.into_inner()
        } else {
            let mut rd = sam::io::Reader::new(br);
            lines!(rd.header_reader());
            rd.into_inner()
        };
        obs.pos = br.get_ref().pos - br.buffer().len();
        obs
    })
}

fn gen_hdr_text(rng: &mut Rng, pfx: u8) -> (Vec<u8>, &'static str) {
    let eol: &[u8] = if rng.chance(1, 3) { b"\r\n" } else { b"\n" };
    let mut out = vec![];
    let n = rng.below(7) as usize;
    for _ in 0..n {
        out.push(pfx);
        let k = rng.below(60) as usize;
        out.extend((0..k).map(|_| if rng.chance(1, 12) { pfx } else { 33 + rng.below(90) as u8 }));
        out.extend_from_slice(eol);
    }
    let label = match rng.below(8) {
        0 => "header-only",
        1 => {
            out.push(pfx);
            out.extend_from_slice(b"last header line without newline");
            "header-ends-without-newline"
        }
        2 => {
            out.extend_from_slice(eol);
            out.push(pfx);
            out.extend_from_slice(b"after an empty line");
            out.extend_from_slice(eol);
            "empty-line-ends-header"
        }
        3 => {
            out.extend_from_slice(b"body line 1\n");
            out.push(pfx);
            out.extend_from_slice(b"prefix again in the body\n");
            "prefix-line-in-body"
        }
        _ => {
            let k = 1 + rng.below(3);
            for i in 0..k {
                out.extend_from_slice(format!("record {i}\tfield").as_bytes());
                out.extend_from_slice(eol);
            }
            "header-then-body"
        }
    };
    (out, label)
}

fn hdr_check(ctx: &mut Ctx, vcf: bool, data: &[u8], label: &str, rng: &mut Rng, case: &str) {
    let len = data.len();
    let pfx = if vcf { b'#' } else { b'@' };
    let boundaries: Vec<usize> = data.iter().enumerate().filter(|(_, b)| **b == b'\n').map(|(i, _)| i + 1).take(30).collect();
    let scap = *rng.pick(&[1usize, 2, 3, 7, 64, 8192]);
    let (ss, ss_name) = {
        let kind = rng.below(7) as usize;
        ssched(rng, kind, len, &boundaries)
    };
    let sync = hdr_sync(vcf, data, &ss, scap);
    let kind0 = rng.below(8) as usize;
    for j in 0..2 {
        let cap = *rng.pick(&[1usize, 2, 3, 5, 16, 100, 8192]);
        let a = asched(rng, kind0 + j * 3, len, &boundaries);
        let asy = hdr_async(vcf, data, &a, cap);
        ctx.eval(if len > 4 { Some(fnv(data) ^ cap as u64 ^ fnv(a.name.as_bytes())) } else { None });
        match (&asy, &sync) {
            (Err(p), _) => ctx.fail("c16fmt-panic", format!("async {} header reader panicked ({p}) under schedule {}, capacity {cap}", if vcf { "VCF" } else { "SAM" }, a.name), case.into()),
            (_, Err(p)) => ctx.fail("c16fmt-panic", format!("sync header reader panicked ({p})"), case.into()),
            (Ok((ao, _)), Ok(so)) => {
                if ao != so {
                    ctx.fail("c16fmt-header-lines", format!("{} header_reader differs under schedule {}, capacity {cap} (sync capacity {scap}): async {} lines end {} @{}, sync {} lines end {} @{}", if vcf { "VCF" } else { "SAM" }, a.name, ao.lines.len(), ao.end, ao.pos, so.lines.len(), so.end, so.pos), case.into());
                }
            }
        }
        let fmt = |ls: &[Vec<u8>]| if ls.is_empty() { "-".to_string() } else { ls.iter().map(|l| hex(l)).collect::<Vec<_>>().join(",") };
        let ans_a = match &asy {
            Ok((o, tail)) => format!("A lines={} end={}{tail}", if o.end == "ok" { fmt(&o.lines) } else { "-".into() }, o.end),
            Err(_) => "A panic".into(),
        };
        let ans_s = match &sync {
            Ok(o) => format!("S lines={} end={}@{}", if o.end == "ok" { fmt(&o.lines) } else { "-".into() }, o.end, o.pos),
            Err(_) => "S panic".into(),
        };
        ctx.corr(format!("c16 hdr {} {} {} {} {cap} {} {scap}", hex(&[pfx]), hex(data), fmt_asched(&a.sched), a.fallback, fmt_ssched(&ss)), format!("{ans_a} | {ans_s}"));
        ctx.bump(&format!("fm_hdr_aschedule_{}", a.name));
    }
    ctx.bump(&format!("fm_hdr_sschedule_{ss_name}"));
    ctx.bump(&format!("fm_hdr_{}_{label}", if vcf { "vcf" } else { "sam" }));
}

fn hdr_case(ctx: &mut Ctx, sub: u64) {
    let mut rng = Rng::new(sub);
    let vcf = rng.chance(1, 2);
    let (data, label) = gen_hdr_text(&mut rng, if vcf { b'#' } else { b'@' });
    hdr_check(ctx, vcf, &data, label, &mut rng, &format!("fm-hdr {sub}"));
}

// ------------------------------------------------------------------ BAM header, piecewise public API (oracle only)

/// `header_reader()`: `read_magic_number`, `raw_sam_header_reader` read with `read_to_end` (the
/// sub-reader's `poll_read` / `read`), `discard_to_end`, `read_reference_sequences` — one line per step
fn parts_async(data: &[u8], a: &ASched) -> Result<Vec<String>, String> {
    let src = AsyncSchedReader::new(data.to_vec(), a.sched.clone(), a.fallback);
    guarded(move || {
        block_on(async move {
            let mut rd = bam::r#async::io::Reader::from(src);
            let mut out = vec![];
            {
                let mut hr = rd.header_reader();
                match hr.read_magic_number().await {
                    Ok(m) => out.push(format!("magic {}", hex(&m))),
                    Err(e) => {
                        out.push(errclass(&e).to_string());
                        return out;
                    }
                }
                match hr.raw_sam_header_reader().await {
                    Ok(mut raw) => {
                        let mut text = vec![];
                        match raw.read_to_end(&mut text).await {
                            Ok(n) => out.push(format!("text {n} {}", crc32(&text))),
                            Err(e) => {
                                out.push(errclass(&e).to_string());
                                return out;
                            }
                        }
                        match raw.discard_to_end().await {
                            Ok(n) => out.push(format!("discarded {n}")),
                            Err(e) => {
                                out.push(errclass(&e).to_string());
                                return out;
                            }
                        }
                    }
                    Err(e) => {
                        out.push(errclass(&e).to_string());
                        return out;
                    }
                }
                match hr.read_reference_sequences().await {
                    Ok(r) => out.push(format!("refs {}", refs_str(&r.iter().map(|(n, m)| (n.to_vec(), usize::from(m.length()))).collect::<Vec<_>>()))),
                    Err(e) => {
                        out.push(errclass(&e).to_string());
                        return out;
                    }
                }
            }
            out.push(format!("@{}", rd.get_ref().pos));
            out
        })
    })
}

fn parts_sync(data: &[u8], sched: &[Delivery]) -> Result<Vec<String>, String> {
    let src = SchedReader::new(data.to_vec(), sched.to_vec(), usize::MAX);
    guarded(move || {
        let mut rd = bam::io::Reader::from(src);
        let mut out = vec![];
        {
            let mut hr = rd.header_reader();
            match hr.read_magic_number() {
                Ok(m) => out.push(format!("magic {}", hex(&m))),
                Err(e) => {
                    out.push(errclass(&e).to_string());
                    return out;
                }
            }
            match hr.raw_sam_header_reader() {
                Ok(mut raw) => {
                    let mut text = vec![];
                    match raw.read_to_end(&mut text) {
                        Ok(n) => out.push(format!("text {n} {}", crc32(&text))),
                        Err(e) => {
                            out.push(errclass(&e).to_string());
                            return out;
                        }
                    }
                    match raw.discard_to_end() {
                        Ok(n) => out.push(format!("discarded {n}")),
                        Err(e) => {
                            out.push(errclass(&e).to_string());
                            return out;
                        }
                    }
                }
                Err(e) => {
                    out.push(errclass(&e).to_string());
                    return out;
                }
            }
            match hr.read_reference_sequences() {
                Ok(r) => out.push(format!("refs {}", refs_str(&r.iter().map(|(n, m)| (n.to_vec(), usize::from(m.length()))).collect::<Vec<_>>()))),
                Err(e) => {
                    out.push(errclass(&e).to_string());
                    return out;
                }
            }
        }
        out.push(format!("@{}", rd.get_ref().pos));
        out
    })
}

fn parts_check(ctx: &mut Ctx, cs: &BamCase, rng: &mut Rng, case: &str) {
    let len = cs.data.len();
    let (ss, _) = {
        let kind = rng.below(7) as usize;
        ssched(rng, kind, len, &cs.boundaries)
    };
    let kind = rng.below(8) as usize;
    let a = asched(rng, kind, len, &cs.boundaries);
    let (asy, sync) = (parts_async(&cs.data, &a), parts_sync(&cs.data, &ss));
    ctx.eval(if len > 8 { Some(fnv(&cs.data) ^ 0x9a47 ^ fnv(a.name.as_bytes())) } else { None });
    ctx.bump("fm_bam_header_parts");
    match (&asy, &sync) {
        (Err(p), _) => ctx.fail("c16fmt-panic", format!("async header_reader() steps panicked ({p}) under schedule {} [{}]", a.name, cs.label), case.into()),
        (_, Err(p)) => ctx.fail("c16fmt-panic", format!("sync header_reader() steps panicked ({p}) [{}]", cs.label), case.into()),
        (Ok(x), Ok(y)) => {
            if x != y {
                ctx.fail("c16fmt-bam-header-parts", format!("header_reader() steps differ under schedule {}: async {:?}, sync {:?} [{}]", a.name, x, y, cs.label), case.into());
            }
        }
    }
}

// ------------------------------------------------------------------ BAM over BGZF (the composition)

/// the raw stream of a BAM case framed into stored BGZF members: cuts at / next to structure
/// boundaries (inside `block_size`, inside the NUL padding …) and anywhere, empty members mid-file,
/// no / one / two EOF markers
fn frame_bgzf(rng: &mut Rng, cs: &BamCase) -> (Vec<u8>, Vec<Blk>) {
    let raw = &cs.data;
    let mut cuts: Vec<usize> = vec![];
    for &b in &cs.boundaries {
        if rng.chance(1, 3) {
            cuts.push((b + rng.below(3) as usize).saturating_sub(1));
        }
    }
    for _ in 0..rng.below(4) {
        cuts.push(rng.below(raw.len() as u64 + 1) as usize);
    }
    cuts.push(raw.len());
    cuts.sort_unstable();
    cuts.dedup();
    let mut file = vec![];
    let mut layout = vec![];
    let mut push = |data: &[u8], file: &mut Vec<u8>, layout: &mut Vec<Blk>| {
        let m = stored_member(data);
        layout.push(Blk { csize: m.len(), data: data.to_vec() });
        file.extend_from_slice(&m);
    };
    let mut at = 0;
    for c in cuts {
        if c > raw.len() || c <= at {
            continue;
        }
        if rng.chance(1, 7) {
            push(&[], &mut file, &mut layout);
        }
        let mut a = at;
        while a < c {
            let b = (a + 60_000).min(c);
            push(&raw[a..b], &mut file, &mut layout);
            a = b;
        }
        at = c;
    }
    let n_eof = match rng.below(12) { 0 => 0, 1 => 2, _ => 1 };
    for _ in 0..n_eof {
        layout.push(Blk { csize: EOF.len(), data: vec![] });
        file.extend_from_slice(&EOF);
    }
    (file, layout)
}

fn fmt_layout(layout: &[Blk]) -> String {
    if layout.is_empty() { "-".into() } else { layout.iter().map(|b| format!("{}:{}", b.csize, hex(&b.data))).collect::<Vec<_>>().join(",") }
}

fn bamz_async(file: &[u8], a: &ASched, workers: usize) -> Result<(BamObs, (u64, u16)), String> {
    let src = AsyncSchedReader::new(file.to_vec(), a.sched.clone(), a.fallback);
    guarded(move || {
        block_on(async move {
            let z = bgzf::r#async::io::reader::Builder::default().set_worker_count(std::num::NonZero::new(workers).unwrap()).build_from_reader(src);
            let mut rd = bam::r#async::io::Reader::from(z);
            let mut obs = BamObs { header: None, records: vec![], rec_lines: vec![], end: "eof".into(), consumed: 0 };
            let h = rd.read_header().await.map_err(|e| errclass(&e).to_string());
            let go = h.is_ok();
            obs.header = Some(h);
            let mut rec = bam::Record::default();
            while go {
                match rd.read_record(&mut rec).await {
                    Ok(0) => break,
                    Ok(n) => {
                        obs.rec_lines.push(rec_line(n, &rec));
                        obs.records.push((n, rec.clone()));
                    }
                    Err(e) => {
                        obs.end = errclass(&e).to_string();
                        break;
                    }
                }
            }
            let vp: (u64, u16) = rd.get_ref().virtual_position().into();
            (obs, vp)
        })
    })
}

fn bamz_sync(file: &[u8]) -> Result<(BamObs, (u64, u16)), String> {
    let file = file.to_vec();
    guarded(move || {
        let mut rd = bam::io::Reader::new(&file[..]);
        let mut obs = BamObs { header: None, records: vec![], rec_lines: vec![], end: "eof".into(), consumed: 0 };
        let h = rd.read_header().map_err(|e| errclass(&e).to_string());
        let go = h.is_ok();
        obs.header = Some(h);
        let mut rec = bam::Record::default();
        while go {
            match rd.read_record(&mut rec) {
                Ok(0) => break,
                Ok(n) => {
                    obs.rec_lines.push(rec_line(n, &rec));
                    obs.records.push((n, rec.clone()));
                }
                Err(e) => {
                    obs.end = errclass(&e).to_string();
                    break;
                }
            }
        }
        let vp: (u64, u16) = rd.get_ref().virtual_position().into();
        (obs, vp)
    })
}

fn bamz_case(ctx: &mut Ctx, sub: u64) {
    let case = format!("fm-bamz {sub}");
    let mut rng = Rng::new(sub ^ 0xb62f);
    let Some(cs) = bam_case_of(sub) else {
        ctx.bump("fm_bamz_generator_skipped");
        return;
    };
    let (file, layout) = frame_bgzf(&mut rng, &cs);
    let t = c02_table(&layout);
    let ptab = ptable(&cs.data);
    let workers = 1 + rng.below(8) as usize;
    let kind = rng.below(8) as usize;
    let a = asched(&mut rng, kind, file.len(), &t.coff);
    let inf: String = (0..24).map(|_| if rng.chance(1, 2) { '1' } else { '0' }).collect();
    let asy = bamz_async(&file, &a, workers);
    let sync = bamz_sync(&file);
    ctx.eval(Some(fnv(&file) ^ workers as u64));
    let flat_of = |vp: (u64, u16)| resolve(&layout, &t, vp.0, vp.1);
    match (&asy, &sync) {
        (Err(p), _) => ctx.fail("c16fmt-panic", format!("async BAM-over-BGZF reader panicked ({p}) under schedule {}, {workers} workers [{}]", a.name, cs.label), case.clone()),
        (_, Err(p)) => ctx.fail("c16fmt-panic", format!("sync BAM-over-BGZF reader panicked ({p}) [{}]", cs.label), case.clone()),
        (Ok((ao, avp)), Ok((so, svp))) => {
            if ao.header != so.header {
                ctx.fail("c16fmt-bamz", format!("read_header over BGZF differs under schedule {}, {workers} workers: async {}, sync {} [{}]", a.name, show_hdr(&ao.header), show_hdr(&so.header), cs.label), case.clone());
            } else if ao.records != so.records || ao.end != so.end {
                ctx.fail("c16fmt-bamz", format!("records over BGZF differ under schedule {}, {workers} workers: async {} records then {}, sync {} records then {} [{}]", a.name, ao.records.len(), ao.end, so.records.len(), so.end, cs.label), case.clone());
            } else if ao.header.as_ref().map(|h| h.is_ok()).unwrap_or(false) && flat_of(*avp) != flat_of(*svp) {
                ctx.fail("c16fmt-bamz", format!("final virtual positions name different bytes under schedule {}, {workers} workers: async {:?}, sync {:?} [{}]", a.name, avp, svp, cs.label), case.clone());
            }
        }
    }
    let ans_a = match &asy {
        Ok((o, vp)) => format!("A hdr={} recs={} end={} vp={}/{}", ptab.hdr_str(o.header.as_ref().unwrap()), recs_str(o), o.end, vp.0, vp.1),
        Err(_) => "A panic".into(),
    };
    let ans_s = match &sync {
        Ok((o, vp)) => {
            let h = o.header.as_ref().unwrap();
            let pos = if h.is_ok() { flat_of(*vp).map(|o| format!("@{o}")).unwrap_or_else(|| format!("@?{}/{}", vp.0, vp.1)) } else { "@-".into() };
            format!("S hdr={} recs={} end={}{pos}", ptab.hdr_str(h), recs_str(o), o.end)
        }
        Err(_) => "S panic".into(),
    };
    let sched_s = fmt_asched(&a.sched[..a.sched.len().min(64)]);
    ctx.corr(format!("c16 bamz {workers} {} {} {} {}", fmt_layout(&layout), sched_s, inf, ptab.fmt()), format!("{ans_a} | {ans_s}"));
    ctx.bump(&format!("fm_bamz_workers_{workers}"));
    ctx.bump(&format!("fm_bamz_members_{}", layout.len().min(8)));
    if layout.iter().take(layout.len().saturating_sub(1)).any(|b| b.data.is_empty()) {
        ctx.bump("fm_bamz_empty_member_mid_file");
    }
    ctx.bump(&format!("fm_bamz_aschedule_{}", a.name));
    if let Ok((so, _)) = &sync {
        ctx.bump(&format!("fm_bamz_end_{}", so.end));
        ctx.bump(match &so.header { Some(Ok(_)) => "fm_bamz_header_ok", _ => "fm_bamz_header_err" });
    }
}

// ------------------------------------------------------------------ BAM writer over the async BGZF writer

/// `bam::r#async::io::Writer::write_alignment_record` = `write_u32_le(block_size)` + `write_all(buf)` on
/// the async BGZF writer: the sink must hold what the Lean writer model (`c16 wr`, proved equal to the
/// sync writer) produces for those `write_all` calls, and what the sync BAM writer produces
fn bamw_case(ctx: &mut Ctx, sub: u64) {
    use crate::adversary::AsyncScriptSink;
    use sam::alignment::io::Write as _;
    let case = format!("fm-bamw {sub}");
    let mut rng = Rng::new(sub ^ 0xba3);
    let n = rng.below(5) as usize;
    let mut recs = vec![];
    for _ in 0..4 * n {
        if recs.len() == n {
            break;
        }
        let (nref, r, _) = c05::gen_rec(&mut rng);
        if let Ok(b) = c05::real_encode(nref, &r) {
            recs.push((nref, r, b));
        }
    }
    let level = *rng.pick(&[0u8, 1, 6, 6, 9]);
    let workers = 1 + rng.below(8) as usize;
    let total: usize = recs.iter().map(|r| r.2.len() + 4).sum();
    let kind = rng.below(4) as usize;
    let (sched, fallback, sched_name) = poll_schedule(&mut rng, kind, total / 2 + 64);
    let nb = rng.below(12);
    let defl_bits: String = if nb == 0 { "-".into() } else { (0..nb).map(|_| if rng.chance(1, 2) { '0' } else { '1' }).collect() };
    let lvl = bgzf::io::writer::CompressionLevel::new(level).unwrap();
    // async
    let (snk, acc) = AsyncScriptSink::new(sched.clone(), fallback);
    let recs2 = recs.clone();
    let asy = guarded(move || {
        block_on(async move {
            let z = bgzf::r#async::io::writer::Builder::default().set_compression_level(lvl).set_worker_count(std::num::NonZero::new(workers).unwrap()).build_from_writer(snk);
            let mut w = bam::r#async::io::Writer::from(z);
            let mut per = vec![];
            for (nref, r, _) in &recs2 {
                match w.write_alignment_record(&c05::header(*nref), &c05::to_record_buf(r)).await {
                    Ok(()) => per.push("ok,ok".to_string()),
                    Err(e) => {
                        per.push(errclass(&e).to_string());
                        break;
                    }
                }
            }
            let end = match w.shutdown().await {
                Ok(()) => "ok".to_string(),
                Err(e) => errclass(&e).to_string(),
            };
            (per, end)
        })
    });
    let asink = acc.lock().unwrap().clone();
    // sync
    let recs3 = recs.clone();
    let sync = guarded(move || -> Result<Vec<u8>, String> {
        let z = bgzf::io::writer::Builder::default().set_compression_level(lvl).build_from_writer(Vec::new());
        let mut w = bam::io::Writer::from(z);
        for (nref, r, _) in &recs3 {
            w.write_alignment_record(&c05::header(*nref), &c05::to_record_buf(r)).map_err(|e| errclass(&e).to_string())?;
        }
        w.into_inner().finish().map_err(|e| errclass(&e).to_string())
    });
    ctx.eval(if total > 0 { Some(fnv(case.as_bytes())) } else { None });
    ctx.bump(&format!("fm_bamw_records_{}", recs.len()));
    ctx.bump(&format!("fm_bamw_level_{level}"));
    ctx.bump(&format!("fm_bamw_schedule_{sched_name}"));
    let (per, end) = match asy {
        Ok(x) => x,
        Err(p) => {
            ctx.fail("c16fmt-panic", format!("async BAM writer panicked ({p}), level {level}, {workers} workers, schedule {sched_name}"), case);
            return;
        }
    };
    match sync {
        Ok(Ok(ssink)) => {
            let dec = |f: &[u8]| -> Result<Vec<u8>, String> {
                let mut out = vec![];
                bgzf::io::Reader::new(f).read_to_end(&mut out).map_err(|e| e.to_string())?;
                Ok(out)
            };
            let sizes = |f: &[u8]| super::c01::split_members(f).map(|ms| ms.iter().map(|m| m.isize).collect::<Vec<_>>());
            if dec(&asink) != dec(&ssink) || dec(&asink).is_err() {
                ctx.fail("c16fmt-bam-writer", format!("the async BAM writer's output decodes to {:?} bytes, the sync writer's to {:?} bytes (level {level}, {workers} workers, schedule {sched_name})", dec(&asink).map(|v| v.len()), dec(&ssink).map(|v| v.len())), case.clone());
            } else if sizes(&asink) != sizes(&ssink) {
                ctx.fail("c16fmt-bam-writer", format!("block boundaries differ: async {:?}, sync {:?}", sizes(&asink), sizes(&ssink)), case.clone());
            }
        }
        other => ctx.fail("c16fmt-bam-writer", format!("the sync BAM writer failed on records the encoder accepted: {other:?}"), case.clone()),
    }
    // correspondence: the `c16 wr` model fed with the `write_all` calls the BAM writer makes
    if total <= 3000 {
        let ops: Vec<String> = recs.iter().flat_map(|(_, _, b)| [format!("a{}", hex(&(b.len() as u32).to_le_bytes())), format!("a{}", hex(b))]).collect();
        let table = match super::c01::split_members(&asink) {
            Ok(ms) => {
                let v: Vec<String> = ms.iter().filter(|m| m.isize > 0).map(|m| format!("{}:{}:{}", m.crc, m.isize, hex(m.cdata))).collect();
                if v.is_empty() { "-".to_string() } else { v.join(",") }
            }
            Err(_) => "-".to_string(),
        };
        let members = super::c01::split_members(&asink).map(|ms| ms.iter().map(|m| m.isize.to_string()).collect::<Vec<_>>().join(",")).unwrap_or_else(|e| format!("unframed:{e}"));
        let sched48: String = if sched.is_empty() { "-".into() } else { sched.iter().take(48).map(|p| match p { Poll1::Pending => "p".to_string(), Poll1::Ready(n) => n.to_string() }).collect::<Vec<_>>().join(",") };
        ctx.corr(
            format!("c16 wr {workers} {level} {} {table} {sched48} {defl_bits}", if ops.is_empty() { "-".to_string() } else { ops.join(",") }),
            format!("{} | end={end} sink={}:{} members={members}", if per.is_empty() { "-".to_string() } else { per.join(",") }, asink.len(), crc32(&asink)),
        );
    }
}

// ------------------------------------------------------------------ entry

fn bam_case(ctx: &mut Ctx, sub: u64) {
    let mut rng = Rng::new(sub ^ 0x5eed);
    match bam_case_of(sub) {
        Some(cs) => {
            bam_check(ctx, &cs, &mut rng, &format!("fm-bam {sub}"), true);
            parts_check(ctx, &cs, &mut rng, &format!("fm-bam {sub}"));
        }
        None => ctx.bump("fm_bam_generator_skipped"),
    }
}

fn bamrec_case(ctx: &mut Ctx, sub: u64) {
    let mut rng = Rng::new(sub ^ 0x5eed);
    let cs = bamrec_case_of(sub);
    bam_check(ctx, &cs, &mut rng, &format!("fm-bamrec {sub}"), true);
}

pub fn run(ctx: &mut Ctx) {
    corpus(ctx);
    corpus_hdr(ctx);
    let n = ctx.n(60, 4000);
    for it in 0..n {
        tok_case(ctx, ctx.seed.wrapping_mul(16_100_003).wrapping_add(it));
    }
    let n = ctx.n(70, 5000);
    for it in 0..n {
        bam_case(ctx, ctx.seed.wrapping_mul(16_100_019).wrapping_add(it));
    }
    let n = ctx.n(40, 3000);
    for it in 0..n {
        bamrec_case(ctx, ctx.seed.wrapping_mul(16_100_043).wrapping_add(it));
    }
    let n = ctx.n(60, 4000);
    for it in 0..n {
        gff_case(ctx, ctx.seed.wrapping_mul(16_100_057).wrapping_add(it));
    }
    let n = ctx.n(40, 3000);
    for it in 0..n {
        hdr_case(ctx, ctx.seed.wrapping_mul(16_100_063).wrapping_add(it));
    }
    let n = ctx.n(60, 1500);
    for it in 0..n {
        bamz_case(ctx, ctx.seed.wrapping_mul(16_100_069).wrapping_add(it));
    }
    let n = ctx.n(30, 1500);
    for it in 0..n {
        bamw_case(ctx, ctx.seed.wrapping_mul(16_100_081).wrapping_add(it));
    }
}

/// true if the case words were ours
pub fn replay(ctx: &mut Ctx, case: &[String]) -> bool {
    let Some(w) = case.first() else { return false };
    if !w.starts_with("fm-") {
        return false;
    }
    let sub: u64 = case.get(1).and_then(|s| s.parse().ok()).unwrap_or(0);
    match w.as_str() {
        "fm-bam" => bam_case(ctx, sub),
        "fm-bamrec" => bamrec_case(ctx, sub),
        "fm-gff" => gff_case(ctx, sub),
        "fm-hdr" => hdr_case(ctx, sub),
        "fm-bamz" => bamz_case(ctx, sub),
        "fm-bamw" => bamw_case(ctx, sub),
        "fm-tok" => tok_case(ctx, sub),
        "fm-corpus" => {
            corpus(ctx);
            corpus_hdr(ctx);
            let want = case.join(" ");
            ctx.failures.retain(|f| f.2 == want);
        }
        _ => {}
    }
    true
}
