//! C08 extension — the CRAM 3.1 read name tokenizer against its Lean model
//! (`lean/Noodles/Cram/Tok.lean`, theorems in `lean/Noodles/Props/C08Tok.lean`).
//!
//! The model takes the compressor of the inner token byte streams as a parameter; the Lean driver
//! instantiates it with the *flat* codec (method 0: bytes as they are; any other method byte:
//! bytes reversed). This module converts between the real container (inner streams compressed by
//! the real rANS Nx16 / arithmetic coder) and the flat one and thereby validates the assumed codec
//! law `decode(encode x) = x` on every inner stream it touches.
//!
//! Correspondence requests
//! * `c08 tokenc <src>`: the real `name_tokenizer::encode(src)`, its container re-written flat
//!   (byte-identical flat containers = the same names, tokenisation decisions, stream order,
//!   headers and lengths) — or the class of the encoder's refusal;
//! * `c08 tokdec <flat container>`: the real `name_tokenizer::decode` on the corresponding real
//!   container: `ok <bytes>` or `rej` (any error or panic). Containers: the real encoder's own
//!   output (rANS and, re-compressed by the harness, arithmetic coder), a hand-written corpus of
//!   boundary containers, and structured mutations of valid containers (header fields, item type
//!   bytes and flags, duplicate-stream items, token stream bytes, 7-bit lengths, truncations).
//!
//! Oracle (real code only): for every generated name list `decode(encode src)` returns the names
//! of `src` (byte-identical to `src` when `src` is NUL-terminated or empty), the encoder does not
//! panic, the decoder neither rejects nor panics on the encoder's output.
use crate::common::*;
use noodles_cram::codecs::{aac, rans_nx16};
use noodles_cram::verif as v;

// ------------------------------------------------------------------------------------------------
// container layout

#[derive(Clone, Debug, PartialEq)]
enum Body {
    /// `tok_dup`: position, type byte
    Dup(u8, u8),
    /// an inner stream (uncompressed) and the size in bytes its length field is stretched to by
    /// redundant leading 0x80 bytes (0: shortest form; 6: one more than the reader allows). The
    /// compressed and the flat length may need different numbers of bytes, a fixed total keeps
    /// "too long" the same for both.
    Payload(Vec<u8>, u8),
}

#[derive(Clone, Debug, PartialEq)]
struct Item {
    ttype: u8,
    body: Body,
}

#[derive(Clone, Debug)]
struct Cont {
    ulen: u32,
    n: u32,
    method: u8,
    /// number of header bytes kept (9 = whole header)
    hdr_keep: usize,
    items: Vec<Item>,
    /// bytes after the last item, identical in the real and the flat container: only patterns
    /// that cannot reach an inner decompressor (see `gen_tail`)
    tail: Vec<u8>,
}

fn put_uint7(dst: &mut Vec<u8>, n: u32, total: u8) {
    let natural = (1..5).filter(|k| n >> (7 * k) != 0).count() + 1;
    for _ in natural..total as usize {
        dst.push(0x80);
    }
    let mut started = false;
    for k in (0..5).rev() {
        let d = ((n >> (7 * k)) & 0x7f) as u8;
        if d != 0 || started || k == 0 {
            started = true;
            dst.push(if k == 0 { d } else { d | 0x80 });
        }
    }
}

fn get_uint7(src: &[u8], at: &mut usize) -> Option<u32> {
    let mut n: u32 = 0;
    for i in 0..5 {
        let b = *src.get(*at)?;
        *at += 1;
        n = (n << 7) | (b & 0x7f) as u32;
        if b & 0x80 == 0 {
            return Some(n);
        }
        if i == 4 {
            return None;
        }
    }
    None
}

/// `Err(None)`: the inner encoder refuses the stream (not a violation of its round-trip law)
fn inner_encode(method: u8, d: &[u8]) -> Result<Vec<u8>, Option<String>> {
    let r = guarded(|| if method == 0 { v::rans_nx16_encode(rans_nx16::Flags::from(0), d) } else { v::aac_encode(aac::Flags::from(0), d) });
    match r {
        Ok(Ok(x)) => Ok(x),
        Ok(Err(_)) => Err(None),
        Err(p) => Err(Some(format!("inner encoder panic: {p}"))),
    }
}

fn inner_decode(method: u8, d: &[u8]) -> Result<Vec<u8>, String> {
    let r = guarded(|| if method == 0 { v::rans_nx16_decode(d, 0) } else { v::aac_decode(d, 0) });
    match r {
        Ok(Ok(x)) => Ok(x),
        Ok(Err(e)) => Err(format!("inner decoder error: {e}")),
        Err(p) => Err(format!("inner decoder panic: {p}")),
    }
}

/// the assumed law of the model's codec parameter, on this stream
fn compress_checked(ctx: &mut Ctx, method: u8, d: &[u8]) -> Result<Vec<u8>, Option<String>> {
    let c = inner_encode(method, d)?;
    ctx.bump(if method == 0 { "law:rans-nx16-streams-checked" } else { "law:aac-streams-checked" });
    match inner_decode(method, &c) {
        Ok(x) if x == d => Ok(c),
        Ok(_) => Err(Some(format!("the inner codec (method {method}) does not decode its own stream of {} back", hex(d)))),
        Err(e) => Err(Some(format!("the inner codec (method {method}) on its own stream of {}: {e}", hex(d)))),
    }
}

impl Cont {
    fn header(&self) -> Vec<u8> {
        let mut h = vec![];
        h.extend_from_slice(&self.ulen.to_le_bytes());
        h.extend_from_slice(&self.n.to_le_bytes());
        h.push(self.method);
        h.truncate(self.hdr_keep);
        h
    }
    fn flat(&self) -> Vec<u8> {
        let mut d = self.header();
        for it in &self.items {
            d.push(it.ttype);
            match &it.body {
                Body::Dup(p, t) => {
                    d.push(*p);
                    d.push(*t);
                }
                Body::Payload(x, pad) => {
                    put_uint7(&mut d, x.len() as u32, *pad);
                    if self.method == 0 {
                        d.extend_from_slice(x);
                    } else {
                        d.extend(x.iter().rev());
                    }
                }
            }
        }
        d.extend_from_slice(&self.tail);
        d
    }
    fn real(&self, ctx: &mut Ctx) -> Result<Vec<u8>, Option<String>> {
        let mut d = self.header();
        for it in &self.items {
            d.push(it.ttype);
            match &it.body {
                Body::Dup(p, t) => {
                    d.push(*p);
                    d.push(*t);
                }
                Body::Payload(x, pad) => {
                    let c = compress_checked(ctx, self.method, x)?;
                    put_uint7(&mut d, c.len() as u32, *pad);
                    d.extend_from_slice(&c);
                }
            }
        }
        d.extend_from_slice(&self.tail);
        Ok(d)
    }
    /// the duplicate flag of an item's type byte decides how the following bytes are read; keep
    /// it in line with the body so that the real and the flat container are parsed alike
    fn normalise(&mut self) {
        // nothing may follow a truncated header: the bytes would be read as header fields (a
        // random name count makes the decoder allocate gigabytes for an implicit type stream)
        if self.hdr_keep < 9 {
            self.items.clear();
            self.tail.clear();
        }
        for it in self.items.iter_mut() {
            match it.body {
                Body::Dup(..) => it.ttype |= 0x40,
                Body::Payload(..) => it.ttype &= !0x40,
            }
        }
    }
}

/// Parse a real container (the encoder's output, or anything laid out like it), decompressing the
/// inner streams with the real decoders.
fn parse_real(ctx: &mut Ctx, src: &[u8]) -> Result<Cont, String> {
    if src.len() < 9 {
        return Err("shorter than the header".into());
    }
    let ulen = u32::from_le_bytes(src[0..4].try_into().unwrap());
    let n = u32::from_le_bytes(src[4..8].try_into().unwrap());
    let method = src[8];
    let mut at = 9;
    let mut items = vec![];
    while at < src.len() {
        let ttype = src[at];
        at += 1;
        if ttype & 0x40 != 0 {
            if at + 2 > src.len() {
                return Err("truncated duplicate item".into());
            }
            items.push(Item { ttype, body: Body::Dup(src[at], src[at + 1]) });
            at += 2;
        } else {
            let len = get_uint7(src, &mut at).ok_or("bad length")? as usize;
            if at + len > src.len() {
                return Err("length beyond the end".into());
            }
            let raw = inner_decode(method, &src[at..at + len])?;
            ctx.bump(if method == 0 { "law:rans-nx16-streams-checked" } else { "law:aac-streams-checked" });
            ctx.bump(&format!("enc-stream-type:{:02x}", ttype));
            at += len;
            items.push(Item { ttype, body: Body::Payload(raw, 0) });
        }
    }
    Ok(Cont { ulen, n, method, hdr_keep: 9, items, tail: vec![] })
}

// ------------------------------------------------------------------------------------------------
// real code, canonical answers

fn fmt_bytes(b: &[u8]) -> String {
    if b.len() <= 64 { hex(b) } else { format!("{}:{}", b.len(), crc32(b)) }
}

enum Enc {
    Ok(Vec<u8>),
    Err(&'static str),
    Panic(String),
}

fn real_encode(src: &[u8]) -> Enc {
    match guarded(|| v::name_tokenizer_encode(src)) {
        Ok(Ok(e)) => Enc::Ok(e),
        Ok(Err(e)) => Enc::Err(errclass(&e)),
        Err(p) => Enc::Panic(p),
    }
}

/// `Ok(bytes)`, or the reason of the rejection (error text / panic text)
fn real_decode(src: &[u8]) -> Result<Vec<u8>, (bool, String)> {
    match guarded(|| v::name_tokenizer_decode(src)) {
        Ok(Ok(d)) => Ok(d),
        Ok(Err(e)) => Err((false, e.to_string())),
        Err(p) => Err((true, p)),
    }
}

/// the names of a serialised list: one trailing NUL dropped, split at NUL; empty input = no names
fn names_of(src: &[u8]) -> Vec<&[u8]> {
    if src.is_empty() {
        return vec![];
    }
    let s = src.strip_suffix(&[0]).unwrap_or(src);
    s.split(|&b| b == 0).collect()
}

/// raw tokens of a name as the specification defines them (maximal alphanumeric / other runs)
fn raw_tokens(name: &[u8]) -> Vec<&[u8]> {
    let mut out = vec![];
    let mut s = 0;
    for i in 1..=name.len() {
        if i == name.len() || name[i].is_ascii_alphanumeric() != name[s].is_ascii_alphanumeric() {
            out.push(&name[s..i]);
            s = i;
        }
    }
    out
}

fn show(d: &[u8]) -> String {
    let t: String = d.iter().take(60).map(|&b| if (0x20..0x7f).contains(&b) { b as char } else if b == 0 { '|' } else { '?' }).collect();
    if d.len() > 60 { format!("{t}… ({} bytes)", d.len()) } else { t }
}

/// input statistics for the histogram
fn describe_input(ctx: &mut Ctx, src: &[u8]) {
    let names = names_of(src);
    ctx.bump(&format!("in:names:{}", bucket(names.len())));
    ctx.bump(&format!("in:bytes:{}", bucket(src.len())));
    ctx.bump(if src.is_empty() { "in:end:empty" } else if src.ends_with(&[0]) { "in:end:terminated" } else { "in:end:unterminated" });
    let maxtok = names.iter().map(|n| raw_tokens(n).len()).max().unwrap_or(0);
    ctx.bump(&format!("in:max-tokens:{}", if maxtok >= 127 { ">=127".to_string() } else if maxtok == 126 { "126".into() } else { bucket(maxtok) }));
    if names.iter().any(|n| n.is_empty()) {
        ctx.bump("in:has-empty-name");
    }
    if src.iter().any(|&b| b >= 0x80) {
        ctx.bump("in:has-non-ascii");
    }
    let mut seen = std::collections::HashSet::new();
    if names.iter().any(|n| !seen.insert(*n)) {
        ctx.bump("in:has-duplicate-name");
    }
}

fn bucket(n: usize) -> String {
    match n {
        0 => "0".into(),
        1 => "1".into(),
        2..=3 => "2-3".into(),
        4..=15 => "4-15".into(),
        16..=63 => "16-63".into(),
        64..=255 => "64-255".into(),
        256..=1023 => "256-1023".into(),
        1024..=4095 => "1k-4k".into(),
        _ => ">=4k".into(),
    }
}

/// token-level statistics of a (valid) flat container: which token types the encoder chose
fn describe_tokens(ctx: &mut Ctx, c: &Cont) {
    let mut pos = 0usize;
    for it in &c.items {
        if it.ttype & 0x80 != 0 {
            pos += 1;
        }
        if it.ttype & 0x3f == 0 {
            if let Body::Payload(x, _) = &it.body {
                for &t in x {
                    ctx.bump(&format!("enc-token:{}{}", if pos == 1 { "p0:" } else { "" }, ty_name(t)));
                }
            }
        }
    }
    ctx.bump(&format!("enc-positions:{}", bucket(pos)));
}

/// an error text without its variable part
fn short_text(e: &str) -> String {
    let e = e.split(':').next().unwrap_or("");
    e.chars().filter(|c| !c.is_ascii_digit()).take(48).collect()
}

fn ty_name(t: u8) -> &'static str {
    ["type", "string", "char", "digits0", "dzlen", "dup", "diff", "digits", "delta", "delta0", "match", "nop", "end"].get((t & 0x3f) as usize).copied().unwrap_or("invalid")
}

// ------------------------------------------------------------------------------------------------
// one encoder case: correspondence `tokenc`, `tokdec` on the encoder's output, oracle

fn fail_case(src: &[u8]) -> String {
    format!("tokrt x{}", hex(src))
}

fn encoder_case(ctx: &mut Ctx, src: &[u8], shape: &str, with_corr: bool) -> Option<Cont> {
    ctx.bump(&format!("tokenc-shape:{shape}"));
    describe_input(ctx, src);
    let key = fnv(src) ^ 0x70c0;
    ctx.eval(if src.len() >= 2 { Some(key) } else { None });
    let req = format!("c08 tokenc {}", hex(src));
    let enc = match real_encode(src) {
        Enc::Ok(e) => e,
        Enc::Err(cls) => {
            // a refusal is not a violation of the round-trip property; the model must refuse too
            ctx.bump(&format!("tokenc-outcome:refused:{cls}"));
            if with_corr {
                ctx.corr(req, cls.to_string());
            }
            return None;
        }
        Enc::Panic(p) => {
            ctx.bump("tokenc-outcome:panic");
            ctx.fail("tok-encode-panic", format!("name_tokenizer::encode panicked on {}: {p}", show(src)), fail_case(src));
            if with_corr {
                ctx.corr(req, "panic".into());
            }
            return None;
        }
    };
    ctx.bump("tokenc-outcome:ok");
    // oracle: the decoder on the encoder's own output
    match real_decode(&enc) {
        Ok(d) => {
            let exact = src.is_empty() || src.ends_with(&[0]);
            if names_of(&d) != names_of(src) || (!d.is_empty() && !d.ends_with(&[0])) {
                ctx.fail("tok-names-differ", format!("decode(encode(src)) has other names than src = {}; got {}", show(src), show(&d)), fail_case(src));
            } else if exact && d != src {
                ctx.fail("tok-roundtrip-bytes", format!("decode(encode(src)) != src for the NUL-terminated src = {}; got {}", show(src), show(&d)), fail_case(src));
            } else {
                ctx.bump(if exact { "oracle:roundtrip-exact" } else { "oracle:roundtrip-names(unterminated input gains a NUL)" });
            }
        }
        Err((false, e)) => ctx.fail("tok-decode-rejects-own", format!("decode rejects the encoder's output for {}: {e}", show(src)), fail_case(src)),
        Err((true, p)) => ctx.fail("tok-decode-panic-own", format!("decode panicked on the encoder's output for {}: {p}", show(src)), fail_case(src)),
    }
    // the container, flat
    let cont = match parse_real(ctx, &enc) {
        Ok(c) => c,
        Err(e) => {
            ctx.fail("tok-container-unparsable", format!("the encoder's output for {} does not follow the container layout / an inner stream does not decode: {e}", show(src)), fail_case(src));
            if with_corr {
                ctx.corr(req, format!("unparsable {e}").replace('\n', " "));
            }
            return None;
        }
    };
    describe_tokens(ctx, &cont);
    if with_corr {
        ctx.corr(req, format!("ok {}", fmt_bytes(&cont.flat())));
    }
    Some(cont)
}

/// `tokdec` on a container description
fn decoder_case(ctx: &mut Ctx, c: &Cont, origin: &str) {
    let real = match c.real(ctx) {
        Ok(r) => r,
        Err(None) => {
            // the inner encoder refuses one of the streams: no real container to decode
            ctx.bump(&format!("tokdec-skipped:inner-encoder-refused:method-{}", if c.method == 0 { "rans-nx16" } else { "aac" }));
            return;
        }
        Err(Some(e)) => {
            ctx.fail("tok-inner-codec-law", format!("{origin}: {e}"), format!("toklaw {} x{}", c.method, hex(&c.flat())));
            return;
        }
    };
    let flat = c.flat();
    ctx.bump(&format!("tokdec-origin:{origin}"));
    ctx.bump(&format!("tokdec-method:{}", if c.method == 0 { "rans-nx16" } else { "aac" }));
    ctx.bump(&format!("tokdec-bytes:{}", bucket(flat.len())));
    let ans = match real_decode(&real) {
        Ok(d) => {
            ctx.bump("tokdec-outcome:accepted");
            format!("ok {}", fmt_bytes(&d))
        }
        Err((false, e)) => {
            ctx.bump(&format!("tokdec-outcome:error:{}", short_text(&e)));
            "rej".into()
        }
        Err((true, p)) => {
            ctx.bump(&format!("tokdec-outcome:panic:{}", short_text(&p)));
            "rej".into()
        }
    };
    ctx.corr(format!("c08 tokdec {}", hex(&flat)), ans);
}

// ------------------------------------------------------------------------------------------------
// name list generators

fn corpus_names() -> Vec<(Vec<u8>, &'static str)> {
    let mut v: Vec<(Vec<u8>, &'static str)> = vec![];
    let mut add = |s: &[u8], what: &'static str| v.push((s.to_vec(), what));
    add(b"", "empty input = no names");
    add(b"\0", "one empty name");
    add(b"\0\0", "two empty names");
    add(b"\0\0\0", "three empty names (the third is a duplicate)");
    add(b"a", "unterminated single char");
    add(b"a\0", "single char");
    add(b"a\0a\0", "duplicate of name 0 (never found by the dup search)");
    add(b"a\0b\0b\0", "duplicate at distance 1");
    add(b"a\0b\0c\0b\0b\0", "duplicates at distance 2 and 3 of the first occurrence");
    add(b"a\0a\0a\0", "name 0 thrice: dup of name 1");
    add(b"ab\0", "string token");
    add(b"ab:cd\0", "string char string");
    add(b"::\0", "punctuation string");
    add(b":\0", "punctuation char");
    add(b"0\0", "digits0 width 1");
    add(b"00\0", "digits0 width 2");
    add(b"007\0", "digits0");
    add(b"7\0", "digits");
    add(b"4294967295\0", "u32::MAX");
    add(b"4294967296\0", "u32::MAX + 1 is a string");
    add(b"04294967295\0", "padded u32::MAX");
    add(b"04294967296\0", "padded overflow is a string");
    add(b"00000000000000000001\0", "20 digits with leading zeros");
    add(b"99999999999999999999\0", "20 nines");
    add(b"6.\x0007.\0", "leading zero after a plain number (fixed defect)");
    add(b"6\x0007\0", "the same without the dot");
    add(b"07\x006\0", "plain number after a padded one, other width");
    add(b"07\x0008\0", "delta0");
    add(b"099\x00100\0", "delta0 across the width, no leading zero left");
    add(b"099\x00100\x00101\0", "delta0 chain from a non-padded looking token");
    add(b"099\x001000\0", "width change: no delta0");
    add(b"00\x0000\0", "match of padded");
    add(b"000\x00255\0", "delta0 of 255");
    add(b"000\x00256\0", "delta0 of 256 is not a delta");
    add(b"x1\x00x2\0", "alphanumeric run is one token, no delta");
    add(b"x.1\0x.2\0", "delta 1");
    add(b"x.1\0x.256\0", "delta 255");
    add(b"x.1\0x.257\0", "delta 256 -> digits");
    add(b"x.5\0x.4\0", "decreasing -> digits");
    add(b"x.5\0x.5\0", "same number: match (and a dup? no: name 0)");
    add(b"x.1\0x.2\0x.3\0", "delta after delta");
    add(b"x.1\0x.1\0x.2\0", "number after a match: digits again");
    add(b"x.4294967040\0x.4294967295\0", "delta reaching u32::MAX");
    add(b"x.4294967295\0x.4294967296\0", "u32::MAX then a string");
    add(b"x.10\0x.010\0", "padded after digits");
    add(b"x.010\0x.10\0", "digits after padded (other width)");
    add(b"x.010\0x.011\0x.11\0", "delta0 then digits");
    add(b"a:b\0a\0", "shorter than previous");
    add(b"a\0a:b\0", "longer than previous");
    add(b"a:1\0b:2\0", "all positions differ");
    add(b"+\0-\0+5\0-5\0", "sign characters (lexical accepts a leading +)");
    add(b"+\0", "plus alone");
    add(b"\xff\xfe\0\xff\xfe\0", "non-ASCII");
    add(b"\xc3\xa9t\xc3\xa9:1\0\xc3\xa9t\xc3\xa9:2\0", "utf-8");
    add(b"a\0\0b\0", "empty name in the middle");
    add(b"a\0b", "unterminated, two names");
    add(b"a\0\0", "trailing empty name");
    add(b"I17_08765:2:123:61541:01763#9\0I17_08765:2:123:1636:08611#9\0I17_08765:2:124:45613:16161#9\0", "the example of the unit test");
    add(b"@SRR062634.1 HWI-EAS110_103327062:6:1:1092:8469/1\0@SRR062634.1 HWI-EAS110_103327062:6:1:1092:8469/2\0", "pair");
    drop(add);
    // widths around u8::MAX
    for w in [254usize, 255, 256, 300] {
        let mut s = vec![b'0'; w];
        s.push(0);
        v.push((s, "zeros of width 254..300 (above 255 the encoder refuses)"));
        let mut s = vec![b'0'; w - 1];
        s.push(b'7');
        s.push(0);
        s.extend(vec![b'0'; w - 1]);
        s.push(b'8');
        s.push(0);
        v.push((s, "wide padded pair"));
    }
    // token counts around the decoder's 128 slots
    for k in [125usize, 126, 127, 128, 200] {
        let mut s = vec![];
        for j in 0..k {
            s.push(if j % 2 == 0 { b'a' } else { b':' });
        }
        s.push(0);
        v.push((s.clone(), "k tokens (127 and more: refused)"));
        let mut t = b"x\0".to_vec();
        t.extend(&s);
        t.extend(&s);
        v.push((t, "short name, k tokens, duplicate"));
    }
    // long single tokens
    v.push((vec![b'a'; 5000].into_iter().chain([0]).collect(), "5000-byte string token"));
    v.push((vec![b':'; 3000].into_iter().chain([0]).collect(), "3000-byte punctuation token"));
    v.push((vec![b'9'; 1000].into_iter().chain([0]).collect(), "1000 nines"));
    v
}

fn gen_field(rng: &mut Rng) -> Vec<u8> {
    match rng.below(12) {
        0 => format!("{}", rng.below(10)).into_bytes(),
        1 => format!("{}", rng.below(100_000)).into_bytes(),
        2 => format!("{:0w$}", rng.below(1000), w = 1 + rng.below(6) as usize).into_bytes(),
        3 => format!("{}", *rng.pick(&[4294967295u64, 4294967296, 4294967040, 255, 256, 0, 99999999999])).into_bytes(),
        4 => b"ab".to_vec(),
        5 => b"x".to_vec(),
        6 => format!("r{}", rng.below(50)).into_bytes(),
        7 => vec![*rng.pick(&[b'+', b'-', b' ', b'#', 0x80, 0xff, 0x01])],
        8 => (0..1 + rng.below(4)).map(|_| 1 + rng.below(255) as u8).collect(),
        9 => format!("0{}", rng.below(300)).into_bytes(),
        10 => vec![b'0'; 1 + rng.below(4) as usize],
        _ => format!("{:x}", rng.next() & 0xffff).into_bytes(),
    }
}

fn mutate_name(rng: &mut Rng, base: &[u8]) -> Vec<u8> {
    // re-tokenise and change a few tokens: bump a number, change its width, replace, drop, add
    let toks: Vec<Vec<u8>> = raw_tokens(base).into_iter().map(|t| t.to_vec()).collect();
    let mut out: Vec<Vec<u8>> = vec![];
    let mut edits = 1 + rng.below(2);
    for t in toks {
        if edits > 0 && rng.chance(1, 3) {
            edits -= 1;
            if let Ok(s) = std::str::from_utf8(&t) {
                if let Ok(x) = s.parse::<u64>() {
                    let w = t.len();
                    let y = match rng.below(6) {
                        0 => x + 1,
                        1 => x + rng.below(255),
                        2 => x + 255 + rng.below(3),
                        3 => x.saturating_sub(1 + rng.below(3)),
                        4 => x + rng.below(100_000),
                        _ => x,
                    };
                    out.push(match rng.below(4) {
                        0 => format!("{y}").into_bytes(),
                        1 => format!("{:0w$}", y, w = w + rng.below(2) as usize).into_bytes(),
                        _ => format!("{:0w$}", y, w = w).into_bytes(),
                    });
                    continue;
                }
            }
            match rng.below(4) {
                0 => {}
                1 => out.push(gen_field(rng)),
                2 => {
                    out.push(t.clone());
                    out.push(vec![*rng.pick(&[b':', b'/', b'_'])]);
                    out.push(gen_field(rng));
                }
                _ => {
                    let mut u = t.clone();
                    let i = rng.below(u.len() as u64) as usize;
                    u[i] = 1 + rng.below(255) as u8;
                    out.push(u);
                }
            }
        } else {
            out.push(t);
        }
    }
    out.concat()
}

fn gen_name_list(rng: &mut Rng, thorough: bool) -> (Vec<u8>, &'static str) {
    let shape = rng.below(12);
    let cap: u64 = *rng.pick(if thorough { &[1u64, 2, 3, 8, 40, 200, 600][..] } else { &[1u64, 2, 3, 8, 40, 120][..] });
    let n = 1 + rng.below(cap) as usize;
    let mut names: Vec<Vec<u8>> = vec![];
    let what: &'static str = match shape {
        0 => {
            // instrument:run:flowcell:lane:tile:x:y with /1 /2
            let (inst, run, fc) = (format!("M0{}", rng.below(9999)), rng.below(900), format!("000000000-A{}", rng.below(99999)));
            let (mut tile, mut x, mut y) = (1101 + rng.below(3), rng.below(20000), rng.below(20000));
            let paired = rng.chance(1, 2);
            while names.len() < n {
                if rng.chance(1, 20) {
                    tile += 1;
                }
                x += rng.below(400);
                y = if rng.chance(1, 3) { rng.below(30000) } else { y + rng.below(200) };
                let base = format!("{inst}:{run}:{fc}:1:{tile}:{x}:{y}");
                if paired {
                    names.push(format!("{base}/1").into_bytes());
                    names.push(format!("{base}/2").into_bytes());
                } else {
                    names.push(base.into_bytes());
                }
            }
            "illumina"
        }
        1 => {
            let acc = 100_000 + rng.below(900_000);
            let mut k = rng.below(1000);
            for _ in 0..n {
                k += 1 + rng.below(2) * rng.below(300);
                names.push(match rng.below(3) {
                    0 => format!("SRR{acc}.{k}"),
                    1 => format!("SRR{acc}.{k}.{}", 1 + rng.below(2)),
                    _ => format!("SRR{acc}.{k} {k} length={}", 50 + rng.below(100)),
                }
                .into_bytes());
            }
            "srr"
        }
        2 => {
            // zero-padded counters through width changes, mixed with plain numbers
            let mut x = *rng.pick(&[0u64, 5, 95, 250, 995, 65530]);
            let w = 1 + rng.below(5) as usize;
            for _ in 0..n {
                x += rng.below(4) * rng.below(90);
                names.push(match rng.below(5) {
                    0 => format!("s{}.{x}", 1),
                    1 => format!("s1.{:0w$}", x, w = w + 1),
                    _ => format!("s1.{:0w$}", x, w = w),
                }
                .into_bytes());
            }
            "leading-zeros"
        }
        3 => {
            // duplicates, also of name 0, at all distances
            let pool: Vec<Vec<u8>> = (0..1 + rng.below(5)).map(|i| format!("read{}:{:02}/{}", i, rng.below(3), rng.below(2)).into_bytes()).collect();
            for _ in 0..n {
                names.push(rng.pick(&pool).clone());
            }
            "duplicates"
        }
        4 => {
            // delta thresholds and u32 limits
            let mut x: u64 = *rng.pick(&[0u64, 1000, 4294966000, 4294967000]);
            for _ in 0..n {
                x = match rng.below(7) {
                    0 => x + 254,
                    1 => x + 255,
                    2 => x + 256,
                    3 => x.saturating_sub(1),
                    4 => x,
                    _ => x + 1,
                };
                names.push(format!("q.{x}:{}", rng.below(3)).into_bytes());
            }
            "delta-thresholds"
        }
        5 => {
            // long digit runs, overflow, wide zero runs
            for _ in 0..n {
                let l = *rng.pick(&[1usize, 8, 9, 10, 11, 12, 20, 40, 254, 255, 256, 257]);
                let lead0 = rng.chance(1, 2);
                let mut s: Vec<u8> = (0..l).map(|i| if i == 0 && lead0 { b'0' } else if l > 12 && rng.chance(9, 10) { b'0' } else { b'0' + rng.below(10) as u8 }).collect();
                if rng.chance(1, 2) {
                    s.splice(0..0, b"n:".iter().copied());
                }
                names.push(s);
            }
            "digit-runs"
        }
        6 => {
            // token counts around the limit of 127
            let k = *rng.pick(&[1usize, 60, 120, 125, 126, 127, 128, 129, 254, 255, 256, 300]);
            let mk = |rng: &mut Rng, k: usize| -> Vec<u8> {
                let mut s = vec![];
                for j in 0..k {
                    if j % 2 == 0 {
                        s.extend(gen_alnum(rng));
                    } else {
                        s.push(*rng.pick(&[b':', b'_', b'/', b'.']));
                    }
                }
                s
            };
            for i in 0..n.min(4) {
                let kk = if i == 0 || rng.chance(1, 2) { k } else { 1 + rng.below(130) as usize };
                names.push(mk(rng, kk));
            }
            "token-counts"
        }
        7 => {
            // arbitrary non-NUL bytes, signs, non-ASCII
            for _ in 0..n {
                let l = rng.below(14) as usize;
                names.push((0..l).map(|_| if rng.chance(1, 3) { *rng.pick(&[b'+', b'-', b'0', b'1', b'9', b'a', 0xff, 0x80]) } else { 1 + rng.below(255) as u8 }).collect());
            }
            "arbitrary-bytes"
        }
        8 => {
            let pool: [&[u8]; 10] = [b"", b"", b":", b"::", b"a", b"0", b"00", b"a:", b":a", b"1"];
            for _ in 0..n {
                names.push(rng.pick(&pool).to_vec());
            }
            "degenerate"
        }
        9 => {
            // very long names
            let l = *rng.pick(&[300usize, 1000, 3000]);
            for _ in 0..n.min(3) {
                let kind = rng.below(3);
                names.push((0..l).map(|_| match kind { 0 => b'a' + rng.below(26) as u8, 1 => *rng.pick(&[b':', b'-', b' ']), _ => 0x80 + rng.below(128) as u8 }).collect());
            }
            "very-long"
        }
        10 => {
            // each name is an edit of the previous one (or of an earlier one)
            let k = 1 + rng.below(7);
            let mut s = vec![];
            for j in 0..k {
                s.extend(gen_field(rng));
                if j + 1 < k {
                    s.push(*rng.pick(&[b':', b'_', b'.', b'/', b' ']));
                }
            }
            names.push(s);
            while names.len() < n {
                let base = if rng.chance(4, 5) { names.last().unwrap().clone() } else { rng.pick(&names).clone() };
                names.push(if rng.chance(1, 8) { base } else { mutate_name(rng, &base) });
            }
            "edits-of-previous"
        }
        _ => {
            let (ns, w) = super::c08::gen_names(rng.next());
            names = ns;
            w
        }
    };
    for nm in names.iter_mut() {
        nm.retain(|&b| b != 0);
    }
    let mut src = super::c08::join_names(&names);
    // serialisation variants: unterminated (the last NUL missing)
    if !src.is_empty() && rng.chance(1, 6) {
        src.pop();
    }
    (src, what)
}

fn gen_alnum(rng: &mut Rng) -> Vec<u8> {
    match rng.below(5) {
        0 => format!("{}", rng.below(1000)).into_bytes(),
        1 => format!("0{}", rng.below(100)).into_bytes(),
        2 => b"a".to_vec(),
        3 => b"ab".to_vec(),
        _ => format!("{}", rng.below(10)).into_bytes(),
    }
}

// ------------------------------------------------------------------------------------------------
// container generators

const TYPE: u8 = 0;
const STRING: u8 = 1;
const CHAR: u8 = 2;
const DIGITS0: u8 = 3;
const DZLEN: u8 = 4;
const DUP: u8 = 5;
const DIFF: u8 = 6;
const DIGITS: u8 = 7;
const DELTA: u8 = 8;
const DELTA0: u8 = 9;
const MATCH: u8 = 10;
const NOP: u8 = 11;
const END: u8 = 12;

/// one token position: the first stream gets the new-token flag
fn pos(streams: &[(u8, &[u8])]) -> Vec<Item> {
    streams.iter().enumerate().map(|(i, (t, d))| Item { ttype: if i == 0 { 0x80 | t } else { *t }, body: Body::Payload(d.to_vec(), 0) }).collect()
}

fn cont(n: u32, positions: Vec<Vec<Item>>) -> Cont {
    Cont { ulen: 0, n, method: 0, hdr_keep: 9, items: positions.concat(), tail: vec![] }
}

fn le(n: u32) -> Vec<u8> {
    n.to_le_bytes().to_vec()
}

fn corpus_containers() -> Vec<(Cont, &'static str)> {
    let mut v: Vec<(Cont, &'static str)> = vec![];
    // header
    for k in 0..9 {
        v.push((Cont { ulen: 0, n: 0, method: 0, hdr_keep: k, items: vec![], tail: vec![] }, "truncated header"));
    }
    v.push((cont(0, vec![]), "no names, no streams"));
    v.push((Cont { ulen: 12345, ..cont(0, vec![]) }, "uncompressed size is not checked"));
    v.push((cont(1, vec![]), "one name but no streams: b[0]"));
    // the smallest valid containers
    let p0_diff0 = pos(&[(TYPE, &[DIFF]), (DIFF, &[0, 0, 0, 0])]);
    let end = pos(&[(TYPE, &[END])]);
    v.push((cont(1, vec![p0_diff0.clone(), end.clone()]), "one empty name"));
    v.push((cont(1, vec![p0_diff0.clone()]), "no position 1: b[1]"));
    v.push((cont(2, vec![p0_diff0.clone(), end.clone()]), "two names declared, streams for one"));
    v.push((cont(0, vec![p0_diff0.clone(), end.clone()]), "no names declared, streams ignored"));
    let one = |p1: Vec<Item>, rest: Vec<Vec<Item>>| {
        let mut ps = vec![p0_diff0.clone(), p1];
        ps.extend(rest);
        cont(1, ps)
    };
    // every token type at position 1 of a single name
    v.push((one(pos(&[(TYPE, &[CHAR]), (CHAR, b"x")]), vec![end.clone()]), "char"));
    v.push((one(pos(&[(TYPE, &[CHAR])]), vec![end.clone()]), "char stream missing"));
    v.push((one(pos(&[(TYPE, &[STRING]), (STRING, b"abc\0")]), vec![end.clone()]), "string"));
    v.push((one(pos(&[(TYPE, &[STRING]), (STRING, b"abc")]), vec![end.clone()]), "string without NUL: last byte popped"));
    v.push((one(pos(&[(TYPE, &[STRING]), (STRING, b"a")]), vec![end.clone()]), "one-byte string without NUL"));
    v.push((one(pos(&[(TYPE, &[STRING])]), vec![end.clone()]), "string stream missing: empty string"));
    v.push((one(pos(&[(TYPE, &[STRING]), (STRING, b"\0")]), vec![end.clone()]), "empty string"));
    v.push((one(pos(&[(TYPE, &[DIGITS]), (DIGITS, &le(1234567))]), vec![end.clone()]), "digits"));
    v.push((one(pos(&[(TYPE, &[DIGITS]), (DIGITS, &le(u32::MAX))]), vec![end.clone()]), "digits u32::MAX"));
    v.push((one(pos(&[(TYPE, &[DIGITS]), (DIGITS, &[1, 2, 3])]), vec![end.clone()]), "digits: 3 bytes"));
    v.push((one(pos(&[(TYPE, &[DIGITS0]), (DIGITS0, &le(42)), (DZLEN, &[5])]), vec![end.clone()]), "digits0"));
    v.push((one(pos(&[(TYPE, &[DIGITS0]), (DIGITS0, &le(42)), (DZLEN, &[0])]), vec![end.clone()]), "digits0 width 0"));
    v.push((one(pos(&[(TYPE, &[DIGITS0]), (DIGITS0, &le(123456)), (DZLEN, &[3])]), vec![end.clone()]), "digits0 narrower than the number"));
    v.push((one(pos(&[(TYPE, &[DIGITS0]), (DIGITS0, &le(0)), (DZLEN, &[255])]), vec![end.clone()]), "digits0 width 255"));
    v.push((one(pos(&[(TYPE, &[DIGITS0]), (DIGITS0, &le(42))]), vec![end.clone()]), "digits0 without dz_len"));
    v.push((one(pos(&[(TYPE, &[DELTA]), (DELTA, &[1])]), vec![end.clone()]), "delta without previous token"));
    v.push((one(pos(&[(TYPE, &[DELTA0]), (DELTA0, &[1])]), vec![end.clone()]), "delta0 without previous token"));
    v.push((one(pos(&[(TYPE, &[MATCH])]), vec![end.clone()]), "match without previous token ends the name"));
    v.push((one(pos(&[(TYPE, &[MATCH])]), vec![]), "match without previous token, no further position"));
    for t in [TYPE, DZLEN, DUP, DIFF, NOP] {
        v.push((one(pos(&[(TYPE, &[t])]), vec![end.clone()]), "nop-like token types"));
    }
    for t in [13u8, 63, 64 + 13, 0xff] {
        v.push((one(pos(&[(TYPE, &[t])]), vec![end.clone()]), "invalid token type byte in a type stream"));
    }
    v.push((one(pos(&[(TYPE, &[0x40 | CHAR]), (CHAR, b"y")]), vec![end.clone()]), "type byte with flag bits in a type stream (masked)"));
    v.push((one(pos(&[(TYPE, &[])]), vec![end.clone()]), "empty type stream"));
    // implicit type streams (new-token item that is not a type stream)
    v.push((one(vec![Item { ttype: 0x80 | CHAR, body: Body::Payload(b"x".to_vec(), 0) }], vec![end.clone()]), "implicit type stream: char"));
    v.push((Cont { n: 3, ..cont(3, vec![pos(&[(TYPE, &[DIFF, DIFF, DIFF]), (DIFF, &[le(0), le(1), le(1)].concat())]), vec![Item { ttype: 0x80 | CHAR, body: Body::Payload(b"x".to_vec(), 0) }], pos(&[(TYPE, &[END, END, END])])]) }, "implicit type stream: char then matches"));
    v.push((one(vec![Item { ttype: 0x80 | END, body: Body::Payload(vec![], 0) }], vec![]), "implicit end stream: set(End)"));
    v.push((one(vec![Item { ttype: 0x80 | MATCH, body: Body::Payload(vec![], 0) }], vec![]), "set(Match)"));
    v.push((one(vec![Item { ttype: 0x80 | NOP, body: Body::Payload(vec![1], 0) }], vec![]), "set(Nop)"));
    // first item without the new-token flag
    v.push((Cont { items: vec![Item { ttype: TYPE, body: Body::Payload(vec![DIFF], 0) }], ..cont(1, vec![]) }, "first item lacks the new-token flag"));
    v.push((Cont { items: vec![Item { ttype: 0x40, body: Body::Dup(0, 0) }], ..cont(1, vec![]) }, "first item is a duplicate"));
    // position 0
    v.push((cont(1, vec![pos(&[(TYPE, &[CHAR]), (CHAR, b"x")]), end.clone()]), "position 0 holds a char: assert"));
    v.push((cont(1, vec![pos(&[(TYPE, &[DIFF]), (DIFF, &[0, 0, 0])]), end.clone()]), "distance of 3 bytes"));
    v.push((cont(1, vec![pos(&[(TYPE, &[DIFF]), (DIFF, &le(1))]), end.clone()]), "distance 1 for name 0"));
    v.push((cont(1, vec![pos(&[(TYPE, &[DUP]), (DUP, &le(0))]), end.clone()]), "dup of itself: empty name"));
    v.push((cont(1, vec![pos(&[(TYPE, &[DUP]), (DUP, &le(1))])]), "dup distance 1 for name 0"));
    v.push((cont(1, vec![pos(&[(TYPE, &[DUP]), (DIFF, &le(0))])]), "dup without dup stream"));
    // several names
    let p0 = |types: &[u8], diffs: &[u32], dups: &[u32]| {
        let d: Vec<u8> = diffs.iter().flat_map(|x| le(*x)).collect();
        let u: Vec<u8> = dups.iter().flat_map(|x| le(*x)).collect();
        pos(&[(TYPE, types), (DUP, &u), (DIFF, &d)]).into_iter().filter(|it| it.ttype & 0x80 != 0 || it.body != Body::Payload(vec![], 0)).collect::<Vec<_>>()
    };
    v.push((cont(3, vec![p0(&[DIFF, DIFF, DUP], &[0, 1], &[1]), pos(&[(TYPE, &[DIGITS, DELTA]), (DIGITS, &le(9)), (DELTA, &[1])]), pos(&[(TYPE, &[END, END])])]), "9, 10, dup of 10"));
    v.push((cont(3, vec![p0(&[DIFF, DIFF, DIFF], &[0, 1, 2], &[]), pos(&[(TYPE, &[DIGITS, DELTA, DELTA]), (DIGITS, &le(9)), (DELTA, &[1, 5])]), pos(&[(TYPE, &[END, END, END])])]), "distance 2: 9, 10, 14"));
    v.push((cont(3, vec![p0(&[DIFF, DIFF, DIFF], &[0, 1, 0], &[]), pos(&[(TYPE, &[DIGITS, DELTA, DELTA]), (DIGITS, &le(9)), (DELTA, &[1, 5])]), pos(&[(TYPE, &[END, END, END])])]), "distance 0 on a later name: delta has no previous token"));
    v.push((cont(3, vec![p0(&[DIFF, DIFF, DIFF], &[0, 1, 0], &[]), pos(&[(TYPE, &[DIGITS, MATCH, CHAR]), (DIGITS, &le(9)), (CHAR, b"z")]), pos(&[(TYPE, &[END, END, END])])]), "9, 9, z"));
    v.push((cont(2, vec![p0(&[DIFF, DIFF], &[0, 3], &[])]), "distance beyond the first name"));
    v.push((cont(2, vec![p0(&[DIFF, DIFF], &[0, 1], &[]), pos(&[(TYPE, &[DIGITS, DELTA]), (DIGITS, &le(u32::MAX)), (DELTA, &[1])]), pos(&[(TYPE, &[END, END])])]), "delta overflows u32"));
    v.push((cont(2, vec![p0(&[DIFF, DIFF], &[0, 1], &[]), pos(&[(TYPE, &[DIGITS, DELTA]), (DIGITS, &le(u32::MAX - 1)), (DELTA, &[1])]), pos(&[(TYPE, &[END, END])])]), "delta reaches u32::MAX"));
    v.push((cont(2, vec![p0(&[DIFF, DIFF], &[0, 1], &[]), pos(&[(TYPE, &[DIGITS0, DELTA0]), (DIGITS0, &le(u32::MAX)), (DZLEN, &[3]), (DELTA0, &[1])]), pos(&[(TYPE, &[END, END])])]), "delta0 overflows u32"));
    v.push((cont(2, vec![p0(&[DIFF, DIFF], &[0, 1], &[]), pos(&[(TYPE, &[DIGITS0, DELTA0]), (DIGITS0, &le(99)), (DZLEN, &[3]), (DELTA0, &[1])]), pos(&[(TYPE, &[END, END])])]), "099, 100"));
    v.push((cont(2, vec![p0(&[DIFF, DIFF], &[0, 1], &[]), pos(&[(TYPE, &[DIGITS0, DELTA]), (DIGITS0, &le(99)), (DZLEN, &[3]), (DELTA, &[1])]), pos(&[(TYPE, &[END, END])])]), "delta on a padded token"));
    v.push((cont(2, vec![p0(&[DIFF, DIFF], &[0, 1], &[]), pos(&[(TYPE, &[DIGITS, DELTA0]), (DIGITS, &le(99)), (DELTA0, &[1])]), pos(&[(TYPE, &[END, END])])]), "delta0 on a digits token"));
    v.push((cont(2, vec![p0(&[DIFF, DIFF], &[0, 1], &[]), pos(&[(TYPE, &[STRING, DELTA]), (STRING, b"ab\0"), (DELTA, &[1])]), pos(&[(TYPE, &[END, END])])]), "delta on a string token"));
    v.push((cont(2, vec![p0(&[DIFF, DIFF], &[0, 1], &[]), pos(&[(TYPE, &[NOP, MATCH])]), pos(&[(TYPE, &[CHAR, MATCH]), (CHAR, b"k")]), pos(&[(TYPE, &[END, END])])]), "match of a nop"));
    v.push((cont(2, vec![p0(&[DIFF, DUP], &[0], &[1]), pos(&[(TYPE, &[CHAR]), (CHAR, b"k")]), pos(&[(TYPE, &[END])])]), "k, dup"));
    v.push((cont(3, vec![p0(&[DIFF, DUP, DIFF], &[0, 1], &[1]), pos(&[(TYPE, &[DIGITS, DELTA]), (DIGITS, &le(7)), (DELTA, &[2])]), pos(&[(TYPE, &[END, END])])]), "7, dup, delta against the dup's tokens"));
    // duplicate-stream items
    let dup_item = |ttype: u8, p: u8, t: u8| vec![Item { ttype, body: Body::Dup(p, t) }];
    v.push((cont(2, vec![p0(&[DIFF, DIFF], &[0, 1], &[]), pos(&[(TYPE, &[CHAR, CHAR]), (CHAR, b"pq")]), [dup_item(0x80 | 0x40 | TYPE, 1, TYPE), dup_item(0x40 | CHAR, 1, CHAR)].concat(), pos(&[(TYPE, &[END, END])])]), "position 2 duplicates the streams of position 1"));
    v.push((cont(2, vec![p0(&[DIFF, DIFF], &[0, 1], &[]), pos(&[(TYPE, &[CHAR, CHAR]), (CHAR, b"pq")]), dup_item(0x80 | 0x40 | TYPE, 2, TYPE)]), "duplicate of the position being created (empty stream)"));
    v.push((cont(2, vec![p0(&[DIFF, DIFF], &[0, 1], &[]), pos(&[(TYPE, &[CHAR, CHAR]), (CHAR, b"pq")]), dup_item(0x80 | 0x40 | TYPE, 3, TYPE)]), "duplicate position out of range"));
    v.push((cont(2, vec![p0(&[DIFF, DIFF], &[0, 1], &[]), pos(&[(TYPE, &[CHAR, CHAR]), (CHAR, b"pq")]), dup_item(0x80 | 0x40 | TYPE, 1, MATCH)]), "duplicate of a Match stream: get(Match)"));
    v.push((cont(2, vec![p0(&[DIFF, DIFF], &[0, 1], &[]), pos(&[(TYPE, &[CHAR, CHAR]), (CHAR, b"pq")]), dup_item(0x80 | 0x40 | TYPE, 1, 13)]), "duplicate of an invalid type"));
    v.push((cont(2, vec![p0(&[DIFF, DIFF], &[0, 1], &[]), pos(&[(TYPE, &[CHAR, CHAR]), (CHAR, b"pq")]), dup_item(0x80 | 0x40 | TYPE, 1, DZLEN)]), "duplicate of DZLen"));
    v.push((cont(2, vec![p0(&[DIFF, DIFF], &[0, 1], &[]), pos(&[(TYPE, &[CHAR, CHAR]), (CHAR, b"pq")]), dup_item(0x80 | 0x40 | TYPE, 1, 0x80 | 0x40 | CHAR), pos(&[(TYPE, &[END, END])])]), "duplicate: char stream as type stream (flags of the type byte masked)"));
    v.push((cont(2, vec![p0(&[DIFF, DIFF], &[0, 1], &[]), pos(&[(TYPE, &[CHAR, CHAR]), (CHAR, b"pq")]), [dup_item(0x80 | 0x40 | CHAR, 1, CHAR)].concat(), pos(&[(TYPE, &[END, END])])]), "implicit type stream + duplicate"));
    // lengths
    let padded = |pad: u8| Cont { items: vec![p0_diff0.clone(), vec![Item { ttype: 0x80, body: Body::Payload(vec![END], pad) }]].concat(), ..cont(1, vec![]) };
    for total in 2..=6 {
        v.push((padded(total), "length with redundant leading 0x80 bytes (6 bytes: too long)"));
    }
    // tails
    for tail in [vec![0x80u8], vec![0x00], vec![0x0d], vec![0x3f], vec![0x40], vec![0x40, 0x00], vec![0xc1], vec![0x01, 0x80], vec![0x01, 0x80, 0x80, 0x80, 0x80], vec![0x01, 0x80, 0x80, 0x80, 0x80, 0x80], vec![0x01, 0x80, 0x80, 0x80, 0x80, 0x80, 0x00], vec![0x01, 0x05, 1, 2, 3], vec![0x01, 0xff, 0xff, 0xff, 0xff, 0x7f]] {
        let mut c = cont(1, vec![p0_diff0.clone(), end.clone()]);
        c.tail = tail;
        v.push((c, "valid container followed by a broken item"));
    }
    // 126 / 127 / 128 tokens in one name
    for k in [126usize, 127, 128] {
        let mut ps = vec![p0_diff0.clone()];
        for _ in 0..k {
            ps.push(pos(&[(TYPE, &[CHAR]), (CHAR, b"c")]));
        }
        ps.push(end.clone());
        v.push((cont(1, ps), "k tokens then end: position 128 is out of range"));
    }
    {
        let mut ps = vec![p0_diff0.clone()];
        for _ in 0..140 {
            ps.push(end.clone());
        }
        v.push((cont(1, ps), "141 positions: more than 128"));
    }
    // the arithmetic coder as inner codec
    let mut c = cont(2, vec![p0(&[DIFF, DIFF], &[0, 1], &[]), pos(&[(TYPE, &[STRING, MATCH]), (STRING, b"name\0")]), pos(&[(TYPE, &[DIGITS, DELTA]), (DIGITS, &le(41)), (DELTA, &[1])]), pos(&[(TYPE, &[END, END])])]);
    c.method = 1;
    v.push((c.clone(), "method 1: arithmetic coder"));
    c.method = 0xff;
    v.push((c, "method 255: arithmetic coder"));
    // implicit type stream with no names (in flux)
    v.push((cont(0, vec![vec![Item { ttype: 0x80 | CHAR, body: Body::Payload(b"x".to_vec(), 0) }]]), "implicit type stream, zero names"));
    v
}

fn gen_tail(rng: &mut Rng) -> Vec<u8> {
    match rng.below(8) {
        0 => vec![rng.next() as u8],
        1 => vec![(rng.below(2) as u8 * 0x80) | rng.below(13) as u8, 0x80],
        2 => vec![0x40 | rng.below(13) as u8, rng.next() as u8],
        3 => vec![rng.below(13) as u8, 0x80, 0x80, 0x80, 0x80, 0x80, 0x00],
        4 => vec![13 + rng.below(51) as u8],
        5 => {
            // declared length beyond the end
            let l = 1 + rng.below(100) as u8;
            let mut t = vec![rng.below(13) as u8, l];
            let k = rng.below(l as u64) as usize;
            t.extend(rng.bytes(k));
            t
        }
        _ => vec![],
    }
}

fn mutate_stream(rng: &mut Rng, ttype: u8, d: &mut Vec<u8>) {
    let is_type = ttype & 0x3f == 0;
    match rng.below(9) {
        0 if !d.is_empty() => {
            let i = rng.below(d.len() as u64) as usize;
            d[i] = if is_type { *rng.pick(&[0u8, 1, 2, 3, 4, 5, 6, 7, 8, 9, 10, 11, 12, 12, 10, 13, 0x47]) } else { rng.next() as u8 };
        }
        1 if !d.is_empty() => {
            let i = rng.below(d.len() as u64) as usize;
            d[i] = d[i].wrapping_add(1);
        }
        2 if !d.is_empty() => {
            let i = rng.below(d.len() as u64) as usize;
            d.remove(i);
        }
        3 => {
            let i = rng.below(d.len() as u64 + 1) as usize;
            d.insert(i, if is_type { rng.below(13) as u8 } else { rng.next() as u8 });
        }
        4 => {
            let k = rng.below(d.len() as u64 + 1) as usize;
            d.truncate(k);
        }
        5 if !d.is_empty() => {
            let i = rng.below(d.len() as u64) as usize;
            d[i] = 0xff;
        }
        6 if !d.is_empty() => {
            let i = rng.below(d.len() as u64) as usize;
            d[i] = 0;
        }
        7 if d.len() >= 2 => {
            let i = rng.below(d.len() as u64 - 1) as usize;
            d.swap(i, i + 1);
        }
        _ => d.push(if is_type { 12 } else { rng.next() as u8 }),
    }
}

/// a structured mutation of a valid container
fn mutate_container(rng: &mut Rng, c: &mut Cont) -> &'static str {
    let kind = rng.below(16);
    let n_items = c.items.len();
    match kind {
        0 | 1 | 2 | 3 | 4 | 5 if n_items > 0 => {
            // corrupt a token stream
            let k = 1 + rng.below(2);
            for _ in 0..k {
                let i = rng.below(n_items as u64) as usize;
                let tt = c.items[i].ttype;
                if let Body::Payload(d, _) = &mut c.items[i].body {
                    mutate_stream(rng, tt, d);
                }
            }
            "stream-bytes"
        }
        6 if n_items > 0 => {
            let i = rng.below(n_items as u64) as usize;
            c.items[i].ttype = match rng.below(6) {
                0 => c.items[i].ttype ^ 0x80,
                1 => (c.items[i].ttype & 0xc0) | rng.below(13) as u8,
                2 => (c.items[i].ttype & 0xc0) | (13 + rng.below(51) as u8),
                3 => 0x80 | rng.below(13) as u8,
                4 => rng.below(13) as u8,
                _ => rng.next() as u8 & 0xbf,
            };
            "item-type-byte"
        }
        7 if n_items > 0 => {
            // turn an item into a duplicate-stream item
            let i = rng.below(n_items as u64) as usize;
            let positions = c.items.iter().filter(|it| it.ttype & 0x80 != 0).count() as u64;
            let p = if rng.chance(4, 5) { rng.below(positions.max(1)) as u8 } else { rng.next() as u8 };
            let t = if rng.chance(4, 5) { *rng.pick(&[0u8, 1, 2, 3, 5, 6, 7, 8, 9]) } else { rng.next() as u8 };
            c.items[i].ttype |= 0x40;
            c.items[i].body = Body::Dup(p, t);
            "duplicate-item"
        }
        8 => {
            c.n = match rng.below(5) {
                0 => 0,
                1 => c.n + 1,
                2 => c.n.saturating_sub(1),
                3 => c.n + 1 + rng.below(40) as u32,
                _ => rng.below(c.n as u64 + 2) as u32,
            };
            "name-count"
        }
        9 => {
            c.method = *rng.pick(&[1u8, 2, 0xff, 0x80]);
            c.ulen = rng.below(1 << 20) as u32;
            "method-and-size"
        }
        10 if n_items > 0 => {
            let i = rng.below(n_items as u64) as usize;
            c.items.remove(i);
            "drop-item"
        }
        11 if n_items > 0 => {
            let i = rng.below(n_items as u64) as usize;
            let it = c.items[i].clone();
            let j = rng.below(n_items as u64 + 1) as usize;
            c.items.insert(j, it);
            "repeat-item"
        }
        12 if n_items > 0 => {
            let k = rng.below(n_items as u64) as usize;
            c.items.truncate(k);
            c.tail = gen_tail(rng);
            "cut-at-item"
        }
        13 => {
            c.tail = gen_tail(rng);
            "tail"
        }
        14 if n_items > 0 => {
            let i = rng.below(n_items as u64) as usize;
            if let Body::Payload(_, pad) = &mut c.items[i].body {
                *pad = 2 + rng.below(5) as u8;
            }
            "length-padding"
        }
        _ => {
            c.hdr_keep = rng.below(9) as usize;
            c.items.clear();
            c.tail.clear();
            "cut-in-header"
        }
    }
}

// ------------------------------------------------------------------------------------------------
// entry points

fn case_rng(ctx: &Ctx, suite: u64, i: u64) -> Rng {
    Rng::new(ctx.seed.wrapping_mul(0x9E37_79B9).wrapping_add(suite << 40).wrapping_add(i))
}

pub fn run(ctx: &mut Ctx) {
    let thorough = ctx.tier_thorough;
    // 1. encoder: hand-written name lists, then generated ones
    let mut valid: Vec<Cont> = vec![];
    for (src, _what) in corpus_names() {
        if let Some(c) = encoder_case(ctx, &src, "corpus", true) {
            decoder_case(ctx, &c, "encoder-output");
            let mut a = c.clone();
            a.method = 1;
            decoder_case(ctx, &a, "encoder-output-recompressed-aac");
            valid.push(c);
        }
    }
    let n_enc = ctx.n(2000, 8000);
    for i in 0..n_enc {
        let mut rng = case_rng(ctx, 1, i);
        let (src, shape) = gen_name_list(&mut rng, thorough);
        if let Some(c) = encoder_case(ctx, &src, shape, true) {
            // the decoder on the encoder's own output, compared exactly
            if i % 2 == 0 {
                decoder_case(ctx, &c, "encoder-output");
            }
            if i % 8 == 1 {
                let mut a = c.clone();
                a.method = 1;
                decoder_case(ctx, &a, "encoder-output-recompressed-aac");
            }
            if c.flat().len() <= 3000 && valid.len() < 600 {
                valid.push(c);
            }
        }
    }
    // 2. decoder: hand-written boundary containers
    for (c, _what) in corpus_containers() {
        decoder_case(ctx, &c, "corpus");
    }
    // 3. decoder: structured mutations of valid containers
    let n_mut = ctx.n(6000, 30000);
    for i in 0..n_mut {
        let mut rng = case_rng(ctx, 2, i);
        if valid.is_empty() {
            break;
        }
        let mut c = rng.pick(&valid).clone();
        let rounds = 1 + rng.below(3);
        let mut kinds = vec![];
        for _ in 0..rounds {
            kinds.push(mutate_container(&mut rng, &mut c));
        }
        for k in &kinds {
            ctx.bump(&format!("tokdec-mutation:{k}"));
        }
        c.normalise();
        decoder_case(ctx, &c, "mutated");
    }
    ctx.sample(|| "c08 tokenc 61623a303132006162 (names ab:012, ab…)".into());
}

pub fn replay(ctx: &mut Ctx, case: &[String]) -> bool {
    match case.first().map(|s| s.as_str()) {
        Some("tokrt") if case.len() >= 2 => {
            let src = case[1].strip_prefix('x').map(unhex).unwrap_or_default();
            if let Some(c) = encoder_case(ctx, &src, "replay", true) {
                decoder_case(ctx, &c, "encoder-output");
            }
            true
        }
        Some("toklaw") => true,
        // the whole suite in this process (development aid): `replay C08 child <dir> tokrun`
        Some("tokrun") => {
            run(ctx);
            true
        }
        _ => false,
    }
}
