//! C06 extension: the LAZY SAM reader at file level — `sam::io::Reader::records()` (`read_record` →
//! `sam::Record`) with every record converted by `RecordBuf::try_from_alignment_record`, against the
//! eager reader (`record_bufs()`) and against the Lean model `lean/Noodles/Sam/LazyFile.lean`
//! (handler `DriverC06Lazy.lean`), over `BufReader` capacities {1,2,7,64,8192}.
//!
//! Correspondence: `c06 lazy <cap> <bytes> <ftab>` → `read_header`'s error class, or
//! `<hdr> <ok|error class of the record loop> <item>*`, one item per `sam::Record` the iterator
//! yielded: the `RecordBuf` it converts to, or the error class of the conversion.
//!
//! Oracle (the property on the real code):
//! * `lazy-file-roundtrip` — a valid header + valid records written by `sam::io::Writer`, read by the
//!   lazy reader and converted, are the records written (integer tags by value); also after LF → CRLF
//!   and without the final newline;
//! * `lazy-file-differs` — on those files lazy and eager return the same header, records, end;
//! * `lazy-file-capacity-dependent` — the lazy answer does not depend on the `BufReader` capacity;
//! * `lazy-file-panic`.
//! On FOREIGN bytes (mutated files, hand-written streams) lazy and eager are allowed to differ (the
//! lazy record validates less, and `00` as POS is an error only there): the outcome is only counted
//! (`lazy_foreign_*`), and compared with the model.

use super::c06::*;
use crate::common::*;
use noodles_sam as sam;
use sam::alignment::io::Write as _;
use sam::alignment::RecordBuf;
use std::io::BufReader;

const CAPS: [usize; 5] = [1, 2, 7, 64, 8192];

fn float_tokens(line: &[u8]) -> Vec<Vec<u8>> {
    let mut out = vec![];
    let upto_tab = |from: usize| -> &[u8] {
        let end = line[from..].iter().position(|&b| b == b'\t').map(|k| from + k).unwrap_or(line.len());
        &line[from..end]
    };
    for i in 0..line.len() {
        if line[i..].starts_with(b":f:") {
            out.push(upto_tab(i + 3).to_vec());
        }
        if line[i..].starts_with(b":B:f,") {
            for t in upto_tab(i + 5).split(|&b| b == b',') {
                out.push(t.to_vec());
            }
        }
    }
    out
}

/// the float library's parse answers for every float token of the lines of `bytes`
/// (grammar of `DriverC06.lean::parseFTab`)
fn ftab(bytes: &[u8]) -> String {
    let mut out = String::from("t");
    let mut toks: Vec<Vec<u8>> = vec![];
    let hx = |b: &[u8]| -> String { b.iter().map(|x| format!("{x:02x}")).collect() };
    for line in bytes.split(|&b| b == b'\n') {
        toks.extend(float_tokens(line));
        if line.last() == Some(&b'\r') {
            toks.extend(float_tokens(&line[..line.len() - 1]));
        }
    }
    toks.sort();
    toks.dedup();
    for t in toks {
        match lex_parse(&t) {
            Some(b) => out.push_str(&format!(",p{}:{}", hx(&t), b)),
            None => out.push_str(&format!(",p{}:x", hx(&t))),
        }
    }
    out
}

fn pclass(p: String) -> String {
    format!("panic:{}", p.replace([' ', '\n', '\t'], "_"))
}

struct LRead {
    hdr: Result<sam::Header, String>,
    items: Vec<Result<RecordBuf, String>>,
    /// the lazy record's POS or PNEXT accessor failed (for the `00` asymmetry histogram)
    pos_err: Vec<bool>,
    err: Option<String>,
}

impl LRead {
    fn answer(&self) -> String {
        match &self.hdr {
            Err(c) => c.clone(),
            Ok(h) => {
                let mut toks = vec![tok_hdr(&from_real_hdr(h)), self.err.clone().unwrap_or_else(|| "ok".into())];
                toks.extend(self.items.iter().map(|r| match r {
                    Ok(r) => tok_rec(&from_real(r)),
                    Err(c) => c.clone(),
                }));
                toks.join(" ")
            }
        }
    }
}

/// `read_header`, then the `records()` iterator to its end or its first `Err`; every `sam::Record`
/// through `RecordBuf::try_from_alignment_record`
fn real_lazy(bytes: &[u8], cap: usize) -> LRead {
    guarded(|| {
        let mut rd = sam::io::Reader::new(BufReader::with_capacity(cap, bytes));
        let h = match rd.read_header() {
            Ok(h) => h,
            Err(e) => return LRead { hdr: Err(errclass(&e).to_string()), items: vec![], pos_err: vec![], err: None },
        };
        let mut items = vec![];
        let mut pos_err = vec![];
        let mut err = None;
        for result in rd.records() {
            match result {
                Ok(rec) => {
                    pos_err.push(matches!(rec.alignment_start(), Some(Err(_))) || matches!(rec.mate_alignment_start(), Some(Err(_))));
                    items.push(RecordBuf::try_from_alignment_record(&h, &rec).map_err(|e| errclass(&e).to_string()));
                }
                Err(e) => {
                    err = Some(errclass(&e).to_string());
                    break;
                }
            }
        }
        LRead { hdr: Ok(h), items, pos_err, err }
    })
    .unwrap_or_else(|p| LRead { hdr: Err(pclass(p)), items: vec![], pos_err: vec![], err: None })
}

/// `read_header`, then the `record_bufs()` iterator to its end or its first `Err`
fn real_eager(bytes: &[u8], cap: usize) -> LRead {
    guarded(|| {
        let mut rd = sam::io::Reader::new(BufReader::with_capacity(cap, bytes));
        let h = match rd.read_header() {
            Ok(h) => h,
            Err(e) => return LRead { hdr: Err(errclass(&e).to_string()), items: vec![], pos_err: vec![], err: None },
        };
        let mut items = vec![];
        let mut err = None;
        for result in rd.record_bufs(&h) {
            match result {
                Ok(rec) => items.push(Ok(rec)),
                Err(e) => {
                    err = Some(errclass(&e).to_string());
                    break;
                }
            }
        }
        LRead { hdr: Ok(h), items, pos_err: vec![], err }
    })
    .unwrap_or_else(|p| LRead { hdr: Err(pclass(p)), items: vec![], pos_err: vec![], err: None })
}

fn norm_items(r: &LRead) -> Vec<Result<MRec, String>> {
    r.items.iter().map(|x| x.as_ref().map(|r| num_norm(&from_real(r))).map_err(|c| c.clone())).collect()
}

/// lazy vs eager as values (header, records by numeric value, end of the loop)
fn same_read(l: &LRead, e: &LRead) -> bool {
    let h = match (&l.hdr, &e.hdr) {
        (Ok(a), Ok(b)) => from_real_hdr(a) == from_real_hdr(b),
        (Err(a), Err(b)) => a == b,
        _ => false,
    };
    h && l.err == e.err && norm_items(l) == norm_items(e)
}

fn to_crlf(b: &[u8]) -> Vec<u8> {
    let mut out = Vec::with_capacity(b.len() + 16);
    for &x in b {
        if x == b'\n' {
            out.push(b'\r');
        }
        out.push(x);
    }
    out
}

fn mutate(rng: &mut Rng, b: &[u8]) -> Vec<u8> {
    let mut v = b.to_vec();
    for _ in 0..1 + rng.below(3) {
        let special = *rng.pick(&[b'\n', b'\r', b'\t', b'@', b'*', b':', b'\t', b'\r', 0u8, b'A', b'0', b'=', b',', 0x7f, 0x20]);
        let at = if v.is_empty() { 0 } else { rng.below(v.len() as u64 + 1) as usize };
        let at = if !v.is_empty() && rng.chance(1, 2) {
            let nl: Vec<usize> = v.iter().enumerate().filter(|&(_, &x)| x == b'\n' || x == b'\t').map(|(i, _)| i).collect();
            if nl.is_empty() { at } else { (*rng.pick(&nl) + rng.below(3) as usize).min(v.len()) }
        } else {
            at
        };
        match rng.below(4) {
            0 => v.insert(at, special),
            1 if at < v.len() => {
                v.remove(at);
            }
            2 => v.truncate(at),
            _ if at < v.len() => v[at] = special,
            _ => v.push(special),
        }
    }
    v
}

/// one byte string through the lazy reader at every capacity (+ the eager reader once);
/// `want`: the file is writer output (or its CRLF / no-final-newline form) of these records
fn bytes_case(ctx: &mut Ctx, bytes: &[u8], want: Option<&[MRec]>, kind: &str, tag: &str) {
    let ft = ftab(bytes);
    let mut first: Option<String> = None;
    let mut last: Option<LRead> = None;
    for cap in CAPS {
        let got = real_lazy(bytes, cap);
        let ans = got.answer();
        ctx.corr(format!("c06 lazy {} {} {}", cap, hex(bytes), ft), ans.clone());
        ctx.eval(None);
        ctx.bump(&format!("lazy_cap_{cap}"));
        if ans.starts_with("panic") {
            ctx.fail("lazy-file-panic", format!("the lazy sam reader panicked on {}: {ans}", hex(bytes)), tag.into());
        }
        if let Some(f) = &first {
            if *f != ans {
                ctx.fail("lazy-file-capacity-dependent", format!("{} reads differently through BufReader capacities {} and {cap}: {f} vs {ans}", hex(bytes), CAPS[0]), tag.into());
            }
        } else {
            first = Some(ans);
        }
        last = Some(got);
    }
    let lazy = last.unwrap();
    ctx.bump(&format!(
        "lazy_{kind}_outcome_{}",
        match (&lazy.hdr, &lazy.err) {
            (Err(c), _) => format!("header:{}", c.split(':').take(2).collect::<Vec<_>>().join(":")),
            (Ok(_), Some(c)) => format!("records:{c}"),
            (Ok(_), None) => "ok".to_string(),
        }
    ));
    ctx.bump(&format!("lazy_{kind}_records_{}", match lazy.items.len() { 0 => "0", 1 => "1", 2..=3 => "2-3", _ => "4+" }));
    for it in &lazy.items {
        ctx.bump(&format!("lazy_{kind}_item_{}", match it { Ok(_) => "converts", Err(c) => c.as_str() }));
    }
    ctx.bump(&format!("lazy_{kind}_bytes_{}", match bytes.len() { 0 => "0", 1..=99 => "<100", 100..=999 => "<1k", _ => ">=1k" }));
    let eager = real_eager(bytes, 8192);
    let same = same_read(&lazy, &eager);
    match want {
        Some(recs) => {
            ctx.eval(if recs.is_empty() { None } else { Some(fnv(tag.as_bytes()) ^ fnv(kind.as_bytes())) });
            if !same {
                ctx.fail("lazy-file-differs", format!("{kind}: lazy and eager readers differ on a file the writer produced: {} : lazy {} eager {}", hex(bytes), lazy.answer(), eager.answer()), tag.into());
            }
            let ok = lazy.hdr.is_ok() && lazy.err.is_none() && lazy.items.len() == recs.len()
                && lazy.items.iter().zip(recs).all(|(a, b)| matches!(a, Ok(a) if num_norm(&from_real(a)) == num_norm(b)));
            if !ok {
                ctx.fail("lazy-file-roundtrip", format!("{kind}: the written records {} come back through the lazy reader as {}", recs.iter().map(tok_rec).collect::<Vec<_>>().join(" "), lazy.answer()), tag.into());
            }
        }
        None => {
            ctx.eval(None);
            let eager_clean = eager.hdr.is_ok() && eager.err.is_none();
            let key = if same {
                "same".to_string()
            } else if eager_clean {
                // the eager reader accepted every line: where does the lazy one differ?
                let n = norm_items(&lazy);
                let e = norm_items(&eager);
                if lazy.err.is_none() && n.len() == e.len() && n.iter().zip(&e).enumerate().all(|(i, (a, b))| a == b || (a.is_err() && lazy.pos_err[i])) {
                    "eager_ok_lazy_pos00".to_string()
                } else {
                    "eager_ok_lazy_OTHER".to_string()
                }
            } else if lazy.hdr.is_ok() && lazy.err.is_none() && lazy.items.iter().all(|x| x.is_ok()) {
                "lazy_accepts_eager_rejects".to_string()
            } else {
                "both_fail_differently".to_string()
            };
            ctx.bump(&format!("lazy_foreign_{key}"));
        }
    }
}

fn gen_file(sub: u64) -> Option<(sam::Header, Vec<MRec>)> {
    let mut rng = Rng::new(sub ^ 0x1a2_f11e);
    let shape = rng.below(8);
    let mut m = if shape == 0 { MHdr::default() } else { gen_hdr(&mut rng, false) };
    m.sq.truncate(*rng.pick(&[2usize, 6, 12]));
    m.co.retain(|c| !c.contains(&b'\n') && c.last() != Some(&b'\r'));
    m.sq.retain(|(_, l, _)| *l <= (1 << 31) - 1);
    if hdr_invalid(&m).is_some() {
        m = MHdr::default();
    }
    let n = if shape == 1 { 0 } else { *rng.pick(&[1usize, 1, 2, 3, 5]) };
    let mut recs = vec![];
    let mut tries = 0;
    while recs.len() < n && tries < 400 {
        tries += 1;
        let r = gen_rec(&mut rng, m.sq.len(), false);
        let small = r.cigar.len() <= 24 && r.seq.len() <= 200 && r.data.len() <= 6 && r.data.iter().all(|(_, v)| match v {
            MVal::Str(s) | MVal::Hex(s) => s.len() <= 120,
            MVal::IArr(_, l) => l.len() <= 40,
            MVal::FArr(l) => l.len() <= 40,
            _ => true,
        });
        if small && sam_invalid(&r, m.sq.len()).is_none() {
            recs.push(r);
        }
    }
    let h = to_real_hdr(&m)?;
    Some((h, recs))
}

fn write_file(h: &sam::Header, recs: &[MRec]) -> Option<Vec<u8>> {
    guarded(|| -> Option<Vec<u8>> {
        let mut w = sam::io::Writer::new(Vec::new());
        w.write_header(h).ok()?;
        for r in recs {
            w.write_alignment_record(h, &to_real(r)).ok()?;
        }
        Some(w.into_inner())
    })
    .ok()
    .flatten()
}

fn file_case(ctx: &mut Ctx, h: &sam::Header, recs: &[MRec], rng: &mut Rng, tag: &str) {
    let Some(text) = write_file(h, recs) else {
        ctx.bump("lazy_file_writer_refused");
        return;
    };
    bytes_case(ctx, &text, Some(recs), "lf", tag);
    bytes_case(ctx, &to_crlf(&text), Some(recs), "crlf", tag);
    if text.last() == Some(&b'\n') {
        bytes_case(ctx, &text[..text.len() - 1], Some(recs), "nofinal", tag);
        // the CRLF form without its final LF ends in a bare CR: foreign
        let c = to_crlf(&text);
        bytes_case(ctx, &c[..c.len() - 1], None, "crlf_nofinal", tag);
    }
    let mut blank = text.clone();
    blank.push(b'\n');
    bytes_case(ctx, &blank, None, "blank", tag);
    for _ in 0..2 {
        let m = mutate(rng, &text);
        bytes_case(ctx, &m, None, "mutated", tag);
    }
}

fn corpus_files() -> Vec<(sam::Header, Vec<MRec>)> {
    let un = |name: Option<&[u8]>| MRec { name: name.map(|n| n.to_vec()), flags: 4, rid: None, pos: 0, mapq: 255, cigar: vec![], mrid: None, mpos: 0, tlen: 0, seq: vec![], qual: vec![], data: vec![] };
    let r0 = MRec { name: Some(b"r0".to_vec()), flags: 99, rid: Some(0), pos: 1, mapq: 60, cigar: vec![('M', 4)], mrid: Some(0), mpos: 5, tlen: -3, seq: b"ACGT".to_vec(), qual: vec![30, 31, 32, 93], data: vec![(*b"NH", MVal::Int('C', 1))] };
    let mut r1 = r0.clone();
    r1.mrid = Some(1);
    r1.data = vec![(*b"XB", MVal::IArr('c', vec![])), (*b"XZ", MVal::Str(b"a b".to_vec())), (*b"XI", MVal::Int('I', 4294967295))];
    let mut r2 = r0.clone();
    r2.seq = b"ACGT".to_vec();
    r2.qual = vec![];
    r2.data = vec![];
    let sq = MHdr { hd: Some((1, 6, vec![])), sq: vec![(b"sq0".to_vec(), 8, vec![]), (b"sq1".to_vec(), 13, vec![])], rg: vec![], pg: vec![], co: vec![] };
    let mut out = vec![];
    for (m, recs) in [
        (MHdr::default(), vec![]),
        (MHdr::default(), vec![un(None)]),
        (MHdr::default(), vec![un(Some(b"a")), un(None), un(Some(b"*a"))]),
        (sq.clone(), vec![]),
        (sq.clone(), vec![r0.clone()]),
        (sq.clone(), vec![r0.clone(), r1.clone(), r2.clone(), un(Some(b"u"))]),
        (sq.clone(), vec![r2.clone(), r1.clone()]),
    ] {
        if let Some(h) = to_real_hdr(&m) {
            out.push((h, recs));
        }
    }
    out
}

/// hand-written streams: the places where the lazy reader decides differently from the eager one
fn corpus_streams() -> Vec<Vec<u8>> {
    let hdr = b"@SQ\tSN:sq0\tLN:8\n@SQ\tSN:sq1\tLN:9\n";
    let rec = b"*\t4\t*\t0\t255\t*\t*\t0\t0\t*\t*";
    let lines: Vec<&[u8]> = vec![
        // the witnesses of Props/C06Lazy.lean
        b"r\t0\tsq0\t00\t1\t*\t*\t0\t0\t*\t*\n",
        b"r\t0\tsq0\t1\t1\t*\t*\t00\t0\t*\t*\n",
        b"\t4\t*\t0\t255\t*\t*\t0\t0\t*\t*\n",
        b"r\t4\t*\t0\t255\t\t*\t0\t0\t\t\n",
        b"r\t4\t*\t0\t255\t*\t*\t0\t0\tAC\t!!!\n",
        b"r\t4\t*\t0\t255\t*\t*\t0\t0\tAC\t!\x7f\n",
        b"r\t4\t*\t0\t255\t*\t*\t0\t0\tAC\t! \n",
        b"r\t4\t*\t0\t255\t*\t*\t0\t0\t*\t*\tNH:i:1\tNH:i:2\tXA:Z:x\n",
        b"r\t4\t*\t0\t255\t*\t*\t0\t0\t*\t*\tXZ:Z:\x01\tXH:H:zz\n",
        b"r\t4",
        b"r\t4\t*\t0\t255\t*\t*\t0\t0\t*",
        b"r\t4\t*\t0\t255\t*\t*\t0\t0\t*\t",
        b"r\t4\t*\t0\t255\t*\t*\t0\t0\t*\t*\t",
        b"r\t4\t*\t0\t255\t*\t*\t0\t0\t*\t*\tNH:i:",
        b"r\t4\t*\t0\t255\t*\t*\t0\t0\t*\t*\tNH",
        // short lines before another line, 10 columns, 12+ columns
        b"r\t4\n",
        b"r\t4\t*\t0\t255\t*\t*\t0\t0\t*\n*\t4\t*\t0\t255\t*\t*\t0\t0\t*\t*\n",
        b"r\t4\t*\t0\t255\t*\t*\t0\t0\t*\t*\tNH:i:1\n",
        b"r\t4\t*\t0\t255\t*\t*\t0\t0\t*\t*\tNH:i:1\tXB:B:c\tXF:f:1.5\tXG:B:f,1,2.5\n",
        b"r\t4\t*\t0\t255\t*\t*\t0\t0\t*\t*\t\n",
        b"r\t4\t*\t0\t255\t*\t*\t0\t0\t*\t*\t\tNH:i:1\n",
        // CR placement
        b"r\t4\t*\t0\t255\t*\t*\t0\t0\t*\t*\r\n",
        b"r\t4\t*\t0\t255\t*\t*\t0\t0\t*\t*\r",
        b"r\t4\t*\t0\t255\t*\t*\t0\t0\tAC\t!!\r\t\n",
        b"r\t4\t*\t0\t255\t*\t*\t0\t0\tAC\r\t\n",
        b"r\t4\t*\t0\t255\t*\t*\t0\t0\t*\t*\t\r\n",
        b"r\t4\t*\t0\t255\t*\t*\t0\t0\t*\t*\tNH:i:1\r\n",
        b"r\t4\t*\t0\t255\t*\t*\t0\t0\t*\t*\r\r\n",
        b"r\r\t4\t*\t0\t255\t*\t*\t0\t0\t*\t*\n",
        b"r\t4\r\n*\t4\t*\t0\t255\t*\t*\t0\t0\t*\t*\n",
        // mate '=' / reference lookups / number syntax
        b"r\t0\tsq1\t3\t7\t2M\t=\t5\t-2\tAC\t!!\n",
        b"r\t0\t*\t0\t255\t*\t=\t0\t0\t*\t*\n",
        b"r\t0\tnope\t0\t255\t*\t*\t0\t0\t*\t*\n",
        b"r\t0\tsq0\t0\t255\t*\tnope\t0\t0\t*\t*\n",
        b"r\t0\t=\t0\t255\t*\t=\t0\t0\t*\t*\n",
        b"r\t65535\tsq0\t+1\t0255\t1M1X\tsq1\t01\t+5\tAC\t*\n",
        b"r\t65536\tsq0\t1\t1\t*\t*\t0\t0\t*\t*\n",
        b"r\t\tsq0\t1\t1\t*\t*\t0\t0\t*\t*\n",
        b"r\t0\tsq0\t\t1\t*\t*\t0\t0\t*\t*\n",
        b"r\t0\tsq0\t1\t256\t*\t*\t0\t0\t*\t*\n",
        b"r\t0\tsq0\t1\t1\t1M2\t*\t0\t0\t*\t*\n",
        b"r\t0\tsq0\t1\t1\t1Q\t*\t0\t0\t*\t*\n",
        b"r\t0\tsq0\t1\t1\t*\t*\t0\t2147483648\t*\t*\n",
        b"r\t0\tsq0\t18446744073709551616\t1\t*\t*\t0\t0\t*\t*\n",
        b"r\t0\tsq0\t1\t1\t*\t*\t0\t0\t**\t*\n",
        b"r\t0\tsq0\t1\t1\t*\t*\t0\t0\t*\t**\n",
        b"**\t0\tsq0\t1\t1\t*\t*\t0\t0\t*\t*\n",
        b"r\t0\tsq0\t1\t1\t*\t*\t0\t0\t*\t*\tXI:i:2147483648\tXJ:i:-2147483648\tXK:i:4294967296\n",
        b"r\t0\tsq0\t1\t1\t*\t*\t0\t0\t*\t*\tXA:A:\n",
        b"\n",
        b"\r\n",
        b"",
    ];
    let mut v = vec![];
    for l in lines {
        let mut s = hdr.to_vec();
        s.extend_from_slice(l);
        v.push(s.clone());
        // the same line after a good record
        let mut t = hdr.to_vec();
        t.extend_from_slice(rec);
        t.push(b'\n');
        t.extend_from_slice(l);
        v.push(t);
        // … and before one
        s.extend_from_slice(rec);
        s.push(b'\n');
        v.push(s);
    }
    // an over-long line (crosses every buffer capacity but 8192; and one that crosses that too)
    for n in [300usize, 2800] {
        let mut s = hdr.to_vec();
        s.extend_from_slice(b"r\t4\t*\t0\t255\t*\t*\t0\t0\t");
        s.extend(std::iter::repeat(b'A').take(n));
        s.push(b'\t');
        s.extend(std::iter::repeat(b'#').take(n));
        s.extend_from_slice(b"\tXZ:Z:");
        s.extend(std::iter::repeat(b'z').take(n));
        s.extend_from_slice(b"\r\n");
        s.extend_from_slice(rec);
        v.push(s);
    }
    v
}

pub fn replay(ctx: &mut Ctx, case: &[String]) -> bool {
    let sub: u64 = case.get(1).and_then(|s| s.parse().ok()).unwrap_or(0);
    match case.first().map(|s| s.as_str()) {
        Some("lfile") => {
            if let Some((h, recs)) = gen_file(sub) {
                file_case(ctx, &h, &recs, &mut Rng::new(sub ^ 0x99), &format!("lfile {sub}"));
            }
            true
        }
        Some("corpus-lfile") => {
            if let Some((h, recs)) = corpus_files().get(sub as usize) {
                file_case(ctx, h, recs, &mut Rng::new(sub ^ 0x99), &format!("corpus-lfile {sub}"));
            }
            true
        }
        Some("corpus-lstream") => {
            if let Some(b) = corpus_streams().get(sub as usize) {
                bytes_case(ctx, b, None, "stream", &format!("corpus-lstream {sub}"));
            }
            true
        }
        _ => false,
    }
}

pub fn run(ctx: &mut Ctx) {
    for (i, (h, recs)) in corpus_files().iter().enumerate() {
        file_case(ctx, h, recs, &mut Rng::new(i as u64 ^ 0x99), &format!("corpus-lfile {i}"));
    }
    for (i, b) in corpus_streams().iter().enumerate() {
        bytes_case(ctx, b, None, "stream", &format!("corpus-lstream {i}"));
    }
    let seed = ctx.seed;
    let n = ctx.n(40, 3_000);
    for it in 0..n {
        let sub = seed.wrapping_mul(6_200_003).wrapping_add(it);
        if let Some((h, recs)) = gen_file(sub) {
            file_case(ctx, &h, &recs, &mut Rng::new(sub ^ 0x99), &format!("lfile {sub}"));
        } else {
            ctx.bump("lazy_file_header_not_representable");
        }
    }
}
