//! C13 companion — an indexed consumer on a cut (or damaged) BGZF file: read `warm` bytes, `seek` to a
//! virtual position `(c, up)`, read to the end with a buffer of `rbuf` bytes.
//!
//! Correspondence: `c13 seekcut <k> <warm> <c> <up> <rbuf> <filehex> <table>` — the real
//! `bgzf::io::Reader` over `file[..k]` against the Lean model (`Noodles/Bgzf/SeekCut.lean`); the
//! answer carries the delivered bytes, how the stream ended, `virtual_position()` right after the
//! seek and after the last read, and the position of the inner cursor. The model's DEFLATE is the
//! table of the real library's answers for every frame the reader can reach.
//! Oracle (c a member start of the written file): what is delivered after a successful seek is what
//! was WRITTEN at that position, no more of it than the whole members of the cut file hold, and a
//! clean end of input only after all of that; never a panic.
use crate::common::*;
use crate::props::c01::{gen_payload, raw_inflate, split_members, EOF};
use crate::props::c13::{avail, bgzf_with_flushes, member_table, End};
use noodles_bgzf as bgzf;
use std::collections::HashMap;
use std::io::{BufRead, Read};

fn end_txt(e: &End) -> String {
    match e {
        End::Eof => "eof".into(),
        End::Err(c) => (*c).into(),
        End::Panic(_) => "panic".into(),
    }
}

/// The real reader on `pre`. Returns (answer line, None for a seek error | Some((bytes, end))); a
/// panic is (`panic`, Some(([], End::Panic))).
/// how the data after the seek is read
#[derive(Clone, Copy, PartialEq, Eq)]
enum Mode {
    /// `read` with an `rbuf`-byte buffer until `Ok(0)` or an error
    Read,
    /// `fill_buf` + `consume(min(rbuf, len))` (a `BufRead` consumer)
    Fill,
    /// `read_exact` into an `rbuf`-byte buffer until it fails (a record reader)
    Exact,
}

fn real_seekcut(pre: &[u8], warm: usize, c: u64, up: u16, rbuf: usize, mode: Mode) -> (String, Option<(Vec<u8>, End)>) {
    let data = pre.to_vec();
    let r = guarded(move || -> (String, Option<(Vec<u8>, End)>) {
        let mut r = bgzf::io::Reader::new(std::io::Cursor::new(data));
        let mut w = vec![0u8; warm];
        let _ = r.read(&mut w);
        let vpos = bgzf::VirtualPosition::try_from((c, up)).unwrap();
        match r.seek(vpos) {
            Err(e) => {
                let (vc, vu) = <(u64, u16)>::from(r.virtual_position());
                (format!("seekerr:{} vp={},{} ip={}", errclass(&e), vc, vu, r.get_ref().position()), None)
            }
            Ok(_) => {
                let (c1, u1) = <(u64, u16)>::from(r.virtual_position());
                let mut out = vec![];
                let mut buf = vec![0u8; rbuf];
                let end = if mode == Mode::Exact {
                    loop {
                        match r.read_exact(&mut buf) {
                            Ok(()) => {
                                out.extend_from_slice(&buf);
                                if out.len() > 600_000 {
                                    break End::Eof;
                                }
                            }
                            Err(e) => break End::Err(errclass(&e)),
                        }
                    }
                } else if mode == Mode::Fill {
                    loop {
                        match r.fill_buf() {
                            Ok(b) if b.is_empty() => break End::Eof,
                            Ok(b) => {
                                let n = b.len().min(rbuf);
                                out.extend_from_slice(&b[..n]);
                                r.consume(n);
                                if out.len() > 600_000 {
                                    break End::Eof;
                                }
                            }
                            Err(e) => break End::Err(errclass(&e)),
                        }
                    }
                } else {
                    loop {
                        match r.read(&mut buf) {
                            Ok(0) => break End::Eof,
                            Ok(n) => {
                                out.extend_from_slice(&buf[..n]);
                                if out.len() > 600_000 {
                                    break End::Eof;
                                }
                            }
                            Err(e) => break End::Err(errclass(&e)),
                        }
                    }
                };
                let (c2, u2) = <(u64, u16)>::from(r.virtual_position());
                let ans = format!("{} {} vp={},{} vpe={},{} ip={}", hex(&out), end_txt(&end), c1, u1, c2, u2, r.get_ref().position());
                (ans, Some((out, end)))
            }
        }
    });
    match r {
        Ok(x) => x,
        Err(p) => ("panic".into(), Some((vec![], End::Panic(p)))),
    }
}

fn entry(cdata: &[u8], isize: usize) -> String {
    let d = raw_inflate(cdata, isize);
    format!("{}:{}:{}:{}", crc32(cdata), cdata.len(), isize, d.map(|d| hex(&d)).unwrap_or("!".into()))
}

/// One (possibly damaged) file under test + the member layout of the ORIGINAL written file.
struct Subject {
    file: Vec<u8>,
    fhex: String,
    /// table entries of the whole members of the complete file (as `inf_table` of c13.rs)
    whole: Vec<String>,
    /// frame at offset o of the file: (block size, table entry if isize <= 65536)
    frames: HashMap<usize, (usize, Option<String>)>,
    starts: Vec<usize>,
    ends: Vec<usize>,
    uends: Vec<usize>,
}

impl Subject {
    /// `file`: what the reader sees (before the cut); `orig`: the written file whose layout judges
    fn new(file: Vec<u8>, orig: &[u8]) -> Subject {
        let (ends, uends) = member_table(orig);
        let mut starts = vec![0usize];
        starts.extend(ends.iter().copied());
        let mut whole = vec![];
        if let Ok(ms) = split_members(&file) {
            for m in &ms {
                if (m.isize as usize) <= 65536 {
                    whole.push(entry(m.cdata, m.isize as usize));
                }
            }
        }
        let fhex = hex(&file);
        Subject { file, fhex, whole, frames: HashMap::new(), starts, ends, uends }
    }

    fn chain(&mut self, k: usize, mut o: usize, into: &mut Vec<String>) {
        for _ in 0..64 {
            if o + 18 > k {
                return;
            }
            let bs = u16::from_le_bytes([self.file[o + 16], self.file[o + 17]]) as usize + 1;
            if bs < 26 || o + bs > k {
                return;
            }
            if !self.frames.contains_key(&o) {
                let f = &self.file;
                let cdata = &f[o + 18..o + bs - 8];
                let isize = u32::from_le_bytes(f[o + bs - 4..o + bs].try_into().unwrap()) as usize;
                let e = if isize <= 65536 { Some(entry(cdata, isize)) } else { None };
                self.frames.insert(o, (bs, e));
            }
            if let Some((_, Some(e))) = self.frames.get(&o) {
                if !into.contains(e) {
                    into.push(e.clone());
                }
            }
            o += bs;
        }
    }

    fn table(&mut self, k: usize, c: usize) -> String {
        let mut v: Vec<String> = vec![];
        for e in &self.whole {
            if !v.contains(e) {
                v.push(e.clone());
            }
        }
        self.chain(k, 0, &mut v);
        self.chain(k, c, &mut v);
        if v.is_empty() { "-".into() } else { v.join(",") }
    }

    fn member_at(&self, c: usize) -> Option<usize> {
        self.starts.iter().position(|&s| s == c)
    }
    fn ubase(&self, mi: usize) -> usize {
        if mi == 0 { 0 } else { self.uends[mi - 1] }
    }
    /// inflated size of the member starting at c (0 if none)
    fn dlen_at(&self, c: usize) -> usize {
        match self.member_at(c) {
            Some(mi) if mi < self.uends.len() => self.uends[mi] - self.ubase(mi),
            _ => 0,
        }
    }
}

fn bucket(n: usize) -> &'static str {
    match n {
        0..=63 => "<64",
        64..=127 => "64-127",
        128..=255 => "128-255",
        256..=511 => "256-511",
        _ => ">=512",
    }
}

/// one request: correspondence + histogram (+ the panic oracle, which needs no layout)
#[allow(clippy::too_many_arguments)]
fn request(ctx: &mut Ctx, suite: &str, s: &mut Subject, written: Option<&[u8]>, k: usize, warm: usize, c: usize, up: u16, rbuf: usize, case: &str) -> (String, Option<(Vec<u8>, End)>) {
    let table = s.table(k, c);
    // the same position through the BufRead interface (fill_buf + consume): correspondence; whether it
    // agrees with what `read` delivers is only counted (the model and the theorems cover both)
    let fill_res = if rbuf <= 4096 {
        let (fans, fres) = real_seekcut(&s.file[..k], warm, c as u64, up, rbuf, Mode::Fill);
        ctx.corr(format!("c13 seekcutf {k} {warm} {c} {up} {rbuf} {} {table}", s.fhex), fans.clone());
        ctx.bump("seek:mode:fill_buf");
        if let Some(pl) = written {
            judge(ctx, s, pl, k, warm, c, up, rbuf, &fans, &fres, case, "fill_buf");
        }
        Some((fans, fres))
    } else {
        None
    };
    // a record reader: read_exact in rbuf-byte records (fast path, default_read_exact, and inside it the
    // direct path when rbuf >= 64 KiB)
    {
        let (xans, xres) = real_seekcut(&s.file[..k], warm, c as u64, up, rbuf, Mode::Exact);
        ctx.corr(format!("c13 seekcutx {k} {warm} {c} {up} {rbuf} {} {table}", s.fhex), xans.clone());
        ctx.bump("seek:mode:read_exact");
        match &xres {
            Some((_, End::Panic(p))) => ctx.fail("panic:bgzf", format!("bgzf reader panicked in read_exact after a seek to ({c}, {up}) (after reading {warm} bytes, records of {rbuf}) on a file cut at {k}: {p}"), case.to_string()),
            Some((got, end)) => ctx.bump(&format!("seek:exact:{}:{}", if got.is_empty() { "nothing" } else { "records" }, end_txt(end))),
            None => {}
        }
        if let Some(pl) = written {
            judge(ctx, s, pl, k, warm, c, up, rbuf, &xans, &xres, case, "read_exact");
        }
    }
    let (ans, res) = real_seekcut(&s.file[..k], warm, c as u64, up, rbuf, Mode::Read);
    ctx.corr(format!("c13 seekcut {k} {warm} {c} {up} {rbuf} {} {table}", s.fhex), ans.clone());
    ctx.bump("seek:mode:read");
    if let Some((fans, fres)) = fill_res {
        // bytes and end must agree between the two interfaces (positions may differ only through the
        // direct path, which rbuf <= 4096 never takes)
        if fans != ans {
            let same = match (&fres, &res) {
                (Some((a, ea)), Some((b, eb))) => a == b && ea == eb,
                (None, None) => true,
                _ => false,
            };
            ctx.bump(if same { "seek:fill-vs-read:same-data-other-position" } else { "seek:fill-vs-read:DIFFERENT" });
        } else {
            ctx.bump("seek:fill-vs-read:identical");
        }
    }
    let kind = match &res {
        None => ans.split(' ').next().unwrap_or("seekerr:?").to_string(),
        Some((_, End::Panic(_))) => "panic".to_string(),
        Some((got, end)) => format!("{}:{}", if got.is_empty() { "nothing" } else { "data" }, end_txt(end)),
    };
    ctx.bump(&format!("seek:ans:{kind}"));
    let wh = match s.member_at(c) {
        None => "garbage",
        Some(mi) => {
            if c == s.file.len() && k == s.file.len() {
                "at-eof-of-full-file"
            } else if mi < s.ends.len() && s.ends[mi] <= k {
                "before-cut"
            } else if c >= k {
                "after-cut"
            } else if k - c < 18 {
                "cut-member-hdr"
            } else {
                "cut-member-body"
            }
        }
    };
    ctx.bump(&format!("seek:where:{wh}"));
    let dlen = s.dlen_at(c);
    let upn = up as usize;
    ctx.bump(&format!("seek:up:{}", if upn == 0 { "0" } else if upn < dlen { "inside" } else if upn == dlen { "at-end" } else { "beyond" }));
    ctx.bump(&format!("seek:rbuf:{rbuf}"));
    ctx.bump(&format!("seek:warm:{warm}"));
    ctx.bump(&format!("seek:suite:{suite}"));
    ctx.bump(&format!("seek:filelen:{}", bucket(s.file.len())));
    if let Some((_, End::Panic(p))) = &res {
        ctx.fail("panic:bgzf", format!("bgzf reader panicked in a seek to ({c}, {up}) (after reading {warm} bytes, read buffer {rbuf}) on a file cut at {k}: {p}"), case.to_string());
    }
    (ans, res)
}

/// the seek oracle of `bgzf_seek_cuts` (c13.rs) on one answer; `s.file` must be the written file
#[allow(clippy::too_many_arguments)]
fn judge(ctx: &mut Ctx, s: &Subject, payload: &[u8], k: usize, warm: usize, c: usize, up: u16, rbuf: usize, ans: &str, res: &Option<(Vec<u8>, End)>, case: &str, tag: &str) {
    let Some(mi) = s.member_at(c) else { return };
    ctx.eval(if s.ends.len() >= 3 { Some(fnv(format!("{case} seek {tag} {k} {mi} {up} {warm} {rbuf}").as_bytes())) } else { None });
    match res {
        None => {
            let class = ans.split(' ').next().unwrap_or("").strip_prefix("seekerr:").unwrap_or("?").to_string();
            ctx.bump(&format!("seek:seek-error:{class}"));
        }
        Some((_, End::Panic(_))) => {} // reported by `request`
        Some((got, end)) => {
            let (u, _) = avail(&s.ends, &s.uends, k);
            let at = s.ubase(mi) + up as usize;
            let want = payload.get(at..).unwrap_or(&[]);
            if got.len() > want.len() || got[..] != want[..got.len()] {
                ctx.fail("fabricated:bgzf", format!("bgzf reader on a file cut at {k}: after a seek to ({c}, {up}) (after reading {warm} bytes, {tag} with buffer {rbuf}) it delivered {} bytes that are not the bytes written at that position", got.len()), case.to_string());
            } else if at + got.len() > u.max(at) {
                ctx.fail("fabricated:bgzf", format!("bgzf reader on a file cut at {k}: after a seek to ({c}, {up}) (after reading {warm} bytes, {tag} with buffer {rbuf}) it delivered {} bytes, more than whole members of the cut file hold", got.len()), case.to_string());
            } else if *end == End::Eof && at < u && got.len() < u - at {
                ctx.fail("lost:bgzf", format!("bgzf reader on a file cut at {k}: after a seek to ({c}, {up}) (after reading {warm} bytes, {tag} with buffer {rbuf}) a clean end of input after {} bytes although whole members hold {} more", got.len(), u - at), case.to_string());
            } else {
                ctx.bump(&format!("seek:oracle-ok:{}:{}", if got.is_empty() { "nothing" } else { "data" }, end_txt(end)));
            }
        }
    }
}

// ------------------------------------------------------------------ A: corpus

fn strip_eof(mut v: Vec<u8>) -> Vec<u8> {
    assert!(v.len() >= 28 && v[v.len() - 28..] == EOF, "written file must end with the EOF marker");
    v.truncate(v.len() - 28);
    v
}

fn corpus(ctx: &mut Ctx) {
    let case = "seekcorpus";
    // ---- A1: the EOF marker alone
    {
        let f = EOF.to_vec();
        let mut s = Subject::new(f.clone(), &f);
        for k in 0..=f.len() {
            for c in [0usize, 28, 5, 100] {
                for up in [0u16, 1] {
                    for (warm, rbuf) in [(0usize, 4096usize), (1, 7)] {
                        let (ans, res) = request(ctx, "A1", &mut s, Some(&[]), k, warm, c, up, rbuf, case);
                        judge(ctx, &s, &[], k, warm, c, up, rbuf, &ans, &res, case, "read");
                    }
                }
            }
        }
    }
    // ---- A2: an EMPTY member in the middle: M1 EOF M2 EOF, payload "abcde"
    {
        let m1 = strip_eof(bgzf_with_flushes(b"abc", &[], 6));
        let m2 = strip_eof(bgzf_with_flushes(b"de", &[], 0));
        let f = [m1.clone(), EOF.to_vec(), m2, EOF.to_vec()].concat();
        let payload = b"abcde";
        let mut s = Subject::new(f.clone(), &f);
        let start_m2 = m1.len() + 28;
        let mut cs = s.starts.clone();
        cs.push(start_m2 + 1);
        cs.push(start_m2 + 18);
        let rot = [(0usize, 4096usize), (1, 7), (70000, 70000), (2, 1), (0, 65536), (65536, 65535)];
        for k in 0..=f.len() {
            for (ci, &c) in cs.iter().enumerate() {
                let dl = s.dlen_at(c);
                for (ui, up) in [0usize, 1, dl, dl + 1].into_iter().enumerate() {
                    let (warm, rbuf) = rot[(k + ci + ui) % 6];
                    let (ans, res) = request(ctx, "A2", &mut s, Some(payload), k, warm, c, up as u16, rbuf, case);
                    judge(ctx, &s, payload, k, warm, c, up as u16, rbuf, &ans, &res, case, "read");
                }
            }
        }
    }
    // ---- A3: malformed second member (no oracle: the file is not the written one)
    {
        let f = bgzf_with_flushes(b"hello world", &[5], 1);
        let (ends, _) = member_table(&f);
        let (a, b) = (ends[0], ends[1]); // member 2 = f[a..b]
        let true_isize = u32::from_le_bytes(f[b - 4..b].try_into().unwrap());
        let mut variants: Vec<Vec<u8>> = vec![];
        let mut var = |edit: &dyn Fn(&mut Vec<u8>)| {
            let mut v = f.clone();
            edit(&mut v);
            variants.push(v);
        };
        var(&|v| { v[a + 16] = 0x18; v[a + 17] = 0x00; });                                  // (a) block size 25 < 26
        var(&|v| v[a] = 0x1e);                                                               // (b) magic
        var(&|v| v[b - 4..b].copy_from_slice(&0x0001_0001u32.to_le_bytes()));                // (c) ISIZE 65537
        var(&|v| v[b - 8] ^= 0xff);                                                          // (d) CRC32
        var(&|v| { v[a + 18] ^= 0xff; v[a + 19] ^= 0x55; });                                 // (e) cdata
        var(&|v| v[a + 3] = 0);                                                              // (f) FLG
        var(&|v| v[a + 12] = 0x41);                                                          // (g) SI1
        var(&|v| v[a + 4..a + 8].copy_from_slice(&[0xff; 4]));                               // (h) MTIME: still accepted
        var(&|v| v[b - 4..b].copy_from_slice(&(true_isize.wrapping_sub(1)).to_le_bytes()));  // (i) ISIZE one short
        // the same damage in member 1, which the warm-up read hits (with warm = 70000: on the direct path,
        // `parse_block_into_buf`); a following seek to offset 1 fails before it touches the block, so
        // `vp=` shows the block as the failed warm-up read left it
        let true_isize1 = u32::from_le_bytes(f[a - 4..a].try_into().unwrap());
        var(&|v| v[a - 8] ^= 0xff);                                                          // (j) CRC32 of member 1
        var(&|v| v[a - 4..a].copy_from_slice(&(true_isize1.wrapping_sub(1)).to_le_bytes())); // (k) ISIZE of member 1 one short
        var(&|v| { v[18] ^= 0xff; v[19] ^= 0x55; });                                         // (l) cdata of member 1
        var(&|v| v[a - 4..a].copy_from_slice(&0x0001_0001u32.to_le_bytes()));                // (m) ISIZE of member 1 65537
        for v in variants {
            let len = v.len();
            let mut s = Subject::new(v, &f);
            let mut cs = s.starts.clone();
            cs.push(1);
            for k in [20usize, len - 1, len] {
                for &c in &cs {
                    for up in [0u16, 1] {
                        for (warm, rbuf) in [(0usize, 4096usize), (1, 3), (70000, 70000)] {
                            request(ctx, "A3", &mut s, None, k, warm, c, up, rbuf, case);
                        }
                    }
                }
            }
        }
    }
    // ---- A4: a whole BGZF file as STORED data of a member: a valid frame starts inside the cdata
    {
        let p = bgzf_with_flushes(b"xyz", &[], 6);
        let f = bgzf_with_flushes(&p, &[], 0);
        match f.windows(p.len()).position(|w| w == &p[..]) {
            None => ctx.bump("seek:A4-payload-not-stored"),
            Some(off) => {
                ctx.bump(&format!("seek:A4-nested-frame-at:{off}"));
                let (pends, _) = member_table(&p);
                let mut s = Subject::new(f.clone(), &f);
                for k in 0..=f.len() {
                    for c in [0usize, off, off + pends[0], off + 1] {
                        for up in [0u16, 1, 3, 4] {
                            for (warm, rbuf) in [(0usize, 4096usize), (1, 7)] {
                                let (ans, res) = request(ctx, "A4", &mut s, Some(&p), k, warm, c, up, rbuf, case);
                                judge(ctx, &s, &p, k, warm, c, up, rbuf, &ans, &res, case, "read");
                            }
                        }
                    }
                }
            }
        }
    }
    ctx.bump("corpus:seek");
}

// ------------------------------------------------------------------ B: generated files, every cut

fn gen_bgzf_file(rng: &mut Rng, many: bool) -> (Vec<u8>, Vec<u8>) {
    let nchunks = if many { 2 + rng.below(5) as usize } else { 1 };
    let mut payload = vec![];
    let mut flushes = vec![];
    for _ in 0..nchunks {
        let n = match rng.below(6) {
            0 => 0,
            1 => 1,
            _ => 1 + rng.below(60) as usize,
        };
        let chunk = gen_payload(rng, n);
        payload.extend_from_slice(&chunk);
        flushes.push(payload.len());
    }
    flushes.pop();
    let level = *rng.pick(&[0u8, 1, 6, 9]);
    (bgzf_with_flushes(&payload, &flushes, level), payload)
}

fn gen_case(ctx: &mut Ctx, sub: u64, only: Option<usize>) {
    let mut rng = Rng::new(sub ^ 0x5eec);
    let many = sub % 2 == 1;
    let (file, payload) = gen_bgzf_file(&mut rng, many);
    let len = file.len();
    let mut s = Subject::new(file.clone(), &file);
    let step = if len < 200 { 1 } else { 3 };
    let cuts: Vec<usize> = match only {
        Some(k) => vec![k.min(len)],
        None => (0..=len).filter(|k| k % step == 0 || *k == len).collect(),
    };
    ctx.bump(if many { "seek:file:many-blocks" } else { "seek:file:one-block" });
    for k in cuts {
        let case = format!("seekgen {sub} {k}");
        // request-level choices depend on (sub, k) only, so that a single cut replays identically
        let mut rq = Rng::new(sub ^ 0x5eec ^ (k as u64 + 1).wrapping_mul(0x9E37_79B9_7F4A_7C15));
        let n = s.ends.iter().filter(|&&e| e <= k).count();
        let mut mis: Vec<usize> = vec![];
        for mi in [n.saturating_sub(1), n, n + 1] {
            if mi < s.starts.len() && !mis.contains(&mi) {
                mis.push(mi);
            }
        }
        for mi in mis {
            let c = s.starts[mi];
            let usize_of = s.dlen_at(c);
            let mut ups: Vec<usize> = vec![];
            for up in [0usize, 1, usize_of / 2, usize_of, usize_of + 1] {
                if up <= 65535 && !ups.contains(&up) {
                    ups.push(up);
                }
            }
            for up in ups {
                for warm in [0usize, 1] {
                    let rbuf = *rq.pick(&[1usize, 7, 4096, 65536, 70000]);
                    let (ans, res) = request(ctx, "B", &mut s, Some(&payload), k, warm, c, up as u16, rbuf, &case);
                    judge(ctx, &s, &payload, k, warm, c, up as u16, rbuf, &ans, &res, &case, "read");
                }
            }
        }
        for _ in 0..2 {
            let c = rq.below(len as u64 + 31) as usize;
            let up = rq.below(4) as u16;
            let warm = *rq.pick(&[0usize, 1, 3, 70000]);
            let rbuf = *rq.pick(&[1usize, 7, 4096, 65536, 70000]);
            let (ans, res) = request(ctx, "B", &mut s, Some(&payload), k, warm, c, up, rbuf, &case);
            judge(ctx, &s, &payload, k, warm, c, up, rbuf, &ans, &res, &case, "read");
        }
    }
}

// ------------------------------------------------------------------ C: damaged stream

fn bad_case(ctx: &mut Ctx, sub: u64) {
    let case = format!("seekbad {sub}");
    let mut rng = Rng::new(sub ^ 0xbad_5eec);
    let many = rng.chance(2, 3);
    let (orig, _) = gen_bgzf_file(&mut rng, many);
    let (ends, _) = member_table(&orig);
    let mut starts = vec![0usize];
    starts.extend(ends.iter().copied());
    let len = orig.len();
    let mut file = orig.clone();
    for _ in 0..1 + rng.below(2) {
        let m = rng.below(ends.len() as u64) as usize;
        let (what, pos) = match rng.below(10) {
            0..=3 => ("header", starts[m] + rng.below(18) as usize),
            4..=6 => ("trailer", ends[m] - 8 + rng.below(8) as usize),
            _ => ("anywhere", rng.below(len as u64) as usize),
        };
        file[pos] ^= 1 + rng.below(255) as u8;
        ctx.bump(&format!("seek:bad-edit:{what}"));
    }
    let k = if rng.chance(1, 2) { len } else { rng.below(len as u64 + 1) as usize };
    let mut s = Subject::new(file, &orig);
    let mut cs = starts.clone();
    cs.push(rng.below(len as u64 + 31) as usize);
    for c in cs {
        for up in [0u16, 1] {
            for warm in [0usize, 1, 70000] {
                let rbuf = *rng.pick(&[1usize, 7, 4096, 70000]);
                request(ctx, "C", &mut s, None, k, warm, c, up, rbuf, &case);
            }
        }
    }
}

// ------------------------------------------------------------------ entry points

fn gen_sub(ctx: &Ctx, it: u64) -> u64 {
    ctx.seed.wrapping_mul(1_000_003).wrapping_add(it)
}

pub fn run(ctx: &mut Ctx) {
    if ctx.replay_only.is_some() {
        return;
    }
    fn case(ctx: &mut Ctx, name: &str, sub: u64, f: impl FnOnce(&mut Ctx)) {
        if let Err(p) = guarded(|| f(ctx)) {
            ctx.fail("case-setup", format!("{name} {sub}: building or reference-reading the test file panicked: {p}"), format!("{name} {sub}"));
        }
    }
    case(ctx, "seekcorpus", 0, corpus);
    for it in 0..ctx.n(4, 60) {
        let sub = gen_sub(ctx, it);
        case(ctx, "seekgen", sub, |c| gen_case(c, sub, None));
    }
    for it in 0..ctx.n(6, 80) {
        let sub = gen_sub(ctx, it);
        case(ctx, "seekbad", sub, |c| bad_case(c, sub));
    }
}

/// `seekgen <sub> [<cut>]` | `seekcorpus` | `seekbad <sub>`
pub fn replay(ctx: &mut Ctx, case: &[String]) -> bool {
    let sub: u64 = case.get(1).and_then(|s| s.parse().ok()).unwrap_or(0);
    match case.first().map(|s| s.as_str()) {
        Some("seekgen") => {
            let only = case.get(2).and_then(|s| s.parse::<usize>().ok());
            if let Err(p) = guarded(|| gen_case(ctx, sub, only)) {
                ctx.fail("case-setup", format!("seekgen {sub}: building the test file panicked: {p}"), format!("seekgen {sub}"));
            }
            true
        }
        Some("seekcorpus") => {
            if let Err(p) = guarded(|| corpus(ctx)) {
                ctx.fail("case-setup", format!("seekcorpus: building the test file panicked: {p}"), "seekcorpus".into());
            }
            true
        }
        Some("seekbad") => {
            if let Err(p) = guarded(|| bad_case(ctx, sub)) {
                ctx.fail("case-setup", format!("seekbad {sub}: building the test file panicked: {p}"), format!("seekbad {sub}"));
            }
            true
        }
        _ => false,
    }
}
