//! C15 — corrupt or hostile input is reported as an error, never a panic.
//!
//! ORACLE. A mutation engine over small valid files of every format (single-byte substitutions,
//! truncations, structured mutations of every length/count field or text token, checksums
//! re-sealed), arbitrary bytes into each CRAM codec decoder, and index VALUES with arbitrary
//! contents. Every case runs in a CHILD process (`nvh run C15child <group> <start> <end> <stride>`)
//! under `catch_unwind`, an address-space limit and a per-case watchdog in the parent, so that a
//! panic, an abort (allocation failure, stack overflow, rayon abort) or an endless loop on one
//! input is REPORTED with that input as the replay (`case <group> <index>`), and the run goes on.
//!
//! CORRESPONDENCE (`corr.rs`). The decoders transcribed in `lean/Noodles/Hostile/*.lean` are run
//! on structured hostile inputs in the parent and compared with the Lean model by class.
pub mod consume;
pub mod corr;
pub mod cramwalk;
pub mod mutate;
pub mod seeds;

use crate::common::*;
use noodles_bam as bam;
use noodles_cram as cram;
use noodles_csi as csi;
use seeds::Seeds;
use std::io::{BufRead, Write};
use std::sync::Mutex;

// ---------------------------------------------------------------- groups

struct Fmt {
    name: &'static str,
    kinds: &'static [&'static str],
}

const FORMATS: &[Fmt] = &[
    Fmt { name: "bgzf", kinds: &["sub", "trunc", "field"] },
    Fmt { name: "bam", kinds: &["sub", "trunc", "field"] },
    Fmt { name: "bamz", kinds: &["sub", "trunc"] },
    Fmt { name: "bcf", kinds: &["sub", "trunc", "field"] },
    Fmt { name: "bcfz", kinds: &["sub", "trunc"] },
    Fmt { name: "sam", kinds: &["sub", "trunc", "token"] },
    Fmt { name: "vcf", kinds: &["sub", "trunc", "token"] },
    Fmt { name: "vcfgz", kinds: &["token"] },
    Fmt { name: "cramraw", kinds: &["sub", "trunc", "field"] },
    Fmt { name: "cramgz", kinds: &["sub", "trunc", "field"] },
    Fmt { name: "cramv31", kinds: &["sub", "trunc", "field"] },
    Fmt { name: "fasta", kinds: &["sub", "trunc", "token"] },
    Fmt { name: "fastq", kinds: &["sub", "trunc", "token"] },
    Fmt { name: "gff", kinds: &["sub", "trunc", "token"] },
    Fmt { name: "gtf", kinds: &["sub", "trunc", "token"] },
    Fmt { name: "bed", kinds: &["sub", "trunc", "token"] },
    Fmt { name: "bai", kinds: &["sub", "trunc", "field"] },
    Fmt { name: "csi", kinds: &["sub", "trunc", "field"] },
    Fmt { name: "tbi", kinds: &["sub", "trunc", "field"] },
    Fmt { name: "gzi", kinds: &["sub", "trunc", "field"] },
    Fmt { name: "fai", kinds: &["sub", "trunc", "token"] },
    Fmt { name: "fqfai", kinds: &["sub", "trunc", "token"] },
    Fmt { name: "crai", kinds: &["sub", "trunc", "token"] },
];

const CODECS: &[&str] = &["rans4x8", "ransnx16", "aac", "fqzcomp", "nametok", "itf8", "ltf8", "uint7", "gzip", "bzip2", "lzma"];

struct World {
    s: Seeds,
    repo: noodles_fasta::Repository,
    bai: bam::bai::Index,
    csi: csi::Index,
    tbi: noodles_tabix::Index,
    gzi: noodles_bgzf::gzi::Index,
    fai: noodles_fasta::fai::Index,
    crai: cram::crai::Index,
    cram_layouts: [cramwalk::Layout; 3],
}

impl World {
    fn new(dir: &str) -> World {
        let s = Seeds::build(dir);
        let bai = bam::bai::io::Reader::new(&s.bai[..]).read_index().expect("seed bai");
        let csi = csi::io::Reader::new(&seeds::bgzf_reseal(&s.csi_payload)[..]).read_index().expect("seed csi");
        let tbi = noodles_tabix::io::Reader::new(&seeds::bgzf_reseal(&s.tbi_payload)[..]).read_index().expect("seed tbi");
        let gzi = noodles_bgzf::gzi::io::Reader::new(&s.gzi[..]).read_index().expect("seed gzi");
        let fai = noodles_fasta::fai::io::Reader::new(&s.fai[..]).read_index().expect("seed fai");
        let crai = cram::crai::io::Reader::new(&seeds::gzip(&s.crai_text)[..]).read_index().expect("seed crai");
        let cram_layouts = [
            cramwalk::walk(&s.cram_raw).expect("seed cram raw walks"),
            cramwalk::walk(&s.cram_gz).expect("seed cram gz walks"),
            cramwalk::walk(&s.cram_v31).expect("seed cram v31 walks"),
        ];
        World { s, repo: seeds::repository(), bai, csi, tbi, gzi, fai, crai, cram_layouts }
    }

    /// the bytes a mutation acts on
    fn base(&self, fmt: &str) -> &[u8] {
        let s = &self.s;
        match fmt {
            "bgzf" => &s.bgzf,
            "bam" => &s.bam_payload,
            "bamz" => &s.bam_file,
            "bcf" => &s.bcf_payload,
            "bcfz" => &s.bcf_file,
            "sam" => seeds::SAM_TEXT.as_bytes(),
            "vcf" | "vcfgz" => seeds::VCF_TEXT.as_bytes(),
            "cramraw" => &s.cram_raw,
            "cramgz" => &s.cram_gz,
            "cramv31" => &s.cram_v31,
            "fasta" => seeds::FASTA_TEXT.as_bytes(),
            "fastq" => seeds::FASTQ_TEXT.as_bytes(),
            "gff" => seeds::GFF_TEXT.as_bytes(),
            "gtf" => seeds::GTF_TEXT.as_bytes(),
            "bed" => seeds::BED_TEXT.as_bytes(),
            "bai" => &s.bai,
            "csi" => &s.csi_payload,
            "tbi" => &s.tbi_payload,
            "gzi" => &s.gzi,
            "fai" => &s.fai,
            "fqfai" => &s.fqfai,
            "crai" => &s.crai_text,
            _ => &[],
        }
    }

    fn fields(&self, fmt: &str) -> Vec<cramwalk::Field> {
        let b = self.base(fmt);
        match fmt {
            "bgzf" => mutate::bgzf_fields(b),
            "bam" => mutate::bam_fields(b),
            "bcf" => mutate::bcf_fields(b),
            "cramraw" | "cramgz" | "cramv31" => mutate::cram_fields(b),
            "bai" => mutate::bai_fields(b),
            "csi" => mutate::csi_fields(b),
            "tbi" => mutate::tbi_fields(b),
            "gzi" => mutate::gzi_fields(b),
            _ => vec![],
        }
    }

    fn n_cases(&self, fmt: &str, kind: &str) -> usize {
        let b = self.base(fmt);
        match kind {
            "sub" => mutate::n_sub(b.len()),
            "trunc" => b.len(),
            "field" => mutate::n_field(&self.fields(fmt)),
            "token" => mutate::n_token(b),
            _ => 0,
        }
    }

    /// the mutated bytes (before wrapping) and a description; None = the index names no mutation
    fn mutant(&self, fmt: &str, kind: &str, idx: usize) -> Option<(Vec<u8>, String)> {
        let b = self.base(fmt);
        match kind {
            "sub" => mutate::apply_sub(b, idx).map(|(d, pos)| {
                let what = format!("byte {pos}: {:02x} -> {:02x}", b[pos], d[pos]);
                (d, what)
            }),
            "trunc" => Some((b[..idx.min(b.len())].to_vec(), format!("truncated to {idx} of {} bytes", b.len()))),
            "field" => mutate::apply_field(b, &self.fields(fmt), idx),
            "token" => mutate::apply_token(b, idx),
            _ => None,
        }
    }

    /// wrap the mutated bytes into the file the reader sees (re-sealing checksums)
    fn wrap(&self, fmt: &str, m: Vec<u8>) -> Vec<u8> {
        match fmt {
            "bam" | "bcf" | "csi" | "tbi" | "vcfgz" => seeds::bgzf_reseal(&m),
            "crai" => seeds::gzip(&m),
            "cramraw" | "cramgz" | "cramv31" => {
                let k = match fmt {
                    "cramraw" => 0,
                    "cramgz" => 1,
                    _ => 2,
                };
                let mut m = m;
                cramwalk::reseal(&mut m, &self.cram_layouts[k]);
                m
            }
            _ => m,
        }
    }

    fn consume(&self, fmt: &str, file: &[u8]) -> String {
        let s = &self.s;
        match fmt {
            "bgzf" => {
                let out = consume::bgzf_file(file, Some(&self.gzi));
                // the multithreaded reader inflates on pool threads: a panic there aborts the process
                st(|| {
                    let _ = consume::bgzf_mt(file);
                });
                out
            }
            "bam" | "bamz" => consume::bam_file(file, Some(&self.bai)),
            "bcf" | "bcfz" => consume::bcf_file(file, Some(&self.csi)),
            "sam" => consume::sam_text(file),
            "vcf" => consume::vcf_text(file),
            "vcfgz" => consume::vcf_gz(file, Some(&self.tbi)),
            "cramraw" | "cramv31" => consume::cram_file(file, &self.repo, None),
            "cramgz" => consume::cram_file(file, &self.repo, Some(&self.crai)),
            "fasta" => consume::fasta_text(file, Some(&self.fai)),
            "fastq" => consume::fastq_text(file),
            "gff" => consume::gff_text(file),
            "gtf" => consume::gtf_text(file),
            "bed" => consume::bed_text(file),
            "bai" => consume::bai_bytes(file, Some(&s.bam_file)),
            "csi" => consume::csi_bytes(file, Some(&s.bcf_file), Some(&s.bam_file)),
            "tbi" => consume::tbi_bytes(file, Some(&s.vcf_gz)),
            "gzi" => consume::gzi_bytes(file, Some(&s.bam_file)),
            "fai" => consume::fai_bytes(file, Some(seeds::FASTA_TEXT.as_bytes())),
            "fqfai" => consume::fqfai_bytes(file),
            "crai" => consume::crai_bytes(file, Some((&s.cram_gz, &self.repo))),
            _ => "skip".into(),
        }
    }
}

// ---------------------------------------------------------------- codec / index-value cases

const CODEC_CAP: usize = 1 << 20;

fn codec_input(codec: &str, idx: usize) -> (Vec<u8>, usize) {
    use cram::verif as v;
    let mut rng = Rng::new(fnv(format!("c15-codec-{codec}-{idx}").as_bytes()));
    let sample: Vec<u8> = match rng.below(4) {
        0 => b"ACGTACGTTTGACCAGTAGGCATTAGACCAGATTAGGGACCCATTTAG".to_vec(),
        1 => {
            let n = rng.below(200);
            (0..n).map(|_| b"IIIIHHHGGF#"[rng.below(11) as usize]).collect()
        }
        2 => b"read.1\0read.2\0read.10\0read.11\0x:7:3\0".to_vec(),
        _ => {
            let n = rng.below(64) as usize;
            rng.bytes(n)
        }
    };
    let usize_claim = *rng.pick(&[0usize, 1, sample.len(), sample.len() + 1, 1000, 65536, CODEC_CAP]);
    // half of the cases: a valid encoding with a few corrupted bytes; the rest: arbitrary bytes
    let valid: Option<Vec<u8>> = if rng.chance(1, 2) {
        guarded(|| match codec {
            "rans4x8" => v::rans_4x8_encode(if rng.chance(1, 2) { cram::codecs::rans_4x8::Order::Zero } else { cram::codecs::rans_4x8::Order::One }, &sample).ok(),
            "ransnx16" => v::rans_nx16_encode(cram::codecs::rans_nx16::Flags::from(*rng.pick(&[0u8, 0x01, 0x40, 0x80, 0x41, 0x08, 0xc1, 0x20, 0x04])), &sample).ok(),
            "aac" => v::aac_encode(cram::codecs::aac::Flags::from(*rng.pick(&[0u8, 0x01, 0x40, 0x80, 0x41, 0x08, 0x20, 0x04])), &sample).ok(),
            "fqzcomp" => {
                if sample.is_empty() {
                    None
                } else {
                    v::fqzcomp_encode(&[sample.len()], &sample).ok()
                }
            }
            "nametok" => v::name_tokenizer_encode(&sample).ok(),
            "gzip" => v::gzip_encode(1, &sample).ok(),
            "bzip2" => v::bzip2_encode(1, &sample).ok(),
            "lzma" => v::lzma_encode(1, &sample).ok(),
            _ => None,
        })
        .ok()
        .flatten()
    } else {
        None
    };
    let bytes = match valid {
        Some(mut e) if !e.is_empty() => {
            for _ in 0..1 + rng.below(3) {
                let p = rng.below(e.len() as u64) as usize;
                match rng.below(4) {
                    0 => e[p] = rng.next() as u8,
                    1 => e[p] ^= 1 << rng.below(8),
                    2 => e[p] = *rng.pick(&[0u8, 0xff, 0x80, 0x7f]),
                    _ => {
                        e.truncate(p);
                        if e.is_empty() {
                            break;
                        }
                    }
                }
            }
            e
        }
        _ => {
            let n = *rng.pick(&[0usize, 1, 2, 3, 4, 5, 8, 9, 16, 31, 32, 33, 64, 200]);
            let mut b = rng.bytes(n);
            // bias the leading bytes (flags / order / sizes) towards structured values
            if !b.is_empty() && rng.chance(1, 2) {
                b[0] = *rng.pick(&[0u8, 1, 2, 0x04, 0x08, 0x10, 0x20, 0x40, 0x80, 0xc0, 0xff]);
            }
            b
        }
    };
    (bytes, usize_claim)
}

/// hand-made hostile files that no single mutation of a small seed reaches
const SPECIALS: &[&str] = &["bcf-deep-length-lazy", "bcf-deep-length-info", "sam-long-line", "vcf-long-line", "fasta-long-line", "gff-long-attributes", "bam-many-cigar-ops"];

fn run_special(w: &World, idx: usize) -> (String, String) {
    let name = SPECIALS.get(idx).copied().unwrap_or("");
    let bcf_header = || {
        let p = &w.s.bcf_payload;
        let l_text = u32::from_le_bytes(p[5..9].try_into().unwrap()) as usize;
        p[..9 + l_text].to_vec()
    };
    let out = match name {
        // the length of a long typed vector is itself a typed value: `f7 f7 f7 …` nests one level per byte
        "bcf-deep-length-lazy" | "bcf-deep-length-info" => {
            let n = 300_000;
            let mut site = vec![0u8; 24];
            site[18] = 1;
            site[8] = 1; // rlen
            if name == "bcf-deep-length-info" {
                // valid id / ref / filter, then an INFO key followed by the nested descriptors
                site[16] = 1;
                site.extend_from_slice(&[0x07, 0x17, b'A', 0x00, 0x11, 0x01]);
            }
            site.extend(std::iter::repeat(0xf7u8).take(n));
            let mut payload = bcf_header();
            payload.extend_from_slice(&(site.len() as u32).to_le_bytes());
            payload.extend_from_slice(&0u32.to_le_bytes());
            payload.extend_from_slice(&site);
            consume::bcf_file(&seeds::bgzf_reseal(&payload), None)
        }
        "sam-long-line" => {
            let mut t = seeds::SAM_TEXT.as_bytes().to_vec();
            t.extend_from_slice(b"big\t0\tsq0\t1\t30\t");
            for _ in 0..100_000 {
                t.extend_from_slice(b"1M1I");
            }
            t.extend_from_slice(b"\t*\t0\t0\t*\t*\n");
            consume::sam_text(&t)
        }
        "vcf-long-line" => {
            let mut t = seeds::VCF_TEXT.as_bytes().to_vec();
            t.extend_from_slice(b"sq0\t30\t.\tA\t");
            for _ in 0..100_000 {
                t.extend_from_slice(b"C,");
            }
            t.extend_from_slice(b"G\t.\t.\t.\tGT\t0/1\t");
            for _ in 0..100_000 {
                t.extend_from_slice(b"1/");
            }
            t.extend_from_slice(b"1\n");
            consume::vcf_text(&t)
        }
        "fasta-long-line" => {
            let mut t = b">sq0\n".to_vec();
            t.extend(std::iter::repeat(b'A').take(2_000_000));
            t.extend_from_slice(b"\n>");
            t.extend(std::iter::repeat(b'n').take(1_000_000));
            consume::fasta_text(&t, None)
        }
        "gff-long-attributes" => {
            let mut t = b"##gff-version 3\nsq0\t.\tgene\t1\t2\t.\t+\t.\t".to_vec();
            for i in 0..50_000 {
                t.extend_from_slice(format!("k{i}=a,b%2Cc;").as_bytes());
            }
            t.push(b'\n');
            consume::gff_text(&t)
        }
        "bam-many-cigar-ops" => {
            // 65535 operations, each of the maximum length 2^28-1: the span sums overflow `u32`
            let n_ops = 65535usize;
            let mut body = vec![];
            body.extend_from_slice(&0i32.to_le_bytes());
            body.extend_from_slice(&0i32.to_le_bytes());
            body.push(2);
            body.push(0);
            body.extend_from_slice(&0u16.to_le_bytes());
            body.extend_from_slice(&(n_ops as u16).to_le_bytes());
            body.extend_from_slice(&0u16.to_le_bytes());
            body.extend_from_slice(&0u32.to_le_bytes());
            body.extend_from_slice(&(-1i32).to_le_bytes());
            body.extend_from_slice(&(-1i32).to_le_bytes());
            body.extend_from_slice(&0i32.to_le_bytes());
            body.extend_from_slice(b"q\0");
            for k in 0..n_ops {
                body.extend_from_slice(&((0x0fff_ffffu32 << 4) | (k % 3) as u32 * 2).to_le_bytes());
            }
            let p = &w.s.bam_payload;
            let l_text = u32::from_le_bytes(p[4..8].try_into().unwrap()) as usize;
            let mut q = 8 + l_text;
            let n_ref = u32::from_le_bytes(p[q..q + 4].try_into().unwrap());
            q += 4;
            for _ in 0..n_ref {
                let l = u32::from_le_bytes(p[q..q + 4].try_into().unwrap()) as usize;
                q += 4 + l + 4;
            }
            let mut payload = p[..q].to_vec();
            payload.extend_from_slice(&(body.len() as u32).to_le_bytes());
            payload.extend_from_slice(&body);
            consume::bam_file(&seeds::bgzf_reseal(&payload), None)
        }
        _ => "skip".into(),
    };
    (out, format!("hand-made hostile file `{name}`"))
}

fn run_codec(codec: &str, bytes: &[u8], n: usize) -> String {
    use cram::verif as v;
    let n = n.min(CODEC_CAP);
    let r: std::io::Result<usize> = match codec {
        "rans4x8" => v::rans_4x8_decode(bytes).map(|d| d.len()),
        "ransnx16" => v::rans_nx16_decode(bytes, n).map(|d| d.len()),
        "aac" => v::aac_decode(bytes, n).map(|d| d.len()),
        "fqzcomp" => v::fqzcomp_decode(bytes).map(|d| d.len()),
        "nametok" => v::name_tokenizer_decode(bytes).map(|d| d.len()),
        "itf8" => {
            let mut s = bytes;
            v::read_itf8(&mut s).map(|_| bytes.len() - s.len())
        }
        "ltf8" => {
            let mut s = bytes;
            v::read_ltf8(&mut s).map(|_| bytes.len() - s.len())
        }
        "uint7" => {
            let mut s = bytes;
            v::read_uint7(&mut s).map(|_| bytes.len() - s.len())
        }
        "gzip" => {
            let mut d = vec![0u8; n.min(4096)];
            v::gzip_decode(bytes, &mut d).map(|_| d.len())
        }
        "bzip2" => {
            let mut d = vec![0u8; n.min(4096)];
            v::bzip2_decode(bytes, &mut d).map(|_| d.len())
        }
        "lzma" => {
            let mut d = vec![0u8; n.min(4096)];
            v::lzma_decode(bytes, &mut d).map(|_| d.len())
        }
        _ => Ok(0),
    };
    match r {
        Ok(_) => "ok".into(),
        Err(e) => errclass(&e).into(),
    }
}

/// an index VALUE with arbitrary contents, built through the public constructors
fn index_value(idx: usize) -> (u8, u8, Vec<usize>, String) {
    let mut rng = Rng::new(fnv(format!("c15-ixval-{idx}").as_bytes()));
    let ms = *rng.pick(&[0u8, 1, 2, 3, 4, 13, 14, 15, 16, 30, 31, 32, 33, 34, 40, 48, 60, 61, 62, 63, 64, 65, 127, 128, 255]);
    let d = *rng.pick(&[0u8, 1, 2, 3, 4, 5, 6, 7, 8, 9, 10, 11, 12, 16, 20, 21, 22, 42, 84, 85, 86, 127, 128, 254, 255]);
    let (ms, d) = match rng.below(4) {
        0 => (14, 5),
        1 => (ms, 5),
        2 => (14, d),
        _ => (ms, d),
    };
    let nb = rng.below(5) as usize;
    let ids: Vec<usize> = (0..nb)
        .map(|_| match rng.below(6) {
            0 => rng.below(10) as usize,
            1 => 37449 + rng.below(3) as usize,
            2 => 4680 + rng.below(3) as usize,
            3 => rng.below(1 << 20) as usize,
            4 => u32::MAX as usize - rng.below(2) as usize,
            _ => usize::MAX - rng.below(2) as usize,
        })
        .collect();
    let what = format!("min_shift={ms} depth={d} bin ids={ids:?}");
    (ms, d, ids, what)
}

fn run_index_value(ms: u8, d: u8, ids: &[usize]) -> String {
    use csi::binning_index::index::reference_sequence::{bin::Chunk, index::BinnedIndex, index::LinearIndex, Bin};
    use csi::binning_index::index::ReferenceSequence;
    let vp = |n: u64| noodles_bgzf::VirtualPosition::from(n);
    let bins: indexmap::IndexMap<usize, Bin> = ids.iter().enumerate().map(|(i, id)| (*id, Bin::new(vec![Chunk::new(vp(100 * i as u64 + 1), vp(100 * i as u64 + 50))]))).collect();
    let lin: LinearIndex = vec![vp(1), vp(2), vp(3)];
    let binned: BinnedIndex = ids.iter().map(|id| (*id, vp(7))).collect();
    let a: csi::binning_index::Index<LinearIndex> =
        csi::binning_index::Index::builder().set_min_shift(ms).set_depth(d).set_reference_sequences(vec![ReferenceSequence::new(bins.clone(), lin, None)]).build();
    let b: csi::binning_index::Index<BinnedIndex> =
        csi::binning_index::Index::builder().set_min_shift(ms).set_depth(d).set_reference_sequences(vec![ReferenceSequence::new(bins, binned, None)]).build();
    consume::touch_binning_index_with(&a, true);
    consume::touch_binning_index_with(&b, false);
    // (WRITING an index value that no reader produced is outside this property)
    "ok".into()
}

// ---------------------------------------------------------------- child

static PANICS: Mutex<Vec<(String, String)>> = Mutex::new(Vec::new());
static IN_CASE: std::sync::atomic::AtomicBool = std::sync::atomic::AtomicBool::new(false);

fn install_panic_hook() {
    std::panic::set_hook(Box::new(|info| {
        let loc = info.location().map(|l| format!("{}:{}", l.file(), l.line())).unwrap_or_else(|| "?".into());
        let msg = if let Some(s) = info.payload().downcast_ref::<String>() {
            s.clone()
        } else if let Some(s) = info.payload().downcast_ref::<&str>() {
            s.to_string()
        } else {
            "panic".into()
        };
        let loc = if loc.contains("/noodles-") {
            loc
        } else {
            // a panic raised inside std / a dependency: name the innermost noodles frame
            let bt = std::backtrace::Backtrace::force_capture().to_string();
            let frame = bt.lines().map(|l| l.trim()).find(|l| l.contains("noodles_") && !l.contains("nvh::")).map(|l| l.split_once(": ").map(|x| x.1).unwrap_or(l).to_string());
            match frame {
                Some(f) => format!("{loc} in {f}"),
                None => loc,
            }
        };
        if !IN_CASE.load(std::sync::atomic::Ordering::SeqCst) {
            eprintln!("harness panic outside a case at {loc}: {msg}");
        }
        if let Ok(mut g) = PANICS.lock() {
            if g.len() < 32 {
                g.push((loc, msg));
            }
        }
    }));
}

/// stable class of a panic: the source file, except for two families that are known findings as
/// a whole and get one class per decoder — the CRAM block codecs (`panic:cram-codec:<codec>`) and
/// the CRAM record sequence iterators (`panic:cram-record-sequence`)
fn panic_class(loc: &str) -> String {
    for (pat, sep) in [("noodles-cram/src/codecs/", '/'), ("noodles_cram::codecs::", ':')] {
        if let Some(p) = loc.find(pat) {
            let rest = &loc[p + pat.len()..];
            let codec: String = rest.chars().take_while(|c| *c != sep && *c != '.').collect();
            return format!("panic:cram-codec:{codec}");
        }
    }
    if loc.contains("noodles-cram/src/record/sequence") || loc.contains("noodles_cram::record::sequence") {
        return "panic:cram-record-sequence".into();
    }
    panic_class_by_file(loc)
}

fn panic_class_by_file(loc: &str) -> String {
    // `/repo/noodles-bcf/src/record/fields.rs:159` → `panic:noodles-bcf/src/record/fields.rs`
    if let Some(p) = loc.find("/noodles-") {
        let rest = &loc[p + 1..];
        let file = rest.split(':').next().unwrap_or(rest);
        if !loc[..p].contains(" in ") && !loc.starts_with("/rustc") && !loc.contains("/.cargo/") {
            return format!("panic:{file}");
        }
    }
    if let Some((_, f)) = loc.split_once(" in ") {
        // strip generic arguments and hashes from the symbol
        let f = f.split("::h").next().unwrap_or(f);
        let f: String = f.chars().take_while(|c| *c != '<' || true).collect();
        let short: Vec<&str> = f.split("::").filter(|s| !s.starts_with('{') && !s.starts_with('<')).take(6).collect();
        return format!("panic:std-in:{}", short.join("::"));
    }
    "panic:other".into()
}

/// one independent stage of a consumer: a panic inside is recorded by the hook and the consumer
/// goes on with the next stage, so that one defect does not hide the ones behind it
pub fn st<F: FnOnce()>(f: F) {
    if too_many_panics() {
        return;
    }
    let _ = std::panic::catch_unwind(std::panic::AssertUnwindSafe(f));
}

/// after a handful of panics in one case the remaining stages are skipped (a panic costs ~0.2 ms)
fn too_many_panics() -> bool {
    PANICS.lock().map(|g| g.len() >= 6).unwrap_or(false)
}

/// like `st`, but tells whether the stage finished without a panic
pub fn stb<F: FnOnce()>(f: F) -> bool {
    if too_many_panics() {
        return false;
    }
    std::panic::catch_unwind(std::panic::AssertUnwindSafe(f)).is_ok()
}

/// `format!("{x:?}")` panics when a Debug impl returns `fmt::Error`; name the type instead
pub fn dbg<T: std::fmt::Debug>(t: &T) {
    use std::fmt::Write as _;
    let mut s = String::new();
    if write!(s, "{t:?}").is_err() {
        panic!("DEBUG-FMT-ERROR the Debug impl of {} returned fmt::Error (format!/println! of this value panics)", std::any::type_name::<T>());
    }
}

/// run one case under catch_unwind; returns (outcome, panics as (class, text), non-trivial key)
fn run_case(w: &Option<World>, group: &str, idx: usize) -> (String, Vec<(String, String)>, Option<u64>) {
    let (fmt, kind) = group.split_once('.').unwrap_or((group, ""));
    if let Ok(mut g) = PANICS.lock() {
        g.clear();
    }
    let mut what = String::new();
    IN_CASE.store(true, std::sync::atomic::Ordering::SeqCst);
    let r = std::panic::catch_unwind(std::panic::AssertUnwindSafe(|| -> String {
        match fmt {
            "codec" => {
                let (bytes, n) = codec_input(kind, idx);
                // a panic of an ENCODER while preparing a valid sample is not this property's business (C08)
                if let Ok(mut g) = PANICS.lock() {
                    g.clear();
                }
                what = format!("{kind} decoder on {} byte(s) {} (declared size {n})", bytes.len(), hex(&bytes[..bytes.len().min(48)]));
                run_codec(kind, &bytes, n)
            }
            "ixval" => {
                let (ms, d, ids, desc) = index_value(idx);
                what = desc;
                run_index_value(ms, d, &ids)
            }
            "special" => {
                let (o, desc) = run_special(w.as_ref().expect("world"), idx);
                what = desc;
                o
            }
            _ => {
                let w = w.as_ref().expect("world");
                match w.mutant(fmt, kind, idx) {
                    None => "skip".into(),
                    Some((m, desc)) => {
                        what = desc;
                        let file = w.wrap(fmt, m);
                        w.consume(fmt, &file)
                    }
                }
            }
        }
    }));
    IN_CASE.store(false, std::sync::atomic::Ordering::SeqCst);
    let panics: Vec<(String, String)> = PANICS.lock().map(|mut g| std::mem::take(&mut *g)).unwrap_or_default();
    let mut fails = vec![];
    let mut seen = std::collections::BTreeSet::new();
    for (loc, msg) in panics {
        let class = if msg.starts_with("DEBUG-FMT-ERROR") { "debug-fmt-error".to_string() } else { panic_class(&loc) };
        let short_loc = loc.replace("/repo/", "");
        if seen.insert(format!("{class}{short_loc}")) {
            fails.push((class, format!("PANIC at {short_loc}: {msg} — input: {fmt} seed, {what}")));
        }
    }
    match r {
        Ok(o) => {
            let nt = if o.starts_with("ok") { Some(fnv(format!("{group}{idx}").as_bytes())) } else { None };
            (if fails.is_empty() { o } else { "panic".into() }, fails, nt)
        }
        Err(_) => ("panic".into(), fails, None),
    }
}

pub fn run_child(ctx: &mut Ctx) {
    install_panic_hook();
    let args = ctx.replay_only.clone().unwrap_or_default();
    // args: <dir> <group> <start> <end> <stride>   (passed after `replay` so that they arrive verbatim)
    if args.len() < 5 {
        eprintln!("C15child: bad arguments {args:?}");
        std::process::exit(2);
    }
    let dir = &args[0];
    let group = &args[1];
    let start: usize = args[2].parse().unwrap_or(0);
    let end: usize = args[3].parse().unwrap_or(0);
    let stride: usize = args[4].parse().unwrap_or(1).max(1);
    if let Ok(adir) = std::env::var("NVH_C15_WRITE_ASSETS") {
        for kind in ["raw", "gz", "v31"] {
            // keep a file the real reader reads back completely (the 3.1 encoders do not always
            // round-trip these tiny blocks — C08 findings — so this may take a few attempts)
            let mut done = false;
            for attempt in 0..200 {
                let c = seeds::cram_generate(kind);
                let ok = guarded(|| {
                    let mut rd = cram::io::reader::Builder::default().set_reference_sequence_repository(seeds::repository()).build_from_reader(&c[..]);
                    let h = rd.read_header().ok()?;
                    Some(rd.records(&h).filter(|r| r.is_ok()).count())
                });
                eprintln!("{kind} attempt {attempt}: {ok:?}");
                if ok == Ok(Some(seeds::SAM_TEXT_CRAM_RECORDS)) {
                    std::fs::write(format!("{adir}/cram_{kind}.cram"), c).expect("write asset");
                    done = true;
                    break;
                }
            }
            assert!(done, "no readable CRAM seed for {kind}");
        }
        std::process::exit(0);
    }
    let needs_world = !(group.starts_with("codec.") || group.starts_with("ixval."));
    let w = if needs_world { Some(World::new(dir)) } else { None };
    let out = std::io::stdout();
    let mut out = out.lock();
    let mut i = start;
    let mut hist: std::collections::BTreeMap<String, u64> = Default::default();
    let mut k = 0;
    let verbose = std::env::var("NVH_C15_VERBOSE").is_ok();
    while i < end {
        let _ = writeln!(out, "B\t{i}");
        if verbose {
            let (fmt, kind) = group.split_once('.').unwrap_or((group, ""));
            if let Some((m, what)) = w.as_ref().and_then(|w| w.mutant(fmt, kind, i)) {
                let _ = writeln!(out, "W\t{what}\t{}", hex(&m[..m.len().min(4096)]));
            }
        }
        let _ = out.flush();
        let (o, fail, nt) = run_case(&w, group, i);
        for (class, text) in fail {
            let site = text.split(" — ").next().unwrap_or("").split(": ").next().unwrap_or("").replace("PANIC at ", "");
            *hist.entry(format!("panic_site:{site}")).or_insert(0) += 1;
            let _ = writeln!(out, "F\t{class}\t{}\tcase {group} {i}", text.replace(['\t', '\n'], " "));
        }
        let fmt = group.split('.').next().unwrap_or("");
        if o != "skip" {
            *hist.entry(format!("{fmt}:{o}")).or_insert(0) += 1;
            *hist.entry(format!("cases:{group}")).or_insert(0) += 1;
        }
        let _ = writeln!(out, "E\t{i}\t{}\t{}", if o == "skip" { "s" } else { "r" }, nt.map(|h| h.to_string()).unwrap_or_else(|| "-".into()));
        k += 1;
        // flushed per case: a child that dies on the next case must not take the counts with it
        for (key, n) in std::mem::take(&mut hist) {
            let _ = writeln!(out, "H\t{key}\t{n}");
        }
        i += stride;
    }
    for (key, n) in hist {
        let _ = writeln!(out, "H\t{key}\t{n}");
    }
    let _ = writeln!(out, "D");
    let _ = out.flush();
    // the child's own outputs are not used
    std::process::exit(0);
}

// ---------------------------------------------------------------- parent

#[derive(Clone, Debug)]
struct Job {
    group: String,
    start: usize,
    end: usize,
    stride: usize,
}

#[derive(Default)]
struct JobOut {
    fails: Vec<(String, String, String)>,
    hist: Vec<(String, u64)>,
    evals: u64,
    nontrivial: Vec<u64>,
}

const WATCHDOG_SECS: u64 = 10;
/// a child that burns no CPU (blocked) is given this long before it counts as hung
const WATCHDOG_WALL_SECS: u64 = 180;

/// address-space limit of the decoding process: an allocation of about 0.5 GiB or more sized by an input
/// field fails (and aborts the process) instead of zero-filling gigabytes
const CHILD_VMEM_KB: u64 = 600_000;

fn run_job(exe: &std::path::Path, dir: &str, seed: u64, job: &Job, worker: usize) -> JobOut {
    use std::process::{Command, Stdio};
    use std::sync::mpsc;
    use std::time::Duration;
    let mut out = JobOut::default();
    let cdir = format!("{dir}/child{worker}");
    let _ = std::fs::create_dir_all(&cdir);
    let errpath = format!("{cdir}/stderr.txt");
    let mut next = job.start;
    let mut respawns = 0;
    while next < job.end {
        let errf = std::fs::File::create(&errpath).ok();
        let mut cmd = Command::new("sh");
        cmd.arg("-c")
            .arg(format!("ulimit -v {CHILD_VMEM_KB}; ulimit -c 0; exec \"$0\" \"$@\""))
            .arg(exe)
            .args(["replay", "C15child", "--seed", &seed.to_string(), "--dir", &cdir])
            .args([cdir.as_str(), job.group.as_str(), &next.to_string(), &job.end.to_string(), &job.stride.to_string()])
            .env("RAYON_NUM_THREADS", "2")
            .env("RUST_BACKTRACE", "1")
            .stdin(Stdio::null())
            .stdout(Stdio::piped());
        match errf {
            Some(f) => {
                cmd.stderr(Stdio::from(f));
            }
            None => {
                cmd.stderr(Stdio::null());
            }
        }
        let mut child = match cmd.spawn() {
            Ok(c) => c,
            Err(e) => {
                out.fails.push(("harness-spawn".into(), format!("cannot spawn the child process: {e}"), format!("case {} {next}", job.group)));
                return out;
            }
        };
        let stdout = child.stdout.take().unwrap();
        let (tx, rx) = mpsc::channel::<String>();
        let reader = std::thread::spawn(move || {
            let rd = std::io::BufReader::new(stdout);
            for line in rd.lines() {
                match line {
                    Ok(l) => {
                        if tx.send(l).is_err() {
                            break;
                        }
                    }
                    Err(_) => break,
                }
            }
        });
        let mut in_flight: Option<usize> = None;
        let mut done = false;
        let mut hung = false;
        // the watchdog judges by the CPU time the child has burnt since its last sign of life, not
        // by wall time alone: on a loaded machine a starved child is slow, not hung
        let pid = child.id();
        let mut cpu_mark = proc_cpu_secs(pid);
        let mut wall_mark = std::time::Instant::now();
        loop {
            match rx.recv_timeout(Duration::from_secs(WATCHDOG_SECS)) {
                Ok(line) => {
                    cpu_mark = proc_cpu_secs(pid);
                    wall_mark = std::time::Instant::now();
                    let p: Vec<&str> = line.split('\t').collect();
                    match p[0] {
                        "B" => in_flight = p.get(1).and_then(|s| s.parse().ok()),
                        "E" => {
                            if let Some(i) = p.get(1).and_then(|s| s.parse::<usize>().ok()) {
                                next = i + job.stride;
                            }
                            in_flight = None;
                            if p.get(2) == Some(&"r") {
                                out.evals += 1;
                                if let Some(h) = p.get(3).and_then(|s| s.parse::<u64>().ok()) {
                                    out.nontrivial.push(h);
                                }
                            }
                        }
                        "F" if p.len() >= 4 => out.fails.push((p[1].into(), p[2].into(), p[3].into())),
                        "H" if p.len() >= 3 => out.hist.push((p[1].into(), p[2].parse().unwrap_or(0))),
                        "D" => {
                            done = true;
                        }
                        _ => {}
                    }
                }
                Err(mpsc::RecvTimeoutError::Timeout) => {
                    let burnt = match (proc_cpu_secs(pid), cpu_mark) {
                        (Some(now), Some(then)) => now - then,
                        _ => f64::INFINITY, // no /proc: fall back to wall time
                    };
                    if burnt < WATCHDOG_SECS as f64 * 0.8 && wall_mark.elapsed() < Duration::from_secs(WATCHDOG_WALL_SECS) {
                        continue;
                    }
                    hung = true;
                    let _ = child.kill();
                    break;
                }
                Err(mpsc::RecvTimeoutError::Disconnected) => break,
            }
        }
        let status = child.wait();
        let _ = reader.join();
        if done {
            break;
        }
        // the child died or hung on `in_flight`
        let i = in_flight.unwrap_or(next);
        let stderr = std::fs::read_to_string(&errpath).unwrap_or_default();
        let tail: String = stderr.chars().rev().take(300).collect::<String>().chars().rev().collect::<String>().replace(['\t', '\n'], " ");
        let (class, text) = if hung {
            ("hang".to_string(), format!("no result after {WATCHDOG_SECS} s of CPU time (or {WATCHDOG_WALL_SECS} s blocked) on one case (endless loop or unbounded work on a small input)"))
        } else if stderr.contains("memory allocation of") {
            let n = stderr.split("memory allocation of ").nth(1).and_then(|s| s.split(' ').next()).unwrap_or("?").to_string();
            let frame = stderr.lines().map(|l| l.trim()).find(|l| l.contains(": noodles_")).and_then(|l| l.split_once(": ")).map(|x| x.1.to_string()).unwrap_or_else(|| "?".into());
            out.hist.push((format!("abort_alloc_site:{frame}"), 1));
            ("abort-alloc".to_string(), format!("process aborted: memory allocation of {n} bytes failed in {frame} (address-space limit {CHILD_VMEM_KB} KiB) — allocation sized by an input field of a file smaller than 64 KiB"))
        } else if stderr.contains("overflowed its stack") || stderr.contains("stack overflow") {
            ("abort-stack".to_string(), "process aborted: stack overflow".to_string())
        } else {
            ("abort".to_string(), format!("process died ({:?}): {tail}", status.map(|s| s.to_string())))
        };
        out.fails.push((class.clone(), format!("{text} — input: case {} {i}; stderr: {tail}", job.group), format!("case {} {i}", job.group)));
        out.hist.push((format!("child_{class}"), 1));
        out.evals += 1;
        next = i + job.stride;
        respawns += 1;
        if respawns > 400 {
            out.fails.push(("harness-respawn-limit".into(), format!("group {} needed more than 400 child restarts; the rest of the group was skipped", job.group), format!("case {} {next}", job.group)));
            break;
        }
    }
    out
}

fn plan(ctx: &Ctx, w: &World) -> Vec<Job> {
    let mut jobs = vec![];
    let budget = ctx.n(2500, 200_000) as usize; // cases per group
    let chunk = 300;
    let mut add = |group: String, n: usize| {
        if n == 0 {
            return;
        }
        let stride = n.div_ceil(budget).max(1);
        let off = (ctx.seed as usize) % stride;
        // split into chunks so that the workers stay balanced
        let per = chunk * stride;
        let mut s = off;
        while s < n {
            jobs.push(Job { group: group.clone(), start: s, end: (s + per).min(n), stride });
            s += per;
        }
    };
    for f in FORMATS {
        for k in f.kinds {
            add(format!("{}.{k}", f.name), w.n_cases(f.name, k));
        }
    }
    let ncodec = ctx.n(1500, 60_000) as usize;
    for c in CODECS {
        add(format!("codec.{c}"), ncodec);
    }
    add("ixval.q".into(), ctx.n(1500, 40_000) as usize);
    add("special.file".into(), SPECIALS.len());
    jobs
}

pub fn run(ctx: &mut Ctx) {
    let exe = std::env::current_exe().unwrap();
    let dir = std::env::args().collect::<Vec<_>>().windows(2).find(|w| w[0] == "--dir").map(|w| w[1].clone()).unwrap_or_else(|| "/verif/work/C15".into());
    let _ = std::fs::create_dir_all(&dir);
    let jobs: Vec<Job> = if let Some(case) = ctx.replay_only.clone() {
        // `case <group> <idx>`
        if super::c15_text::replay(ctx, &case) { return; }
        if super::c15_bin::replay(ctx, &case) { return; }
        if super::c15_codec::replay(ctx, &case) { return; }
        if super::c15_rec::replay(ctx, &case) { return; }
        if super::c15_hdrtxt::replay(ctx, &case) { return; }
        if case.first().map(|s| s.as_str()) == Some("corr") {
            corr::replay(ctx, &case[1..]);
            return;
        }
        let group = case.get(1).cloned().unwrap_or_default();
        let idx: usize = case.get(2).and_then(|s| s.parse().ok()).unwrap_or(0);
        vec![Job { group, start: idx, end: idx + 1, stride: 1 }]
    } else {
        // the correspondence suites run in this process (small decoders, bounded inputs)
        corr::run(ctx);
        super::c15_text::run(ctx);
        super::c15_bin::run(ctx);
        super::c15_codec::run(ctx);
        super::c15_rec::run(ctx);
        super::c15_hdrtxt::run(ctx);
        let w = World::new(&format!("{dir}/parent"));
        ctx.sample(|| seeds::describe(&w.s));
        if std::env::var("NVH_C15_SKIP_ORACLE").is_ok() { vec![] } else { plan(ctx, &w) }
    };
    let nworkers = std::env::var("NVH_C15_WORKERS").ok().and_then(|s| s.parse().ok()).unwrap_or(6usize).max(1);
    let queue = std::sync::Arc::new(Mutex::new((0usize, jobs.clone())));
    let results: std::sync::Arc<Mutex<Vec<(usize, JobOut)>>> = Default::default();
    let mut handles = vec![];
    for wk in 0..nworkers.min(jobs.len().max(1)) {
        let (queue, results, exe, dir, seed) = (queue.clone(), results.clone(), exe.clone(), dir.clone(), ctx.seed);
        handles.push(std::thread::spawn(move || loop {
            let (k, job) = {
                let mut q = queue.lock().unwrap();
                if q.0 >= q.1.len() {
                    break;
                }
                let k = q.0;
                q.0 += 1;
                (k, q.1[k].clone())
            };
            let t0 = std::time::Instant::now();
            let mut r = run_job(&exe, &dir, seed, &job, wk);
            r.hist.push((format!("time_ms:{}", job.group), t0.elapsed().as_millis() as u64));
            results.lock().unwrap().push((k, r));
        }));
    }
    for h in handles {
        let _ = h.join();
    }
    let mut results = std::mem::take(&mut *results.lock().unwrap());
    results.sort_by_key(|r| r.0);
    for (_, r) in results {
        for (c, t, k) in r.fails {
            ctx.fail(&c, t, k);
        }
        for (k, n) in r.hist {
            ctx.bump_by(&k, n);
        }
        ctx.oracle_evals += r.evals;
        for h in r.nontrivial {
            if ctx.nontrivial.len() < 2_000_000 {
                ctx.nontrivial.insert(h);
            }
        }
    }
    ctx.sample(|| "case bam.field 123 = structured mutation #123 of the seed BAM payload, re-sealed as stored BGZF members, read lazily + eagerly + queried through the seed BAI".into());
}
