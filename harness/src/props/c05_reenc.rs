//! C05 extension — lazy records written back through the BAM writer, `RecordRef` over
//! unvalidated bytes (model: `lean/Noodles/Bam/Reenc.lean`, theorems: `Props/C05Reenc.lean`).
//!
//! Correspondence (suite `c05 re`):
//!   c05 re lazy <nref> <hex body>   real: Reader::read_record (validate) → bam::Record →
//!                                   Writer::write_alignment_record(&dyn Record)  (FourBytePacked /
//!                                   FourBitPacked / Raw / FieldEncoded fast paths)
//!   c05 re box  <nref> <hex body>   the same record as Box<dyn Record> (default *_ref paths)
//!   c05 re ref  <nref> <hex body>   bam::RecordRef::new(body), NO validate, through the writer
//!   c05 re view <nref> <16 words>   a scripted `impl sam::alignment::Record` whose accessors,
//!                                   iterators and *_ref answers are all chosen by the generator
//!                                   (every branch of encoder.rs and its sub-encoders, incl. the
//!                                   Offset quality path and iterator errors of every kind)
//!   c05 re sam <refs> <hex line> <float table>
//!                                   real: sam::io::Reader::read_record (lazy sam::Record: fields parsed
//!                                   on access, sequence_ref = Raw) → bam Writer::write_alignment_record;
//!                                   refs / float table as in `c06` (model: `lean/Noodles/Sam/Reenc.lean`)
//!   answer: `ok <body>` | error class | `panic` | `eof` / `unreadable` / `short`
//! Oracle (on the real code only; class = first word):
//!   rewrite-lazy     an eagerly decodable body, read lazily and accepted by the writer, does not
//!                    read back as the eager decode of the original (data compared as a map when
//!                    the CIGAR came from a CG field, which the eager decoder swap_removes)
//!   rewrite-generic  …the same through Box<dyn Record> / RecordRef, up to the writer's own
//!                    convention of not writing a CG data field
//!   rewrite-sam      a lazy sam::Record and its eager RecordBuf, both accepted by the BAM writer,
//!                    read back as different records (integer aux fields compared by value)
//!   reject-hygiene   a rejected record reached the sink / block_size does not describe the body
//!   panic            the writer panicked on a validated bam::Record, a boxed one, a sam::Record
//!                    or a scripted record (RecordRef over unvalidated bytes may panic: not counted)
use crate::common::*;
use super::c05::{self, Rec, Ty, Val};
use super::c06;
use bstr::{BStr, BString};
use noodles_bam as bam;
use noodles_core::Position;
use noodles_sam::{
    self as sam,
    alignment::{
        io::Write as _,
        record::{
            cigar::{op::Kind, Op},
            data::field::{Tag, Value as LValue},
            sequence_ref::FourBitPacked,
            CigarRef, DataRef, Flags, MappingQuality, QualityScoresRef, SequenceRef,
        },
        record_buf::Data as DataBuf,
    },
};
use std::io;

const KINDS: [Kind; 9] = [Kind::Match, Kind::Insertion, Kind::Deletion, Kind::Skip, Kind::SoftClip, Kind::HardClip, Kind::Pad, Kind::SequenceMatch, Kind::SequenceMismatch];

fn fmt_bytes(b: &[u8]) -> String {
    if b.len() <= 1500 { hex(b) } else { format!("#{}:{}", b.len(), crc32(b)) }
}

fn framed(body: &[u8]) -> Vec<u8> {
    let mut v = (body.len() as u32).to_le_bytes().to_vec();
    v.extend_from_slice(body);
    v
}

/// outcome of one `write_alignment_record` on a fresh writer
struct Written {
    answer: String,
    body: Option<Vec<u8>>,
    hygiene: Option<&'static str>,
}

fn write_dyn(nref: usize, rec: &dyn sam::alignment::Record) -> Written {
    write_dyn_h(&c05::header(nref), rec)
}

fn write_dyn_h(h: &sam::Header, rec: &dyn sam::alignment::Record) -> Written {
    let res = guarded(|| {
        let mut w = bam::io::Writer::from(Vec::new());
        let r = w.write_alignment_record(h, rec);
        (r.map_err(|e| errclass(&e).to_string()), w.into_inner())
    });
    match res {
        Err(_) => Written { answer: "panic".into(), body: None, hygiene: None },
        Ok((Ok(()), out)) => {
            if out.len() < 4 || u32::from_le_bytes(out[..4].try_into().unwrap()) as usize != out.len() - 4 {
                return Written { answer: "bad-block-size".into(), body: None, hygiene: Some("bad-block-size") };
            }
            Written { answer: format!("ok {}", fmt_bytes(&out[4..])), body: Some(out[4..].to_vec()), hygiene: None }
        }
        Ok((Err(c), out)) => Written { answer: c, body: None, hygiene: if out.is_empty() { None } else { Some("partial-write") } },
    }
}

fn read_lazy(body: &[u8]) -> Result<bam::Record, &'static str> {
    let f = framed(body);
    let mut rd = bam::io::Reader::from(&f[..]);
    let mut rec = bam::Record::default();
    match rd.read_record(&mut rec) {
        Ok(0) => Err("eof"),
        Ok(_) => Ok(rec),
        Err(_) => Err("unreadable"),
    }
}

fn sorted_data(r: &Rec) -> Rec {
    let mut n = r.clone();
    n.data.sort_by(|a, b| a.0.cmp(&b.0));
    n
}

fn show(r: &Rec) -> String {
    let s = c05::fmt_rec(r);
    if s.len() > 300 { format!("{}…({} chars)", &s[..300], s.len()) } else { s }
}

/// the three ways a BAM-backed lazy record reaches the writer, on one body
fn body_case(ctx: &mut Ctx, nref: usize, body: &[u8], case: &str, label: &str, emit: bool) {
    ctx.bump(label);
    let h = hex(body);
    let eager = guarded(|| c05::real_decode(body)).unwrap_or(Err("panic".into()));
    // the CIGAR of the eager record was taken from a CG field (hand-made bytes may hold it anywhere)
    let n_ops = if body.len() >= 14 { u16::from_le_bytes([body[12], body[13]]) } else { 0 };
    let cg_resolved = n_ops == 2 && body.windows(4).any(|w| w == b"CGBI");
    // ---- bam::Record and Box<dyn Record>
    match read_lazy(body) {
        Err(why) => {
            ctx.bump(&format!("re_lazy_{why}"));
            if emit {
                ctx.corr(format!("c05 re lazy {nref} {h}"), why.into());
                ctx.corr(format!("c05 re box {nref} {h}"), why.into());
            }
        }
        Ok(rec) => {
            let lazy = write_dyn(nref, &rec);
            let boxed: Box<dyn sam::alignment::Record> = Box::new(rec.clone());
            let genr = write_dyn(nref, &boxed);
            if emit {
                ctx.corr(format!("c05 re lazy {nref} {h}"), lazy.answer.clone());
                ctx.corr(format!("c05 re box {nref} {h}"), genr.answer.clone());
            }
            ctx.bump(&format!("re_lazy_{}", lazy.answer.split(' ').next().unwrap()));
            ctx.bump(&format!("re_box_{}", genr.answer.split(' ').next().unwrap()));
            for (w, what) in [(&lazy, "bam::Record"), (&genr, "Box<dyn Record>")] {
                if w.answer == "panic" {
                    ctx.fail("panic", format!("write_alignment_record({what}) panicked on a record that read_record accepted ({} bytes)", body.len()), case.into());
                }
                if let Some(hy) = w.hygiene {
                    ctx.fail("reject-hygiene", format!("write_alignment_record({what}): {hy}"), case.into());
                }
            }
            if let Ok(want) = &eager {
                ctx.eval(Some(fnv(body) ^ 0x5e));
                // ---- oracle: the fast paths
                if let Some(out) = &lazy.body {
                    ctx.bump(if out == body { "re_lazy_byte_identical" } else if out.len() == body.len() { "re_lazy_same_length_not_identical" } else { "re_lazy_different_length" });
                    match c05::real_decode(out) {
                        Ok(got) => {
                            let same = if cg_resolved { sorted_data(&got) == sorted_data(want) } else { got == *want };
                            if !same {
                                ctx.fail("rewrite-lazy", format!("a lazy bam::Record written back reads back as a different record: got {} expected {}", show(&got), show(want)), case.into());
                            }
                        }
                        Err(c) => ctx.fail("rewrite-lazy", format!("a lazy bam::Record ({} CIGAR ops) accepted by the writer cannot be read back: {c}", want.cigar.len()), case.into()),
                    }
                }
                // ---- oracle: the default paths (the writer's convention: a CG data field is not written)
                if let Some(out) = &genr.body {
                    let want_n = c05::norm(want);
                    match c05::real_decode(out) {
                        Ok(got) => {
                            let same = if cg_resolved { sorted_data(&got) == sorted_data(&want_n) } else { got == want_n };
                            if !same {
                                ctx.fail("rewrite-generic", format!("a boxed lazy bam::Record written back reads back as a different record: got {} expected {}", show(&got), show(&want_n)), case.into());
                            }
                        }
                        Err(c) => ctx.fail("rewrite-generic", format!("a boxed lazy bam::Record accepted by the writer cannot be read back: {c}"), case.into()),
                    }
                }
                if lazy.body.is_some() != genr.body.is_some() {
                    ctx.bump("re_lazy_and_box_disagree_on_acceptance");
                }
            }
        }
    }
    // ---- RecordRef, not validated
    if body.len() <= 4096 {
        match bam::RecordRef::new(body) {
            None => {
                ctx.bump("re_ref_short");
                if emit {
                    ctx.corr(format!("c05 re ref {nref} {h}"), "short".into());
                }
            }
            Some(r) => {
                let w = write_dyn(nref, &r);
                ctx.bump(&format!("re_ref_{}", w.answer.split(' ').next().unwrap()));
                if emit {
                    ctx.corr(format!("c05 re ref {nref} {h}"), w.answer.clone());
                }
                if let Some(hy) = w.hygiene {
                    ctx.fail("reject-hygiene", format!("write_alignment_record(RecordRef): {hy}"), case.into());
                }
                if let (Some(out), Ok(want)) = (&w.body, &eager) {
                    let want_n = c05::norm(want);
                    match c05::real_decode(out) {
                        Ok(got) => {
                            let same = if cg_resolved { sorted_data(&got) == sorted_data(&want_n) } else { got == want_n };
                            if !same {
                                ctx.fail("rewrite-generic", format!("a RecordRef written back reads back as a different record: got {} expected {}", show(&got), show(&want_n)), case.into());
                            }
                        }
                        Err(c) => ctx.fail("rewrite-generic", format!("a RecordRef accepted by the writer cannot be read back: {c}"), case.into()),
                    }
                }
            }
        }
    }
}

// ------------------------------------------------------------------ byte-level mutations aimed at the re-encoder

struct Layout {
    l_name: usize,
    n_ops: usize,
    l_seq: usize,
    cigar: usize,
    seq: usize,
    qual: usize,
    data: usize,
}

fn layout(b: &[u8]) -> Layout {
    let l_name = b[8] as usize;
    let n_ops = u16::from_le_bytes([b[12], b[13]]) as usize;
    let l_seq = u32::from_le_bytes([b[16], b[17], b[18], b[19]]) as usize;
    let cigar = 32 + l_name;
    let seq = cigar + 4 * n_ops;
    let qual = seq + l_seq.div_ceil(2);
    let data = qual + l_seq;
    Layout { l_name, n_ops, l_seq, cigar, seq, qual, data }
}

/// `body` is a record the real writer produced (so its layout is consistent)
pub(super) fn mutate(rng: &mut Rng, body: &[u8]) -> (Vec<u8>, &'static str) {
    let mut b = body.to_vec();
    let l = layout(body);
    match rng.below(26) {
        0 => {
            b[10..12].copy_from_slice(&(rng.next() as u16).to_le_bytes());
            (b, "mut_bin")
        }
        1 => {
            b[15] |= *rng.pick(&[0x10u8, 0x80, 0xf0]);
            (b, "mut_flag_high_bits")
        }
        2 => {
            let i = *rng.pick(&[0usize, 20]);
            let v: i32 = *rng.pick(&[0, 1, 2, 3, 5, -1, -2, i32::MIN, i32::MAX]);
            b[i..i + 4].copy_from_slice(&v.to_le_bytes());
            (b, "mut_reference_id")
        }
        3 => {
            let i = *rng.pick(&[4usize, 24]);
            let v: i32 = *rng.pick(&[0, -1, -2, i32::MIN, i32::MAX, 1 << 29]);
            b[i..i + 4].copy_from_slice(&v.to_le_bytes());
            (b, "mut_position")
        }
        4 => {
            b[9] = *rng.pick(&[255u8, 254, 0]);
            (b, "mut_mapq")
        }
        5 => {
            // a character the name encoder refuses / an embedded NUL
            if l.l_name >= 2 {
                let i = 32 + rng.below(l.l_name as u64 - 1) as usize;
                b[i] = *rng.pick(&[b'@', b' ', 0x00, 0x7f, 0x80, b'*']);
            }
            (b, "mut_name_char")
        }
        6 => {
            // no NUL terminator: the lazy name is then the whole slice
            if l.l_name >= 1 {
                b[32 + l.l_name - 1] = *rng.pick(&[b'x', 1, 0xff]);
            }
            (b, "mut_name_terminator")
        }
        7 => {
            // l_read_name = 1: the name is the empty string
            let mut c = body[..32].to_vec();
            c[8] = 1;
            c.push(0);
            c.extend_from_slice(&body[l.cigar..]);
            (c, "mut_name_empty")
        }
        8 => {
            // name of 254 bytes without / with terminator (255-byte slice)
            let mut c = body[..32].to_vec();
            c[8] = 255;
            c.extend(std::iter::repeat_n(b'n', 254));
            c.push(*rng.pick(&[0u8, b'n']));
            c.extend_from_slice(&body[l.cigar..]);
            (c, "mut_name_255")
        }
        9 => {
            if l.n_ops > 0 {
                let i = l.cigar + 4 * rng.below(l.n_ops as u64) as usize;
                b[i] = (b[i] & 0xf0) | *rng.pick(&[9u8, 15, 0, 4]);
            }
            (b, "mut_op_kind")
        }
        10 => {
            if l.n_ops > 0 {
                let i = l.cigar + 4 * rng.below(l.n_ops as u64) as usize;
                b[i] = b[i].wrapping_add(*rng.pick(&[16u8, 32, 0xf0]));
            }
            (b, "mut_op_len")
        }
        11 => {
            // odd l_seq: the padding nibble
            if l.l_seq % 2 == 1 {
                b[l.qual - 1] |= 1 + rng.below(15) as u8;
            }
            (b, "mut_pad_nibble")
        }
        12 => {
            for q in b[l.qual..l.data].iter_mut() {
                *q = 0xff;
                if rng.chance(1, 3) {
                    break;
                }
            }
            (b, "mut_quals_ff")
        }
        13 => {
            if l.l_seq > 0 {
                b[l.qual + rng.below(l.l_seq as u64) as usize] = *rng.pick(&[94u8, 93, 200, 254]);
            }
            (b, "mut_qual_value")
        }
        14 => {
            b.extend_from_slice(match rng.below(8) {
                0 => b"ZzZa\x7fb\x00",
                1 => b"ZzZa\x1fb\x00",
                2 => b"ZzHABC\x00",
                3 => b"ZzHab\x00",
                4 => b"ZzZok\x00",
                5 => b"ZzHCAFE\x00",
                6 => b"ZzZ\x00",
                _ => b"ZzH0G\x00",
            });
            (b, "mut_append_string")
        }
        15 => {
            b.extend_from_slice(match rng.below(15) {
                0 => b"Zz?\x01",
                1 => b"ZzB?\x01\x00\x00\x00\x01",
                2 => b"ZzB?\x01\x00",
                3 => b"ZzBc\x05\x00\x00\x00\x01",
                4 => b"ZzZabc",
                5 => b"ZzHAB",
                6 => b"Zz",
                7 => b"ZzB",
                8 => b"ZzBc\x01\x00\x00",
                9 => b"ZzBc",
                10 => b"Z",
                11 => b"Zzi\x01\x02\x03",
                12 => b"ZzA",
                13 => b"ZzBc\x00\x00\x00",
                _ => b"ZzS\x01",
            });
            (b, "mut_append_broken_field")
        }
        16 => {
            b.extend_from_slice(match rng.below(6) {
                0 => b"ZzA\x00",
                1 => b"Zzc\x80Zys\x00\x80ZxS\xff\xff",
                2 => b"Zzi\x00\x00\x00\x80ZyI\xff\xff\xff\xffZxf\x01\x00\xc0\x7f",
                3 => b"ZzBs\x02\x00\x00\x00\x01\x00\x00\x80ZyBf\x01\x00\x00\x00\x00\x00\x80\x7f",
                4 => b"ZzBI\x00\x00\x00\x00ZyBC\x03\x00\x00\x00\x01\x02\x03",
                _ => b"ZzBi\x01\x00\x00\x00\xff\xff\xff\xffZyBS\x01\x00\x00\x00\xff\xff",
            });
            (b, "mut_append_typed_fields")
        }
        17 => {
            if b.len() > l.data + 3 {
                let d = b[l.data..].to_vec();
                b.extend_from_slice(&d);
            }
            (b, "mut_duplicate_tags")
        }
        18 => {
            // a CG field on a record whose CIGAR is not the placeholder
            b.extend_from_slice(match rng.below(3) {
                0 => &b"CGBI\x01\x00\x00\x00\x30\x00\x00\x00"[..],
                1 => &b"CGZabc\x00"[..],
                _ => &b"CGBC\x02\x00\x00\x00\x01\x02"[..],
            });
            (b, "mut_append_cg")
        }
        19 | 20 | 21 => {
            // craft the kSmN placeholder over this record's data, with a CG field in some position
            let mut c = body[..32].to_vec();
            c[12..14].copy_from_slice(&2u16.to_le_bytes());
            c.extend_from_slice(&body[32..l.cigar]);
            let k = if rng.chance(1, 6) { l.l_seq + 1 } else { l.l_seq };
            c.extend_from_slice(&(((k as u32) << 4) | 4).to_le_bytes());
            c.extend_from_slice(&((*rng.pick(&[7u32, 0, 3]) << 4) | if rng.chance(1, 8) { 2 } else { 3 }).to_le_bytes());
            c.extend_from_slice(&body[l.seq..l.data]);
            // the read length of the CG ops: the sequence length (so that the writer accepts), or not
            let rl = if rng.chance(4, 5) { l.l_seq as u32 } else { l.l_seq as u32 + 1 };
            let mut ops: Vec<u32> = vec![];
            match rng.below(6) {
                0 => {}
                1 => ops.push((rl << 4) | 0),
                2 => {
                    ops.push((rl << 4) | 4);
                    ops.push((5 << 4) | 3);
                }
                3 => {
                    ops.push((rl << 4) | 0);
                    ops.push((2 << 4) | 15);
                }
                4 => {
                    ops.push((1 << 4) | 2);
                    ops.push((rl << 4) | 7);
                    ops.push((3 << 4) | 5);
                }
                _ => {
                    ops.push((rl << 4) | 8);
                    ops.push((9 << 4) | 2);
                }
            }
            let mut cg: Vec<u8> = match rng.below(8) {
                0 => b"CGBC\x03\x00\x00\x00\x10\x20\x30".to_vec(),
                1 => b"CGZab\x00".to_vec(),
                _ => {
                    let mut v = b"CGBI".to_vec();
                    v.extend_from_slice(&(ops.len() as u32).to_le_bytes());
                    for o in &ops {
                        v.extend_from_slice(&o.to_le_bytes());
                    }
                    v
                }
            };
            let fields = &body[l.data..];
            match rng.below(4) {
                0 => {
                    c.extend_from_slice(&cg);
                    c.extend_from_slice(fields);
                }
                1 => {
                    c.extend_from_slice(fields);
                    c.extend_from_slice(&cg);
                }
                2 => {
                    c.extend_from_slice(b"XaC\x01");
                    c.extend_from_slice(&cg);
                    c.extend_from_slice(b"XbZ\x7f\x00XcC\x03");
                }
                _ => {
                    c.extend_from_slice(b"XaC\x01");
                    c.append(&mut cg);
                    c.extend_from_slice(b"XbC\x02XcC\x03");
                }
            }
            (c, "mut_placeholder_with_cg")
        }
        22 => {
            b.truncate(rng.below(b.len() as u64) as usize);
            (b, "mut_truncate")
        }
        23 => {
            let v = (l.l_seq as u32).wrapping_add(*rng.pick(&[1u32, 0xffff_ffff, 2, 1000, 0x8000_0000]));
            b[16..20].copy_from_slice(&v.to_le_bytes());
            (b, "mut_l_seq")
        }
        24 => {
            let v = (l.n_ops as u16).wrapping_add(*rng.pick(&[1u16, 0xffff, 2, 100]));
            b[12..14].copy_from_slice(&v.to_le_bytes());
            (b, "mut_n_cigar_op")
        }
        _ => {
            b[8] = *rng.pick(&[0u8, 1, b[8].wrapping_add(1), b[8].wrapping_sub(1), 255]);
            (b, "mut_l_read_name")
        }
    }
}

/// a long (> 65535 ops) written record with its CG field moved to the front / the placeholder's
/// reference span changed
pub(super) fn mutate_long(rng: &mut Rng, body: &[u8]) -> (Vec<u8>, &'static str) {
    let l = layout(body);
    let mut b = body.to_vec();
    match rng.below(3) {
        0 => {
            if let Some(p) = body[l.data..].windows(4).rposition(|w| w == b"CGBI") {
                let cg = body[l.data + p..].to_vec();
                let mut c = body[..l.data].to_vec();
                c.extend_from_slice(&cg);
                c.extend_from_slice(&body[l.data..l.data + p]);
                return (c, "long_cg_first");
            }
            (b, "long_unchanged")
        }
        1 => {
            if l.n_ops == 2 {
                b[l.cigar + 5] ^= 0x10;
            }
            (b, "long_placeholder_span")
        }
        _ => {
            b[10..12].copy_from_slice(&(rng.next() as u16).to_le_bytes());
            (b, "long_bin")
        }
    }
}

// ------------------------------------------------------------------ hand-written bodies (always first)

fn default_body() -> Vec<u8> {
    vec![0xff, 0xff, 0xff, 0xff, 0xff, 0xff, 0xff, 0xff, 0x02, 0xff, 0x48, 0x12, 0x00, 0x00, 0x04, 0x00, 0x00, 0x00, 0x00, 0x00, 0xff, 0xff, 0xff, 0xff, 0xff, 0xff, 0xff, 0xff, 0x00, 0x00, 0x00, 0x00, b'*', 0x00]
}

/// core + name + ops + packed seq + quals + data
pub(super) fn mk(refid: i32, pos: i32, mapq: u8, bin: u16, flags: u16, name: &[u8], ops: &[u32], l_seq: u32, seq: &[u8], qual: &[u8], data: &[u8]) -> Vec<u8> {
    let mut b = vec![];
    b.extend_from_slice(&refid.to_le_bytes());
    b.extend_from_slice(&pos.to_le_bytes());
    b.push(name.len() as u8);
    b.push(mapq);
    b.extend_from_slice(&bin.to_le_bytes());
    b.extend_from_slice(&(ops.len() as u16).to_le_bytes());
    b.extend_from_slice(&flags.to_le_bytes());
    b.extend_from_slice(&l_seq.to_le_bytes());
    b.extend_from_slice(&(-1i32).to_le_bytes());
    b.extend_from_slice(&(-1i32).to_le_bytes());
    b.extend_from_slice(&7i32.to_le_bytes());
    b.extend_from_slice(name);
    for o in ops {
        b.extend_from_slice(&o.to_le_bytes());
    }
    b.extend_from_slice(seq);
    b.extend_from_slice(qual);
    b.extend_from_slice(data);
    b
}

pub(super) fn corpus() -> Vec<(usize, Vec<u8>, &'static str)> {
    let m = |len: u32, k: u32| (len << 4) | k;
    let mut v: Vec<(usize, Vec<u8>, &'static str)> = vec![];
    v.push((0, default_body(), "corpus_default"));
    v.push((2, mk(1, 8, 13, 4681, 65, b"r0\0", &[m(3, 0), m(1, 4)], 4, &[0x12, 0x48], &[45, 35, 43, 50], b"NHC\x01"), "corpus_all_fields"));
    v.push((2, mk(1, 8, 13, 0, 65, b"r0\0", &[m(3, 0), m(1, 4)], 4, &[0x12, 0x48], &[45, 35, 43, 50], b"NHC\x01"), "corpus_stale_bin"));
    v.push((2, mk(1, 8, 13, 4681, 0xf041, b"r0\0", &[m(3, 0), m(1, 4)], 4, &[0x12, 0x48], &[45, 35, 43, 50], b"NHC\x01"), "corpus_flag_high_bits"));
    v.push((1, mk(1, 8, 13, 4681, 65, b"r0\0", &[m(3, 0), m(1, 4)], 4, &[0x12, 0x48], &[45, 35, 43, 50], b""), "corpus_refid_outside_dictionary"));
    v.push((2, mk(-2, 8, 13, 4681, 65, b"r0\0", &[], 0, &[], &[], b""), "corpus_refid_negative"));
    v.push((2, mk(1, -2, 13, 4681, 65, b"r0\0", &[], 0, &[], &[], b""), "corpus_pos_negative"));
    v.push((2, mk(1, i32::MAX, 13, 4681, 65, b"r0\0", &[m(3, 0)], 0, &[], &[], b""), "corpus_pos_max"));
    v.push((2, mk(-1, -1, 255, 4680, 4, b"*\0", &[m(3, 0)], 3, &[0x12, 0x4f], &[0xff, 0xff, 0xff], b""), "corpus_pad_nibble_and_missing_quals"));
    v.push((2, mk(-1, -1, 255, 4680, 4, b"*\0", &[m(3, 0)], 3, &[0x12, 0x40], &[0xff, 30, 0xff], b""), "corpus_partly_ff_quals"));
    v.push((2, mk(-1, -1, 255, 4680, 4, b"*\0", &[m(3, 0)], 3, &[0x12, 0x40], &[1, 94, 3], b""), "corpus_qual_94"));
    v.push((2, mk(-1, -1, 255, 4680, 4, b"*\0", &[m(2, 0)], 3, &[0x12, 0x40], &[1, 2, 3], b""), "corpus_seq_cigar_mismatch"));
    v.push((2, mk(-1, -1, 255, 4680, 4, b"*\0", &[m(2, 2)], 3, &[0x12, 0x40], &[1, 2, 3], b""), "corpus_read_length_zero"));
    v.push((2, mk(-1, -1, 255, 4680, 4, b"*\0", &[m(3, 9)], 3, &[0x12, 0x40], &[1, 2, 3], b""), "corpus_op_kind_9"));
    v.push((2, mk(-1, 8, 255, 4680, 4, b"*\0", &[m(3, 9)], 3, &[0x12, 0x40], &[1, 2, 3], b""), "corpus_op_kind_9_with_pos"));
    v.push((2, mk(-1, -1, 255, 4680, 4, b"\0", &[], 0, &[], &[], b""), "corpus_name_empty"));
    v.push((2, mk(-1, -1, 255, 4680, 4, b"ab", &[], 0, &[], &[], b""), "corpus_name_without_nul"));
    v.push((2, mk(-1, -1, 255, 4680, 4, b"a@b\0", &[], 0, &[], &[], b""), "corpus_name_at_sign"));
    v.push((2, mk(-1, -1, 255, 4680, 4, b"a\0b\0", &[], 0, &[], &[], b""), "corpus_name_embedded_nul"));
    v.push((2, mk(-1, -1, 255, 4680, 4, b"**\0", &[], 0, &[], &[], b""), "corpus_name_two_stars"));
    v.push((2, mk(-1, -1, 255, 4680, 4, b"r\0", &[], 0, &[], &[], b"XZZa\x7f\x00"), "corpus_string_unprintable"));
    v.push((2, mk(-1, -1, 255, 4680, 4, b"r\0", &[], 0, &[], &[], b"XHHabc\x00"), "corpus_hex_invalid"));
    v.push((2, mk(-1, -1, 255, 4680, 4, b"r\0", &[], 0, &[], &[], b"XZZabc"), "corpus_string_without_nul"));
    v.push((2, mk(-1, -1, 255, 4680, 4, b"r\0", &[], 0, &[], &[], b"XX?\x00"), "corpus_unknown_type"));
    v.push((2, mk(-1, -1, 255, 4680, 4, b"r\0", &[], 0, &[], &[], b"XXB?\x00\x00\x00\x00"), "corpus_unknown_subtype"));
    v.push((2, mk(-1, -1, 255, 4680, 4, b"r\0", &[], 0, &[], &[], b"XXB?\x00\x00"), "corpus_unknown_subtype_short_count"));
    v.push((2, mk(-1, -1, 255, 4680, 4, b"r\0", &[], 0, &[], &[], b"XXBs\x02\x00\x00\x00\x01\x00\x02"), "corpus_array_cut_short"));
    v.push((2, mk(-1, -1, 255, 4680, 4, b"r\0", &[], 0, &[], &[], b"XX"), "corpus_tag_only"));
    v.push((2, mk(-1, -1, 255, 4680, 4, b"r\0", &[], 0, &[], &[], b"X"), "corpus_half_tag"));
    v.push((2, mk(-1, -1, 255, 4680, 4, b"r\0", &[], 0, &[], &[], b"XXs\x01"), "corpus_short_cut"));
    v.push((2, mk(-1, -1, 255, 4680, 4, b"r\0", &[], 0, &[], &[], b"XXi\x01\x02\x03"), "corpus_int_cut"));
    v.push((2, mk(-1, -1, 255, 4680, 4, b"r\0", &[], 0, &[], &[], b"XXA"), "corpus_char_cut"));
    v.push((2, mk(-1, -1, 255, 4680, 4, b"r\0", &[], 0, &[], &[], b"NHC\x01NHC\x02"), "corpus_duplicate_tag"));
    v.push((2, mk(-1, -1, 255, 4680, 4, b"r\0", &[m(3, 0)], 0, &[], &[], b"CGBI\x01\x00\x00\x00\x50\x00\x00\x00NHC\x01"), "corpus_user_cg_no_placeholder"));
    v.push((2, mk(-1, -1, 255, 4680, 4, b"r\0", &[m(3, 0)], 0, &[], &[], b"CGZab\x00NHC\x01"), "corpus_user_cg_string"));
    // placeholders
    let ph = [m(3, 4), m(7, 3)];
    v.push((2, mk(0, 8, 255, 4681, 0, b"r\0", &ph, 3, &[0x12, 0x40], &[1, 2, 3], b"NHC\x01CGBI\x02\x00\x00\x00\x20\x00\x00\x00\x14\x00\x00\x00"), "corpus_placeholder_cg_last"));
    v.push((2, mk(0, 8, 255, 4681, 0, b"r\0", &ph, 3, &[0x12, 0x40], &[1, 2, 3], b"CGBI\x02\x00\x00\x00\x20\x00\x00\x00\x14\x00\x00\x00NHC\x01XBBs\x01\x00\x00\x00\xff\xff"), "corpus_placeholder_cg_first"));
    v.push((2, mk(0, 8, 255, 4681, 0, b"r\0", &ph, 3, &[0x12, 0x40], &[1, 2, 3], b"NHC\x01"), "corpus_placeholder_without_cg"));
    v.push((2, mk(0, 8, 255, 4681, 0, b"r\0", &ph, 3, &[0x12, 0x40], &[1, 2, 3], b"CGBI\x02\x00\x00\x00\x34\x00\x00\x00\x73\x00\x00\x00"), "corpus_cg_holds_a_placeholder"));
    v.push((2, mk(0, 8, 255, 4681, 0, b"r\0", &ph, 3, &[0x12, 0x40], &[1, 2, 3], b"CGBI\x01\x00\x00\x00\x3f\x00\x00\x00"), "corpus_cg_invalid_kind"));
    v.push((2, mk(0, 8, 255, 4681, 0, b"r\0", &ph, 3, &[0x12, 0x40], &[1, 2, 3], b"CGBI\x00\x00\x00\x00"), "corpus_cg_empty"));
    v.push((2, mk(0, 8, 255, 4681, 0, b"r\0", &ph, 3, &[0x12, 0x40], &[1, 2, 3], b"CGBC\x03\x00\x00\x00\x10\x20\x30CGBI\x01\x00\x00\x00\x30\x00\x00\x00"), "corpus_cg_twice"));
    v.push((2, mk(0, 8, 255, 4681, 0, b"r\0", &ph, 3, &[0x12, 0x40], &[1, 2, 3], b"XZZ\x7f\x00CGBI\x01\x00\x00\x00\x30\x00\x00\x00"), "corpus_cg_with_refused_string"));
    v.push((2, mk(0, 8, 255, 4681, 0, b"r\0", &ph, 3, &[0x12, 0x40], &[1, 2, 3], b"CGBI\x01\x00\x00\x00\x30\x00\x00\x00XZZabc"), "corpus_cg_then_broken_field"));
    // not validated
    v.push((2, default_body()[..31].to_vec(), "corpus_31_bytes"));
    v.push((2, default_body()[..32].to_vec(), "corpus_32_bytes_name_outside"));
    v.push((2, mk(-1, -1, 255, 4680, 4, b"*\0", &[], 5, &[], &[], b""), "corpus_l_seq_outside"));
    v.push((2, mk(-1, 5, 255, 4680, 4, b"*\0", &[], 0, &[], &[], b"")[..34].iter().copied().chain([0u8; 0]).collect::<Vec<u8>>(), "corpus_plain"));
    let mut x = mk(-1, 5, 255, 4680, 4, b"*\0", &[], 0, &[], &[], b"");
    x[12] = 3;
    v.push((2, x, "corpus_n_cigar_op_outside"));
    let mut x = mk(-1, -1, 255, 4680, 4, b"*\0", &[], 0, &[], &[], b"");
    x[16..20].copy_from_slice(&0xffff_ffffu32.to_le_bytes());
    v.push((2, x, "corpus_l_seq_u32_max"));
    v
}

// ------------------------------------------------------------------ scripted records (the generic encoder, every branch)

type Kd = io::ErrorKind;

fn kind_char(k: Kd) -> char {
    match k {
        Kd::InvalidInput => 'i',
        Kd::InvalidData => 'd',
        _ => 'e',
    }
}
fn pick_kind(rng: &mut Rng) -> Kd {
    *rng.pick(&[Kd::InvalidInput, Kd::InvalidData, Kd::UnexpectedEof])
}

#[derive(Clone, Debug)]
enum CRef {
    Generic,
    Packed(Vec<u8>),
}
#[derive(Clone, Debug)]
enum SRef {
    Generic,
    Raw(Vec<u8>),
    Packed(usize, Vec<u8>),
}
#[derive(Clone, Debug)]
enum QRef {
    Generic,
    Raw(Vec<u8>),
    Offset(u8, Vec<u8>),
}
#[derive(Clone, Debug)]
enum DRef {
    Generic,
    Encoded(Vec<u8>),
}

#[derive(Clone, Debug)]
struct Spec {
    refid: Option<Result<usize, Kd>>,
    pos: Option<Result<usize, Kd>>,
    name: Option<Vec<u8>>,
    mapq: Option<Result<u8, Kd>>,
    cigar_len: usize,
    cigar: Vec<(u8, usize)>,
    cigar_stop: Option<Kd>,
    flags: Result<u16, Kd>,
    seq_len: usize,
    seq: Vec<u8>,
    mref: Option<Result<usize, Kd>>,
    mpos: Option<Result<usize, Kd>>,
    tlen: Result<i32, Kd>,
    qual_len: usize,
    qual: Vec<u8>,
    qual_stop: Option<Kd>,
    data: Vec<([u8; 2], Val)>,
    data_stop: Option<Kd>,
    cref: CRef,
    sref: SRef,
    qref: QRef,
    dref: DRef,
}

fn w_opt<T: std::fmt::Display>(v: &Option<Result<T, Kd>>) -> String {
    match v {
        None => "N".into(),
        Some(Ok(n)) => n.to_string(),
        Some(Err(k)) => format!("E{}", kind_char(*k)),
    }
}
fn w_res<T: std::fmt::Display>(v: &Result<T, Kd>) -> String {
    match v {
        Ok(n) => n.to_string(),
        Err(k) => format!("E{}", kind_char(*k)),
    }
}
fn w_stop(s: &Option<Kd>) -> String {
    match s {
        None => ".".into(),
        Some(k) => kind_char(*k).to_string(),
    }
}

impl Spec {
    fn words(&self) -> String {
        // the cigar and data text of the existing `c05 enc` protocol
        let carrier = Rec { cigar: self.cigar.clone(), data: self.data.clone(), ..Default::default() };
        let txt = c05::fmt_rec(&carrier);
        let f: Vec<&str> = txt.split(' ').collect();
        let (cigar_txt, data_txt) = (f[5], f[11]);
        format!(
            "{} {} {} {} {}/{}/{} {} {}/{} {} {} {} {}/{}/{} {}/{} {} {} {} {}",
            w_opt(&self.refid),
            w_opt(&self.pos),
            self.name.as_ref().map(|n| hex(n)).unwrap_or_else(|| "N".into()),
            w_opt(&self.mapq),
            self.cigar_len,
            cigar_txt,
            w_stop(&self.cigar_stop),
            w_res(&self.flags),
            self.seq_len,
            hex(&self.seq),
            w_opt(&self.mref),
            w_opt(&self.mpos),
            w_res(&self.tlen),
            self.qual_len,
            hex(&self.qual),
            w_stop(&self.qual_stop),
            data_txt,
            w_stop(&self.data_stop),
            match &self.cref {
                CRef::Generic => "g".to_string(),
                CRef::Packed(b) => format!("p{}", hex(b)),
            },
            match &self.sref {
                SRef::Generic => "g".to_string(),
                SRef::Raw(b) => format!("r{}", hex(b)),
                SRef::Packed(n, b) => format!("p{n}/{}", hex(b)),
            },
            match &self.qref {
                QRef::Generic => "g".to_string(),
                QRef::Raw(b) => format!("r{}", hex(b)),
                QRef::Offset(o, b) => format!("o{o}/{}", hex(b)),
            },
            match &self.dref {
                DRef::Generic => "g".to_string(),
                DRef::Encoded(b) => format!("e{}", hex(b)),
            },
        )
    }
}

struct Scripted {
    spec: Spec,
    name: Option<BString>,
    ops: Vec<Op>,
    data: DataBuf,
}

impl Scripted {
    fn new(spec: Spec) -> Self {
        let carrier = Rec { data: spec.data.clone(), ..Default::default() };
        let data = c05::to_record_buf(&carrier).data().clone();
        let ops = spec.cigar.iter().map(|(k, l)| Op::new(KINDS[*k as usize], *l)).collect();
        let name = spec.name.clone().map(BString::from);
        Scripted { spec, name, ops, data }
    }
}

fn e(k: Kd) -> io::Error {
    io::Error::new(k, "scripted")
}

struct SCigar<'a>(&'a Scripted);
impl sam::alignment::record::Cigar for SCigar<'_> {
    fn is_empty(&self) -> bool {
        self.0.spec.cigar_len == 0
    }
    fn len(&self) -> usize {
        self.0.spec.cigar_len
    }
    fn iter(&self) -> Box<dyn Iterator<Item = io::Result<Op>> + '_> {
        Box::new(self.0.ops.iter().copied().map(Ok).chain(self.0.spec.cigar_stop.map(|k| Err(e(k)))))
    }
}

struct SSeq<'a>(&'a Scripted);
impl sam::alignment::record::Sequence for SSeq<'_> {
    fn is_empty(&self) -> bool {
        self.0.spec.seq_len == 0
    }
    fn len(&self) -> usize {
        self.0.spec.seq_len
    }
    fn get(&self, i: usize) -> Option<u8> {
        self.0.spec.seq.get(i).copied()
    }
    fn iter(&self) -> Box<dyn Iterator<Item = u8> + '_> {
        Box::new(self.0.spec.seq.iter().copied())
    }
}

struct SQual<'a>(&'a Scripted);
impl sam::alignment::record::QualityScores for SQual<'_> {
    fn is_empty(&self) -> bool {
        self.0.spec.qual_len == 0
    }
    fn len(&self) -> usize {
        self.0.spec.qual_len
    }
    fn iter(&self) -> Box<dyn Iterator<Item = io::Result<u8>> + '_> {
        Box::new(self.0.spec.qual.iter().copied().map(Ok).chain(self.0.spec.qual_stop.map(|k| Err(e(k)))))
    }
}

struct SData<'r>(&'r Scripted);
impl<'r> sam::alignment::record::Data<'r> for SData<'r> {
    fn is_empty(&self) -> bool {
        self.0.data.is_empty() && self.0.spec.data_stop.is_none()
    }
    fn get(&self, tag: &Tag) -> Option<io::Result<LValue<'r>>> {
        let d: &'r DataBuf = &self.0.data;
        <&'r DataBuf as sam::alignment::record::Data<'r>>::get(&d, tag)
    }
    fn iter(&self) -> Box<dyn Iterator<Item = io::Result<(Tag, LValue<'r>)>> + 'r> {
        let d: &'r DataBuf = &self.0.data;
        let stop = self.0.spec.data_stop;
        Box::new(<&'r DataBuf as sam::alignment::record::Data<'r>>::iter(&d).chain(stop.map(|k| Err(e(k)))))
    }
}

fn lift<T, U>(v: &Option<Result<T, Kd>>, f: impl Fn(&T) -> U) -> Option<io::Result<U>> {
    v.as_ref().map(|r| r.as_ref().map(|x| f(x)).map_err(|k| e(*k)))
}

impl sam::alignment::Record for Scripted {
    fn name(&self) -> Option<&BStr> {
        self.name.as_ref().map(|n| n.as_ref())
    }
    fn flags(&self) -> io::Result<Flags> {
        self.spec.flags.map(Flags::from).map_err(e)
    }
    fn reference_sequence_id<'r, 'h: 'r>(&'r self, _: &'h sam::Header) -> Option<io::Result<usize>> {
        lift(&self.spec.refid, |x| *x)
    }
    fn alignment_start(&self) -> Option<io::Result<Position>> {
        lift(&self.spec.pos, |x| Position::new(*x).expect("pos >= 1"))
    }
    fn mapping_quality(&self) -> Option<io::Result<MappingQuality>> {
        lift(&self.spec.mapq, |x| MappingQuality::new(*x).expect("mapq != 255"))
    }
    fn cigar(&self) -> Box<dyn sam::alignment::record::Cigar + '_> {
        Box::new(SCigar(self))
    }
    fn mate_reference_sequence_id<'r, 'h: 'r>(&'r self, _: &'h sam::Header) -> Option<io::Result<usize>> {
        lift(&self.spec.mref, |x| *x)
    }
    fn mate_alignment_start(&self) -> Option<io::Result<Position>> {
        lift(&self.spec.mpos, |x| Position::new(*x).expect("mpos >= 1"))
    }
    fn template_length(&self) -> io::Result<i32> {
        self.spec.tlen.map_err(e)
    }
    fn sequence(&self) -> Box<dyn sam::alignment::record::Sequence + '_> {
        Box::new(SSeq(self))
    }
    fn quality_scores(&self) -> Box<dyn sam::alignment::record::QualityScores + '_> {
        Box::new(SQual(self))
    }
    fn data(&self) -> Box<dyn sam::alignment::record::Data<'_> + '_> {
        Box::new(SData(self))
    }
    fn cigar_ref(&self) -> CigarRef<'_> {
        match &self.spec.cref {
            CRef::Generic => CigarRef::Cigar(self.cigar()),
            CRef::Packed(b) => CigarRef::FourBytePacked(b),
        }
    }
    fn sequence_ref(&self) -> SequenceRef<'_> {
        match &self.spec.sref {
            SRef::Generic => SequenceRef::Sequence(self.sequence()),
            SRef::Raw(b) => SequenceRef::Raw(b),
            SRef::Packed(n, b) => SequenceRef::FourBitPacked(FourBitPacked::new(b, *n)),
        }
    }
    fn quality_scores_ref(&self) -> QualityScoresRef<'_> {
        match &self.spec.qref {
            QRef::Generic => QualityScoresRef::QualityScores(self.quality_scores()),
            QRef::Raw(b) => QualityScoresRef::Raw(b),
            QRef::Offset(o, b) => QualityScoresRef::Offset(b, *o),
        }
    }
    fn data_ref(&self) -> DataRef<'_> {
        match &self.spec.dref {
            DRef::Generic => DataRef::Data(self.data()),
            DRef::Encoded(b) => DataRef::FieldEncoded(b),
        }
    }
}

fn pack(seq: &[u8]) -> Vec<u8> {
    const B: &[u8; 16] = b"=ACMGRSVTWYHKDBN";
    let code = |c: u8| B.iter().position(|x| *x == c.to_ascii_uppercase()).unwrap_or(15) as u8;
    seq.chunks(2).map(|c| (code(c[0]) << 4) | if c.len() == 2 { code(c[1]) } else { 0 }).collect()
}

/// a mostly-consistent scripted view derived from a grammar record, then bent in one or two places
fn gen_spec(rng: &mut Rng) -> (usize, Spec, Vec<&'static str>) {
    let (nref, r, _) = c05::gen_rec(rng);
    let mut labels = vec![];
    // the data of the grammar record as field-encoded bytes (from the real writer, when it accepts them)
    let enc_data: Option<Vec<u8>> = {
        let carrier = Rec { data: r.data.iter().filter(|(t, _)| t != b"CG").cloned().collect(), ..Default::default() };
        c05::real_encode(0, &carrier).ok().map(|b| b[34..].to_vec())
    };
    let ok = |v: Option<usize>| v.map(Ok);
    let mut s = Spec {
        refid: ok(r.refid),
        pos: ok(r.pos),
        name: r.name.clone(),
        mapq: r.mapq.map(Ok),
        cigar_len: r.cigar.len(),
        cigar: r.cigar.clone(),
        cigar_stop: None,
        flags: Ok(r.flags),
        seq_len: r.seq.len(),
        seq: r.seq.clone(),
        mref: ok(r.mref),
        mpos: ok(r.mpos),
        tlen: Ok(r.tlen),
        qual_len: r.qual.len(),
        qual: r.qual.clone(),
        qual_stop: None,
        data: r.data.clone(),
        data_stop: None,
        cref: CRef::Generic,
        sref: SRef::Generic,
        qref: QRef::Generic,
        dref: DRef::Generic,
    };
    // which borrowed representations the record offers
    match rng.below(4) {
        0 => {}
        1 => {
            s.sref = SRef::Raw(s.seq.clone());
            labels.push("view_seq_raw");
        }
        2 => {
            s.sref = SRef::Packed(s.seq_len, pack(&s.seq));
            labels.push("view_seq_packed");
        }
        _ => {
            // packed bytes that do not match the base count (copied as they are)
            let n = rng.below(4) as usize;
            s.sref = SRef::Packed(s.seq_len, rng.bytes(n));
            labels.push("view_seq_packed_inconsistent");
        }
    }
    match rng.below(5) {
        0 | 1 => {}
        2 => {
            s.qref = QRef::Raw(s.qual.clone());
            labels.push("view_qual_raw");
        }
        3 => {
            let off = *rng.pick(&[33u8, 0, 64, 1]);
            s.qref = QRef::Offset(off, s.qual.iter().map(|q| q.wrapping_add(off)).collect());
            labels.push("view_qual_offset");
        }
        _ => {
            let off = *rng.pick(&[33u8, 34, 200]);
            let n = *rng.pick(&[s.seq_len, s.seq_len, 0, s.seq_len + 1]);
            s.qref = QRef::Offset(off, (0..n).map(|_| *rng.pick(&[32u8, 33, 34, 126, 127, 128, 255, 0])).collect());
            labels.push("view_qual_offset_wild");
        }
    }
    match rng.below(4) {
        0 | 1 => {}
        2 => {
            if let Some(d) = &enc_data {
                s.dref = DRef::Encoded(d.clone());
                labels.push("view_data_encoded");
            }
        }
        _ => {
            if let Some(d) = &enc_data {
                let mut d = d.clone();
                if !d.is_empty() {
                    match rng.below(3) {
                        0 => d.truncate(rng.below(d.len() as u64) as usize),
                        1 => {
                            let i = rng.below(d.len() as u64) as usize;
                            d[i] = rng.next() as u8;
                        }
                        _ => d.extend_from_slice(b"CGBI\x01\x00\x00\x00\x30\x00\x00\x00"),
                    }
                }
                s.dref = DRef::Encoded(d);
                labels.push("view_data_encoded_bent");
            }
        }
    }
    match rng.below(4) {
        0 | 1 => {}
        2 => {
            let mut b = vec![];
            for (k, l) in &s.cigar {
                b.extend_from_slice(&(((*l as u32) << 4) | *k as u32).to_le_bytes());
            }
            s.cref = CRef::Packed(b);
            labels.push("view_cigar_packed");
        }
        _ => {
            let n = *rng.pick(&[0usize, 3, 4, 5, 8, 12]);
            let mut b = rng.bytes(n);
            if rng.chance(1, 2) {
                for i in (0..n).step_by(4) {
                    b[i] &= 0xf7;
                }
            }
            s.cref = CRef::Packed(b);
            labels.push("view_cigar_packed_wild");
        }
    }
    // bend the view
    for _ in 0..rng.below(4) {
        match rng.below(23) {
            0 => {
                let k = pick_kind(rng);
                match rng.below(6) {
                    0 => s.refid = Some(Err(k)),
                    1 => s.pos = Some(Err(k)),
                    2 => s.mapq = Some(Err(k)),
                    3 => s.mref = Some(Err(k)),
                    4 => s.mpos = Some(Err(k)),
                    _ => s.flags = Err(k),
                }
                labels.push("view_accessor_err");
            }
            1 => {
                s.tlen = Err(pick_kind(rng));
                labels.push("view_tlen_err");
            }
            2 => {
                s.cigar_stop = Some(pick_kind(rng));
                let keep = rng.below(s.cigar.len() as u64 + 1) as usize;
                s.cigar.truncate(keep);
                labels.push("view_cigar_iter_err");
            }
            3 => {
                s.qual_stop = Some(pick_kind(rng));
                let keep = rng.below(s.qual.len() as u64 + 1) as usize;
                s.qual.truncate(keep);
                labels.push("view_qual_iter_err");
            }
            4 => {
                s.data_stop = Some(pick_kind(rng));
                let keep = rng.below(s.data.len() as u64 + 1) as usize;
                s.data.truncate(keep);
                labels.push("view_data_iter_err");
            }
            5 => {
                // more than 65535 ops by `len()` only: the overflow path without a long list
                s.cigar_len = *rng.pick(&[65535usize, 65536, 70000, (u32::MAX as usize) + 1]);
                labels.push("view_cigar_len_over");
            }
            6 => {
                s.cigar_len = s.cigar.len() + 1;
                labels.push("view_cigar_len_off");
            }
            7 => {
                s.seq_len = *rng.pick(&[0usize, s.seq.len() + 1, s.seq.len().saturating_sub(1), (u32::MAX as usize) + 1]);
                labels.push("view_seq_len_off");
            }
            8 => {
                s.qual_len = *rng.pick(&[0usize, s.seq_len, s.qual.len() + 1, 1]);
                labels.push("view_qual_len_off");
            }
            9 => {
                if !s.qual.is_empty() {
                    let i = rng.below(s.qual.len() as u64) as usize;
                    s.qual[i] = *rng.pick(&[94u8, 255, 93]);
                }
                labels.push("view_qual_value");
            }
            10 => {
                s.refid = Some(Ok(nref + rng.below(2) as usize));
                labels.push("view_refid_outside");
            }
            11 => {
                s.pos = None;
                labels.push("view_no_pos");
            }
            12 => {
                if !s.cigar.is_empty() {
                    let i = rng.below(s.cigar.len() as u64) as usize;
                    s.cigar[i].1 = 1 << 28;
                }
                labels.push("view_op_len_2^28");
            }
            13 => {
                // long placeholder: base count / span that do not fit 28 bits
                s.cigar_len = 70000;
                if rng.chance(1, 2) {
                    s.cigar = vec![(0, (1 << 28) - 1), (2, 1)];
                } else {
                    s.seq_len = (u32::MAX as usize) - 1;
                    s.qual_len = s.seq_len;
                    s.qref = QRef::Generic;
                }
                labels.push("view_placeholder_does_not_fit");
            }
            14 => {
                s.name = Some(match rng.below(4) {
                    0 => vec![b'n'; 255],
                    1 => b"a b".to_vec(),
                    2 => vec![],
                    _ => b"*".to_vec(),
                });
                labels.push("view_name_refused");
            }
            15 => {
                s.data.push((*b"Zq", Val::Str(vec![b'a', 0x7f])));
                labels.push("view_data_refused_value");
            }
            16 => {
                // offset scores at the exact bound: one byte is off + 94 / off + 93 / off - 1
                let off = *rng.pick(&[33u8, 0, 64]);
                let n = s.seq_len.min(64);
                let mut q: Vec<u8> = (0..n).map(|_| off + rng.below(94) as u8).collect();
                if n > 0 {
                    let i = rng.below(n as u64) as usize;
                    q[i] = match rng.below(3) {
                        0 => off + 94,
                        1 => off + 93,
                        _ => off.wrapping_sub(1),
                    };
                }
                if n == s.seq_len {
                    s.qref = QRef::Offset(off, q);
                    labels.push("view_qual_offset_bound");
                }
            }
            17 => {
                // a refused score and an iterator error in either order
                let n = s.seq_len.min(64);
                if n >= 2 && n == s.seq_len {
                    let mut q: Vec<u8> = (0..n).map(|_| rng.below(94) as u8).collect();
                    let cut = 1 + rng.below(n as u64 - 1) as usize;
                    let bad = rng.below(n as u64) as usize;
                    q[bad] = 94;
                    q.truncate(cut);
                    s.qual = q;
                    s.qual_len = n;
                    s.qual_stop = Some(pick_kind(rng));
                    s.qref = QRef::Generic;
                    labels.push("view_qual_refused_and_iter_err");
                }
            }
            18 => {
                // the overflow path with an iterator error: alignment_span fails first
                s.cigar_len = 70000;
                s.cigar_stop = Some(pick_kind(rng));
                let keep = rng.below(s.cigar.len() as u64 + 1) as usize;
                s.cigar.truncate(keep);
                if rng.chance(1, 2) {
                    s.pos = None;
                }
                labels.push("view_overflow_and_cigar_iter_err");
            }
            19 => {
                // two failing stages: the earlier one decides
                let k1 = pick_kind(rng);
                let k2 = pick_kind(rng);
                match rng.below(8) {
                    0 => {
                        s.flags = Err(k1);
                        s.cigar_len = 70000;
                        s.cigar_stop = Some(k2);
                        s.pos = None;
                    }
                    1 => {
                        s.mapq = Some(Err(k1));
                        s.name = Some(vec![b'n'; 255]);
                    }
                    2 => {
                        s.tlen = Err(k1);
                        s.name = Some(b"a b".to_vec());
                    }
                    3 => {
                        s.mpos = Some(Err(k1));
                        s.mref = Some(Ok(nref + 1));
                    }
                    4 => {
                        s.pos = Some(Err(k1));
                        s.refid = Some(Ok(nref));
                    }
                    5 => {
                        s.flags = Err(k1);
                        s.seq_len = (u32::MAX as usize) + 1;
                    }
                    6 => {
                        s.mref = Some(Err(k1));
                        s.seq_len = (u32::MAX as usize) + 1;
                    }
                    _ => {
                        s.tlen = Err(k1);
                        s.mpos = Some(Ok((1usize << 31) + 2));
                    }
                }
                labels.push("view_two_failing_stages");
            }
            20 => {
                // len() and the iterators disagree (a scripted record may lie; the encoder trusts len())
                s.seq_len = match rng.below(4) {
                    0 => s.seq.len() + 1,
                    1 => s.seq.len() + 2,
                    _ => s.seq.len().saturating_sub(1 + rng.below(2) as usize),
                };
                s.sref = SRef::Generic;
                if rng.chance(1, 2) {
                    s.qual_len = s.seq_len;
                }
                if rng.chance(1, 2) {
                    // nothing else in the way: no read length to compare with, no qualities
                    s.cigar = vec![];
                    s.cigar_len = 0;
                    s.qual = vec![];
                    s.qual_len = 0;
                    s.qref = QRef::Generic;
                }
                labels.push("view_seq_len_vs_iter");
            }
            21 => {
                // op lengths whose sums leave usize
                let big = usize::MAX;
                s.cigar = match rng.below(4) {
                    0 => vec![(0, big), (0, 1)],
                    1 => vec![(2, big), (2, 1)],
                    2 => vec![(2, big)],
                    _ => vec![(1, big), (4, 1), (2, 3)],
                };
                s.cigar_len = s.cigar.len();
                if rng.chance(1, 2) {
                    s.cigar_stop = Some(pick_kind(rng));
                }
                if rng.chance(1, 3) {
                    s.cigar_len = 70000;
                }
                labels.push("view_usize_sums");
            }
            _ => {
                // the read length is only known from the iterator: error there, after the CIGAR went out packed
                let mut b = vec![];
                for (k, l) in &s.cigar {
                    b.extend_from_slice(&(((*l as u32) << 4) | *k as u32).to_le_bytes());
                }
                s.cref = CRef::Packed(b);
                s.cigar_stop = Some(pick_kind(rng));
                labels.push("view_packed_cigar_and_iter_err");
            }
        }
    }
    // guard: the writer fills `l_seq` 0xff bytes when there are no qualities; keep that small
    let eff_qual_len = match &s.qref {
        QRef::Generic => s.qual_len,
        QRef::Raw(b) | QRef::Offset(_, b) => b.len(),
    };
    if s.seq_len > 100_000 && s.seq_len <= u32::MAX as usize && eff_qual_len != s.seq_len {
        s.seq_len = (u32::MAX as usize) + 1;
    }
    (nref, s, labels)
}

fn view_case(ctx: &mut Ctx, sub: u64, emit: bool) {
    let mut rng = Rng::new(sub ^ 0x71e3);
    let (nref, spec, labels) = gen_spec(&mut rng);
    let case = format!("re-view {sub}");
    for l in &labels {
        ctx.bump(l);
    }
    let words = spec.words();
    let rec = Scripted::new(spec);
    let w = write_dyn(nref, &rec);
    ctx.bump(&format!("re_view_{}", w.answer.split(' ').next().unwrap()));
    ctx.eval(if w.body.is_some() { Some(fnv(words.as_bytes())) } else { None });
    if emit {
        ctx.corr(format!("c05 re view {nref} {words}"), w.answer.clone());
    }
    ctx.sample(|| format!("c05 re view {nref} {words}"));
    if let Some(hy) = w.hygiene {
        ctx.fail("reject-hygiene", format!("write_alignment_record(scripted record): {hy}"), case.clone());
    }
    // a scripted packed CIGAR that is not whole chunks reaches `unreachable!()`; no real record type
    // produces one (Props/C05Reenc.lean: `packed_cigar_whole_chunks`)
    let partial_chunks = matches!(&rec.spec.cref, CRef::Packed(b) if b.len() % 4 != 0);
    if w.answer == "panic" && !partial_chunks {
        ctx.fail("panic", "write_alignment_record panicked on a scripted record".into(), case);
    }
}

// ------------------------------------------------------------------ a lazy sam::Record into BAM

fn hex_e(b: &[u8]) -> String {
    b.iter().map(|x| format!("{x:02x}")).collect()
}

fn refs_header(refs: &[Vec<u8>]) -> sam::Header {
    use sam::header::record::value::{map::ReferenceSequence, Map};
    let mut h = sam::Header::default();
    for n in refs {
        h.reference_sequences_mut().insert(BString::from(n.clone()), Map::<ReferenceSequence>::new(std::num::NonZero::new(1usize << 30).unwrap()));
    }
    h
}

/// every byte string of the line that a reader could hand to the float parser (as in c06.rs)
fn float_tokens(line: &[u8]) -> Vec<Vec<u8>> {
    let mut out = vec![];
    let upto_tab = |from: usize| -> &[u8] {
        let end = line[from..].iter().position(|&b| b == b'\t').map(|k| from + k).unwrap_or(line.len());
        &line[from..end]
    };
    for i in 0..line.len() {
        if line[i..].starts_with(b":f:") {
            out.push(upto_tab(i + 3).to_vec());
        }
        if line[i..].starts_with(b":B:f") {
            for t in upto_tab((i + 5).min(line.len())).split(|&b| b == b',') {
                out.push(t.to_vec());
            }
        }
    }
    out.sort();
    out.dedup();
    out
}

/// the float library's answers on those tokens (the model takes float parsing as a parameter)
fn ftab(line: &[u8]) -> String {
    let mut out = String::from("t");
    for t in float_tokens(line) {
        match c06::lex_parse(&t) {
            Some(b) => out.push_str(&format!(",p{}:{}", hex_e(&t), b)),
            None => out.push_str(&format!(",p{}:x", hex_e(&t))),
        }
    }
    out
}

/// integer aux fields compared by value: the narrowest type that holds the number (what the eager
/// SAM reader stores; the lazy record yields Int32 / UInt32)
fn int_norm(r: &Rec) -> Rec {
    let mut n = r.clone();
    for (_, v) in n.data.iter_mut() {
        if let Val::Num(t, x) = v {
            if *t != Ty::F32 {
                let x = *x;
                *t = if x >= 0 {
                    if x <= 255 { Ty::U8 } else if x <= 65535 { Ty::U16 } else { Ty::U32 }
                } else if x >= -128 {
                    Ty::I8
                } else if x >= -32768 {
                    Ty::I16
                } else {
                    Ty::I32
                };
            }
        }
    }
    n
}

fn sam_case(ctx: &mut Ctx, refs: &[Vec<u8>], line: &[u8], case: &str, label: &str, emit: bool) {
    ctx.bump(label);
    let h = refs_header(refs);
    let mut text = line.to_vec();
    text.push(b'\n');
    let lazy = guarded(|| {
        let mut rd = sam::io::Reader::new(&text[..]);
        let mut rec = sam::Record::default();
        match rd.read_record(&mut rec) {
            Ok(0) => Err("eof"),
            Ok(_) => Ok(rec),
            Err(_) => Err("unreadable"),
        }
    });
    let refs_tok = format!("r{}", refs.iter().map(|n| format!(",{}", hex_e(n))).collect::<String>());
    let req = format!("c05 re sam {refs_tok} {} {}", hex(line), ftab(line));
    let rec = match lazy {
        Err(_) => {
            ctx.fail("panic", "sam::io::Reader::read_record panicked".into(), case.into());
            return;
        }
        Ok(Err(why)) => {
            ctx.bump(&format!("re_sam_{why}"));
            if emit {
                ctx.corr(req, why.into());
            }
            return;
        }
        Ok(Ok(rec)) => rec,
    };
    let w = write_dyn_h(&h, &rec);
    ctx.bump(&format!("re_sam_{}", w.answer.split(' ').next().unwrap()));
    if emit {
        ctx.corr(req, w.answer.clone());
    }
    if w.answer == "panic" {
        ctx.fail("panic", "write_alignment_record(sam::Record) panicked".into(), case.into());
    }
    if let Some(hy) = w.hygiene {
        ctx.fail("reject-hygiene", format!("write_alignment_record(sam::Record): {hy}"), case.into());
    }
    // ---- oracle: the lazy record and the eager RecordBuf of the same line, both accepted by the BAM
    // writer, are the same BAM record (integer aux fields by value)
    let eager = guarded(|| {
        let mut rd = sam::io::Reader::new(&text[..]);
        let mut rb = sam::alignment::RecordBuf::default();
        match rd.read_record_buf(&h, &mut rb) {
            Ok(n) if n > 0 => Some(rb),
            _ => None,
        }
    })
    .unwrap_or(None);
    ctx.eval(if w.body.is_some() && eager.is_some() { Some(fnv(line) ^ 0x5a) } else { None });
    match (&w.body, &eager) {
        (Some(out), Some(rb)) => {
            let we = write_dyn_h(&h, rb);
            match &we.body {
                Some(out_e) => {
                    ctx.bump(if out == out_e { "re_sam_lazy_bytes_eq_eager_bytes" } else { "re_sam_lazy_bytes_ne_eager_bytes" });
                    match (c05::real_decode(out), c05::real_decode(out_e)) {
                        (Ok(a), Ok(b)) => {
                            if int_norm(&a) != int_norm(&b) {
                                ctx.fail("rewrite-sam", format!("a lazy sam::Record and its eager RecordBuf read back from BAM as different records: lazy {} eager {}", show(&a), show(&b)), case.into());
                            }
                        }
                        (Err(c), _) => ctx.fail("rewrite-sam", format!("a lazy sam::Record accepted by the BAM writer cannot be read back: {c}"), case.into()),
                        _ => {}
                    }
                }
                None => ctx.bump("re_sam_lazy_accepted_eager_rejected_by_bam"),
            }
        }
        (Some(_), None) => ctx.bump("re_sam_lazy_accepted_eager_unparsable"),
        (None, Some(rb)) => {
            if write_dyn_h(&h, rb).body.is_some() {
                ctx.bump("re_sam_lazy_rejected_eager_accepted");
            }
        }
        _ => {}
    }
}

fn mutate_sam(rng: &mut Rng, line: &[u8]) -> (Vec<u8>, &'static str) {
    let mut f: Vec<Vec<u8>> = line.split(|&b| b == b'\t').map(|x| x.to_vec()).collect();
    let pick_field = |rng: &mut Rng, n: usize| rng.below(n as u64) as usize;
    let what = match rng.below(14) {
        0 => {
            let k = pick_field(rng, f.len().min(11));
            f[k] = rng.pick(&[&b"65535"[..], b"65536", b"+7", b"-0", b"007", b"", b"4294967295", b"2147483648", b"-2147483649", b"18446744073709551615", b"256", b"255", b"0255", b"00", b"0", b"*", b"="]).to_vec();
            "sam_numeric_edge"
        }
        1 => {
            if f.len() > 5 {
                f[5] = rng.pick(&[&b"*"[..], b"M", b"3", b"3M2", b"3MM", b"0M", b"3Z", b"1M1I1D1N1S1H1P1=1X", b"268435455M", b"268435456M", b"+3M", b"", b"4M4S", b"18446744073709551616M", b"18446744073709551615M", b"+", b"3M+", b"3M18446744073709551616S"]).to_vec();
            }
            "sam_cigar"
        }
        2 => {
            if f.len() > 10 {
                let n = f[9].len();
                f[10] = match rng.below(6) {
                    0 => b"*".to_vec(),
                    1 => vec![b' '; n],
                    2 => vec![b'!'; n],
                    3 => vec![b'~'; n],
                    4 => vec![0x7f; n.max(1)],
                    _ => vec![b'5'; n + 1],
                };
            }
            "sam_qual"
        }
        3 => {
            if f.len() > 9 {
                f[9] = rng.pick(&[&b"*"[..], b"acgtn", b"A", b"=.XU", b"", b"ACGTACGTA"]).to_vec();
                if rng.chance(1, 2) && f.len() > 10 {
                    f[10] = b"*".to_vec();
                }
            }
            "sam_seq"
        }
        4 => {
            if f.len() > 6 {
                f[6] = rng.pick(&[&b"="[..], b"*", b"nope", b"sq0"]).to_vec();
                if rng.chance(1, 2) {
                    f[2] = rng.pick(&[&b"*"[..], b"nope", b"="]).to_vec();
                }
            }
            "sam_rnext"
        }
        5 => {
            f[0] = rng.pick(&[&b"*"[..], b"", b"a b", b"a@b", b"**"]).to_vec();
            "sam_name"
        }
        6 => {
            f.push(rng.pick(&[&b"XI:i:-1"[..], b"XI:i:255", b"XI:i:256", b"XI:i:65536", b"XI:i:-129", b"XI:i:-32769", b"XI:i:2147483648", b"XI:i:4294967295", b"XI:i:4294967296", b"XI:i:+5", b"XI:i:"]).to_vec());
            "sam_append_int"
        }
        7 => {
            f.push(rng.pick(&[&b"XF:f:1.5"[..], b"XF:f:nan", b"XF:f:inf", b"XF:f:-0", b"XF:f:1e39", b"XF:f:x", b"XF:f:"]).to_vec());
            "sam_append_float"
        }
        8 => {
            f.push(rng.pick(&[&b"XB:B:c"[..], b"XB:B:c,", b"XB:B:c,1,-128", b"XB:B:c,128", b"XB:B:C,255,0", b"XB:B:s,-32768", b"XB:B:S,65535,1", b"XB:B:i,-2147483648", b"XB:B:I,4294967295", b"XB:B:f,1.5,-2", b"XB:B:f,x", b"XB:B:z,1", b"XB:B:c1", b"XB:B:c,1,,2", b"XB:B"]).to_vec());
            "sam_append_array"
        }
        9 => {
            f.push(rng.pick(&[&b"XZ:Z:"[..], b"XZ:Z:hello world", b"XZ:Z:a\x7fb", b"XH:H:CAFE", b"XH:H:cafe", b"XH:H:ABC", b"XA:A:x", b"XA:A:", b"XA:A:xy", b"CG:Z:keep", b"CG:B:I,48", b"X", b"XQ:Q:1", b"XZ;Z:a"]).to_vec());
            "sam_append_other"
        }
        10 => {
            let k = pick_field(rng, f.len());
            f.remove(k);
            "sam_drop_field"
        }
        11 => {
            if f.len() > 11 {
                f.truncate(11);
            }
            if rng.chance(1, 2) {
                f.push(vec![]);
            }
            "sam_no_data"
        }
        12 => {
            f.truncate(1 + rng.below(11) as usize);
            "sam_too_few_fields"
        }
        _ => {
            if f.len() > 5 {
                // more than 65535 ops
                let n = *rng.pick(&[65535usize, 65536, 66000]);
                f[5] = b"1M".repeat(n);
                f[9] = if rng.chance(1, 2) { b"*".to_vec() } else { vec![b'A'; n] };
                f[10] = b"*".to_vec();
            }
            "sam_long_cigar"
        }
    };
    let mut l = f.join(&b'\t');
    l.retain(|&b| b != b'\n' && b != b'\r');
    (l, what)
}

fn sam_rec_case(ctx: &mut Ctx, sub: u64, emit: bool) {
    let mut rng = Rng::new(sub ^ 0x5a3);
    let mut refs = c06::gen_ref_names(&mut rng);
    if refs.is_empty() && rng.chance(1, 2) {
        refs.push(b"sq0".to_vec());
    }
    let h = refs_header(&refs);
    let mut line = b"*\t4\t*\t0\t255\t*\t*\t0\t0\t*\t*".to_vec();
    for _ in 0..6 {
        let r = c06::gen_rec(&mut rng, refs.len(), false);
        if let Ok(l) = c06::real_write(&h, &c06::to_real(&r)) {
            line = l;
            break;
        }
    }
    let case = format!("re-sam {sub}");
    sam_case(ctx, &refs, &line, &case, "re_sam_written_line", emit);
    for _ in 0..2 {
        let (m, what) = mutate_sam(&mut rng, &line);
        if m.len() <= 3000 || what == "sam_long_cigar" && rng.chance(1, 40) {
            sam_case(ctx, &refs, &m, &case, what, emit);
        }
    }
}

fn sam_corpus() -> Vec<(Vec<Vec<u8>>, Vec<u8>, &'static str)> {
    let refs = vec![b"sq0".to_vec(), b"sq1".to_vec()];
    let l = |s: &str| s.as_bytes().to_vec();
    vec![
        (refs.clone(), l("*\t4\t*\t0\t255\t*\t*\t0\t0\t*\t*"), "sam_corpus_default"),
        (refs.clone(), l("r0\t65\tsq1\t9\t13\t3M1S\t=\t22\t144\tACGT\tNDLS\tNH:i:1"), "sam_corpus_all_fields"),
        (refs.clone(), l("r0\t65\tsq1\t9\t13\t3M1S\tsq0\t22\t-144\tacgt\t*\tXA:A:q\tXc:i:-128\tXC:i:255\tXs:i:-32768\tXS:i:65535\tXi:i:-2147483648\tXI:i:4294967295\tXf:f:1.5\tXZ:Z: noodles~\tXH:H:CAFE\tBc:B:c,-128,127\tBC:B:C,0,255\tBs:B:s,-32768,32767\tBS:B:S,0,65535\tBi:B:i,-2147483648,2147483647\tBI:B:I,0,4294967295\tBf:B:f,0,-1.5\tBe:B:s\tZe:Z:\tHe:H:"), "sam_corpus_every_aux_type"),
        (refs.clone(), l("r0\t0\tsq2\t9\t13\t3M\t*\t0\t0\tACG\t*"), "sam_corpus_unknown_reference"),
        (refs.clone(), l("r0\t0\t*\t9\t13\t3M\t=\t0\t0\tACG\t*"), "sam_corpus_rnext_eq_of_star"),
        (refs.clone(), l("r0\t0\tsq0\t00\t13\t3M\t*\t0\t0\tACG\t*"), "sam_corpus_pos_00"),
        (refs.clone(), l("r0\t0\tsq0\t2147483648\t13\t3M\t*\t0\t0\tACG\t*"), "sam_corpus_pos_2^31"),
        (refs.clone(), l("r0\t0\tsq0\t2147483649\t13\t3M\t*\t0\t0\tACG\t*"), "sam_corpus_pos_too_large"),
        (refs.clone(), l("r0\t0\tsq0\t9\t0255\t3M\t*\t0\t0\tACG\t*"), "sam_corpus_mapq_0255"),
        (refs.clone(), l("r0\t0\tsq0\t9\t256\t3M\t*\t0\t0\tACG\t*"), "sam_corpus_mapq_256"),
        (refs.clone(), l("r0\t65535\tsq0\t9\t1\t3M\t*\t0\t0\tACG\t*"), "sam_corpus_flags_all_16_bits"),
        (refs.clone(), l("r0\t65536\tsq0\t9\t1\t3M\t*\t0\t0\tACG\t*"), "sam_corpus_flags_overflow"),
        (refs.clone(), l("r0\t0\tsq0\t9\t1\tM\t*\t0\t0\t*\t*"), "sam_corpus_cigar_M"),
        (refs.clone(), l("r0\t0\tsq0\t9\t1\t3MM\t*\t0\t0\t*\t*"), "sam_corpus_cigar_3MM"),
        (refs.clone(), l("r0\t0\tsq0\t9\t1\t3M2\t*\t0\t0\t*\t*"), "sam_corpus_cigar_3M2"),
        (refs.clone(), l("r0\t0\tsq0\t9\t1\t3Z\t*\t0\t0\t*\t*"), "sam_corpus_cigar_3Z"),
        (refs.clone(), l("r0\t0\t*\t0\t1\t3Z\t*\t0\t0\t*\t*"), "sam_corpus_cigar_3Z_unmapped"),
        (refs.clone(), l("r0\t0\tsq0\t9\t1\t268435456M\t*\t0\t0\t*\t*"), "sam_corpus_op_len_2^28"),
        (refs.clone(), l("r0\t0\tsq0\t9\t1\t2M\t*\t0\t0\tACG\t*"), "sam_corpus_seq_cigar_mismatch"),
        (refs.clone(), l("r0\t0\tsq0\t9\t1\t3M\t*\t0\t0\tACG\tAB"), "sam_corpus_qual_length_mismatch"),
        (refs.clone(), l("r0\t0\tsq0\t9\t1\t3M\t*\t0\t0\tACG\tA B"), "sam_corpus_qual_below_33"),
        (refs.clone(), l("r0\t0\tsq0\t9\t1\t3M\t*\t0\t0\tACG\tA\x7fB"), "sam_corpus_qual_94"),
        (refs.clone(), l("\t0\tsq0\t9\t1\t3M\t*\t0\t0\tACG\t*"), "sam_corpus_empty_name"),
        (refs.clone(), l("r0\t0\tsq0\t9\t1\t3M\t*\t0\t0\tACG\t*\t"), "sam_corpus_trailing_tab"),
        (refs.clone(), l("r0\t0\tsq0\t9\t1\t3M\t*\t0\t0\tACG\t*\tXB:B:c,1,x"), "sam_corpus_array_bad_element"),
        (refs.clone(), l("r0\t0\tsq0\t9\t1\t3M\t*\t0\t0\tACG\t*\tXZ:Z:a\x7f\tXB:B:c,1,x"), "sam_corpus_refused_string_before_bad_array"),
        (refs.clone(), l("r0\t0\tsq0\t9\t1\t3M\t*\t0\t0\tACG\t*\tNH:i:1\tXZ"), "sam_corpus_field_cut_short"),
        (refs.clone(), l("r0\t0\tsq0\t9\t1\t3M\t*\t0\t0\tACG\t*\tCG:Z:x\tNH:i:1\tNH:i:2"), "sam_corpus_cg_and_duplicate_tag"),
        (refs.clone(), l("r0\t0\tsq0\t9\t1\t3M\t*\t0\t0"), "sam_corpus_nine_fields"),
        (refs.clone(), l("r0\t0\tsq0\t9\t1\t3M\t*\t0\t0\tACG\t"), "sam_corpus_empty_qual_at_end"),
        (refs.clone(), l("r0\t0\tsq0\t9\t1\t3M\t*\t0\t0\tACG"), "sam_corpus_ten_fields"),
        (refs.clone(), l("r0\t0\tsq0\t9\t1\t18446744073709551616M\t*\t0\t0\t*\t*"), "sam_corpus_op_len_overflow"),
        (refs.clone(), l("r0\t0\tsq0\t9\t1\t18446744073709551615M\t*\t0\t0\t*\t*"), "sam_corpus_op_len_usize_max"),
        (refs.clone(), l("r0\t0\t*\t0\t1\t18446744073709551615M\t*\t0\t0\t*\t*"), "sam_corpus_op_len_usize_max_unmapped"),
        (refs.clone(), l("r0\t0\t*\t0\t1\t18446744073709551615M1M\t*\t0\t0\t*\t*"), "sam_corpus_read_length_overflow"),
        (refs.clone(), l("r0\t0\tsq0\t1\t1\t18446744073709551615D1D\t*\t0\t0\t*\t*"), "sam_corpus_span_overflow"),
        (refs.clone(), l("r0\t0\tsq0\t1\t1\t18446744073709551615D\t*\t0\t0\t*\t*"), "sam_corpus_end_exactly_usize_max"),
        (refs.clone(), l("r0\t0\tsq0\t2\t1\t18446744073709551615D\t*\t0\t0\t*\t*"), "sam_corpus_end_overflow_by_one"),
        (refs.clone(), l("r0\t0\t*\t0\t1\t+\t*\t0\t0\t*\t*"), "sam_corpus_cigar_plus"),
        (refs.clone(), l("r0\t0\tsq0\t9\t+255\t3M\t*\t0\t0\tACG\t*"), "sam_corpus_mapq_plus_255"),
        (refs.clone(), l("r0\t4096\tsq0\t9\t1\t3M\t*\t0\t0\tACG\t*"), "sam_corpus_flags_4096"),
        (refs.clone(), l(""), "sam_corpus_empty_line"),
        (vec![], l("r0\t4\t*\t0\t255\t*\t*\t0\t0\tACGT\tNDLS"), "sam_corpus_no_dictionary"),
    ]
}

// ------------------------------------------------------------------ entry points

fn rec_case(ctx: &mut Ctx, sub: u64, long: bool, emit: bool) {
    let mut rng = Rng::new(sub ^ 0xe5c0);
    let (nref, r, _) = if long { c05::gen_long(&mut rng) } else { c05::gen_rec(&mut rng) };
    let case = format!("{} {sub}", if long { "re-long" } else { "re-rec" });
    let Ok(body) = c05::real_encode(nref, &r) else {
        ctx.bump("re_source_record_rejected");
        return;
    };
    // the dictionary the record is written back against: usually the one it was written with
    let nref2 = if rng.chance(1, 8) { *rng.pick(&[0usize, 1, 2]) } else { nref };
    body_case(ctx, nref2, &body, &case, if long { "re_written_long" } else { "re_written" }, emit);
    if long {
        let (m, what) = mutate_long(&mut rng, &body);
        body_case(ctx, nref2, &m, &case, what, emit);
        return;
    }
    if body.len() <= 4096 {
        for _ in 0..3 {
            let (m, what) = mutate(&mut rng, &body);
            if m.len() >= 32 || rng.chance(1, 4) {
                body_case(ctx, nref2, &m, &case, what, emit);
            }
        }
    }
}

pub fn replay(ctx: &mut Ctx, case: &[String]) -> bool {
    let sub: u64 = case.get(1).and_then(|s| s.parse().ok()).unwrap_or(0);
    match case.first().map(|s| s.as_str()) {
        Some("re-rec") => rec_case(ctx, sub, false, true),
        Some("re-long") => rec_case(ctx, sub, true, true),
        Some("re-view") => view_case(ctx, sub, true),
        Some("re-sam") => sam_rec_case(ctx, sub, true),
        Some("re-sam-corpus") => {
            if let Some((refs, line, label)) = sam_corpus().into_iter().nth(sub as usize) {
                sam_case(ctx, &refs, &line, &format!("re-sam-corpus {sub}"), label, true);
            }
        }
        Some("re-corpus") => {
            if let Some((nref, body, label)) = corpus().into_iter().nth(sub as usize) {
                body_case(ctx, nref, &body, &format!("re-corpus {sub}"), label, true);
            }
        }
        _ => return false,
    }
    true
}

pub fn run(ctx: &mut Ctx) {
    for (i, (nref, body, label)) in corpus().into_iter().enumerate() {
        body_case(ctx, nref, &body, &format!("re-corpus {i}"), label, true);
    }
    let n = ctx.n(1200, 150_000);
    for it in 0..n {
        let sub = ctx.seed.wrapping_mul(9_000_011).wrapping_add(it);
        rec_case(ctx, sub, false, !ctx.tier_thorough || it % 20 == 0);
    }
    let n = ctx.n(4, 200);
    for it in 0..n {
        let sub = ctx.seed.wrapping_mul(11_000_003).wrapping_add(it);
        rec_case(ctx, sub, true, !ctx.tier_thorough || it % 16 == 0);
    }
    let n = ctx.n(5000, 400_000);
    for it in 0..n {
        let sub = ctx.seed.wrapping_mul(13_000_007).wrapping_add(it);
        view_case(ctx, sub, !ctx.tier_thorough || it % 20 == 0);
    }
    for (i, (refs, line, label)) in sam_corpus().into_iter().enumerate() {
        sam_case(ctx, &refs, &line, &format!("re-sam-corpus {i}"), label, true);
    }
    let n = ctx.n(900, 100_000);
    for it in 0..n {
        let sub = ctx.seed.wrapping_mul(17_000_009).wrapping_add(it);
        sam_rec_case(ctx, sub, !ctx.tier_thorough || it % 20 == 0);
    }
}
