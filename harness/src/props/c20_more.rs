//! C20 (extension) — the builders `c20.rs` does not reach: `build_from_path` (extension → format and
//! compression, precedence against explicit settings and content), the async builders, the
//! `IndexedReader` builders, and `convert` at the level of headers.
//! Model: lean/Noodles/Util/{Path,AsyncDetect,Indexed,HeaderConv}.lean, theorems
//! lean/Noodles/Props/C20More.lean, driver lean/Noodles/Util/DriverC20More.lean (wire format there).
//!
//! Correspondence requests (`c20 …`):
//!   pext            `std::path::Path::{file_name, extension, file_stem}` against the model of them
//!   apath / vpath   the REAL writer builders' `build_from_path` (sync and async) on files under
//!                   `ctx.dir`: kind of stream written (harness's own sniffing), error class, and
//!                   whether the file exists afterwards — every name of a corpus × every explicit
//!                   setting
//!   arpath / vrpath the REAL reader builders' `build_from_path` (sync and async): extension × content
//!                   × explicit setting
//!   abuild / vbuild the REAL sync / async `build_from_reader` over scripted readers (`Pending`s,
//!                   partial first reads)
//!   aidx / vidx     the REAL `IndexedReader` builders, by path and by reader, over every combination
//!                   of present / absent / unreadable index files and given indices
//!   ahdr / vhdr     a header through generic reader(f) → generic writer(g) → generic reader(g)
//! A reader's choice is observed through the public API: its complete transcript (header, records
//! field by field, errors) is compared with the transcripts of the formats' OWN readers for every
//! (format, compression); the configurations it equals are the candidates (`in:…`), the model's
//! answer must be one of them.
//!
//! Oracle classes: path-writer-kind, path-roundtrip-{open,header,records}, path-reader-inconsistent,
//! async-variant-writer-unflushed (genuine defect: `variant::async::io::Writer` has no `shutdown`),
//! async-differs-from-sync, auto-not-explicit-more, indexed-linear-differs, convert-header-full,
//! convert-header-string-maps, md5-law, text-framing-law, panic-more.
//! Replay cases: `more <section>` (paths | wpaths | rpaths | async | indexed | headers),
//! `pathdoc a|v <sub>`, `moreall`.
#![allow(clippy::type_complexity)]
use super::c20::{
    a_corpus_doc, a_header, a_nf, acm, afmt_s, gen_adoc, gen_vdoc, observe_inflate, render_a, render_v, repository, show_arec, show_vrec, sniff, sniff_a, sniff_v, to_record_buf, v_corpus_doc, v_header_text, v_parse, vcm, vfmt_s, window_corpus, ADoc,
    ARec, Comp, VDoc, VRec,
};
use crate::adversary::{block_on, AsyncSchedReader, Delivery, Poll1, SchedReader};
use crate::common::*;
use futures::StreamExt;
use noodles_sam::{self as sam, alignment::RecordBuf};
use noodles_util::alignment::{
    self,
    io::{CompressionMethod as ACm, Format as AFmt},
};
use noodles_util::variant::{
    self,
    io::{CompressionMethod as VCm, Format as VFmt},
};
use noodles_vcf as vcf;
use std::io::Read;
use std::os::unix::ffi::OsStrExt;
use std::path::{Path, PathBuf};

const WINDOW: usize = 8192;
const SEE: usize = 5;

fn opt_s(s: Option<&'static str>) -> &'static str {
    s.unwrap_or("-")
}
fn comp_s(c: Option<Comp>) -> &'static str {
    c.map(Comp::s).unwrap_or("-")
}
fn err_text(e: &std::io::Error) -> String {
    format!("{}:{}", errclass(e), e)
}
fn work(ctx: &Ctx) -> PathBuf {
    let d = Path::new(&ctx.dir).join("c20more");
    let _ = std::fs::create_dir_all(&d);
    d
}
fn phex(p: &Path) -> String {
    hex(p.as_os_str().as_bytes())
}
const A_KINDS: [(AFmt, Comp); 5] = [(AFmt::Sam, Comp::Plain), (AFmt::Sam, Comp::Bgzf), (AFmt::Bam, Comp::Bgzf), (AFmt::Bam, Comp::Plain), (AFmt::Cram, Comp::Plain)];
const V_KINDS: [(VFmt, Comp); 4] = [(VFmt::Vcf, Comp::Plain), (VFmt::Vcf, Comp::Bgzf), (VFmt::Bcf, Comp::Bgzf), (VFmt::Bcf, Comp::Plain)];
const A_FO: [Option<AFmt>; 4] = [None, Some(AFmt::Sam), Some(AFmt::Bam), Some(AFmt::Cram)];
const V_FO: [Option<VFmt>; 3] = [None, Some(VFmt::Vcf), Some(VFmt::Bcf)];
const CO: [Option<Comp>; 3] = [None, Some(Comp::Plain), Some(Comp::Bgzf)];

// ------------------------------------------------------------------ 1. std::path

fn path_corpus() -> Vec<Vec<u8>> {
    let mut v: Vec<Vec<u8>> = [
        "", ".", "..", "/", "//", "a", "a.", ".a", "..a", "a..", "a.b", "a.b.c", "dir/", "dir/.", "dir/..", "dir//x.bam", "dir/./x.bam", "./x.sam", "x.sam/", "x.sam//", "x.sam/.", "/.", "./.", "a/b.c/d", "...", "a...b",
        "x.sam.gz", "x.sam.bgz", "x.bam", "x.cram", "x.vcf", "x.vcf.gz", "x.vcf.bgz", "x.bcf", "x.BAM", "x.Sam", "x.bam.gz", "x.bcf.gz", ".bam", ".gz", "..gz", "sam.gz", "xsam.gz", ".sam.gz", "x.gz", "reads.sam.gz.tmp", "run.bam/out",
        "/abs/dir.d/x.cram", "../x.bcf", "x.bam/..", "x.bam/../y", " .bam", "x. bam", "x.bam ", "a/.../b.sam",
    ]
    .iter()
    .map(|s| s.as_bytes().to_vec())
    .collect();
    v.push(b"\xff.bam".to_vec());
    v.push(b"x.\xff".to_vec());
    v.push(b"\xffsam.gz".to_vec());
    v.push(b"x.ba\xcc\x81m".to_vec());
    v
}

fn opt_hex(o: Option<&std::ffi::OsStr>) -> String {
    o.map(|s| hex(s.as_bytes())).unwrap_or_else(|| "none".into())
}

fn pext_case(ctx: &mut Ctx, p: &[u8]) {
    let path = Path::new(std::ffi::OsStr::from_bytes(p));
    let ans = format!("{} {} {}", opt_hex(path.file_name()), opt_hex(path.extension()), opt_hex(path.file_stem()));
    ctx.bump(match (path.file_name().is_some(), path.extension()) {
        (false, _) => "pext_no_file_name",
        (true, None) => "pext_no_extension",
        (true, Some(e)) if e.is_empty() => "pext_empty_extension",
        (true, Some(_)) => "pext_extension",
    });
    ctx.corr(format!("c20 pext {}", hex(p)), ans);
}

fn std_paths(ctx: &mut Ctx) {
    for p in path_corpus() {
        pext_case(ctx, &p);
    }
    let mut rng = Rng::new(ctx.seed ^ 0xC20_0001);
    let alphabet: &[u8] = b"ab..//smgzc \xff";
    for _ in 0..ctx.n(1500, 40_000) {
        let n = rng.below(13) as usize;
        let p: Vec<u8> = (0..n).map(|_| *rng.pick(alphabet)).collect();
        pext_case(ctx, &p);
    }
}

// ------------------------------------------------------------------ small documents

fn small_adoc() -> ADoc {
    a_corpus_doc(10).unwrap().0
}
fn small_vdoc() -> VDoc {
    v_corpus_doc(3).unwrap()
}

fn a_stream(f: AFmt, c: Comp, doc: &ADoc) -> std::io::Result<Vec<u8>> {
    let header = a_header(doc.hkind);
    let mut out = Vec::new();
    {
        let mut w = alignment::io::writer::Builder::default().set_reference_sequence_repository(repository()).set_format(f).set_compression_method(acm(c)).build_from_writer(&mut out)?;
        w.write_header(&header)?;
        for r in &doc.recs {
            w.write_record(&header, &to_record_buf(r))?;
        }
        w.finish(&header)?;
    }
    Ok(out)
}
fn v_stream(f: VFmt, c: Comp, doc: &VDoc) -> std::io::Result<Vec<u8>> {
    let (header, bufs) = v_parse(doc)?;
    let mut out = Vec::new();
    {
        let mut w = variant::io::writer::Builder::default().set_format(f).set_compression_method(vcm(c)).build_from_writer(&mut out);
        w.write_header(&header)?;
        for r in &bufs {
            w.write_record(&header, r)?;
        }
    }
    Ok(out)
}

// ------------------------------------------------------------------ transcripts

/// Everything observable of one reader configuration on one input (no byte counts: the async
/// record streams do not report them).
#[derive(Debug, PartialEq, Clone, Default)]
struct Tr {
    open: Option<String>,
    header: String,
    records: Vec<String>,
}
impl Tr {
    fn failed(e: &std::io::Error) -> Tr {
        Tr { open: Some(err_text(e)), ..Default::default() }
    }
    fn panicked(m: String) -> Tr {
        Tr { open: Some(format!("panic:{m}")), ..Default::default() }
    }
    fn coarse(&self) -> Tr {
        fn strip(t: &str) -> String {
            match t.find("err:") {
                Some(i) => {
                    let mut it = t[i..].splitn(3, ':');
                    format!("{}{}:{}", &t[..i], it.next().unwrap_or(""), it.next().unwrap_or(""))
                }
                None => t.to_string(),
            }
        }
        Tr { open: self.open.as_deref().map(strip), header: strip(&self.header), records: self.records.iter().map(|r| strip(r)).collect() }
    }
}

fn a_hsum(h: &std::io::Result<sam::Header>) -> String {
    match h {
        Ok(h) => format!("ok refs={} rg={} pg={} co={}", h.reference_sequences().len(), h.read_groups().len(), h.programs().as_ref().len(), h.comments().len()),
        Err(e) => err_text(e),
    }
}
fn v_hsum(h: &std::io::Result<vcf::Header>) -> String {
    match h {
        Ok(h) => format!("ok infos={} formats={} samples={}", h.infos().len(), h.formats().len(), h.sample_names().len()),
        Err(e) => err_text(e),
    }
}
fn a_item(h: &sam::Header, r: std::io::Result<&dyn sam::alignment::Record>) -> (String, bool) {
    match r {
        Ok(rec) => match render_a(h, rec) {
            Ok(x) => (show_arec(&x), true),
            Err(e) => (format!("field-{}", err_text(&e)), true),
        },
        Err(e) => (err_text(&e), false),
    }
}
fn v_item(h: &vcf::Header, r: std::io::Result<&dyn vcf::variant::Record>) -> (String, bool) {
    match r {
        Ok(rec) => match render_v(h, rec) {
            Ok(x) => (show_vrec(&x), true),
            Err(e) => (format!("field-{}", err_text(&e)), true),
        },
        Err(e) => (err_text(&e), false),
    }
}

macro_rules! a_sync_tr {
    ($reader:expr, |$r:ident, $h:ident| $recs:expr) => {{
        let mut $r = $reader;
        let header = $r.read_header();
        let mut t = Tr { open: None, header: a_hsum(&header), records: vec![] };
        let hh = header.unwrap_or_default();
        let $h = &hh;
        let mut ended = true;
        for rec in $recs {
            let (s, go) = match &rec {
                Ok(x) => a_item($h, Ok(x as &dyn sam::alignment::Record)),
                Err(e) => (err_text(e), false),
            };
            t.records.push(s);
            if !go || t.records.len() >= SEE {
                ended = false;
                break;
            }
        }
        if ended {
            t.records.push("end".into());
        }
        t
    }};
}
macro_rules! v_sync_tr {
    ($reader:expr, |$r:ident, $h:ident| $recs:expr) => {{
        let mut $r = $reader;
        let header = $r.read_header();
        let mut t = Tr { open: None, header: v_hsum(&header), records: vec![] };
        let hh = header.unwrap_or_default();
        let $h = &hh;
        let mut ended = true;
        for rec in $recs {
            let (s, go) = match &rec {
                Ok(x) => v_item($h, Ok(x as &dyn vcf::variant::Record)),
                Err(e) => (err_text(e), false),
            };
            t.records.push(s);
            if !go || t.records.len() >= SEE {
                ended = false;
                break;
            }
        }
        if ended {
            t.records.push("end".into());
        }
        t
    }};
}
macro_rules! a_async_tr {
    ($reader:expr, |$r:ident, $h:ident| $recs:expr) => {{
        let mut $r = $reader;
        let header = $r.read_header().await;
        let mut t = Tr { open: None, header: a_hsum(&header), records: vec![] };
        let hh = header.unwrap_or_default();
        let $h = &hh;
        let mut ended = true;
        {
            let mut st = std::pin::pin!($recs);
            while let Some(rec) = st.next().await {
                let (s, go) = match &rec {
                    Ok(x) => a_item($h, Ok(x as &dyn sam::alignment::Record)),
                    Err(e) => (err_text(e), false),
                };
                t.records.push(s);
                if !go || t.records.len() >= SEE {
                    ended = false;
                    break;
                }
            }
        }
        if ended {
            t.records.push("end".into());
        }
        t
    }};
}
macro_rules! v_async_tr {
    ($reader:expr, |$r:ident, $h:ident| $recs:expr) => {{
        let mut $r = $reader;
        let header = $r.read_header().await;
        let mut t = Tr { open: None, header: v_hsum(&header), records: vec![] };
        let hh = header.unwrap_or_default();
        let $h = &hh;
        let mut ended = true;
        {
            let mut st = std::pin::pin!($recs);
            while let Some(rec) = st.next().await {
                let (s, go) = match &rec {
                    Ok(x) => v_item($h, Ok(x as &dyn vcf::variant::Record)),
                    Err(e) => (err_text(e), false),
                };
                t.records.push(s);
                if !go || t.records.len() >= SEE {
                    ended = false;
                    break;
                }
            }
        }
        if ended {
            t.records.push("end".into());
        }
        t
    }};
}

fn a_rb(fo: Option<AFmt>, co: Option<Comp>) -> alignment::io::reader::Builder {
    let mut b = alignment::io::reader::Builder::default().set_reference_sequence_repository(repository());
    if let Some(f) = fo {
        b = b.set_format(f);
    }
    if let Some(c) = co {
        b = b.set_compression_method(acm(c));
    }
    b
}
fn a_arb(fo: Option<AFmt>, co: Option<Comp>) -> alignment::r#async::io::reader::Builder {
    let mut b = alignment::r#async::io::reader::Builder::default().set_reference_sequence_repository(repository());
    if let Some(f) = fo {
        b = b.set_format(f);
    }
    if let Some(c) = co {
        b = b.set_compression_method(acm(c));
    }
    b
}
fn v_rb(fo: Option<VFmt>, co: Option<Comp>) -> variant::io::reader::Builder {
    let mut b = variant::io::reader::Builder::default();
    if let Some(f) = fo {
        b = b.set_format(f);
    }
    if let Some(c) = co {
        b = b.set_compression_method(vcm(c));
    }
    b
}
fn v_arb(fo: Option<VFmt>, co: Option<Comp>) -> variant::r#async::io::reader::Builder {
    let mut b = variant::r#async::io::reader::Builder::default();
    if let Some(f) = fo {
        b = b.set_format(f);
    }
    if let Some(c) = co {
        b = b.set_compression_method(vcm(c));
    }
    b
}

/// the util reader (sync) over any `Read`
fn a_util_sync<R: Read>(built: std::io::Result<alignment::io::Reader<R>>) -> Tr {
    match built {
        Ok(r) => a_sync_tr!(r, |r, h| r.records(h)),
        Err(e) => Tr::failed(&e),
    }
}
fn v_util_sync<R: Read>(built: std::io::Result<variant::io::Reader<R>>) -> Tr {
    match built {
        Ok(r) => v_sync_tr!(r, |r, h| r.records(h).map(|x| x.map(BoxV))),
        Err(e) => Tr::failed(&e),
    }
}

/// `Box<dyn Record>` as a `Record` (the transcript macros take `&T as &dyn Record`)
struct BoxV(Box<dyn vcf::variant::Record>);
impl vcf::variant::Record for BoxV {
    fn reference_sequence_name<'a, 'h: 'a>(&'a self, header: &'h vcf::Header) -> std::io::Result<&'a str> {
        self.0.reference_sequence_name(header)
    }
    fn variant_start(&self) -> Option<std::io::Result<noodles_core::Position>> {
        self.0.variant_start()
    }
    fn ids(&self) -> Box<dyn vcf::variant::record::Ids + '_> {
        self.0.ids()
    }
    fn reference_bases(&self) -> Box<dyn vcf::variant::record::ReferenceBases + '_> {
        self.0.reference_bases()
    }
    fn alternate_bases(&self) -> Box<dyn vcf::variant::record::AlternateBases + '_> {
        self.0.alternate_bases()
    }
    fn quality_score(&self) -> Option<std::io::Result<f32>> {
        self.0.quality_score()
    }
    fn filters(&self) -> Box<dyn vcf::variant::record::Filters + '_> {
        self.0.filters()
    }
    fn info(&self) -> Box<dyn vcf::variant::record::Info + '_> {
        self.0.info()
    }
    fn samples(&self) -> std::io::Result<Box<dyn vcf::variant::record::Samples + '_>> {
        self.0.samples()
    }
}

// ------------------------------------------------------------------ 2. writer builders on a path

/// file names (relative to the work directory) the writer builders are tried on
fn name_corpus() -> Vec<&'static str> {
    vec![
        "x.sam", "x.sam.gz", "x.sam.bgz", "x.bam", "x.cram", "x.vcf", "x.vcf.gz", "x.vcf.bgz", "x.bcf", "x", "x.txt", "x.BAM", "x.Sam", "x.VCF.GZ", "x.bam.gz", "x.cram.gz", "x.bcf.gz", "x.bcf.bgz", ".bam", ".sam.gz", "xsam.gz", "xvcf.bgz", "sam.gz",
        "x.", "x..bam", "a.b.c.bam", "reads.sam.gz.tmp", "run.bam/out", "run.bam/out.cram", "d.gz/x.vcf", "x.gz", "x.bgz", "sub/./y.bam", "sub//z.bcf", "nodir/x.sam", "adir.bam/", "adir.cram/.", "x.sa", "x.samx", "x.gzz",
    ]
}

fn prepare(dir: &Path, name: &str) -> PathBuf {
    for d in ["run.bam", "d.gz", "sub", "adir.bam", "adir.cram"] {
        let _ = std::fs::create_dir_all(dir.join(d));
    }
    let p = PathBuf::from(format!("{}/{}", dir.display(), name));
    if p.is_file() {
        let _ = std::fs::remove_file(&p);
    }
    p
}

fn a_wb(fo: Option<AFmt>, co: Option<Comp>) -> alignment::io::writer::Builder {
    let mut b = alignment::io::writer::Builder::default().set_reference_sequence_repository(repository());
    if let Some(f) = fo {
        b = b.set_format(f);
    }
    if let Some(c) = co {
        b = b.set_compression_method(acm(c));
    }
    b
}
fn a_awb(fo: Option<AFmt>, co: Option<Comp>) -> alignment::r#async::io::writer::Builder {
    let mut b = alignment::r#async::io::writer::Builder::default().set_reference_sequence_repository(repository());
    if let Some(f) = fo {
        b = b.set_format(f);
    }
    if let Some(c) = co {
        b = b.set_compression_method(acm(c));
    }
    b
}
fn v_wb(fo: Option<VFmt>, co: Option<Comp>) -> variant::io::writer::Builder {
    let mut b = variant::io::writer::Builder::default();
    if let Some(f) = fo {
        b = b.set_format(f);
    }
    if let Some(c) = co {
        b = b.set_compression_method(vcm(c));
    }
    b
}
fn v_awb(fo: Option<VFmt>, co: Option<Comp>) -> variant::r#async::io::writer::Builder {
    let mut b = variant::r#async::io::writer::Builder::default();
    if let Some(f) = fo {
        b = b.set_format(f);
    }
    if let Some(c) = co {
        b = b.set_compression_method(vcm(c));
    }
    b
}

/// write `doc` with the writer builder's `build_from_path`
fn a_write_path(asy: bool, fo: Option<AFmt>, co: Option<Comp>, path: &Path, doc: &ADoc) -> std::io::Result<()> {
    let header = a_header(doc.hkind);
    let bufs: Vec<RecordBuf> = doc.recs.iter().map(to_record_buf).collect();
    if asy {
        block_on(async {
            let mut w = a_awb(fo, co).build_from_path(path).await?;
            w.write_header(&header).await?;
            for r in &bufs {
                w.write_record(&header, r).await?;
            }
            w.shutdown(&header).await
        })
    } else {
        let mut w = a_wb(fo, co).build_from_path(path)?;
        w.write_header(&header)?;
        for r in &bufs {
            w.write_record(&header, r)?;
        }
        w.finish(&header)
    }
}

/// `variant::async::io::Writer` has no `shutdown` (genuine defect, fix `async-variant-writer-shutdown`):
/// an inherent method of that name, once it exists, takes precedence over this fallback.
static NO_SHUTDOWN: std::sync::atomic::AtomicBool = std::sync::atomic::AtomicBool::new(false);
trait ShutdownFallback {
    fn shutdown(&mut self) -> std::future::Ready<std::io::Result<()>>;
}
impl<W: tokio::io::AsyncWrite + Unpin> ShutdownFallback for variant::r#async::io::Writer<W> {
    fn shutdown(&mut self) -> std::future::Ready<std::io::Result<()>> {
        NO_SHUTDOWN.store(true, std::sync::atomic::Ordering::Relaxed);
        std::future::ready(Ok(()))
    }
}

fn v_write_path(asy: bool, fo: Option<VFmt>, co: Option<Comp>, path: &Path, doc: &VDoc) -> std::io::Result<()> {
    let (header, bufs) = v_parse(doc)?;
    if asy {
        block_on(async {
            let mut w = v_awb(fo, co).build_from_path(path).await?;
            w.write_header(&header).await?;
            for r in &bufs {
                w.write_record(&header, r).await?;
            }
            w.shutdown().await
        })
    } else {
        let mut w = v_wb(fo, co).build_from_path(path)?;
        w.write_header(&header)?;
        for r in &bufs {
            w.write_record(&header, r)?;
        }
        Ok(())
    }
}

/// the documented rows (`build_from_path` docs + the unit tests of the two builders)
fn documented_a(name: &str) -> Option<(AFmt, Comp)> {
    match name {
        "x.sam" => Some((AFmt::Sam, Comp::Plain)),
        "x.sam.gz" | "x.sam.bgz" => Some((AFmt::Sam, Comp::Bgzf)),
        "x.bam" => Some((AFmt::Bam, Comp::Bgzf)),
        "x.cram" => Some((AFmt::Cram, Comp::Plain)),
        _ => None,
    }
}
fn documented_v(name: &str) -> Option<(VFmt, Comp)> {
    match name {
        "x.vcf" => Some((VFmt::Vcf, Comp::Plain)),
        "x.vcf.gz" | "x.vcf.bgz" => Some((VFmt::Vcf, Comp::Bgzf)),
        "x.bcf" => Some((VFmt::Bcf, Comp::Bgzf)),
        _ => None,
    }
}

fn writer_paths(ctx: &mut Ctx) {
    let dir = work(ctx);
    let adoc = small_adoc();
    let vdoc = small_vdoc();
    for name in name_corpus() {
        for asy in [false, true] {
            for fo in A_FO {
                for co in CO {
                    // the full grid on the documented names, the diagonal elsewhere
                    if documented_a(name).is_none() && fo.is_some() && co.is_some() && name != "x" {
                        continue;
                    }
                    let path = prepare(&dir, name);
                    let case = format!("more wpaths");
                    ctx.eval(Some(fnv(format!("apath {name} {asy} {fo:?} {co:?}").as_bytes())));
                    let res = guarded(|| a_write_path(asy, fo, co, &path, &adoc));
                    let created = path.is_file();
                    let c = if created { "created" } else { "-" };
                    let ans = match &res {
                        Ok(Ok(())) => {
                            let bytes = std::fs::read(&path).unwrap_or_default();
                            let (f, k) = sniff_a(&bytes);
                            if fo.is_none() && co.is_none() {
                                if let Some((df, dc)) = documented_a(name) {
                                    if (f, k) != (afmt_s(df), dc) {
                                        ctx.fail("path-writer-kind", format!("alignment writer (async={asy}) for `{name}` wrote {f}.{}, documented {}.{}", k.s(), afmt_s(df), dc.s()), case.clone());
                                    }
                                }
                            }
                            format!("{f} {} {c}", k.s())
                        }
                        Ok(Err(e)) => format!("{} {c}", errclass(e)),
                        Err(p) => {
                            ctx.fail("panic-more", format!("alignment writer build_from_path `{name}` panicked: {p}"), case.clone());
                            "panic".into()
                        }
                    };
                    ctx.bump(&format!("apath_{}", ans.replace(' ', "_")));
                    ctx.corr(format!("c20 apath {} {} {} {} {}", if asy { "async" } else { "sync" }, opt_s(fo.map(afmt_s)), comp_s(co), phex(&path), created as u8), ans);
                }
            }
            if asy {
                continue; // the variant async builder is the same function; its writer is exercised by `pathdoc`
            }
            for fo in V_FO {
                for co in CO {
                    if documented_v(name).is_none() && fo.is_some() && co.is_some() && name != "x" {
                        continue;
                    }
                    let path = prepare(&dir, name);
                    let case = format!("more wpaths");
                    ctx.eval(Some(fnv(format!("vpath {name} {fo:?} {co:?}").as_bytes())));
                    let res = guarded(|| v_write_path(false, fo, co, &path, &vdoc));
                    let created = path.is_file();
                    let c = if created { "created" } else { "-" };
                    let ans = match &res {
                        Ok(Ok(())) => {
                            let bytes = std::fs::read(&path).unwrap_or_default();
                            let (f, k) = sniff_v(&bytes);
                            if fo.is_none() && co.is_none() {
                                if let Some((df, dc)) = documented_v(name) {
                                    if (f, k) != (vfmt_s(df), dc) {
                                        ctx.fail("path-writer-kind", format!("variant writer for `{name}` wrote {f}.{}, documented {}.{}", k.s(), vfmt_s(df), dc.s()), case.clone());
                                    }
                                }
                            }
                            format!("{f} {} {c}", k.s())
                        }
                        Ok(Err(e)) => format!("{} {c}", errclass(e)),
                        Err(p) => {
                            ctx.fail("panic-more", format!("variant writer build_from_path `{name}` panicked: {p}"), case.clone());
                            "panic".into()
                        }
                    };
                    ctx.bump(&format!("vpath_{}", ans.replace(' ', "_")));
                    ctx.corr(format!("c20 vpath {} {} {} {}", opt_s(fo.map(vfmt_s)), comp_s(co), phex(&path), created as u8), ans);
                }
            }
        }
    }
    // a refused request truncates an existing file: File::create runs before the pair is validated
    let path = prepare(&dir, "keep.cram");
    std::fs::write(&path, b"precious").unwrap();
    let r = a_wb(Some(AFmt::Cram), Some(Comp::Bgzf)).build_from_path(&path);
    let len = std::fs::metadata(&path).map(|m| m.len()).unwrap_or(99);
    ctx.bump(&format!("refused_request_leaves_file_of_{len}_bytes"));
    ctx.corr(format!("c20 apath sync cram bgzf {} {}", phex(&path), (len == 0) as u8), format!("{} {}", r.err().map(|e| errclass(&e)).unwrap_or("ok"), if len == 0 { "created" } else { "-" }));
}

// ------------------------------------------------------------------ the formats' own readers (candidates)

/// the format's OWN sync reader for `(f, c)` over `inner`
fn a_direct_sync<R: Read>(f: AFmt, c: Comp, inner: R) -> Tr {
    let inner = std::io::BufReader::new(inner);
    match (f, c) {
        (AFmt::Sam, Comp::Plain) => a_sync_tr!(sam::io::Reader::new(inner), |r, _h| r.records()),
        (AFmt::Sam, Comp::Bgzf) => a_sync_tr!(sam::io::Reader::new(noodles_bgzf::io::Reader::new(inner)), |r, _h| r.records()),
        (AFmt::Bam, Comp::Plain) => a_sync_tr!(noodles_bam::io::Reader::from(inner), |r, _h| r.records()),
        (AFmt::Bam, Comp::Bgzf) => a_sync_tr!(noodles_bam::io::Reader::new(inner), |r, _h| r.records()),
        (AFmt::Cram, Comp::Plain) => {
            a_sync_tr!(noodles_cram::io::reader::Builder::default().set_reference_sequence_repository(repository()).build_from_reader(inner), |r, h| r.records(h))
        }
        (AFmt::Cram, Comp::Bgzf) => Tr { open: Some("no such reader".into()), ..Default::default() },
    }
}
fn v_direct_sync<R: Read>(f: VFmt, c: Comp, inner: R) -> Tr {
    let inner = std::io::BufReader::new(inner);
    match (f, c) {
        (VFmt::Vcf, Comp::Plain) => v_sync_tr!(vcf::io::Reader::new(inner), |r, _h| r.records()),
        (VFmt::Vcf, Comp::Bgzf) => v_sync_tr!(vcf::io::Reader::new(noodles_bgzf::io::Reader::new(inner)), |r, _h| r.records()),
        (VFmt::Bcf, Comp::Plain) => v_sync_tr!(noodles_bcf::io::Reader::from(inner), |r, _h| r.records()),
        (VFmt::Bcf, Comp::Bgzf) => v_sync_tr!(noodles_bcf::io::Reader::new(inner), |r, _h| r.records()),
    }
}
async fn a_direct_async<R: tokio::io::AsyncRead + Unpin>(f: AFmt, c: Comp, inner: R) -> Tr {
    let inner = tokio::io::BufReader::new(inner);
    match (f, c) {
        (AFmt::Sam, Comp::Plain) => a_async_tr!(sam::r#async::io::Reader::new(inner), |r, _h| r.records()),
        (AFmt::Sam, Comp::Bgzf) => a_async_tr!(sam::r#async::io::Reader::new(noodles_bgzf::r#async::io::Reader::new(inner)), |r, _h| r.records()),
        (AFmt::Bam, Comp::Plain) => a_async_tr!(noodles_bam::r#async::io::Reader::from(inner), |r, _h| r.records()),
        (AFmt::Bam, Comp::Bgzf) => a_async_tr!(noodles_bam::r#async::io::Reader::new(inner), |r, _h| r.records()),
        (AFmt::Cram, Comp::Plain) => {
            a_async_tr!(noodles_cram::r#async::io::reader::Builder::default().set_reference_sequence_repository(repository()).build_from_reader(inner), |r, h| r.records(h))
        }
        (AFmt::Cram, Comp::Bgzf) => Tr { open: Some("no such reader".into()), ..Default::default() },
    }
}
async fn v_direct_async<R: tokio::io::AsyncRead + Unpin>(f: VFmt, c: Comp, inner: R) -> Tr {
    let inner = tokio::io::BufReader::new(inner);
    match (f, c) {
        (VFmt::Vcf, Comp::Plain) => v_async_tr!(vcf::r#async::io::Reader::new(inner), |r, _h| r.records()),
        (VFmt::Vcf, Comp::Bgzf) => v_async_tr!(vcf::r#async::io::Reader::new(noodles_bgzf::r#async::io::Reader::new(inner)), |r, _h| r.records()),
        (VFmt::Bcf, Comp::Plain) => v_async_tr!(noodles_bcf::r#async::io::Reader::from(inner), |r, _h| r.records()),
        (VFmt::Bcf, Comp::Bgzf) => v_async_tr!(noodles_bcf::r#async::io::Reader::new(inner), |r, _h| r.records()),
    }
}
async fn a_util_async<R: tokio::io::AsyncRead + Unpin>(built: std::io::Result<alignment::r#async::io::Reader<R>>) -> Tr {
    match built {
        Ok(r) => a_async_tr!(r, |r, h| r.records(h)),
        Err(e) => Tr::failed(&e),
    }
}
async fn v_util_async<R: tokio::io::AsyncRead + Unpin>(built: std::io::Result<variant::r#async::io::Reader<R>>) -> Tr {
    match built {
        Ok(r) => v_async_tr!(r, |r, _h| r.records().map(|x| x.map(BoxV))),
        Err(e) => Tr::failed(&e),
    }
}

/// The decision a reader made, from transcripts: an error class, or the list of explicit
/// configurations it is indistinguishable from (exact transcripts first, error messages reduced to
/// classes when none matches word for word).
struct Verdict {
    answer: String,
    obs: String,
    inconsistent: bool,
}
fn verdict(auto: &Tr, directs: &[(String, Tr)]) -> Verdict {
    if let Some(e) = &auto.open {
        let mut it = e.splitn(3, ':');
        let cls = format!("{}:{}", it.next().unwrap_or(""), it.next().unwrap_or(""));
        let cls = if cls.starts_with("panic") { "panic".to_string() } else { cls };
        return Verdict { answer: cls, obs: "fc".into(), inconsistent: false };
    }
    let mut c: Vec<&str> = directs.iter().filter(|(_, t)| t == auto).map(|(n, _)| n.as_str()).collect();
    if c.is_empty() {
        c = directs.iter().filter(|(_, t)| t.coarse() == auto.coarse()).map(|(n, _)| n.as_str()).collect();
    }
    if c.is_empty() {
        return Verdict { answer: "?".into(), obs: "fc".into(), inconsistent: true };
    }
    let obs = format!("in:{}", c.join("+"));
    Verdict { answer: obs.clone(), obs, inconsistent: false }
}
fn g<T>(f: impl FnOnce() -> T, bad: impl FnOnce(String) -> T) -> T {
    guarded(f).unwrap_or_else(bad)
}

fn a_directs_sync(mk: &dyn Fn() -> Box<dyn Read>) -> Vec<(String, Tr)> {
    A_KINDS.iter().map(|&(f, c)| (format!("{}.{}", afmt_s(f), c.s()), g(|| a_direct_sync(f, c, mk()), Tr::panicked))).collect()
}
fn v_directs_sync(mk: &dyn Fn() -> Box<dyn Read>) -> Vec<(String, Tr)> {
    V_KINDS.iter().map(|&(f, c)| (format!("{}.{}", vfmt_s(f), c.s()), g(|| v_direct_sync(f, c, mk()), Tr::panicked))).collect()
}
fn a_directs_async(mk: &dyn Fn() -> AsyncSchedReader) -> Vec<(String, Tr)> {
    A_KINDS.iter().map(|&(f, c)| (format!("{}.{}", afmt_s(f), c.s()), g(|| block_on(a_direct_async(f, c, mk())), Tr::panicked))).collect()
}
fn v_directs_async(mk: &dyn Fn() -> AsyncSchedReader) -> Vec<(String, Tr)> {
    V_KINDS.iter().map(|&(f, c)| (format!("{}.{}", vfmt_s(f), c.s()), g(|| block_on(v_direct_async(f, c, mk())), Tr::panicked))).collect()
}

/// window / inflated prefix / stop, as the request line carries them
fn win_args(stream: &[u8], k: usize, n: usize) -> String {
    let w = &stream[..stream.len().min(k).min(WINDOW)];
    let (infl, stop) = observe_inflate(w, n);
    format!("{} {} {}", hex(&w[..w.len().min(16)]), hex(&infl), opt_s(stop))
}

// ------------------------------------------------------------------ 3. reader builders on a path

/// contents: every kind of a small document, and a few windows no writer produces
fn a_contents() -> Vec<(String, Vec<u8>)> {
    let doc = small_adoc();
    let mut v: Vec<(String, Vec<u8>)> = A_KINDS.iter().map(|&(f, c)| (format!("{}.{}", afmt_s(f), c.s()), a_stream(f, c, &doc).unwrap())).collect();
    v.push(("empty".into(), vec![]));
    v.push(("empty.sam.gz".into(), a_stream(AFmt::Sam, Comp::Bgzf, &ADoc { hkind: 0, recs: vec![] }).unwrap()));
    for (n, w) in window_corpus() {
        if ["CRAM 8.0", "SAM line named CRAM1", "gzip magic only", "plain gzip of BAM", "bgzf of CRAM", "BAM magic only"].contains(&n) {
            v.push((n.replace(' ', "_"), w));
        }
    }
    v
}
fn v_contents() -> Vec<(String, Vec<u8>)> {
    let doc = small_vdoc();
    let mut v: Vec<(String, Vec<u8>)> = V_KINDS.iter().map(|&(f, c)| (format!("{}.{}", vfmt_s(f), c.s()), v_stream(f, c, &doc).unwrap())).collect();
    v.push(("empty".into(), vec![]));
    for (n, w) in window_corpus() {
        if ["BCF magic only", "VCF without ##", "gzip magic only", "member of 2 bytes", "BC"].contains(&n) {
            v.push((n.replace(' ', "_"), w));
        }
    }
    v
}

fn reader_paths(ctx: &mut Ctx) {
    let dir = work(ctx);
    let names = ["r.sam", "r.sam.gz", "r.bam", "r.cram", "r.vcf", "r.vcf.gz", "r.bcf", "r", "r.txt", "r.BAM", "r.bam.gz"];
    let case = "more rpaths".to_string();
    for (cname, bytes) in a_contents() {
        let mk = || -> Box<dyn Read> { Box::new(std::io::Cursor::new(bytes.clone())) };
        let directs = a_directs_sync(&mk);
        let mka = || AsyncSchedReader::new(bytes.clone(), vec![], usize::MAX);
        let directs_async = a_directs_async(&mka);
        let payload_is_bam = sniff(&bytes).1.starts_with(b"BAM\x01");
        let mut first: Option<(String, String)> = None;
        for name in names {
            let path = prepare(&dir, name);
            std::fs::write(&path, &bytes).unwrap();
            for (fo, co) in [(None, None), (Some(AFmt::Sam), None), (Some(AFmt::Bam), None), (Some(AFmt::Cram), None), (None, Some(Comp::Plain)), (None, Some(Comp::Bgzf)), (Some(AFmt::Cram), Some(Comp::Bgzf)), (Some(AFmt::Sam), Some(Comp::Bgzf))] {
                if fo == Some(AFmt::Bam) && !payload_is_bam {
                    continue; // a BAM reader forced onto other bytes allocates what they say l_text is (C15)
                }
                if (fo, co) != (None, None) && !["r.sam", "r.bam", "r"].contains(&name) {
                    continue;
                }
                for asy in [false, true] {
                    ctx.eval(Some(fnv(format!("arpath {cname} {name} {fo:?} {co:?} {asy}").as_bytes())));
                    let auto = if asy { g(|| block_on(async { a_util_async(a_arb(fo, co).build_from_path(&path).await).await }), Tr::panicked) } else { g(|| a_util_sync(a_rb(fo, co).build_from_path(&path)), Tr::panicked) };
                    let v = verdict(&auto, if asy { &directs_async } else { &directs });
                    if v.inconsistent {
                        ctx.fail("auto-not-explicit-more", format!("alignment reader build_from_path (async={asy}) on `{name}` holding {cname}, format={:?} compression={:?}: behaves like no explicit configuration: {:?}", fo.map(afmt_s), co, auto), case.clone());
                        continue;
                    }
                    if v.answer == "panic" {
                        ctx.fail("panic-more", format!("alignment reader build_from_path on `{name}` holding {cname} panicked: {:?}", auto.open), case.clone());
                    }
                    // oracle: the name of the file never matters to a reader
                    if (fo, co) == (None, None) {
                        let key = format!("{asy}");
                        match &first {
                            Some((k0, a0)) if *k0 == key && *a0 != v.answer => ctx.fail("path-reader-inconsistent", format!("content {cname}: reader (async={asy}) answers {a0} under one name and {} under `{name}`", v.answer), case.clone()),
                            None => first = Some((key, v.answer.clone())),
                            _ => {}
                        }
                    }
                    ctx.bump(&format!("arpath_{}", if v.answer.starts_with("in:") { if v.answer.contains('+') { "several_candidates" } else { "one_candidate" } } else { &v.answer }));
                    ctx.corr(format!("c20 arpath {} {} {} {} {}", opt_s(fo.map(afmt_s)), comp_s(co), phex(&path), win_args(&bytes, WINDOW, 4), v.obs), v.answer);
                }
            }
        }
    }
    for (cname, bytes) in v_contents() {
        let mk = || -> Box<dyn Read> { Box::new(std::io::Cursor::new(bytes.clone())) };
        let directs = v_directs_sync(&mk);
        let mka = || AsyncSchedReader::new(bytes.clone(), vec![], usize::MAX);
        let directs_async = v_directs_async(&mka);
        let payload_is_bcf = sniff(&bytes).1.starts_with(b"BCF");
        for name in names {
            let path = prepare(&dir, name);
            std::fs::write(&path, &bytes).unwrap();
            for (fo, co) in [(None, None), (Some(VFmt::Vcf), None), (Some(VFmt::Bcf), None), (None, Some(Comp::Plain)), (None, Some(Comp::Bgzf)), (Some(VFmt::Vcf), Some(Comp::Bgzf))] {
                if fo == Some(VFmt::Bcf) && !payload_is_bcf {
                    continue;
                }
                if (fo, co) != (None, None) && !["r.vcf", "r.bcf", "r"].contains(&name) {
                    continue;
                }
                for asy in [false, true] {
                    ctx.eval(Some(fnv(format!("vrpath {cname} {name} {fo:?} {co:?} {asy}").as_bytes())));
                    let auto = if asy { g(|| block_on(async { v_util_async(v_arb(fo, co).build_from_path(&path).await).await }), Tr::panicked) } else { g(|| v_util_sync(v_rb(fo, co).build_from_path(&path)), Tr::panicked) };
                    let v = verdict(&auto, if asy { &directs_async } else { &directs });
                    if v.inconsistent {
                        ctx.fail("auto-not-explicit-more", format!("variant reader build_from_path (async={asy}) on `{name}` holding {cname}, format={:?} compression={:?}: behaves like no explicit configuration: {:?}", fo.map(vfmt_s), co, auto), case.clone());
                        continue;
                    }
                    if v.answer == "panic" {
                        ctx.fail("panic-more", format!("variant reader build_from_path on `{name}` holding {cname} panicked: {:?}", auto.open), case.clone());
                    }
                    ctx.bump(&format!("vrpath_{}", if v.answer.starts_with("in:") { if v.answer.contains('+') { "several_candidates" } else { "one_candidate" } } else { &v.answer }));
                    ctx.corr(format!("c20 vrpath {} {} {} {} {}", opt_s(fo.map(vfmt_s)), comp_s(co), phex(&path), win_args(&bytes, WINDOW, 3), v.obs), v.answer);
                }
            }
        }
    }
}

// ------------------------------------------------------------------ 4. build_from_reader over scripted readers, sync and async

fn script_s(s: &[Poll1]) -> String {
    if s.is_empty() {
        return "-".into();
    }
    s.iter().map(|p| match p { Poll1::Pending => "p".to_string(), Poll1::Ready(n) => n.to_string() }).collect::<Vec<_>>().join(",")
}
fn strip(s: &[Poll1]) -> Vec<Delivery> {
    s.iter().filter_map(|p| match p { Poll1::Ready(n) => Some(Delivery::Chunk(*n)), Poll1::Pending => None }).collect()
}
fn first_size(s: &[Poll1]) -> usize {
    s.iter().find_map(|p| match p { Poll1::Ready(n) => Some((*n).max(1).min(WINDOW)), Poll1::Pending => None }).unwrap_or(WINDOW)
}

fn scripts(rng: &mut Rng) -> Vec<Vec<Poll1>> {
    use Poll1::*;
    let mut v = vec![vec![], vec![Pending], vec![Pending, Pending, Pending], vec![Ready(1)], vec![Pending, Ready(1)], vec![Ready(2), Pending, Ready(9000)], vec![Pending, Pending, Ready(3)], vec![Ready(4)], vec![Ready(5), Ready(1)], vec![Ready(6)], vec![Ready(0)], vec![Pending, Ready(9000)], vec![Ready(8192), Pending]];
    for _ in 0..3 {
        let n = 1 + rng.below(5) as usize;
        v.push((0..n).map(|_| if rng.chance(1, 3) { Pending } else { Ready(*rng.pick(&[1usize, 2, 3, 4, 5, 7, 18, 27, 28, 100, 4000, 8192, 20000])) }).collect());
    }
    v
}

/// two verdicts name a common configuration (or the same error class)
fn same_choice(a: &str, b: &str) -> bool {
    match (a.strip_prefix("in:"), b.strip_prefix("in:")) {
        (Some(x), Some(y)) => x.split('+').any(|c| y.split('+').any(|d| c == d)),
        _ => a == b,
    }
}

fn scripted_builders(ctx: &mut Ctx) {
    let case = "more async".to_string();
    let mut rng = Rng::new(ctx.seed ^ 0xC20_0004);
    for (cname, bytes) in a_contents() {
        let payload_is_bam = sniff(&bytes).1.starts_with(b"BAM\x01");
        for script in scripts(&mut rng) {
            let mka = || AsyncSchedReader::new(bytes.clone(), script.clone(), usize::MAX);
            let mks = || -> Box<dyn Read> { Box::new(SchedReader::new(bytes.clone(), strip(&script), usize::MAX)) };
            let da = a_directs_async(&mka);
            let ds = a_directs_sync(&mks);
            for (fo, co) in [(None, None), (Some(AFmt::Bam), None), (Some(AFmt::Sam), None), (None, Some(Comp::Plain)), (None, Some(Comp::Bgzf)), (Some(AFmt::Cram), Some(Comp::Bgzf))] {
                if fo == Some(AFmt::Bam) && !payload_is_bam {
                    continue;
                }
                if (fo, co) != (None, None) && script.len() > 2 {
                    continue;
                }
                let mut answers = vec![];
                for asy in [true, false] {
                    ctx.eval(Some(fnv(format!("abuild {cname} {} {fo:?} {co:?} {asy}", script_s(&script)).as_bytes())));
                    let auto = if asy { g(|| block_on(async { a_util_async(a_arb(fo, co).build_from_reader(mka()).await).await }), Tr::panicked) } else { g(|| a_util_sync(a_rb(fo, co).build_from_reader(mks())), Tr::panicked) };
                    let v = verdict(&auto, if asy { &da } else { &ds });
                    if v.inconsistent {
                        ctx.fail("auto-not-explicit-more", format!("alignment build_from_reader (async={asy}) on {cname}, script {}: behaves like no explicit configuration: {:?}", script_s(&script), auto), case.clone());
                        continue;
                    }
                    ctx.bump(&format!("abuild_{}_first_{}", if asy { "async" } else { "sync" }, match first_size(&script) { 1..=3 => "1-3", 4..=6 => "4-6", 7..=8191 => "7-8191", _ => "8192" }));
                    ctx.corr(format!("c20 abuild {} {} {} {} {} {} {}", if asy { "async" } else { "sync" }, opt_s(fo.map(afmt_s)), comp_s(co), script_s(&script), hex(&bytes[..bytes.len().min(64)]), win_args(&bytes, first_size(&script), 4).split_once(' ').unwrap().1, v.obs), v.answer.clone());
                    answers.push((auto, v.answer));
                }
                // oracle: the async builder chooses what the sync builder chooses (valid streams only:
                // what the readers do with garbage afterwards is C16's business)
                if answers.len() == 2 && A_KINDS.iter().any(|&(f, c)| cname == format!("{}.{}", afmt_s(f), c.s())) && !same_choice(&answers[0].1, &answers[1].1) {
                    ctx.fail("async-differs-from-sync", format!("{cname}, script {}: async reader chose {} ({:?}) / sync reader chose {} ({:?})", script_s(&script), answers[0].1, answers[0].0, answers[1].1, answers[1].0), case.clone());
                }
            }
        }
    }
    for (cname, bytes) in v_contents() {
        let payload_is_bcf = sniff(&bytes).1.starts_with(b"BCF");
        for script in scripts(&mut rng) {
            let mka = || AsyncSchedReader::new(bytes.clone(), script.clone(), usize::MAX);
            let mks = || -> Box<dyn Read> { Box::new(SchedReader::new(bytes.clone(), strip(&script), usize::MAX)) };
            let da = v_directs_async(&mka);
            let ds = v_directs_sync(&mks);
            for (fo, co) in [(None, None), (Some(VFmt::Bcf), None), (Some(VFmt::Vcf), None), (None, Some(Comp::Plain)), (None, Some(Comp::Bgzf))] {
                if fo == Some(VFmt::Bcf) && !payload_is_bcf {
                    continue;
                }
                if (fo, co) != (None, None) && script.len() > 2 {
                    continue;
                }
                let mut answers = vec![];
                for asy in [true, false] {
                    ctx.eval(Some(fnv(format!("vbuild {cname} {} {fo:?} {co:?} {asy}", script_s(&script)).as_bytes())));
                    let auto = if asy { g(|| block_on(async { v_util_async(v_arb(fo, co).build_from_reader(mka()).await).await }), Tr::panicked) } else { g(|| v_util_sync(v_rb(fo, co).build_from_reader(mks())), Tr::panicked) };
                    let v = verdict(&auto, if asy { &da } else { &ds });
                    if v.inconsistent {
                        ctx.fail("auto-not-explicit-more", format!("variant build_from_reader (async={asy}) on {cname}, script {}: behaves like no explicit configuration: {:?}", script_s(&script), auto), case.clone());
                        continue;
                    }
                    ctx.bump(&format!("vbuild_{}_first_{}", if asy { "async" } else { "sync" }, match first_size(&script) { 1..=2 => "1-2", 3..=6 => "3-6", 7..=8191 => "7-8191", _ => "8192" }));
                    ctx.corr(format!("c20 vbuild {} {} {} {} {} {} {}", if asy { "async" } else { "sync" }, opt_s(fo.map(vfmt_s)), comp_s(co), script_s(&script), hex(&bytes[..bytes.len().min(64)]), win_args(&bytes, first_size(&script), 3).split_once(' ').unwrap().1, v.obs), v.answer.clone());
                    answers.push((auto, v.answer));
                }
                if answers.len() == 2 && V_KINDS.iter().any(|&(f, c)| cname == format!("{}.{}", vfmt_s(f), c.s())) && !same_choice(&answers[0].1, &answers[1].1) {
                    ctx.fail("async-differs-from-sync", format!("{cname}, script {}: async reader chose {} ({:?}) / sync reader chose {} ({:?})", script_s(&script), answers[0].1, answers[0].0, answers[1].1, answers[1].0), case.clone());
                }
            }
        }
    }
}

// ------------------------------------------------------------------ 5. IndexedReader builders

use noodles_csi::{
    self as csi,
    binning_index::{
        self,
        index::reference_sequence::index::{BinnedIndex, LinearIndex},
        BinningIndex,
    },
};
use noodles_cram::crai;

/// index values that carry a mark (the unplaced-unmapped count / the number of CRAI records) so
/// that the index a reader ended up with can be told from the others
fn linear_index(mark: u64, tabix: bool) -> binning_index::Index<LinearIndex> {
    let mut b = binning_index::Index::<LinearIndex>::builder().set_reference_sequences(vec![]).set_unplaced_unmapped_record_count(mark);
    if tabix {
        b = b.set_header(csi::binning_index::index::header::Builder::vcf().build());
    }
    b.build()
}
fn binned_index(mark: u64) -> binning_index::Index<BinnedIndex> {
    binning_index::Index::<BinnedIndex>::builder().set_reference_sequences(vec![]).set_unplaced_unmapped_record_count(mark).build()
}
fn crai_index(n: usize) -> crai::Index {
    (0..n).map(|i| crai::Record::new(Some(0), noodles_core::Position::new(1 + i), 10, 26, 0, 100)).collect()
}
const M_BAI: u64 = 101;
const M_CSI: u64 = 102;
const M_TBI: u64 = 103;
const M_GIVEN: u64 = 104;
fn mark_s(m: Option<u64>) -> &'static str {
    match m {
        Some(M_BAI) => "bai",
        Some(M_CSI) => "csi",
        Some(M_TBI) => "tbi",
        Some(M_GIVEN) => "given",
        _ => "?",
    }
}

/// one index file next to `path`: "ok" (a valid index with the kind's mark), "nf" (absent), "bad"
/// (eight bytes no index reader accepts); returns the word of the `<fs>` argument
fn put_index(path: &Path, ext: &str, state: &str) -> String {
    let p = PathBuf::from(format!("{}.{ext}", path.display()));
    let _ = std::fs::remove_file(&p);
    match state {
        "ok" => {
            match ext {
                "bai" => noodles_bam::bai::fs::write(&p, &linear_index(M_BAI, false)).unwrap(),
                "csi" => csi::fs::write(&p, &binned_index(M_CSI)).unwrap(),
                "tbi" => noodles_tabix::fs::write(&p, &linear_index(M_TBI, true)).unwrap(),
                _ => crai::fs::write(&p, &crai_index(1)).unwrap(),
            }
            format!("{ext}:ok")
        }
        "bad" => {
            std::fs::write(&p, b"XXXXXXXX").unwrap();
            // what the index reader makes of it is the file system's answer (a parameter of the model)
            let e = match ext {
                "bai" => noodles_bam::bai::fs::read(&p).err(),
                "csi" => csi::fs::read(&p).err(),
                "tbi" => noodles_tabix::fs::read(&p).err(),
                _ => crai::fs::read(&p).err(),
            };
            format!("{ext}:{}", e.map(|e| errclass(&e)[4..].to_string()).unwrap_or("ok".into()))
        }
        _ => format!("{ext}:nf"),
    }
}

fn indexed(ctx: &mut Ctx) {
    let dir = work(ctx);
    let case = "more indexed".to_string();
    let states = ["ok", "nf", "bad"];
    let adoc = small_adoc();
    for (cname, bytes) in a_contents() {
        let kind = sniff_a(&bytes);
        let name = match cname.as_str() { "sam.bgzf" => "i.sam.gz", "bam.bgzf" => "i.bam", "cram.plain" => "i.cram", "sam.plain" => "i.sam", _ => "i.dat" };
        let path = prepare(&dir, name);
        std::fs::write(&path, &bytes).unwrap();
        let written = A_KINDS.iter().any(|&(f, c)| cname == format!("{}.{}", afmt_s(f), c.s()));
        // which index files matter for this content
        let combos: Vec<(&str, &str, &str)> = match (written, kind) {
            (true, ("bam", Comp::Bgzf)) => states.iter().flat_map(|b| states.iter().map(move |c| (*b, *c, "nf"))).collect(),
            (true, ("sam", Comp::Bgzf)) => states.iter().map(|c| ("ok", *c, "nf")).collect(),
            (true, ("cram", Comp::Plain)) => states.iter().map(|c| ("nf", "ok", *c)).collect(),
            _ => vec![("ok", "ok", "ok"), ("nf", "nf", "nf")],
        };
        for (sb, sc, sr) in combos {
            let fs = [put_index(&path, "bai", sb), put_index(&path, "csi", sc), put_index(&path, "crai", sr)].join(",");
            for given in ["-", "csi", "crai"] {
                for by_path in [true, false] {
                    for (fo, co) in [(None, None), (Some(AFmt::Sam), None), (None, Some(Comp::Bgzf)), (Some(AFmt::Cram), Some(Comp::Bgzf)), (Some(AFmt::Cram), Some(Comp::Plain)), (Some(AFmt::Bam), Some(Comp::Bgzf))] {
                        if (fo, co) != (None, None) && (given != "-" || (sb, sc, sr) != ("ok", "ok", "ok") && (sb, sc, sr) != ("nf", "ok", "nf") && (sb, sc, sr) != ("ok", "ok", "nf")) {
                            continue;
                        }
                        ctx.eval(Some(fnv(format!("aidx {cname} {fs} {given} {by_path} {fo:?} {co:?}").as_bytes())));
                        let res = guarded(|| -> std::io::Result<(&'static str, String, alignment::io::IndexedReader<std::fs::File>)> {
                            let mut b = alignment::io::indexed_reader::Builder::default().set_reference_sequence_repository(repository());
                            if let Some(f) = fo {
                                b = b.set_format(f);
                            }
                            if let Some(c) = co {
                                b = b.set_compression_method(acm(c));
                            }
                            b = match given {
                                "csi" => b.set_index(binned_index(M_GIVEN)),
                                "crai" => b.set_index(crai_index(2)),
                                _ => b,
                            };
                            // `build_from_reader` wraps the reader in a BufReader; unify the two types by reopening
                            let r = if by_path { b.build_from_path(&path)? } else { reopen(b.build_from_reader(std::fs::File::open(&path)?)?, &path)? };
                            let (f, i) = match &r {
                                alignment::io::IndexedReader::Sam(x) => ("sam", mark_s(x.index().unplaced_unmapped_record_count()).to_string()),
                                alignment::io::IndexedReader::Bam(x) => ("bam", mark_s(x.index().unplaced_unmapped_record_count()).to_string()),
                                alignment::io::IndexedReader::Cram(x) => ("cram", match x.index().len() { 1 => "crai", 2 => "given", _ => "?" }.to_string()),
                            };
                            Ok((f, i, r))
                        });
                        let ans = match res {
                            Ok(Ok((f, i, mut r))) => {
                                // oracle: an indexed reader opened on a written file reads it linearly as the plain reader does
                                if written && (fo, co) == (None, None) {
                                    let got = guarded(|| -> std::io::Result<Vec<ARec>> {
                                        let h = r.read_header()?;
                                        r.records(&h).map(|x| x.and_then(|x| render_a(&h, x.as_ref()))).collect()
                                    });
                                    let exp: Vec<ARec> = adoc.recs.iter().map(|x| a_nf(match f { "sam" => AFmt::Sam, "bam" => AFmt::Bam, _ => AFmt::Cram }, x)).collect();
                                    match got {
                                        Ok(Ok(got)) if got == exp => {}
                                        other => ctx.fail("indexed-linear-differs", format!("{cname} opened by the indexed reader builder: {}", match other { Ok(Ok(g)) => format!("{} records, expected {}", g.len(), exp.len()), Ok(Err(e)) => format!("error {e}"), Err(p) => format!("panic {p}") }), case.clone()),
                                    }
                                }
                                format!("{f} {i}")
                            }
                            Ok(Err(e)) => errclass(&e).to_string(),
                            Err(p) => {
                                ctx.fail("panic-more", format!("alignment indexed reader builder panicked on {cname}: {p}"), case.clone());
                                "panic".into()
                            }
                        };
                        ctx.bump(&format!("aidx_{}", ans.replace(' ', "_")));
                        ctx.corr(format!("c20 aidx {} {} {given} {} {fs} {}", opt_s(fo.map(afmt_s)), comp_s(co), if by_path { phex(&path) } else { "-".into() }, win_args(&bytes, WINDOW, 4)), ans);
                    }
                }
            }
        }
    }
    let vdoc = small_vdoc();
    for (cname, bytes) in v_contents() {
        let kind = sniff_v(&bytes);
        let name = match cname.as_str() { "vcf.bgzf" => "i.vcf.gz", "bcf.bgzf" => "i.bcf", "vcf.plain" => "i.vcf", _ => "i.vdat" };
        let path = prepare(&dir, name);
        std::fs::write(&path, &bytes).unwrap();
        let written = V_KINDS.iter().any(|&(f, c)| cname == format!("{}.{}", vfmt_s(f), c.s()));
        let combos: Vec<(&str, &str)> = match (written, kind) {
            (true, ("vcf", Comp::Bgzf)) => states.iter().flat_map(|b| states.iter().map(move |c| (*b, *c))).collect(),
            (true, ("bcf", Comp::Bgzf)) => states.iter().map(|c| ("ok", *c)).collect(),
            _ => vec![("ok", "ok"), ("nf", "nf")],
        };
        for (st, sc) in combos {
            let fs = [put_index(&path, "tbi", st), put_index(&path, "csi", sc)].join(",");
            for given in [false, true] {
                for by_path in [true, false] {
                    for (fo, co) in [(None, None), (Some(VFmt::Vcf), None), (None, Some(Comp::Bgzf)), (Some(VFmt::Bcf), Some(Comp::Bgzf)), (Some(VFmt::Vcf), Some(Comp::Plain))] {
                        if (fo, co) != (None, None) && (given || (st, sc) != ("ok", "ok") && (st, sc) != ("nf", "ok")) {
                            continue;
                        }
                        ctx.eval(Some(fnv(format!("vidx {cname} {fs} {given} {by_path} {fo:?} {co:?}").as_bytes())));
                        let res = guarded(|| -> std::io::Result<(&'static str, String, Option<Vec<VRec>>)> {
                            let mut b = variant::io::indexed_reader::Builder::default();
                            if let Some(f) = fo {
                                b = b.set_format(f);
                            }
                            if let Some(c) = co {
                                b = b.set_compression_method(vcm(c));
                            }
                            if given {
                                b = b.set_index(binned_index(M_GIVEN));
                            }
                            fn see<R: Read>(mut r: variant::io::IndexedReader<noodles_bgzf::io::Reader<R>>, linear: bool) -> std::io::Result<(&'static str, String, Option<Vec<VRec>>)> {
                                let f = match &r {
                                    variant::io::IndexedReader::Vcf(_) => "vcf",
                                    variant::io::IndexedReader::Bcf(_) => "bcf",
                                };
                                let i = mark_s(r.index().unplaced_unmapped_record_count()).to_string();
                                let recs = if linear {
                                    let h = r.read_header()?;
                                    Some(r.records().map(|x| x.and_then(|x| render_v(&h, x.as_ref()))).collect::<std::io::Result<Vec<VRec>>>()?)
                                } else {
                                    None
                                };
                                Ok((f, i, recs))
                            }
                            let linear = written && (fo, co) == (None, None);
                            if by_path { see(b.build_from_path(&path)?, linear) } else { see(b.build_from_reader(std::fs::File::open(&path)?)?, linear) }
                        });
                        let ans = match res {
                            Ok(Ok((f, i, recs))) => {
                                if let Some(got) = recs {
                                    if got != vdoc.recs {
                                        ctx.fail("indexed-linear-differs", format!("{cname} opened by the variant indexed reader builder: {} records, expected {}", got.len(), vdoc.recs.len()), case.clone());
                                    }
                                }
                                format!("{f} {i}")
                            }
                            Ok(Err(e)) => errclass(&e).to_string(),
                            Err(p) => {
                                ctx.fail("panic-more", format!("variant indexed reader builder panicked on {cname}: {p}"), case.clone());
                                "panic".into()
                            }
                        };
                        ctx.bump(&format!("vidx_{}", ans.replace(' ', "_")));
                        ctx.corr(format!("c20 vidx {} {} {} {} {fs} {}", opt_s(fo.map(vfmt_s)), comp_s(co), given as u8, if by_path { phex(&path) } else { "-".into() }, win_args(&bytes, WINDOW, 3)), ans);
                    }
                }
            }
        }
    }
}

/// `build_from_reader` returns `IndexedReader<BufReader<File>>`, `build_from_path` `IndexedReader<File>`:
/// the choice has been observed on the first; re-open by path with the same index to get one type
fn reopen(r: alignment::io::IndexedReader<std::io::BufReader<std::fs::File>>, path: &Path) -> std::io::Result<alignment::io::IndexedReader<std::fs::File>> {
    let f = std::fs::File::open(path)?;
    Ok(match r {
        alignment::io::IndexedReader::Sam(x) => {
            let m = x.index().unplaced_unmapped_record_count().unwrap_or(0);
            alignment::io::IndexedReader::Sam(sam::io::indexed_reader::Builder::default().set_index(binned_index(m)).build_from_reader(f)?)
        }
        alignment::io::IndexedReader::Bam(x) => {
            let m = x.index().unplaced_unmapped_record_count().unwrap_or(0);
            alignment::io::IndexedReader::Bam(noodles_bam::io::indexed_reader::Builder::default().set_index(binned_index(m)).build_from_reader(f)?)
        }
        alignment::io::IndexedReader::Cram(x) => {
            let idx = x.index().clone();
            alignment::io::IndexedReader::Cram(noodles_cram::io::indexed_reader::Builder::default().set_reference_sequence_repository(repository()).set_index(idx).build_from_reader(f)?)
        }
    })
}

// ------------------------------------------------------------------ 6. headers through `convert`

/// md5 of `ref_seq(0)` / `ref_seq(1)` (computed outside noodles: Python hashlib)
const MD5: [(&str, &str); 2] = [("sq0", "9766246f7b9bfae9e1e9cd2f910f254a"), ("sq1", "01e0adbb63e6c5e223d02b18c5894d43")];

fn sam_text(h: &sam::Header) -> std::io::Result<Vec<u8>> {
    let mut w = sam::io::Writer::new(Vec::new());
    w.write_header(h)?;
    Ok(w.get_ref().clone())
}
fn a_default_comp(f: AFmt) -> Comp {
    if f == AFmt::Bam { Comp::Bgzf } else { Comp::Plain }
}
/// generic writer(f) → generic reader told nothing, header only
fn a_hdr_leg(f: AFmt, h: &sam::Header) -> std::io::Result<sam::Header> {
    let mut out = Vec::new();
    {
        let mut w = a_wb(Some(f), Some(a_default_comp(f))).build_from_writer(&mut out)?;
        w.write_header(h)?;
        w.finish(h)?;
    }
    a_rb(None, None).build_from_reader(std::io::Cursor::new(out))?.read_header()
}
/// what the harness expects of a CRAM leg, stated on `sam::Header` values
fn with_m5(h: &sam::Header) -> sam::Header {
    use sam::header::record::value::map::reference_sequence::tag;
    let mut h = h.clone();
    for (name, rs) in h.reference_sequences_mut().iter_mut() {
        if !rs.other_fields().contains_key(&tag::MD5_CHECKSUM) {
            if let Some((_, d)) = MD5.iter().find(|(n, _)| n.as_bytes() == &name[..]) {
                rs.other_fields_mut().insert(tag::MD5_CHECKSUM, (*d).into());
            }
        }
    }
    h
}

fn a_header_corpus() -> Vec<sam::Header> {
    let mut v: Vec<sam::Header> = (0..4).map(a_header).collect();
    for t in [
        "@HD\tVN:1.6\tSO:coordinate\n@SQ\tSN:sq0\tLN:2000\tM5:0123456789abcdef0123456789abcdef\tUR:file:///x.fa\n@SQ\tSN:sq1\tLN:2000\n@RG\tID:rg0\tSM:s\tPL:ILLUMINA\n@RG\tID:rg1\n@PG\tID:pg0\tPN:x\tCL:a b\n@PG\tID:pg1\tPP:pg0\n@CO\tfirst\n@CO\tsecond one\n",
        "@SQ\tSN:sq1\tLN:2000\n@SQ\tSN:sq0\tLN:2000\tAS:asm\n",
        "@CO\tonly a comment\n",
        "@HD\tVN:1.0\n@SQ\tSN:sq0\tLN:2000\tM5:9766246f7b9bfae9e1e9cd2f910f254a\n",
    ] {
        v.push(t.parse().expect("fixed header text"));
    }
    v
}

fn vcf_text(h: &vcf::Header) -> std::io::Result<Vec<u8>> {
    let mut w = vcf::io::Writer::new(Vec::new());
    w.write_header(h)?;
    Ok(w.get_ref().clone())
}
fn v_default_comp(f: VFmt) -> Comp {
    if f == VFmt::Bcf { Comp::Bgzf } else { Comp::Plain }
}
fn v_hdr_leg(f: VFmt, h: &vcf::Header) -> std::io::Result<vcf::Header> {
    let mut out = Vec::new();
    {
        let mut w = v_wb(Some(f), Some(v_default_comp(f))).build_from_writer(&mut out);
        w.write_header(h)?;
    }
    v_rb(None, None).build_from_reader(std::io::Cursor::new(out))?.read_header()
}

fn headers(ctx: &mut Ctx) {
    let case = "more headers".to_string();
    let md5_arg = MD5.iter().map(|(n, d)| format!("{}={}", hex(n.as_bytes()), hex(d.as_bytes()))).collect::<Vec<_>>().join(",");
    for (i, h0) in a_header_corpus().iter().enumerate() {
        let Ok(text0) = sam_text(h0) else { continue };
        for f in [AFmt::Sam, AFmt::Bam, AFmt::Cram] {
            for gf in [AFmt::Sam, AFmt::Bam, AFmt::Cram] {
                ctx.eval(Some(fnv(format!("ahdr {i} {f:?} {gf:?}").as_bytes())));
                let res = guarded(|| -> std::io::Result<sam::Header> { a_hdr_leg(gf, &a_hdr_leg(f, h0)?) });
                let ans = match &res {
                    Ok(Ok(h2)) => {
                        let mut exp = h0.clone();
                        if f == AFmt::Cram || gf == AFmt::Cram {
                            exp = with_m5(&exp);
                        }
                        if *h2 != exp {
                            ctx.fail("convert-header-full", format!("header {i} through {}→{}: expected {:?}, read {:?}", afmt_s(f), afmt_s(gf), exp, h2), case.clone());
                        }
                        sam_text(h2).map(|t| hex(&t)).unwrap_or("rejected".into())
                    }
                    Ok(Err(_)) => "rejected".into(),
                    Err(p) => {
                        ctx.fail("panic-more", format!("header {i} through {}→{} panicked: {p}", afmt_s(f), afmt_s(gf)), case.clone());
                        "panic".into()
                    }
                };
                ctx.bump(&format!("ahdr_{}_{}", afmt_s(f), afmt_s(gf)));
                ctx.corr(format!("c20 ahdr {} {} {} {md5_arg}", afmt_s(f), afmt_s(gf), hex(&text0)), ans);
            }
        }
    }
    // variant headers: the corpus documents, generated documents, and one with IDX fields
    let mut hs: Vec<vcf::Header> = vec![];
    let mut i = 0;
    while let Some(d) = v_corpus_doc(i) {
        hs.push(v_parse(&d).unwrap().0);
        i += 1;
    }
    for it in 0..ctx.n(12, 300) {
        let mut rng = Rng::new(ctx.seed.wrapping_mul(7_000_003).wrapping_add(it));
        let mut d = gen_vdoc(&mut rng);
        d.recs.clear();
        if let Ok((h, _)) = v_parse(&d) {
            hs.push(h);
        }
    }
    let idx_text = "##fileformat=VCFv4.3\n##FORMAT=<ID=GT,Number=1,Type=String,Description=\"g\",IDX=2>\n##INFO=<ID=DP,Number=1,Type=Integer,Description=\"d\",IDX=3>\n##FILTER=<ID=PASS,Description=\"All filters passed\",IDX=0>\n##FILTER=<ID=q10,Description=\"q\",IDX=1>\n##contig=<ID=sq0,length=2000,IDX=0>\n##contig=<ID=sq1,IDX=1>\n#CHROM\tPOS\tID\tREF\tALT\tQUAL\tFILTER\tINFO\tFORMAT\ts0\n";
    if let Ok(h) = vcf::io::Reader::new(idx_text.as_bytes()).read_header() {
        hs.push(h);
        ctx.bump("vhdr_header_with_idx");
    }
    for (i, h0) in hs.iter().enumerate() {
        let Ok(text0) = vcf_text(h0) else { continue };
        let maps0 = vcf::header::StringMaps::try_from(h0);
        for f in [VFmt::Vcf, VFmt::Bcf] {
            for gf in [VFmt::Vcf, VFmt::Bcf] {
                ctx.eval(Some(fnv(format!("vhdr {} {f:?} {gf:?}", hex(&text0)).as_bytes())));
                let res = guarded(|| -> std::io::Result<vcf::Header> { v_hdr_leg(gf, &v_hdr_leg(f, h0)?) });
                let ans = match &res {
                    Ok(Ok(h2)) => {
                        let t2 = vcf_text(h2).unwrap_or_default();
                        if t2 != text0 {
                            ctx.fail("convert-header-full", format!("variant header {i} through {}→{}: {} became {}", vfmt_s(f), vfmt_s(gf), String::from_utf8_lossy(&text0), String::from_utf8_lossy(&t2)), case.clone());
                        }
                        let maps2 = vcf::header::StringMaps::try_from(h2);
                        let same = matches!((&maps0, &maps2), (Ok(a), Ok(b)) if a == b) || (maps0.is_err() && maps2.is_err());
                        // the dictionary the BCF reader built while reading is the one the writer will rebuild
                        let reader_ok = gf != VFmt::Bcf || matches!(&maps2, Ok(m) if m == h2.string_maps());
                        if !same || !reader_ok {
                            ctx.fail("convert-header-string-maps", format!("variant header {i} through {}→{}: dictionaries differ (value-derived equal: {same}, reader-built = value-derived: {reader_ok})", vfmt_s(f), vfmt_s(gf)), case.clone());
                        }
                        hex(&t2)
                    }
                    Ok(Err(_)) => "rejected".into(),
                    Err(p) => {
                        ctx.fail("panic-more", format!("variant header {i} through {}→{} panicked: {p}", vfmt_s(f), vfmt_s(gf)), case.clone());
                        "panic".into()
                    }
                };
                ctx.bump(&format!("vhdr_{}_{}", vfmt_s(f), vfmt_s(gf)));
                ctx.corr(format!("c20 vhdr {} {} {} {}", vfmt_s(f), vfmt_s(gf), super::c09_header::full_defs(), hex(&text0)), ans);
            }
        }
    }
}

// ------------------------------------------------------------------ 7. oracle: write with builder A(path), read with builder B(path)

fn a_read_path(asy: bool, path: &Path) -> std::io::Result<(sam::Header, Vec<ARec>)> {
    if asy {
        block_on(async {
            let mut r = a_arb(None, None).build_from_path(path).await?;
            let h = r.read_header().await?;
            let mut out = vec![];
            {
                let mut st = std::pin::pin!(r.records(&h));
                while let Some(x) = st.next().await {
                    out.push(render_a(&h, x?.as_ref())?);
                }
            }
            Ok((h, out))
        })
    } else {
        let mut r = a_rb(None, None).build_from_path(path)?;
        let h = r.read_header()?;
        let mut out = vec![];
        for x in r.records(&h) {
            out.push(render_a(&h, x?.as_ref())?);
        }
        Ok((h, out))
    }
}
fn v_read_path(asy: bool, path: &Path) -> std::io::Result<(vcf::Header, Vec<VRec>)> {
    if asy {
        block_on(async {
            let mut r = v_arb(None, None).build_from_path(path).await?;
            let h = r.read_header().await?;
            let mut out = vec![];
            {
                let mut st = std::pin::pin!(r.records());
                while let Some(x) = st.next().await {
                    out.push(render_v(&h, x?.as_ref())?);
                }
            }
            Ok((h, out))
        })
    } else {
        let mut r = v_rb(None, None).build_from_path(path)?;
        let h = r.read_header()?;
        let mut out = vec![];
        for x in r.records(&h) {
            out.push(render_v(&h, x?.as_ref())?);
        }
        Ok((h, out))
    }
}
fn diff_at<T: PartialEq>(exp: &[T], got: &[T], show: impl Fn(&T) -> String) -> Option<String> {
    if exp.len() != got.len() {
        return Some(format!("{} records written, {} read", exp.len(), got.len()));
    }
    exp.iter().zip(got).position(|(a, b)| a != b).map(|i| format!("record {i}: written {} | read {}", show(&exp[i]), show(&got[i])))
}

fn pathdoc_a(ctx: &mut Ctx, sub: u64) {
    let case = format!("pathdoc a {sub}");
    let dir = work(ctx);
    let mut rng = Rng::new(sub);
    let cram = rng.chance(2, 3);
    let doc = gen_adoc(&mut rng, cram);
    let names = ["x.sam", "x.sam.gz", "x.sam.bgz", "x.bam", "x.cram", "x", "x.txt", "x.BAM", "x.bam.gz", "run.bam/out"];
    let name = loop {
        let n = *rng.pick(&names);
        if cram || n != "x.cram" {
            break n;
        }
    };
    let (fo, co) = if rng.chance(7, 10) { (None, None) } else { (*rng.pick(&A_FO), *rng.pick(&CO)) };
    let fo = if !cram && fo == Some(AFmt::Cram) { None } else { fo };
    let (wasy, rasy) = (rng.chance(1, 2), rng.chance(1, 2));
    let path = prepare(&dir, name);
    ctx.eval(Some(fnv(case.as_bytes())));
    ctx.bump(&format!("pathdoc_a_name_{name}"));
    ctx.bump(&format!("pathdoc_a_writer_{}_reader_{}", if wasy { "async" } else { "sync" }, if rasy { "async" } else { "sync" }));
    match guarded(|| a_write_path(wasy, fo, co, &path, &doc)) {
        Ok(Ok(())) => {}
        Ok(Err(e)) => {
            ctx.bump(&format!("pathdoc_a_write_refused_{}", errclass(&e)));
            return;
        }
        Err(p) => {
            ctx.fail("panic-more", format!("alignment writer (async={wasy}) on `{name}` panicked: {p}"), case);
            return;
        }
    }
    let bytes = std::fs::read(&path).unwrap_or_default();
    let (kf, kc) = sniff_a(&bytes);
    ctx.bump(&format!("pathdoc_a_kind_{kf}_{}", kc.s()));
    if (fo, co) == (None, None) {
        if let Some((df, dc)) = documented_a(name) {
            // (a header-less SAM whose first read is named CRAM… fools the harness's sniffer too)
            if (kf, kc) != (afmt_s(df), dc) && !(df == AFmt::Sam && doc.hkind == 0 && kc == dc) {
                ctx.fail("path-writer-kind", format!("alignment writer (async={wasy}) for `{name}` wrote {kf}.{}, documented {}.{}", kc.s(), afmt_s(df), dc.s()), case.clone());
                return;
            }
        }
    }
    let nf = match kf { "bam" => AFmt::Bam, "cram" => AFmt::Cram, _ => AFmt::Sam };
    let exp: Vec<ARec> = doc.recs.iter().map(|r| a_nf(nf, r)).collect();
    let eh = a_header(doc.hkind);
    match guarded(|| a_read_path(rasy, &path)) {
        Ok(Ok((h, got))) => {
            if h.reference_sequences().len() != eh.reference_sequences().len() || h.read_groups().len() != eh.read_groups().len() || h.comments() != eh.comments() {
                ctx.fail("path-roundtrip-header", format!("`{name}` ({kf}.{}), writer async={wasy}, reader async={rasy}: header differs", kc.s()), case.clone());
            }
            if let Some(d) = diff_at(&exp, &got, show_arec) {
                ctx.fail("path-roundtrip-records", format!("`{name}` ({kf}.{}), writer async={wasy}, reader async={rasy}, format={:?} compression={:?}: {d}", kc.s(), fo.map(afmt_s), co), case);
            }
        }
        Ok(Err(e)) => ctx.fail("path-roundtrip-open", format!("`{name}` ({kf}.{}, {} bytes), writer async={wasy}, reader async={rasy}: {e}", kc.s(), bytes.len()), case),
        Err(p) => ctx.fail("panic-more", format!("reader on `{name}` panicked: {p}"), case),
    }
}

fn pathdoc_v(ctx: &mut Ctx, sub: u64) {
    let case = format!("pathdoc v {sub}");
    let dir = work(ctx);
    let mut rng = Rng::new(sub);
    let doc = gen_vdoc(&mut rng);
    let names = ["x.vcf", "x.vcf.gz", "x.vcf.bgz", "x.bcf", "x", "x.txt", "x.VCF", "x.bcf.gz", "d.gz/x.vcf"];
    let name = *rng.pick(&names);
    let (fo, co) = if rng.chance(7, 10) { (None, None) } else { (*rng.pick(&V_FO), *rng.pick(&CO)) };
    let (wasy, rasy) = (rng.chance(1, 2), rng.chance(1, 2));
    let path = prepare(&dir, name);
    ctx.eval(Some(fnv(case.as_bytes())));
    ctx.bump(&format!("pathdoc_v_name_{name}"));
    ctx.bump(&format!("pathdoc_v_writer_{}_reader_{}", if wasy { "async" } else { "sync" }, if rasy { "async" } else { "sync" }));
    match guarded(|| v_write_path(wasy, fo, co, &path, &doc)) {
        Ok(Ok(())) => {}
        Ok(Err(e)) => {
            ctx.bump(&format!("pathdoc_v_write_refused_{}", errclass(&e)));
            return;
        }
        Err(p) => {
            ctx.fail("panic-more", format!("variant writer (async={wasy}) on `{name}` panicked: {p}"), case);
            return;
        }
    }
    // the async variant writer cannot be flushed (no `shutdown`, no access to the inner writer):
    // every failure below is then that one defect
    let unflushed = wasy && NO_SHUTDOWN.load(std::sync::atomic::Ordering::Relaxed);
    let cls = |c: &str| if unflushed { "async-variant-writer-unflushed".to_string() } else { c.to_string() };
    let bytes = std::fs::read(&path).unwrap_or_default();
    let (kf, kc) = sniff_v(&bytes);
    ctx.bump(&format!("pathdoc_v_kind_{kf}_{}", kc.s()));
    if (fo, co) == (None, None) && !unflushed {
        if let Some((df, dc)) = documented_v(name) {
            if (kf, kc) != (vfmt_s(df), dc) {
                ctx.fail("path-writer-kind", format!("variant writer (async={wasy}) for `{name}` wrote {kf}.{}, documented {}.{}", kc.s(), vfmt_s(df), dc.s()), case.clone());
                return;
            }
        }
    }
    match guarded(|| v_read_path(rasy, &path)) {
        Ok(Ok((_, got))) => {
            if let Some(d) = diff_at(&doc.recs, &got, show_vrec) {
                ctx.fail(&cls("path-roundtrip-records"), format!("`{name}` ({kf}.{}, {} bytes), writer async={wasy}, reader async={rasy}, format={:?} compression={:?}: {d}", kc.s(), bytes.len(), fo.map(vfmt_s), co), case);
            }
        }
        Ok(Err(e)) => ctx.fail(&cls("path-roundtrip-open"), format!("`{name}` ({kf}.{}, {} bytes), writer async={wasy}, reader async={rasy}: {e}", kc.s(), bytes.len()), case),
        Err(p) => ctx.fail("panic-more", format!("reader on `{name}` panicked: {p}"), case),
    }
}

// ------------------------------------------------------------------ entry points

fn section(ctx: &mut Ctx, name: &str) {
    match name {
        "paths" => std_paths(ctx),
        "wpaths" => writer_paths(ctx),
        "rpaths" => reader_paths(ctx),
        "async" => scripted_builders(ctx),
        "indexed" => indexed(ctx),
        "headers" => headers(ctx),
        _ => {}
    }
}
const SECTIONS: [&str; 6] = ["paths", "wpaths", "rpaths", "async", "indexed", "headers"];

pub fn run(ctx: &mut Ctx) {
    for s in SECTIONS {
        section(ctx, s);
    }
    for it in 0..ctx.n(60, 2500) {
        pathdoc_a(ctx, ctx.seed.wrapping_mul(9_000_011).wrapping_add(it));
        pathdoc_v(ctx, ctx.seed.wrapping_mul(9_000_049).wrapping_add(it));
    }
    if NO_SHUTDOWN.load(std::sync::atomic::Ordering::Relaxed) {
        ctx.bump("async_variant_writer_has_no_shutdown");
    }
    let _ = std::fs::remove_dir_all(work(ctx));
}

pub fn replay(ctx: &mut Ctx, case: &[String]) -> bool {
    match case.first().map(|s| s.as_str()) {
        Some("more") => {
            section(ctx, case.get(1).map(|s| s.as_str()).unwrap_or(""));
            true
        }
        Some("pathdoc") => {
            let sub: u64 = case.get(2).and_then(|s| s.parse().ok()).unwrap_or(0);
            if case.get(1).map(|s| s.as_str()) == Some("v") { pathdoc_v(ctx, sub) } else { pathdoc_a(ctx, sub) }
            true
        }
        Some("moreall") => {
            run(ctx);
            true
        }
        _ => false,
    }
}
