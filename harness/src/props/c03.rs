//! C03 — multithreaded BGZF I/O = single-threaded I/O under every (forced) completion order.
//!
//! The parent process runs one child per pool size (RAYON_NUM_THREADS); each child drives the
//! real MultithreadedWriter / MultithreadedReader with the scheduling hook of noodles-bgzf
//! (cfg noodles_verif) so that block tasks complete in an order chosen by the case.
use crate::adversary::{ScriptSink, SharedSink};
use crate::common::*;
use noodles_bgzf as bgzf;
use std::collections::{HashMap, HashSet};
use std::io::{BufRead, Cursor, Read, Write};
use std::sync::{Arc, Condvar, Mutex};
use std::time::{Duration, Instant};

const MAX_BUF: usize = 65495;

#[derive(Default)]
struct GateState {
    next_ticket: usize,
    /// waiting tasks: (ticket, block id)
    arrived: Vec<(usize, usize)>,
    last_arrival: Option<Instant>,
    released: HashSet<usize>,
    running: Option<usize>,
    ended: Vec<usize>,
    stop: bool,
    passthrough: bool,
}

struct Gate {
    st: Mutex<GateState>,
    cv: Condvar,
}

thread_local! {
    static CURRENT: std::cell::Cell<Option<(usize, usize)>> = const { std::cell::Cell::new(None) };
}

impl Gate {
    fn new() -> Arc<Self> {
        Arc::new(Gate { st: Mutex::new(GateState::default()), cv: Condvar::new() })
    }
    fn start(&self, id: usize) {
        let mut g = self.st.lock().unwrap_or_else(|e| e.into_inner());
        if g.passthrough {
            return;
        }
        let ticket = g.next_ticket;
        g.next_ticket += 1;
        g.arrived.push((ticket, id));
        g.last_arrival = Some(Instant::now());
        self.cv.notify_all();
        while !g.released.contains(&ticket) && !g.passthrough {
            g = self.cv.wait(g).unwrap_or_else(|e| e.into_inner());
        }
        CURRENT.with(|c| c.set(Some((ticket, id))));
    }
    fn end(&self) {
        let cur = CURRENT.with(|c| c.take());
        let mut g = self.st.lock().unwrap_or_else(|e| e.into_inner());
        if let Some((ticket, id)) = cur {
            g.ended.push(id);
            if g.running == Some(ticket) {
                g.running = None;
            }
        }
        self.cv.notify_all();
    }
    /// controller: release arrived tasks one at a time by `policy` until stopped
    fn control(&self, policy: usize, want: usize, seed: u64) {
        let mut rng = Rng::new(seed);
        loop {
            let mut g = self.st.lock().unwrap_or_else(|e| e.into_inner());
            loop {
                if g.stop {
                    g.passthrough = true;
                    self.cv.notify_all();
                    return;
                }
                let settled = g.last_arrival.map(|t| t.elapsed() > Duration::from_millis(3)).unwrap_or(false);
                if g.running.is_none() && !g.arrived.is_empty() && (g.arrived.len() >= want || settled) {
                    break;
                }
                let (ng, _) = self.cv.wait_timeout(g, Duration::from_millis(2)).unwrap_or_else(|e| e.into_inner());
                g = ng;
            }
            let k = match policy % 4 {
                0 => 0,                                           // oldest first
                1 => g.arrived.len() - 1,                         // newest first
                2 => rng.below(g.arrived.len() as u64) as usize,  // random
                _ => {
                    // hold the smallest block id back as long as anything else is waiting
                    let min = g.arrived.iter().map(|x| x.1).min().unwrap();
                    g.arrived.iter().position(|x| x.1 != min).unwrap_or(0)
                }
            };
            let (ticket, _) = g.arrived.remove(k);
            g.released.insert(ticket);
            g.running = Some(ticket);
            self.cv.notify_all();
        }
    }
    fn stop(&self) {
        let mut g = self.st.lock().unwrap_or_else(|e| e.into_inner());
        g.stop = true;
        g.passthrough = true;
        self.cv.notify_all();
    }
}

fn install_hook(gate: Arc<Gate>, frame_ids: Arc<HashMap<u64, usize>>) {
    let hook: bgzf::verif::Hook = Arc::new(move |event: &'static str, data: &[u8]| match event {
        "deflate:start" => {
            let id = u32::from_le_bytes(data[..4].try_into().unwrap()) as usize;
            gate.start(id);
        }
        "inflate:start" => {
            if let Some(&id) = frame_ids.get(&fnv(data)) {
                gate.start(id);
            }
        }
        "deflate:end" | "inflate:end" => gate.end(),
        _ => {}
    });
    bgzf::verif::set_hook(Some(hook));
}

fn block_payload(rng: &mut Rng, id: usize) -> Vec<u8> {
    let len = match rng.below(8) {
        0 => MAX_BUF,
        1 => 4,
        _ => 4 + rng.below(3000) as usize,
    };
    let mut v = vec![0u8; len];
    v[..4].copy_from_slice(&(id as u32).to_le_bytes());
    for b in v[4..].iter_mut() {
        *b = if id % 2 == 0 { rng.next() as u8 } else { b'a' + (rng.below(4) as u8) };
    }
    v
}

fn with_watchdog<T: Send + 'static>(secs: u64, f: impl FnOnce() -> T + Send + 'static) -> Option<T> {
    let (tx, rx) = std::sync::mpsc::channel();
    std::thread::spawn(move || {
        let r = std::panic::catch_unwind(std::panic::AssertUnwindSafe(f));
        let _ = tx.send(r);
    });
    // A task takes milliseconds; `secs` is what a hang costs. On a loaded machine a slow task must
    // not count as a hang: the first two timeouts of a process wait much longer than `secs`.
    static TIMEOUTS: std::sync::atomic::AtomicUsize = std::sync::atomic::AtomicUsize::new(0);
    let patient = TIMEOUTS.load(std::sync::atomic::Ordering::Relaxed) < 2;
    match rx.recv_timeout(Duration::from_secs(if patient { secs.max(90) } else { secs })) {
        Ok(Ok(v)) => Some(v),
        Ok(Err(_)) => None,
        Err(_) => {
            TIMEOUTS.fetch_add(1, std::sync::atomic::Ordering::Relaxed);
            None
        }
    }
}

fn st_sink(blocks: &[Vec<u8>], level: u8) -> Vec<u8> {
    let lvl = bgzf::io::writer::CompressionLevel::new(level).unwrap();
    let mut w = bgzf::io::writer::Builder::default().set_compression_level(lvl).build_from_writer(Vec::new());
    for b in blocks {
        w.write_all(b).unwrap();
        w.flush().unwrap();
    }
    w.finish().unwrap()
}

fn block_ids_of_sink(sink: &[u8]) -> String {
    match super::c01::split_members(sink) {
        Ok(ms) => ms
            .iter()
            .map(|m| {
                if m.isize == 0 {
                    "eof".to_string()
                } else {
                    super::c01::raw_inflate(m.cdata, m.isize as usize).map(|d| u32::from_le_bytes(d[..4].try_into().unwrap()).to_string()).unwrap_or("?".into())
                }
            })
            .collect::<Vec<_>>()
            .join(","),
        Err(e) => format!("malformed:{e}"),
    }
}

struct WOut {
    results: Vec<String>,
    finish: String,
    sink: Vec<u8>,
    completion: Vec<usize>,
    /// number of calls (write / flush) the sink received
    calls: usize,
}

fn run_writer(blocks: Vec<Vec<u8>>, level: u8, policy: usize, want: usize, seed: u64, fail_at: Option<usize>, fail_once: bool) -> Option<WOut> {
    let gate = Gate::new();
    install_hook(gate.clone(), Arc::new(HashMap::new()));
    let g2 = gate.clone();
    let ctl = std::thread::spawn(move || g2.control(policy, want, seed));
    let g3 = gate.clone();
    let out = with_watchdog(8, move || {
        let mut script = ScriptSink::new(vec![], usize::MAX, fail_at.map(|k| (k, std::io::ErrorKind::Other)));
        script.fail_once = fail_once;
        let sink = SharedSink::new(script);
        let lvl = bgzf::io::writer::CompressionLevel::new(level).unwrap();
        let mut w = bgzf::io::multithreaded_writer::Builder::default().set_compression_level(lvl).build_from_writer(sink.clone());
        let mut results = vec![];
        let mut errored = false;
        for b in &blocks {
            let r = w.write_all(b).and_then(|_| w.flush());
            match r {
                Ok(()) => results.push("ok".to_string()),
                Err(e) => {
                    results.push(errclass(&e).to_string());
                    errored = true;
                    break;
                }
            }
        }
        let finish = if errored {
            // the failure has surfaced; the writer is dropped (calling finish() on it again is F16)
            "skipped".to_string()
        } else {
            match w.finish() {
                Ok(_) => "ok".to_string(),
                Err(e) => errclass(&e).to_string(),
            }
        };
        drop(w);
        let calls = sink.0.lock().map(|s| s.calls).unwrap_or(0);
        (results, finish, sink.accepted(), calls)
    });
    gate.stop();
    let _ = ctl.join();
    bgzf::verif::set_hook(None);
    let completion = g3.st.lock().unwrap_or_else(|e| e.into_inner()).ended.clone();
    out.map(|(results, finish, sink, calls)| WOut { results, finish, sink, completion, calls })
}

fn writer_cases(ctx: &mut Ctx, threads: usize) {
    let n = ctx.n(14, 150);
    for it in 0..n {
        let sub = ctx.seed.wrapping_mul(31_337).wrapping_add(it).wrapping_add(threads as u64 * 1_000_003);
        writer_case(ctx, threads, sub, true);
    }
    // sink failure at every early call index (frame writes are many small write_all calls)
    let nf = ctx.n(10, 80);
    for k in 0..nf {
        let sub = ctx.seed.wrapping_mul(77_003).wrapping_add(k).wrapping_add(threads as u64 * 1_000_003);
        writer_fail_case(ctx, threads, sub, k as usize);
    }
    // … and at each of the last calls (the end-of-file marker is written by finish() only)
    for k in 0..ctx.n(6, 24) {
        let sub = ctx.seed.wrapping_mul(77_003).wrapping_add(500 + k).wrapping_add(threads as u64 * 1_000_003);
        writer_fail_case(ctx, threads, sub, FROM_END + (k % 3) as usize);
    }
}

fn writer_case(ctx: &mut Ctx, threads: usize, sub: u64, emit: bool) {
    let mut rng = Rng::new(sub);
    let case = format!("writer {threads} {sub}");
    let nblocks = 1 + rng.below(9) as usize;
    let blocks: Vec<Vec<u8>> = (0..nblocks).map(|i| block_payload(&mut rng, i)).collect();
    let level = *rng.pick(&[0u8, 1, 6, 9]);
    let policy = rng.below(4) as usize;
    let want = 1 + rng.below(threads as u64 + 1) as usize;
    let expect = st_sink(&blocks, level);
    ctx.eval(if nblocks >= 2 { Some(fnv(case.as_bytes())) } else { None });
    match run_writer(blocks.clone(), level, policy, want, sub, None, false) {
        None => ctx.fail("mt-writer-hang", format!("multithreaded writer did not finish within the watchdog period (or panicked): {nblocks} blocks, pool {threads}, policy {policy}"), case),
        Some(o) => {
            if o.results.iter().any(|r| r != "ok") || o.finish != "ok" {
                ctx.fail("mt-writer-error", format!("healthy sink but calls returned {:?} / finish {}", o.results, o.finish), case.clone());
                return;
            }
            if o.sink != expect {
                ctx.fail("mt-writer-output", format!("multithreaded output differs from the single-threaded writer's: blocks in file = [{}], expected [{}]; completion order {:?}", block_ids_of_sink(&o.sink), block_ids_of_sink(&expect), o.completion), case.clone());
                return;
            }
            let out_of_order = o.completion.windows(2).any(|w| w[0] > w[1]);
            ctx.bump(if out_of_order { "writer_runs_with_out_of_order_completion" } else { "writer_runs_in_order_completion" });
            if emit {
                let order = o.completion.iter().map(|x| x.to_string()).collect::<Vec<_>>().join(",");
                ctx.corr(format!("c03 wsched {threads} {nblocks} {order}"), format!("feasible sink={}", block_ids_of_sink(&o.sink)));
            }
        }
    }
}

const FROM_END: usize = 1_000_000;

fn writer_fail_case(ctx: &mut Ctx, threads: usize, sub: u64, k: usize) {
    let mut rng = Rng::new(sub);
    let case = format!("writer-fail {threads} {sub} {k}");
    let nblocks = 2 + rng.below(6) as usize;
    let blocks: Vec<Vec<u8>> = (0..nblocks).map(|i| block_payload(&mut rng, i)).collect();
    let policy = rng.below(4) as usize;
    ctx.eval(Some(fnv(case.as_bytes())));
    let once = rng.chance(1, 2);
    // k >= FROM_END: the failing call is counted back from the last call a healthy run makes (the end-of-file
    // marker and whatever flush follows it), learnt from a healthy run over the same blocks
    let k = if k >= FROM_END {
        match run_writer(blocks.clone(), 6, policy, 2, sub, None, false) {
            Some(o) if o.calls > k - FROM_END => o.calls - 1 - (k - FROM_END),
            _ => return,
        }
    } else {
        k
    };
    ctx.bump("writer_fail_cases");
    match run_writer(blocks.clone(), 6, policy, 2, sub, Some(k), once) {
        None => ctx.fail("mt-writer-hang", format!("multithreaded writer with a sink failing at call {k} did not return within 8 s (or panicked)"), case),
        Some(o) => {
            let any_err = o.results.iter().any(|r| r != "ok") || (o.finish != "ok" && o.finish != "skipped");
            let complete = o.sink == st_sink(&blocks, 6);
            if !any_err && !complete {
                ctx.fail("mt-writer-hidden-failure", format!("sink failed at call {k} ({}) but every call incl. finish returned Ok and the file is incomplete: [{}]", if once { "that call only" } else { "and all later calls" }, block_ids_of_sink(&o.sink)), case);
            } else {
                ctx.bump(if any_err { "writer_fail_surfaced" } else { "writer_fail_index_beyond_run" });
            }
        }
    }
}

// ------------------------------------------------------------------ reader

#[derive(Clone, Debug)]
enum ROp {
    Read(usize),
    ReadExact(usize),
    FillConsume(usize),
    Seek(u64, u16),
    Tell,
}

fn run_reader_ops<R: Read + BufRead>(r: &mut R, tell: &dyn Fn(&R) -> u64, seek: &mut dyn FnMut(&mut R, u64, u16) -> std::io::Result<()>, ops: &[ROp]) -> Vec<String> {
    let mut out = vec![];
    for op in ops {
        let a = match op {
            ROp::Read(n) => {
                let mut buf = vec![0u8; *n];
                // read until n bytes or EOF so that the answer does not depend on block boundaries reached
                let mut got = 0;
                let mut err = None;
                while got < *n {
                    match r.read(&mut buf[got..]) {
                        Ok(0) => break,
                        Ok(k) => got += k,
                        Err(e) => {
                            err = Some(errclass(&e).to_string());
                            break;
                        }
                    }
                }
                buf.truncate(got);
                format!("{}:{}{}", got, crc32(&buf), err.map(|e| format!("!{e}")).unwrap_or_default())
            }
            ROp::ReadExact(n) => {
                let mut buf = vec![0u8; *n];
                match r.read_exact(&mut buf) {
                    Ok(()) => format!("{}:{}", n, crc32(&buf)),
                    Err(e) => errclass(&e).to_string(),
                }
            }
            ROp::FillConsume(n) => match r.fill_buf() {
                Ok(b) => {
                    let l = b.len();
                    let c = crc32(b);
                    r.consume(*n);
                    format!("{l}:{c}")
                }
                Err(e) => errclass(&e).to_string(),
            },
            ROp::Seek(c, u) => match seek(r, *c, *u) {
                Ok(()) => "ok".into(),
                Err(e) => errclass(&e).to_string(),
            },
            ROp::Tell => "t".into(),
        };
        out.push(format!("{a}@{}", tell(r)));
    }
    out
}

fn reader_case(ctx: &mut Ctx, threads: usize, sub: u64) {
    use bgzf::io::Seek as _;
    let mut rng = Rng::new(sub);
    let case = format!("reader {threads} {sub}");
    let nblocks = 1 + rng.below(9) as usize;
    // the file is assembled member by member so that empty members can sit mid-file
    let mut file: Vec<u8> = vec![];
    let mut cstart = vec![];
    let mut lens = vec![];
    for i in 0..nblocks {
        if rng.chance(1, 5) {
            file.extend_from_slice(&super::c01::EOF); // an empty member mid-file
        }
        cstart.push(file.len() as u64);
        let b = block_payload(&mut rng, i);
        lens.push(b.len());
        let mut w = bgzf::io::Writer::new(Vec::new());
        w.write_all(&b).unwrap();
        let mut m = w.finish().unwrap();
        m.truncate(m.len() - 28);
        file.extend_from_slice(&m);
    }
    let cend: Vec<usize> = cstart.iter().zip(&lens).map(|(&c, _)| {
        // a member's end = its own BSIZE + 1
        let c = c as usize;
        c + u16::from_le_bytes([file[c + 16], file[c + 17]]) as usize + 1
    }).collect();
    file.extend_from_slice(&super::c01::EOF);
    let eof_pos = (file.len() - 28) as u64;
    // optional corruption of one block's CRC (block-level error) — checksum field of member j
    let corrupt = if rng.chance(1, 3) { Some(rng.below(nblocks as u64) as usize) } else { None };
    if let Some(j) = corrupt {
        file[cend[j] - 8] ^= 0x55;
    }
    let mut ids = HashMap::new();
    for (i, &c) in cstart.iter().enumerate() {
        ids.insert(fnv(&file[c as usize..cend[i]]), i);
    }
    // one file in five is cut inside the body of its last data member (after the 18 header bytes): the
    // single-threaded reader fails the read; the multithreaded reader must report it too — from a read
    // or, at the latest, from finish()
    let truncated = corrupt.is_none() && rng.chance(1, 5);
    if truncated {
        let j = nblocks - 1;
        let (c, e) = (cstart[j] as usize, cend[j]);
        if e - c > 19 {
            let cut = c + 18 + rng.below((e - c - 18) as u64) as usize;
            file.truncate(cut);
        }
    }
    let eof_pos = if truncated { cstart[nblocks - 1] } else { eof_pos };
    // ops
    let mut ops = vec![];
    for _ in 0..(2 + rng.below(10)) {
        let k = rng.below(nblocks as u64) as usize;
        ops.push(match rng.below(8) {
            0 | 1 => ROp::Read(*rng.pick(&[1usize, 10, 3000, 70000, 200000])),
            2 => ROp::ReadExact(*rng.pick(&[1usize, 4, 100, 66000])),
            3 => ROp::FillConsume(*rng.pick(&[0usize, 1, 5, 100000])),
            4 | 5 => ROp::Seek(cstart[k], rng.below(lens[k] as u64 + 1) as u16),
            6 => match rng.below(4) {
                0 | 1 => ROp::Seek(eof_pos, 0),
                // behind the last frame: the end position a reader reports after reading everything
                2 => ROp::Seek(eof_pos + 28, 0),
                _ => ROp::Seek(eof_pos + 28, 2),
            },
            _ => ROp::Tell,
        });
    }
    ops.push(ROp::Read(1 << 20));
    ops.push(ROp::Tell);
    // single-threaded reference
    let mut st = bgzf::io::Reader::new(Cursor::new(file.clone()));
    let expect = run_reader_ops(&mut st, &|r| u64::from(r.virtual_position()), &mut |r, c, u| r.seek(bgzf::VirtualPosition::try_from((c, u)).unwrap()).map(|_| ()), &ops);
    // multithreaded under a forced inflate order
    let gate = Gate::new();
    install_hook(gate.clone(), Arc::new(ids));
    let g2 = gate.clone();
    let policy = rng.below(4) as usize;
    let want = 1 + rng.below(threads as u64 + 1) as usize;
    let ctl = std::thread::spawn(move || g2.control(policy, want, sub));
    let ops2 = ops.clone();
    let file2 = file.clone();
    let got = with_watchdog(8, move || {
        let mut mt = bgzf::io::MultithreadedReader::new(Cursor::new(file2));
        let r = run_reader_ops(&mut mt, &|r| u64::from(r.virtual_position()), &mut |r, c, u| r.seek_to_virtual_position(bgzf::VirtualPosition::try_from((c, u)).unwrap()).map(|_| ()), &ops2);
        let fin = mt.finish().map(|_| ()).map_err(|e| errclass(&e).to_string());
        (r, fin)
    });
    gate.stop();
    let _ = ctl.join();
    bgzf::verif::set_hook(None);
    let completion = gate.st.lock().unwrap_or_else(|e| e.into_inner()).ended.clone();
    ctx.eval(if nblocks >= 2 { Some(fnv(case.as_bytes())) } else { None });
    match got {
        None => ctx.fail("mt-reader-hang", format!("multithreaded reader did not finish within the watchdog period (or panicked): {nblocks} blocks, pool {threads}, ops {ops:?}"), case),
        Some((r, fin)) if truncated => {
            // up to the first error of the single-threaded reader the answers must agree; at that point the
            // multithreaded reader must fail the call or report the failure from finish()
            let k = expect.iter().position(|a| a.contains("err:")).unwrap_or(expect.len());
            let agree = r.len() >= k && r[..k] == expect[..k];
            let reported = r.get(k).map(|a| a.contains("err:")).unwrap_or(false) || r.iter().any(|a| a.contains("err:")) || fin.is_err();
            if !agree {
                let i = r.iter().zip(&expect).position(|(a, b)| a != b).unwrap_or(r.len().min(expect.len()));
                ctx.fail("mt-reader-differs", format!("truncated file, op {i} {:?}: multithreaded reader answered {:?}, single-threaded {:?}", ops.get(i), r.get(i), expect.get(i)), case);
            } else if k < expect.len() && !reported {
                ctx.fail("mt-reader-truncation-hidden", format!("file cut inside its last member: the single-threaded reader fails op {k} {:?} with {:?}; the multithreaded reader answered {:?} and finish() returned Ok — the truncation is reported nowhere", ops.get(k), expect.get(k), r.get(k)), case);
            } else {
                ctx.bump("reader_runs_with_truncated_file");
            }
        }
        Some((r, _fin)) => {
            // compare up to and including the first error; the state after an error is unspecified
            let cut = |v: &[String]| -> Vec<String> {
                let mut out = vec![];
                for a in v {
                    if a.contains("err:") {
                        out.push(a.split('@').next().unwrap_or("").to_string());
                        break;
                    }
                    out.push(a.clone());
                }
                out
            };
            let (r, expect) = (cut(&r), cut(&expect));
            if r != expect {
                let i = r.iter().zip(&expect).position(|(a, b)| a != b).unwrap_or(r.len().min(expect.len()));
                ctx.fail("mt-reader-differs", format!("op {i} {:?}: multithreaded reader answered {:?}, single-threaded {:?} (bytes:crc@virtual position); corrupt block {corrupt:?}; inflate completion order {completion:?}", ops.get(i), r.get(i), expect.get(i)), case);
            } else {
                let ooo = completion.windows(2).any(|w| w[0] > w[1]);
                ctx.bump(if ooo { "reader_runs_with_out_of_order_completion" } else { "reader_runs_in_order_completion" });
                if corrupt.is_some() {
                    ctx.bump("reader_runs_with_corrupt_block");
                }
            }
        }
    }
}

/// Ungated: the multithreaded writer against the single-threaded writer on the same `write_all` calls,
/// byte for byte, with call sizes at and around the block capacity (65495 staged bytes).
fn plain_writer_case(ctx: &mut Ctx, threads: usize, sub: u64) {
    let mut rng = Rng::new(sub);
    let case = format!("wplain {threads} {sub}");
    const CAP: usize = 65495;
    let mut chunks: Vec<usize> = vec![];
    match rng.below(5) {
        0 => chunks.extend([CAP - 1, 11]),
        1 => chunks.extend([CAP, 10]),
        2 => chunks.extend([CAP + 1, 5, 3]),
        3 => {
            let a = 1 + rng.below(CAP as u64 - 2) as usize;
            chunks.extend([a, CAP - 1 - a, 1 + rng.below(40) as usize, 1 + rng.below(70_000) as usize]);
        }
        _ => {
            for _ in 0..2 + rng.below(5) {
                chunks.push(*rng.pick(&[1usize, 100, 30_000, CAP - 2, CAP - 1, CAP, CAP + 1, 2 * CAP - 1, 2 * CAP, 140_000]));
            }
        }
    }
    let level = *rng.pick(&[0u8, 1, 6]);
    let data: Vec<Vec<u8>> = chunks.iter().enumerate().map(|(i, &n)| (0..n).map(|j| if i % 2 == 0 { (j % 251) as u8 } else { b"ACGT"[(j * 7 + j / 5) % 4] }).collect()).collect();
    ctx.eval(Some(fnv(case.as_bytes())));
    let st = {
        let lvl = bgzf::io::writer::CompressionLevel::new(level).unwrap();
        let mut w = bgzf::io::writer::Builder::default().set_compression_level(lvl).build_from_writer(Vec::new());
        for d in &data {
            w.write_all(d).unwrap();
        }
        w.finish().unwrap()
    };
    let d2 = data.clone();
    let mt = with_watchdog(20, move || -> std::io::Result<Vec<u8>> {
        let lvl = bgzf::io::writer::CompressionLevel::new(level).unwrap();
        let mut w = bgzf::io::multithreaded_writer::Builder::default().set_compression_level(lvl).build_from_writer(Vec::new());
        for d in &d2 {
            w.write_all(d)?;
        }
        w.finish()
    });
    match mt {
        None => ctx.fail("mt-writer-hang", format!("multithreaded writer did not finish (or panicked): write_all sizes {chunks:?}, level {level}, pool {threads}"), case),
        Some(Err(e)) => ctx.fail("mt-writer-differs", format!("multithreaded writer failed on a healthy sink: {e}; write_all sizes {chunks:?}"), case),
        Some(Ok(out)) => {
            if out != st {
                let lens = |f: &[u8]| super::c01::split_members(f).map(|ms| ms.iter().map(|m| m.isize).collect::<Vec<_>>()).unwrap_or_default();
                ctx.fail("mt-writer-differs", format!("write_all sizes {chunks:?}, level {level}, pool {threads}: the multithreaded writer's file differs from the single-threaded writer's ({} vs {} bytes; block payload sizes {:?} vs {:?})", out.len(), st.len(), lens(&out), lens(&st)), case);
            } else {
                ctx.bump("plain_writer_runs_identical");
            }
        }
    }
}

fn reader_cases(ctx: &mut Ctx, threads: usize) {
    let n = ctx.n(16, 200);
    for it in 0..n {
        let sub = ctx.seed.wrapping_mul(52_711).wrapping_add(it).wrapping_add(threads as u64 * 1_000_003);
        reader_case(ctx, threads, sub);
    }
}

pub fn run_child(ctx: &mut Ctx) {
    let threads = rayon_threads();
    if let Some(case) = ctx.replay_only.clone() {
        let sub: u64 = case.get(2).and_then(|s| s.parse().ok()).unwrap_or(0);
        if super::c03_trunc::replay(ctx, &case) { return; }
        match case.first().map(|s| s.as_str()) {
            Some("writer") => writer_case(ctx, threads, sub, false),
            Some("writer-fail") => writer_fail_case(ctx, threads, sub, case.get(3).and_then(|s| s.parse().ok()).unwrap_or(0)),
            Some("reader") => reader_case(ctx, threads, sub),
            Some("wplain") => plain_writer_case(ctx, threads, sub),
            _ => {}
        }
        return;
    }
    writer_cases(ctx, threads);
    reader_cases(ctx, threads);
    for it in 0..ctx.n(6, 120) {
        plain_writer_case(ctx, threads, ctx.seed.wrapping_mul(71_711).wrapping_add(it).wrapping_add(threads as u64 * 1_000_003));
    }
    super::c03_trunc::run(ctx);
    ctx.bump(&format!("pool_size_{threads}"));
}

fn rayon_threads() -> usize {
    std::env::var("RAYON_NUM_THREADS").ok().and_then(|s| s.parse().ok()).unwrap_or(4)
}

/// parent: one child process per pool size, results merged
pub fn run(ctx: &mut Ctx) {
    let exe = std::env::current_exe().unwrap();
    let replay_threads: Option<usize> = ctx.replay_only.as_ref().and_then(|c| c.get(1)).and_then(|s| s.parse().ok());
    let pools: Vec<usize> = if let Some(t) = replay_threads { vec![t] } else if ctx.tier_thorough { vec![1, 2, 3, 4, 6, 8, 12, 16] } else { vec![1, 2, 4, 16] };
    let mut children = vec![];
    for &t in &pools {
        let dir = format!("{}/child{t}", ctx.dir);
        let mut cmd = std::process::Command::new(&exe);
        cmd.arg(if ctx.replay_only.is_some() { "replay" } else { "run" }).arg("C03child").args(["--seed", &ctx.seed.to_string(), "--tier", if ctx.tier_thorough { "thorough" } else { "quick" }, "--dir", &dir]);
        if let Some(c) = &ctx.replay_only {
            cmd.args(c);
        }
        cmd.env("RAYON_NUM_THREADS", t.to_string()).stdout(std::process::Stdio::null());
        children.push((t, dir, cmd.spawn()));
    }
    for (t, dir, child) in children {
        let status = child.and_then(|mut c| c.wait());
        if !status.map(|s| s.success()).unwrap_or(false) {
            ctx.fail("mt-child-crash", format!("child process for pool size {t} crashed or could not start"), format!("child {t}"));
            continue;
        }
        let read = |f: &str| std::fs::read_to_string(format!("{dir}/{f}")).unwrap_or_default();
        let reqs = read("requests.txt");
        let anss = read("impl.txt");
        for (r, a) in reqs.lines().zip(anss.lines()) {
            ctx.corr(r.to_string(), a.to_string());
        }
        for line in read("oracle.tsv").lines() {
            let p: Vec<&str> = line.split('\t').collect();
            if p.len() >= 3 {
                ctx.fail(p[0], p[1].to_string(), p[2].to_string());
            }
        }
        for line in read("stats.tsv").lines() {
            let (k, v) = line.split_once('\t').unwrap_or(("", ""));
            if k == "oracle_evals" {
                ctx.oracle_evals += v.parse::<u64>().unwrap_or(0);
            } else if k == "distinct_nontrivial" {
                for i in 0..v.parse::<u64>().unwrap_or(0) {
                    ctx.nontrivial.insert(fnv(format!("{t}-{i}").as_bytes()));
                }
            } else if let Some(h) = k.strip_prefix("hist:") {
                ctx.bump_by(h, v.parse().unwrap_or(0));
            }
        }
    }
    ctx.sample(|| "c03 wsched 4 5 1,0,3,2,4  (pool 4, five blocks, completion order forced by the gate)".into());
}
