//! C05 — BAM record encode/decode are inverse; lazy field views agree with eager decode.
//!
//! Correspondence (suite `c05`, model `lean/Noodles/Bam/*.lean`):
//!   c05 enc <nref> <rec>      real: bam::io::Writer::from(Vec) + write_alignment_record(RecordBuf)
//!                             answer: `ok <body bytes>` | error class
//!   c05 dec <hex body>        real: bam::io::Reader::from(bytes).read_record_buf  (validate + eager decode)
//!                             answer: `ok <rec>` | error class
//!   c05 lazy <hex body>       real: read_record (validate) + every accessor of bam::Record
//!   c05 raw <hex body>        real: bam::RecordRef::new(body) (NO validate) + every accessor, panics caught
//!   c05 bin <start> <end>     real: the stored bin of a record spanning [start,end] (1-based, inclusive)
//!   c05 wseq <nref> <rec>*    real: several records through ONE writer; answer: statuses + the sink
//! Oracle (property stated on the real code, no model involved; class = first word):
//!   roundtrip          accepted record reads back equal up to the harness's own norm (case folding / N, CG dropped)
//!   accepted-unfit     a record with a length/count/coordinate that does not fit its BAM field was accepted
//!   reject-hygiene     a rejected record left bytes in the sink / block_size does not describe the body
//!   bin                stored bin != the spec's reg2bin (own transcription of the SAM spec C code) for end <= 2^29
//!   lazy-eager         a lazy accessor != eager decode of the same bytes
//!   lazy-eager-cg-data …specifically: lazy data() still lists the CG field the eager decoder removed (finding F28)
//!   scratch            accept/reject sequence on one writer: sink != concatenation of fresh writers' blocks
//!   rewrite            a lazy bam::Record written back through the writer does not read back equal
//!   rewrite-cg         …for a record with > 65535 ops (consequence of F28: CG written twice)
//!   panic              any panic of writer / reader / validated lazy accessor
use crate::common::*;
use noodles_bam as bam;
use noodles_core::Position;
use noodles_sam::{
    self as sam,
    alignment::{
        io::Write as _,
        record::{
            cigar::{op::Kind, Op},
            data::field::{value::Array as LArray, Tag, Value as LValue},
            Flags, MappingQuality,
        },
        record_buf::{
            data::field::{value::Array, Value},
            Cigar, Data, QualityScores, Sequence,
        },
        RecordBuf,
    },
};
use std::fmt::Write as _;

// ------------------------------------------------------------------ the harness's own record type

#[derive(Clone, Copy, Debug, PartialEq, Eq)]
pub enum Ty {
    I8,
    U8,
    I16,
    U16,
    I32,
    U32,
    F32, // value = IEEE bit pattern
}
impl Ty {
    fn code(self) -> char {
        match self {
            Ty::I8 => 'c',
            Ty::U8 => 'C',
            Ty::I16 => 's',
            Ty::U16 => 'S',
            Ty::I32 => 'i',
            Ty::U32 => 'I',
            Ty::F32 => 'f',
        }
    }
    fn range(self) -> (i64, i64) {
        match self {
            Ty::I8 => (-128, 127),
            Ty::U8 => (0, 255),
            Ty::I16 => (-32768, 32767),
            Ty::U16 => (0, 65535),
            Ty::I32 => (i32::MIN as i64, i32::MAX as i64),
            Ty::U32 | Ty::F32 => (0, u32::MAX as i64),
        }
    }
    const ALL: [Ty; 7] = [Ty::I8, Ty::U8, Ty::I16, Ty::U16, Ty::I32, Ty::U32, Ty::F32];
}

#[derive(Clone, Debug, PartialEq, Eq)]
pub enum Val {
    Char(u8),
    Num(Ty, i64),
    Str(Vec<u8>),
    Hex(Vec<u8>),
    Arr(Ty, Vec<i64>),
}

#[derive(Clone, Debug, PartialEq, Eq, Default)]
pub struct Rec {
    pub name: Option<Vec<u8>>,
    pub flags: u16,
    pub refid: Option<usize>,
    pub pos: Option<usize>,
    pub mapq: Option<u8>,
    pub cigar: Vec<(u8, usize)>, // (kind 0..=8 = MIDNSHP=X, len)
    pub mref: Option<usize>,
    pub mpos: Option<usize>,
    pub tlen: i32,
    pub seq: Vec<u8>,
    pub qual: Vec<u8>,
    pub data: Vec<([u8; 2], Val)>,
}

const KINDS: [Kind; 9] = [
    Kind::Match,
    Kind::Insertion,
    Kind::Deletion,
    Kind::Skip,
    Kind::SoftClip,
    Kind::HardClip,
    Kind::Pad,
    Kind::SequenceMatch,
    Kind::SequenceMismatch,
];
fn kind_code(k: Kind) -> u8 {
    KINDS.iter().position(|x| *x == k).unwrap() as u8
}

fn to_value(v: &Val) -> Value {
    match v {
        Val::Char(c) => Value::Character(*c),
        Val::Num(Ty::I8, n) => Value::Int8(*n as i8),
        Val::Num(Ty::U8, n) => Value::UInt8(*n as u8),
        Val::Num(Ty::I16, n) => Value::Int16(*n as i16),
        Val::Num(Ty::U16, n) => Value::UInt16(*n as u16),
        Val::Num(Ty::I32, n) => Value::Int32(*n as i32),
        Val::Num(Ty::U32, n) => Value::UInt32(*n as u32),
        Val::Num(Ty::F32, n) => Value::Float(f32::from_bits(*n as u32)),
        Val::Str(s) => Value::String(s.clone().into()),
        Val::Hex(s) => Value::Hex(s.clone().into()),
        Val::Arr(Ty::I8, v) => Value::Array(Array::Int8(v.iter().map(|n| *n as i8).collect())),
        Val::Arr(Ty::U8, v) => Value::Array(Array::UInt8(v.iter().map(|n| *n as u8).collect())),
        Val::Arr(Ty::I16, v) => Value::Array(Array::Int16(v.iter().map(|n| *n as i16).collect())),
        Val::Arr(Ty::U16, v) => Value::Array(Array::UInt16(v.iter().map(|n| *n as u16).collect())),
        Val::Arr(Ty::I32, v) => Value::Array(Array::Int32(v.iter().map(|n| *n as i32).collect())),
        Val::Arr(Ty::U32, v) => Value::Array(Array::UInt32(v.iter().map(|n| *n as u32).collect())),
        Val::Arr(Ty::F32, v) => Value::Array(Array::Float(v.iter().map(|n| f32::from_bits(*n as u32)).collect())),
    }
}

fn from_value(v: &Value) -> Val {
    match v {
        Value::Character(c) => Val::Char(*c),
        Value::Int8(n) => Val::Num(Ty::I8, *n as i64),
        Value::UInt8(n) => Val::Num(Ty::U8, *n as i64),
        Value::Int16(n) => Val::Num(Ty::I16, *n as i64),
        Value::UInt16(n) => Val::Num(Ty::U16, *n as i64),
        Value::Int32(n) => Val::Num(Ty::I32, *n as i64),
        Value::UInt32(n) => Val::Num(Ty::U32, *n as i64),
        Value::Float(n) => Val::Num(Ty::F32, n.to_bits() as i64),
        Value::String(s) => Val::Str(s.to_vec()),
        Value::Hex(s) => Val::Hex(s.to_vec()),
        Value::Array(a) => match a {
            Array::Int8(v) => Val::Arr(Ty::I8, v.iter().map(|n| *n as i64).collect()),
            Array::UInt8(v) => Val::Arr(Ty::U8, v.iter().map(|n| *n as i64).collect()),
            Array::Int16(v) => Val::Arr(Ty::I16, v.iter().map(|n| *n as i64).collect()),
            Array::UInt16(v) => Val::Arr(Ty::U16, v.iter().map(|n| *n as i64).collect()),
            Array::Int32(v) => Val::Arr(Ty::I32, v.iter().map(|n| *n as i64).collect()),
            Array::UInt32(v) => Val::Arr(Ty::U32, v.iter().map(|n| *n as i64).collect()),
            Array::Float(v) => Val::Arr(Ty::F32, v.iter().map(|n| n.to_bits() as i64).collect()),
        },
    }
}

/// lazy (borrowed) value → harness value; Err(()) when an element fails to decode
fn from_lazy_value(v: &LValue<'_>) -> Result<Val, ()> {
    fn coll<T: Copy>(it: Box<dyn Iterator<Item = std::io::Result<T>> + '_>, f: impl Fn(T) -> i64) -> Result<Vec<i64>, ()> {
        let mut out = vec![];
        for r in it {
            out.push(f(r.map_err(|_| ())?));
        }
        Ok(out)
    }
    Ok(match v {
        LValue::Character(c) => Val::Char(*c),
        LValue::Int8(n) => Val::Num(Ty::I8, *n as i64),
        LValue::UInt8(n) => Val::Num(Ty::U8, *n as i64),
        LValue::Int16(n) => Val::Num(Ty::I16, *n as i64),
        LValue::UInt16(n) => Val::Num(Ty::U16, *n as i64),
        LValue::Int32(n) => Val::Num(Ty::I32, *n as i64),
        LValue::UInt32(n) => Val::Num(Ty::U32, *n as i64),
        LValue::Float(n) => Val::Num(Ty::F32, n.to_bits() as i64),
        LValue::String(s) => Val::Str(s.to_vec()),
        LValue::Hex(s) => Val::Hex(s.to_vec()),
        LValue::Array(a) => match a {
            LArray::Int8(v) => Val::Arr(Ty::I8, coll(v.iter(), |n| n as i64)?),
            LArray::UInt8(v) => Val::Arr(Ty::U8, coll(v.iter(), |n| n as i64)?),
            LArray::Int16(v) => Val::Arr(Ty::I16, coll(v.iter(), |n| n as i64)?),
            LArray::UInt16(v) => Val::Arr(Ty::U16, coll(v.iter(), |n| n as i64)?),
            LArray::Int32(v) => Val::Arr(Ty::I32, coll(v.iter(), |n| n as i64)?),
            LArray::UInt32(v) => Val::Arr(Ty::U32, coll(v.iter(), |n| n as i64)?),
            LArray::Float(v) => Val::Arr(Ty::F32, coll(v.iter(), |n| n.to_bits() as i64)?),
        },
    })
}

pub fn to_record_buf(r: &Rec) -> RecordBuf {
    let mut b = RecordBuf::default();
    *b.name_mut() = r.name.clone().map(Into::into);
    *b.flags_mut() = Flags::from(r.flags);
    *b.reference_sequence_id_mut() = r.refid;
    *b.alignment_start_mut() = r.pos.map(|p| Position::new(p).expect("pos >= 1"));
    *b.mapping_quality_mut() = r.mapq.map(|q| MappingQuality::new(q).expect("mapq < 255"));
    *b.cigar_mut() = r.cigar.iter().map(|(k, l)| Op::new(KINDS[*k as usize], *l)).collect::<Cigar>();
    *b.mate_reference_sequence_id_mut() = r.mref;
    *b.mate_alignment_start_mut() = r.mpos.map(|p| Position::new(p).expect("mpos >= 1"));
    *b.template_length_mut() = r.tlen;
    *b.sequence_mut() = Sequence::from(r.seq.clone());
    *b.quality_scores_mut() = QualityScores::from(r.qual.clone());
    let mut d = Data::default();
    for (t, v) in &r.data {
        d.insert(Tag::new(t[0], t[1]), to_value(v));
    }
    *b.data_mut() = d;
    b
}

pub fn from_record_buf(b: &RecordBuf) -> Rec {
    Rec {
        name: b.name().map(|n| n.to_vec()),
        flags: u16::from(b.flags()),
        refid: b.reference_sequence_id(),
        pos: b.alignment_start().map(usize::from),
        mapq: b.mapping_quality().map(u8::from),
        cigar: b.cigar().as_ref().iter().map(|op| (kind_code(op.kind()), op.len())).collect(),
        mref: b.mate_reference_sequence_id(),
        mpos: b.mate_alignment_start().map(usize::from),
        tlen: b.template_length(),
        seq: b.sequence().as_ref().to_vec(),
        qual: b.quality_scores().as_ref().to_vec(),
        data: b.data().iter().map(|(t, v)| ([t.as_ref()[0], t.as_ref()[1]], from_value(v))).collect(),
    }
}

pub fn header(nref: usize) -> sam::Header {
    use sam::header::record::value::{map::ReferenceSequence, Map};
    let mut b = sam::Header::builder();
    for i in 0..nref {
        b = b.add_reference_sequence(format!("sq{i}"), Map::<ReferenceSequence>::new(std::num::NonZero::new(1usize << 30).unwrap()));
    }
    b.build()
}

// ------------------------------------------------------------------ canonical text

fn opt<T: std::fmt::Display>(o: &Option<T>) -> String {
    match o {
        Some(v) => v.to_string(),
        None => "N".into(),
    }
}

fn fmt_cigar(c: &[(u8, usize)]) -> String {
    if c.is_empty() {
        return "-".into();
    }
    let mut s = String::with_capacity(c.len() * 5);
    for (i, (k, l)) in c.iter().enumerate() {
        if i > 0 {
            s.push(',');
        }
        let _ = write!(s, "{k}:{l}");
    }
    s
}

fn fmt_nums(v: &[i64]) -> String {
    if v.is_empty() {
        return "-".into();
    }
    v.iter().map(|n| n.to_string()).collect::<Vec<_>>().join(",")
}

fn fmt_field(t: &[u8; 2], v: &Val) -> String {
    let tag = hex(t);
    match v {
        Val::Char(c) => format!("{tag}:A:{c}"),
        Val::Num(ty, n) => format!("{tag}:{}:{n}", ty.code()),
        Val::Str(s) => format!("{tag}:Z:{}", hex(s)),
        Val::Hex(s) => format!("{tag}:H:{}", hex(s)),
        Val::Arr(ty, v) => format!("{tag}:B:{}:{}", ty.code(), fmt_nums(v)),
    }
}

fn fmt_data(d: &[([u8; 2], Val)]) -> String {
    if d.is_empty() {
        return "-".into();
    }
    d.iter().map(|(t, v)| fmt_field(t, v)).collect::<Vec<_>>().join(";")
}

pub fn fmt_rec(r: &Rec) -> String {
    format!(
        "{} {} {} {} {} {} {} {} {} {} {} {}",
        r.name.as_ref().map(|n| hex(n)).unwrap_or_else(|| "N".into()),
        r.flags,
        opt(&r.refid),
        opt(&r.pos),
        opt(&r.mapq),
        fmt_cigar(&r.cigar),
        opt(&r.mref),
        opt(&r.mpos),
        r.tlen,
        hex(&r.seq),
        hex(&r.qual),
        fmt_data(&r.data)
    )
}

/// long answers are compared as `#len:crc32`
fn squash(s: String) -> String {
    if s.len() <= 3000 { s } else { format!("#{}:{}", s.len(), crc32(s.as_bytes())) }
}

fn fmt_bytes(b: &[u8]) -> String {
    if b.len() <= 1500 { hex(b) } else { format!("#{}:{}", b.len(), crc32(b)) }
}

// ------------------------------------------------------------------ the real code

/// body bytes of the record as written by the real writer (block_size prefix checked and stripped)
pub fn real_encode(nref: usize, r: &Rec) -> Result<Vec<u8>, String> {
    let h = header(nref);
    let rb = to_record_buf(r);
    let mut w = bam::io::Writer::from(Vec::new());
    match w.write_alignment_record(&h, &rb) {
        Ok(()) => {
            let out = w.into_inner();
            if out.len() < 4 || u32::from_le_bytes(out[..4].try_into().unwrap()) as usize != out.len() - 4 {
                return Err("bad-block-size".into()); // the block_size prefix does not describe the body
            }
            Ok(out[4..].to_vec())
        }
        Err(e) => {
            if !w.get_ref().is_empty() {
                return Err("partial-write".into());
            }
            Err(errclass(&e).into())
        }
    }
}

fn framed(body: &[u8]) -> Vec<u8> {
    let mut v = (body.len() as u32).to_le_bytes().to_vec();
    v.extend_from_slice(body);
    v
}

pub fn real_decode(body: &[u8]) -> Result<Rec, String> {
    let f = framed(body);
    let mut rd = bam::io::Reader::from(&f[..]);
    let mut rb = RecordBuf::default();
    match rd.read_record_buf(&sam::Header::default(), &mut rb) {
        Ok(0) => Err("eof".into()),
        Ok(_) => Ok(from_record_buf(&rb)),
        Err(e) => Err(errclass(&e).into()),
    }
}

fn o<T: std::fmt::Display>(v: Option<std::io::Result<T>>) -> String {
    match v {
        None => "N".into(),
        Some(Ok(n)) => n.to_string(),
        Some(Err(_)) => "E".into(),
    }
}

fn view_cigar(c: &bam::record::Cigar<'_>) -> String {
    let mut ops = vec![];
    for x in c.iter() {
        match x {
            Ok(op) => ops.push((kind_code(op.kind()), op.len())),
            Err(_) => return "E".into(),
        }
    }
    fmt_cigar(&ops)
}

/// fields decoded so far; `!E` appended when the iterator (or an array element) reported an error
fn view_data(d: &bam::record::Data<'_>) -> String {
    let mut outv = vec![];
    let mut bad = false;
    for x in d.iter() {
        match x.map_err(|_| ()).and_then(|(t, v)| from_lazy_value(&v).map(|v| (t, v))) {
            Ok((t, v)) => outv.push(fmt_field(&[t.as_ref()[0], t.as_ref()[1]], &v)),
            Err(()) => {
                bad = true;
                break;
            }
        }
    }
    let mut s = if outv.is_empty() { "-".to_string() } else { outv.join(";") };
    if bad {
        s.push_str("!E");
    }
    s
}

/// the 12 accessors in fmt_rec order; `E` = the accessor reported an error, `P` = it panicked
macro_rules! accessors {
    ($r:expr) => {{
        let r = &$r;
        let mut out: Vec<String> = vec![];
        macro_rules! g {
            ($e:expr) => {
                out.push(guarded(|| $e).unwrap_or_else(|_| "P".into()))
            };
        }
        g!(r.name().map(|n| { let n: &[u8] = n.as_ref(); hex(n) }).unwrap_or_else(|| "N".into()));
        g!(u16::from(r.flags()).to_string());
        g!(o(r.reference_sequence_id()));
        g!(o(r.alignment_start().map(|x| x.map(usize::from))));
        g!(opt(&r.mapping_quality().map(u8::from)));
        g!(view_cigar(&r.cigar()));
        g!(o(r.mate_reference_sequence_id()));
        g!(o(r.mate_alignment_start().map(|x| x.map(usize::from))));
        g!(r.template_length().to_string());
        g!(hex(&r.sequence().iter().collect::<Vec<u8>>()));
        g!(hex(r.quality_scores().as_bytes()));
        g!(view_data(&r.data()));
        out
    }};
}

fn read_lazy(body: &[u8]) -> Result<bam::Record, String> {
    let f = framed(body);
    let mut rd = bam::io::Reader::from(&f[..]);
    let mut rec = bam::Record::default();
    match rd.read_record(&mut rec) {
        Ok(0) => Err("eof".into()),
        Ok(_) => Ok(rec),
        Err(e) => Err(errclass(&e).into()),
    }
}

/// validate (through the real reader) + every accessor of the lazy record
pub fn real_lazy(body: &[u8]) -> Result<Vec<String>, String> {
    let rec = read_lazy(body)?;
    Ok(accessors!(rec))
}

/// every accessor of RecordRef over unvalidated bytes
fn real_raw(body: &[u8]) -> Result<Vec<String>, String> {
    let Some(r) = bam::RecordRef::new(body) else { return Err("short".into()) };
    Ok(accessors!(r))
}

// ------------------------------------------------------------------ the harness's own reference rules

const BASES: &[u8; 16] = b"=ACMGRSVTWYHKDBN";

/// SAM spec §4.2.3: case-insensitive base codes, every other character becomes `N`
fn norm_base(b: u8) -> u8 {
    let u = b.to_ascii_uppercase();
    if BASES.contains(&u) { u } else { b'N' }
}

/// what an accepted record must read back as: bases folded, a `CG` field of the record dropped
/// (the tag is reserved for the BAM-internal long-CIGAR convention)
pub fn norm(r: &Rec) -> Rec {
    let mut n = r.clone();
    n.seq = r.seq.iter().map(|b| norm_base(*b)).collect();
    n.data.retain(|(t, _)| t != b"CG");
    n
}

fn consumes_ref(k: u8) -> bool {
    matches!(k, 0 | 2 | 3 | 7 | 8)
}
fn consumes_read(k: u8) -> bool {
    matches!(k, 0 | 1 | 4 | 7 | 8)
}
fn ref_span(c: &[(u8, usize)]) -> usize {
    c.iter().filter(|(k, _)| consumes_ref(*k)).map(|(_, l)| *l).sum()
}
fn read_len(c: &[(u8, usize)]) -> usize {
    c.iter().filter(|(k, _)| consumes_read(*k)).map(|(_, l)| *l).sum()
}

/// SAM spec §5.3, C code `reg2bin(beg, end)`: 0-based, half-open
fn spec_reg2bin(beg: i64, end: i64) -> i64 {
    let end = end - 1;
    if beg >> 14 == end >> 14 {
        return ((1 << 15) - 1) / 7 + (beg >> 14);
    }
    if beg >> 17 == end >> 17 {
        return ((1 << 12) - 1) / 7 + (beg >> 17);
    }
    if beg >> 20 == end >> 20 {
        return ((1 << 9) - 1) / 7 + (beg >> 20);
    }
    if beg >> 23 == end >> 23 {
        return ((1 << 6) - 1) / 7 + (beg >> 23);
    }
    if beg >> 26 == end >> 26 {
        return ((1 << 3) - 1) / 7 + (beg >> 26);
    }
    0
}

/// Some(reason) when a length / count / coordinate of the record does not fit its BAM field
fn unfit(r: &Rec) -> Option<&'static str> {
    const I32MAX: usize = i32::MAX as usize;
    if r.name.as_ref().map(|n| n.len() + 1 > 255).unwrap_or(false) {
        return Some("l_read_name > 255");
    }
    if r.refid.map(|i| i > I32MAX).unwrap_or(false) || r.mref.map(|i| i > I32MAX).unwrap_or(false) {
        return Some("reference id > i32::MAX");
    }
    if r.pos.map(|p| p - 1 > I32MAX).unwrap_or(false) {
        return Some("POS-1 > i32::MAX");
    }
    if r.mpos.map(|p| p - 1 > I32MAX).unwrap_or(false) {
        return Some("PNEXT-1 > i32::MAX");
    }
    if r.cigar.iter().any(|(_, l)| *l >= 1 << 28) {
        return Some("CIGAR op length >= 2^28");
    }
    if r.cigar.len() > 65535 && (r.seq.len() >= 1 << 28 || ref_span(&r.cigar) >= 1 << 28) {
        return Some("kSmN placeholder length >= 2^28");
    }
    None
}

// ------------------------------------------------------------------ generator

const EDGES: [u32; 7] = [14, 17, 20, 23, 26, 29, 31];

fn gen_pos(rng: &mut Rng, bad: bool) -> Option<usize> {
    if bad && rng.chance(1, 3) {
        return Some(*rng.pick(&[(1usize << 31) + 1, (1 << 31) + 2, (1 << 32) + 5, 1 << 33]));
    }
    Some(match rng.below(10) {
        0 => return None,
        1 => 1 + rng.below(3) as usize,
        2 | 3 | 4 => {
            // around a bin edge / the 2^29 and 2^31 limits (1-based position p covers 0-based p-1)
            let e = 1usize << *rng.pick(&EDGES);
            let k = 1 + rng.below(40) as usize;
            let base = e * k.min(if e >= 1 << 29 { 1 } else { 40 });
            let d = rng.below(5) as usize;
            (base + 3 - d).min(1 << 31).max(1)
        }
        5 => (1usize << 31) - rng.below(3) as usize,
        6 | 7 => 1 + rng.below(1 << 29) as usize,
        8 => 1 + rng.below(1 << 31) as usize,
        _ => 1 + rng.below(100_000) as usize,
    })
}

fn gen_name(rng: &mut Rng, bad: bool) -> Option<Vec<u8>> {
    fn graphic(rng: &mut Rng, n: usize) -> Vec<u8> {
        (0..n)
            .map(|_| loop {
                let b = 33 + rng.below(94) as u8;
                if b != b'@' {
                    break b;
                }
            })
            .collect()
    }
    if bad {
        return Some(match rng.below(9) {
            0 => graphic(rng, 255),
            1 => graphic(rng, 256),
            2 => {
                let n = 300 + rng.below(300) as usize;
                graphic(rng, n)
            }
            3 => vec![],
            4 => b"*".to_vec(),
            5 => {
                let mut v = graphic(rng, 5);
                v[2] = *rng.pick(&[b'@', b' ', 0x7f, 0x00, 0x09, 0x80, 0xff]);
                v
            }
            6 => graphic(rng, 254),
            7 => b"**".to_vec(),
            _ => vec![0],
        });
    }
    match rng.below(12) {
        0 => None,
        1 => Some(graphic(rng, 254)),
        2 => Some(graphic(rng, 1)),
        3 => Some(graphic(rng, 253)),
        _ => {
            let n = 1 + rng.below(24) as usize;
            Some(graphic(rng, n))
        }
    }
}

fn gen_num(rng: &mut Rng, ty: Ty) -> i64 {
    let (lo, hi) = ty.range();
    if ty == Ty::F32 {
        let any = rng.below(1 << 32) as i64;
        return *rng.pick(&[0i64, 0x3f80_0000, 0x8000_0000, 0x7f80_0000, 0xff80_0000, 0x7fc0_0000, 0x7f80_0001, 0xffc0_0001, 0x0000_0001, 0x7f7f_ffff, 0xffff_ffff, any, 0x4049_0fdb]);
    }
    match rng.below(8) {
        0 => lo,
        1 => hi,
        2 => 0,
        3 => (lo + 1).min(hi),
        4 => hi - 1,
        5 => if lo < 0 { -1 } else { 1 },
        _ => lo + (rng.next() % ((hi - lo + 1) as u64)) as i64,
    }
}

fn gen_val(rng: &mut Rng, bad: bool) -> Val {
    match rng.below(12) {
        0 => Val::Char(if rng.chance(1, 4) { rng.next() as u8 } else { 33 + rng.below(94) as u8 }),
        1..=5 => {
            let ty = *rng.pick(&Ty::ALL);
            Val::Num(ty, gen_num(rng, ty))
        }
        6 | 7 => {
            let n = *rng.pick(&[0usize, 1, 2, 7, 30, 200]);
            let n = if n > 2 { 1 + rng.below(n as u64) as usize } else { n };
            let mut s: Vec<u8> = (0..n).map(|_| 32 + rng.below(95) as u8).collect();
            if bad && !s.is_empty() && rng.chance(1, 2) {
                let i = rng.below(s.len() as u64) as usize;
                s[i] = *rng.pick(&[0x00, 0x1f, 0x7f, 0x80, 0xff, 0x09]);
            }
            Val::Str(s)
        }
        8 => {
            let n = 2 * rng.below(9) as usize;
            let mut s: Vec<u8> = (0..n).map(|_| b"0123456789ABCDEF"[rng.below(16) as usize]).collect();
            if bad && rng.chance(1, 2) {
                match rng.below(3) {
                    0 => s.push(b'A'),
                    1 if !s.is_empty() => s[0] = *rng.pick(&[b'a', b'G', b' ', 0]),
                    _ => s.extend_from_slice(b"0g"),
                }
            }
            Val::Hex(s)
        }
        _ => {
            let ty = *rng.pick(&Ty::ALL);
            let n = *rng.pick(&[0usize, 0, 1, 2, 3, 5, 8, 40, 300]);
            Val::Arr(ty, (0..n).map(|_| gen_num(rng, ty)).collect())
        }
    }
}

fn gen_data(rng: &mut Rng, bad: bool, max: u64) -> Vec<([u8; 2], Val)> {
    let n = rng.below(max + 1);
    let mut out: Vec<([u8; 2], Val)> = vec![];
    for _ in 0..n {
        let tag: [u8; 2] = match rng.below(14) {
            0 => *b"CG",
            1 => *b"NH",
            2 => *b"RG",
            3 => [rng.next() as u8, rng.next() as u8], // the encoder does not look at tag bytes
            _ => [b'A' + rng.below(26) as u8, *rng.pick(b"abcXYZ0123456789")],
        };
        if out.iter().any(|(t, _)| *t == tag) {
            continue; // RecordBuf data is a map: distinct tags
        }
        let bv = bad && rng.chance(1, 3);
        let v = if &tag == b"CG" && rng.chance(1, 2) { Val::Arr(Ty::U32, vec![0x40, 0x14]) } else { gen_val(rng, bv) };
        out.push((tag, v));
    }
    out
}

fn gen_bases(rng: &mut Rng, n: usize) -> Vec<u8> {
    let style = rng.below(6);
    (0..n)
        .map(|_| match style {
            0 | 1 => b"ACGT"[rng.below(4) as usize],
            2 => BASES[rng.below(16) as usize],
            3 => BASES[rng.below(16) as usize].to_ascii_lowercase(),
            4 => {
                if rng.chance(1, 2) { BASES[rng.below(16) as usize] } else { BASES[rng.below(16) as usize].to_ascii_lowercase() }
            }
            _ => *rng.pick(&[b'A', b'c', b'N', b'n', b'x', b'U', b'.', b'*', 0u8, 0xff, b'=', b'-', b'E', b'z']),
        })
        .collect()
}

fn gen_small_cigar(rng: &mut Rng, bad: bool) -> Vec<(u8, usize)> {
    let n = *rng.pick(&[0usize, 1, 1, 2, 2, 3, 3, 4, 6, 9, 30, 500]);
    let mut c = vec![];
    for _ in 0..n {
        let k = rng.below(9) as u8;
        let l = if consumes_read(k) {
            match rng.below(20) {
                0 => 0,
                1 if bad => 1 << 28,
                2 => *rng.pick(&[1usize << 14, 1 << 17, (1 << 28) - 1, 70_000]),
                _ => 1 + rng.below(40) as usize,
            }
        } else {
            match rng.below(10) {
                0 => 0,
                1 => (1usize << *rng.pick(&EDGES[..5])) + rng.below(3) as usize - 1,
                2 => (1 << 28) - 1,
                // beyond 2^32 the low 32 bits look like a valid length again; kept below 2^41 so that no usize
                // sum overflows here (span / end overflow is a different refusal, exercised by c05_reenc)
                3 if bad => *rng.pick(&[1usize << 28, (1 << 28) + 1, 1 << 32, (1 << 32) + 5, (1 << 32) + (1 << 28) - 1, (1 << 33) + 1, (1 << 40) + 7]),
                4 => 1 + rng.below(1 << 24) as usize,
                _ => 1 + rng.below(200) as usize,
            }
        };
        c.push((k, l));
    }
    // the kSmN placeholder shape as an ordinary CIGAR (must not be mistaken for an overflow record)
    if rng.chance(1, 40) {
        c = vec![(4, 1 + rng.below(30) as usize), (3, 1 + rng.below(5000) as usize)];
    }
    c
}

fn gen_seq_qual(rng: &mut Rng, r: &mut Rec, bad: bool) {
    let rl = read_len(&r.cigar);
    let n = if rl == 0 {
        *rng.pick(&[0usize, 0, 1, 2, 3, 7, 20])
    } else if rl <= 600 {
        match rng.below(20) {
            0 | 1 => 0,
            2 if bad => rl + 1,
            3 if bad => rl - 1,
            _ => rl,
        }
    } else {
        0
    };
    r.seq = gen_bases(rng, n);
    r.qual = match rng.below(20) {
        0..=5 => vec![],
        6 if bad => (0..n).map(|_| *rng.pick(&[0u8, 93, 94, 255])).collect(),
        7 if bad => vec![255; n],
        8 if bad => (0..n + 1).map(|_| 30).collect(),
        9 if bad && n > 0 => (0..n - 1).map(|_| 30).collect(),
        10 => vec![93; n],
        11 => vec![0; n],
        _ => (0..n).map(|_| rng.below(94) as u8).collect(),
    };
}

fn gen_rest(rng: &mut Rng, r: &mut Rec, nref: usize, bad: bool) {
    let b = |rng: &mut Rng| bad && rng.chance(1, 4);
    let bn = b(rng);
    r.name = gen_name(rng, bn);
    r.flags = match rng.below(6) {
        0 => 0,
        1 => 0xfff,
        2 => 4,
        _ => rng.below(4096) as u16,
    };
    let id = |rng: &mut Rng, bad: bool| -> Option<usize> {
        if bad {
            return Some(nref + *rng.pick(&[0usize, 1, 1000, 1 << 31, 1 << 40]));
        }
        if nref == 0 || rng.chance(1, 8) { None } else { Some(rng.below(nref as u64) as usize) }
    };
    let (b1, b2, b3, b4) = (b(rng), b(rng), b(rng), b(rng));
    r.refid = id(rng, b1);
    r.mref = id(rng, b2);
    r.pos = gen_pos(rng, b3);
    r.mpos = gen_pos(rng, b4);
    r.mapq = match rng.below(6) {
        0 => None,
        1 => Some(0),
        2 => Some(254),
        _ => Some(rng.below(255) as u8),
    };
    r.tlen = match rng.below(7) {
        0 => i32::MIN,
        1 => i32::MAX,
        2 => 0,
        3 => -1,
        _ => rng.next() as i32,
    };
}

/// one record of the grammar; `label` names the generator branch for the histogram
pub fn gen_rec(rng: &mut Rng) -> (usize, Rec, &'static str) {
    let bad = rng.chance(1, 4);
    let nref = *rng.pick(&[0usize, 1, 3, 3]);
    let mut r = Rec::default();
    gen_rest(rng, &mut r, nref, bad);
    let bc = bad && rng.chance(1, 4);
    r.cigar = gen_small_cigar(rng, bc);
    let bq = bad && rng.chance(1, 3);
    gen_seq_qual(rng, &mut r, bq);
    r.data = gen_data(rng, bad, 6);
    (nref, r, if bad { "gen_with_invalid_parts" } else { "gen_valid_grammar" })
}

/// a record on the > 65535-op path (or just below it)
pub fn gen_long(rng: &mut Rng) -> (usize, Rec, &'static str) {
    let nref = 2;
    let mut r = Rec::default();
    gen_rest(rng, &mut r, nref, false);
    let n = *rng.pick(&[65535usize, 65536, 65536, 65537, 66000, 70000]);
    let shape = rng.below(10);
    r.cigar = (0..n)
        .map(|i| match shape {
            0 => (0u8, 1usize),                              // all 1M
            1 => (if i % 2 == 0 { 0 } else { 2 }, 1),        // 1M1D…
            8 => (2, 5000),                                  // span 65536*5000 >= 2^28: placeholder m does not fit
            9 if i == 40_000 => (3, 1 << 28),                // an op that does not fit, inside the CG field
            _ => (rng.below(9) as u8, rng.below(3) as usize),
        })
        .collect();
    let rl = read_len(&r.cigar);
    let n = match rng.below(4) {
        0 => 0, // SEQ `*`: the placeholder must be 0S mN
        _ => rl,
    };
    r.seq = gen_bases(rng, n);
    r.qual = if rng.chance(1, 2) { vec![] } else { (0..n).map(|_| rng.below(94) as u8).collect() };
    r.data = gen_data(rng, false, 3);
    (nref, r, "gen_long_cigar")
}

// ------------------------------------------------------------------ correspondence + oracle on one record

fn enc_req(nref: usize, r: &Rec) -> String {
    format!("c05 enc {nref} {}", fmt_rec(r))
}

/// byte-level mutations of an accepted body: shapes the decoder, `validate` and the lazy views must handle
fn mutate(rng: &mut Rng, body: &[u8]) -> (Vec<u8>, &'static str) {
    let mut b = body.to_vec();
    let l_name = b[8] as usize;
    let n_ops = u16::from_le_bytes([b[12], b[13]]) as usize;
    let l_seq = u32::from_le_bytes([b[16], b[17], b[18], b[19]]) as usize;
    let data_start = 32 + l_name + 4 * n_ops + l_seq.div_ceil(2) + l_seq;
    match rng.below(16) {
        0 => {
            b.truncate(rng.below(b.len() as u64) as usize);
            (b, "mut_truncate")
        }
        1 => {
            let t = *rng.pick(&[0usize, 1, 31, 32, 33, data_start.saturating_sub(1), data_start, data_start + 1, data_start + 2, data_start + 3]);
            b.truncate(t.min(body.len()));
            (b, "mut_truncate_edge")
        }
        2 => {
            b[8] = *rng.pick(&[0u8, 1, b[8].wrapping_add(1), b[8].wrapping_sub(1), 255]);
            (b, "mut_l_read_name")
        }
        3 => {
            let v = (n_ops as u16).wrapping_add(*rng.pick(&[1u16, 0xffff, 2, 100]));
            b[12..14].copy_from_slice(&v.to_le_bytes());
            (b, "mut_n_cigar_op")
        }
        4 => {
            let v = (l_seq as u32).wrapping_add(*rng.pick(&[1u32, 0xffff_ffff, 2, 1000, 0x8000_0000]));
            b[16..20].copy_from_slice(&v.to_le_bytes());
            (b, "mut_l_seq")
        }
        5 => {
            let i = rng.below(32) as usize;
            b[i] ^= 1 << rng.below(8);
            (b, "mut_header_bit")
        }
        6 => {
            let i = *rng.pick(&[0usize, 4, 20, 24]);
            let v: i32 = *rng.pick(&[-2, i32::MIN, -1, i32::MAX, 0]);
            b[i..i + 4].copy_from_slice(&v.to_le_bytes());
            (b, "mut_id_or_pos_value")
        }
        7 => {
            let i = rng.below(b.len() as u64) as usize;
            b[i] ^= 1 << rng.below(8);
            (b, "mut_any_bit")
        }
        8 => {
            let n = 1 + rng.below(5) as usize;
            b.extend(rng.bytes(n));
            (b, "mut_trailing_garbage")
        }
        9 => {
            if l_name > 0 {
                b[32 + l_name - 1] = *rng.pick(&[b'x', 1, 0xff]);
            }
            (b, "mut_name_terminator")
        }
        10 => {
            b[15] |= 0xf0;
            (b, "mut_flag_high_bits")
        }
        11 => {
            b[9] = *rng.pick(&[255u8, 254, 0]);
            (b, "mut_mapq")
        }
        12 => {
            // repeat the first data field (duplicate tag) or append a well-formed field
            if b.len() > data_start + 3 && rng.chance(1, 2) {
                let d = b[data_start..].to_vec();
                b.extend_from_slice(&d);
                (b, "mut_duplicate_tags")
            } else {
                b.extend_from_slice(&[b'Z', b'z', *rng.pick(b"AcCsSiIfZHB?"), 0x41, 0, 0, 0, 0]);
                (b, "mut_append_field")
            }
        }
        13 => {
            // qualities all 0xff / first quality 0xff
            for q in b[data_start - l_seq..data_start].iter_mut() {
                *q = 0xff;
                if rng.chance(1, 3) {
                    break;
                }
            }
            (b, "mut_quals_ff")
        }
        _ => {
            // craft the kSmN placeholder over this record's data, with a CG field in some position
            let mut c = body[..32].to_vec();
            c[12..14].copy_from_slice(&2u16.to_le_bytes());
            c.extend_from_slice(&body[32..32 + l_name]);
            let k = match rng.below(5) {
                0 => l_seq + 1,
                _ => l_seq,
            };
            c.extend_from_slice(&(((k as u32) << 4) | 4).to_le_bytes());
            c.extend_from_slice(&((7u32 << 4) | if rng.chance(1, 6) { 2 } else { 3 }).to_le_bytes());
            c.extend_from_slice(&body[32 + l_name + 4 * n_ops..data_start]);
            let cg: Vec<u8> = match rng.below(7) {
                0 => b"CGBC\x03\x00\x00\x00\x10\x20\x30".to_vec(),            // wrong subtype, not a multiple of 4
                1 => b"CGBS\x02\x00\x00\x00\x10\x00\x20\x00".to_vec(),        // wrong subtype
                2 => b"CGZab\x00".to_vec(),                                   // not an array
                3 => b"CGBI\x01\x00\x00\x00\x1f\x00\x00\x00".to_vec(),        // invalid op kind 15
                4 => b"CGBI\x00\x00\x00\x00".to_vec(),                        // empty
                _ => b"CGBI\x02\x00\x00\x00\x30\x00\x00\x00\x42\x00\x00\x00".to_vec(),
            };
            let fields = &body[data_start..];
            match rng.below(3) {
                0 => {
                    c.extend_from_slice(&cg);
                    c.extend_from_slice(fields);
                }
                1 => {
                    c.extend_from_slice(fields);
                    c.extend_from_slice(&cg);
                }
                _ => {
                    c.extend_from_slice(b"XaC\x01");
                    c.extend_from_slice(&cg);
                    c.extend_from_slice(b"XbC\x02XcC\x03");
                }
            }
            (c, "mut_placeholder_with_cg")
        }
    }
}

/// dec / lazy / raw correspondence on one body + the lazy-vs-eager oracle
fn views(ctx: &mut Ctx, body: &[u8], case: &str, writer_output: bool, emit: bool) {
    let h = if emit { hex(body) } else { String::new() };
    let eager = guarded(|| real_decode(body));
    let lazy = guarded(|| real_lazy(body));
    let raw = if emit { guarded(|| real_raw(body)) } else { Ok(Err(String::new())) };
    let eager = match eager {
        Ok(e) => e,
        Err(p) => {
            ctx.fail("panic", format!("read_record_buf panicked: {p}"), case.into());
            return;
        }
    };
    if emit {
        ctx.corr(format!("c05 dec {h}"), match &eager {
            Ok(r) => format!("ok {}", squash(fmt_rec(r))),
            Err(c) => c.clone(),
        });
    }
    match &lazy {
        Ok(l) => {
            if emit {
                ctx.corr(format!("c05 lazy {h}"), match l {
                    Ok(f) => squash(f.join(" ")),
                    Err(c) => c.clone(),
                })
            }
        }
        Err(p) => ctx.fail("panic", format!("read_record panicked: {p}"), case.into()),
    }
    if emit && body.len() <= 4096 {
        if let Ok(r) = &raw {
            ctx.corr(format!("c05 raw {h}"), match r {
                Ok(f) => squash(f.join(" ")),
                Err(c) => c.clone(),
            });
        }
    }
    // ---- oracle: a record the reader ACCEPTED (read_record = validate) has accessors that answer, with a
    // value or an error: the lazy views rely on the layout check of the reader
    if let Ok(Ok(l)) = &lazy {
        if let Some(i) = l.iter().position(|a| a == "P") {
            ctx.fail("panic", format!("read_record accepted these {} bytes but the lazy accessor #{i} (in fmt_rec order) panicked", body.len()), case.into());
        }
    }
    // ---- oracle: every lazy accessor = the eager decode of the same bytes
    if let (Ok(e), Ok(Ok(l))) = (&eager, &lazy) {
        ctx.eval(Some(fnv(body)));
        let want: Vec<String> = fmt_rec(e).split(' ').map(|s| s.to_string()).collect();
        const NAMES: [&str; 12] = ["name", "flags", "reference_sequence_id", "alignment_start", "mapping_quality", "cigar", "mate_reference_sequence_id", "mate_alignment_start", "template_length", "sequence", "quality_scores", "data"];
        let n_ops = u16::from_le_bytes([body[12], body[13]]);
        let cg_resolved = n_ops == 2 && e.cigar.len() != 2 || body.windows(4).any(|w| w == b"CGBI") && n_ops == 2;
        for i in 0..12 {
            let mut a = l[i].clone();
            let mut b = want[i].clone();
            if i == 11 && cg_resolved && !writer_output {
                // hand-made bytes with CG not last: the eager decoder's swap_remove permutes the
                // fields; the data is a map, compare it as one
                let sort = |s: &str| {
                    let mut v: Vec<&str> = s.split(';').collect();
                    v.sort();
                    v.join(";")
                };
                a = sort(&a);
                b = sort(&b);
            }
            if a != b {
                let class = if i == 11 && l[i].contains("4347:B:I:") && !want[i].contains("4347:B:I:") { "lazy-eager-cg-data" } else { "lazy-eager" };
                let show = |s: &str| if s.len() > 160 { format!("{}…({} chars)", &s[..160], s.len()) } else { s.to_string() };
                ctx.fail(class, format!("lazy {}() differs from the eager decode of the same {} bytes: lazy {} eager {}", NAMES[i], body.len(), show(&l[i]), show(&want[i])), case.into());
            }
        }
    }
}

/// everything about one generated record
fn one_record(ctx: &mut Ctx, nref: usize, r: &Rec, label: &str, case: &str, rng: &mut Rng, emit_corr: bool) {
    ctx.bump(label);
    let enc = match guarded(|| real_encode(nref, r)) {
        Ok(e) => e,
        Err(p) => {
            ctx.fail("panic", format!("write_alignment_record panicked: {p}"), case.into());
            return;
        }
    };
    if emit_corr {
        ctx.corr(enc_req(nref, r), match &enc {
            Ok(b) => format!("ok {}", fmt_bytes(b)),
            Err(c) => c.clone(),
        });
    }
    ctx.eval(if enc.is_ok() && (r.cigar.len() >= 2 || !r.data.is_empty()) && !r.seq.is_empty() { Some(fnv(case.as_bytes())) } else { None });
    ctx.bump(&format!("nref_{nref}"));
    ctx.bump(match r.cigar.len() {
        0 => "cigar_ops_0",
        1..=9 => "cigar_ops_1..9",
        10..=65535 => "cigar_ops_10..65535",
        _ => "cigar_ops_over_65535",
    });
    ctx.bump(match r.seq.len() {
        0 => "seq_len_0",
        n if n % 2 == 1 => "seq_len_odd",
        _ => "seq_len_even",
    });
    ctx.bump(if r.qual.is_empty() { "qual_missing" } else { "qual_present" });
    ctx.bump(if r.name.is_none() { "name_missing" } else { "name_present" });
    for (_, v) in &r.data {
        ctx.bump(&match v {
            Val::Char(_) => "aux_A".to_string(),
            Val::Num(t, _) => format!("aux_{}", t.code()),
            Val::Str(_) => "aux_Z".into(),
            Val::Hex(_) => "aux_H".into(),
            Val::Arr(t, _) => format!("aux_B{}", t.code()),
        });
    }
    match &enc {
        Err(c) => {
            ctx.bump(&format!("enc_{c}"));
            // the error kind itself is compared with the model only; what the property forbids is a
            // rejected record that nevertheless reached the sink
            if c == "partial-write" || c == "bad-block-size" {
                ctx.fail("reject-hygiene", format!("write_alignment_record: {c} for {}", &fmt_rec(r).chars().take(300).collect::<String>()), case.into());
            }
        }
        Ok(body) => {
            ctx.bump("enc_ok");
            // ---- oracle: lengths / counts / coordinates that do not fit are rejected
            if let Some(why) = unfit(r) {
                ctx.fail("accepted-unfit", format!("the writer accepted a record whose {why}: {}", &fmt_rec(r).chars().take(300).collect::<String>()), case.into());
            }
            // ---- oracle: read back equal (up to the harness's norm)
            let want = norm(r);
            match guarded(|| real_decode(body)) {
                Ok(Ok(got)) => {
                    if got != want {
                        let (a, b) = (fmt_rec(&got), fmt_rec(&want));
                        let fa: Vec<&str> = a.split(' ').collect();
                        let fb: Vec<&str> = b.split(' ').collect();
                        let i = (0..12).find(|i| fa[*i] != fb[*i]).unwrap_or(0);
                        let show = |s: &str| if s.len() > 160 { format!("{}…({} chars)", &s[..160], s.len()) } else { s.to_string() };
                        ctx.fail("roundtrip", format!("record written by the BAM writer reads back different in field #{i}: got {} expected {}", show(fa[i]), show(fb[i])), case.into());
                    }
                }
                Ok(Err(c)) => ctx.fail("roundtrip", format!("record accepted by the BAM writer ({} bytes) cannot be read back: {c}", body.len()), case.into()),
                Err(p) => ctx.fail("panic", format!("read_record_buf panicked on writer output: {p}"), case.into()),
            }
            // ---- oracle: stored bin = spec reg2bin for coordinates below 2^29
            let stored = u16::from_le_bytes([body[10], body[11]]) as i64;
            match r.pos {
                Some(p) => {
                    let span = ref_span(&r.cigar);
                    let end1 = if span == 0 { p } else { p + span - 1 }; // 1-based inclusive
                    if end1 <= 1 << 29 {
                        ctx.bump("bin_checked_below_2^29");
                        let want = spec_reg2bin(p as i64 - 1, end1 as i64);
                        if stored != want {
                            ctx.fail("bin", format!("stored bin {stored} != reg2bin({}, {}) = {want} (POS {p}, span {span})", p - 1, end1), case.into());
                        }
                    } else {
                        ctx.bump("bin_beyond_2^29_unchecked");
                    }
                }
                None => {
                    if stored != 4680 {
                        ctx.fail("bin", format!("stored bin {stored} of a record without POS, expected reg2bin(-1, 0) = 4680"), case.into());
                    }
                }
            }
            // ---- views of the written bytes, then of mutated bytes
            views(ctx, body, case, true, emit_corr);
            rewrite(ctx, nref, body, case);
            if body.len() <= 4096 {
                for _ in 0..2 {
                    let (m, what) = mutate(rng, body);
                    ctx.bump(what);
                    views(ctx, &m, case, false, emit_corr);
                }
            }
        }
    }
}

/// oracle: a lazy bam::Record given to the writer reads back as the eager decode of the original
fn rewrite(ctx: &mut Ctx, nref: usize, body: &[u8], case: &str) {
    let Ok(rec) = read_lazy(body) else { return };
    let Ok(want) = real_decode(body) else { return };
    let h = header(nref);
    let res = guarded(|| {
        let mut w = bam::io::Writer::from(Vec::new());
        w.write_record(&h, &rec).map(|()| w.into_inner())
    });
    ctx.eval(None);
    let class = if want.cigar.len() > 65535 { "rewrite-cg" } else { "rewrite" };
    match res {
        Ok(Ok(out)) => match real_decode(&out[4.min(out.len())..]) {
            Ok(got) if got == want => {
                ctx.bump(if out[4..] == body[..] { "rewrite_lazy_byte_identical" } else { "rewrite_lazy_equal_not_identical" });
            }
            Ok(_) => ctx.fail(class, "a lazy bam::Record written back through the writer reads back as a different record".into(), case.into()),
            Err(c) => ctx.fail(class, format!("a lazy bam::Record ({} CIGAR ops) written back through the writer cannot be read back: {c}", want.cigar.len()), case.into()),
        },
        Ok(Err(e)) => ctx.fail(class, format!("the writer rejects a lazy bam::Record it produced itself: {e}"), case.into()),
        Err(p) => ctx.fail("panic", format!("write_record(bam::Record) panicked: {p}"), case.into()),
    }
}

/// scratch-buffer hygiene: several records through ONE writer, some rejected
fn writer_sequence(ctx: &mut Ctx, sub: u64, emit_corr: bool) {
    let mut rng = Rng::new(sub);
    let case = format!("seq {sub}");
    let nref = 3usize;
    let k = 2 + rng.below(4) as usize;
    let mut recs = vec![];
    for i in 0..k {
        let (_, mut r, _) = gen_rec(&mut rng);
        r.refid = r.refid.map(|x| x % nref);
        r.mref = r.mref.map(|x| x % nref);
        if i % 2 == 0 && rng.chance(2, 3) {
            // make it a record that is rejected late, after most of the body has been staged
            match rng.below(4) {
                0 => r.qual = vec![94; r.seq.len().max(1)],
                1 => r.name = Some(b"bad name".to_vec()),
                2 => r.data.push((*b"Zq", Val::Str(vec![b'a', 0x7f]))),
                _ => r.data.push((*b"Zh", Val::Hex(b"ABC".to_vec()))),
            }
        }
        recs.push(r);
    }
    let h = header(nref);
    let res = guarded(|| {
        let mut w = bam::io::Writer::from(Vec::new());
        let mut status = vec![];
        for r in &recs {
            status.push(w.write_alignment_record(&h, &to_record_buf(r)).map_err(|e| errclass(&e).to_string()));
        }
        (status, w.into_inner())
    });
    let (status, sink) = match res {
        Ok(x) => x,
        Err(p) => {
            ctx.fail("panic", format!("write_alignment_record panicked: {p}"), case);
            return;
        }
    };
    ctx.eval(Some(fnv(case.as_bytes())));
    if emit_corr {
        let body: String = recs.iter().map(|r| fmt_rec(r)).collect::<Vec<_>>().join(" ");
        let st: String = status.iter().map(|s| if s.is_ok() { "ok".to_string() } else { s.clone().unwrap_err() }).collect::<Vec<_>>().join(",");
        ctx.corr(format!("c05 wseq {nref} {body}"), format!("{st} {}", fmt_bytes(&sink)));
    }
    let mut want = vec![];
    let mut accepted = vec![];
    for (r, st) in recs.iter().zip(&status) {
        let fresh = real_encode(nref, r);
        if st.is_ok() != fresh.is_ok() {
            ctx.fail("scratch", format!("a record is {} by a fresh writer but {} by a writer that has handled other records", if fresh.is_ok() { "accepted" } else { "rejected" }, if st.is_ok() { "accepted" } else { "rejected" }), case.clone());
            return;
        }
        if let Ok(b) = fresh {
            want.extend_from_slice(&framed(&b));
            accepted.push(norm(r));
        }
    }
    let pattern: String = status.iter().map(|s| if s.is_ok() { 'a' } else { 'r' }).collect();
    ctx.bump(&format!("writer_sequence_{}", if pattern.contains("ra") { "reject_then_accept" } else { "other" }));
    if sink != want {
        ctx.fail("scratch", format!("after the accept/reject sequence {pattern} on one writer the sink ({} bytes) is not the concatenation of the accepted records as written by fresh writers ({} bytes)", sink.len(), want.len()), case.clone());
        return;
    }
    // and the stream reads back, in order
    let mut rd = bam::io::Reader::from(&sink[..]);
    let mut got = vec![];
    loop {
        let mut rb = RecordBuf::default();
        match rd.read_record_buf(&h, &mut rb) {
            Ok(0) => break,
            Ok(_) => got.push(from_record_buf(&rb)),
            Err(e) => {
                ctx.fail("scratch", format!("stream written by one writer (sequence {pattern}) fails to read back: {e}"), case.clone());
                return;
            }
        }
    }
    if got != accepted {
        ctx.fail("scratch", format!("stream written by one writer (sequence {pattern}) reads back {} records that differ from the {} accepted ones", got.len(), accepted.len()), case.clone());
    }
}

/// A stream of records read into ONE reused `RecordBuf` (`read_record_buf`): every record must come
/// back as it does when decoded into a fresh buffer — nothing of the previous record may survive
/// (name, CIGAR, bases, qualities, data), in particular when a field is present in one record and
/// missing in the next.
fn reader_sequence(ctx: &mut Ctx, sub: u64) {
    let mut rng = Rng::new(sub);
    let case = format!("rseq {sub}");
    let n = 2 + rng.below(6) as usize;
    let mut bodies: Vec<Vec<u8>> = vec![];
    let mut tries = 0;
    while bodies.len() < n && tries < 40 {
        tries += 1;
        let (nref, mut r, _) = gen_rec(&mut rng);
        // make "present, then missing" transitions frequent
        if rng.chance(1, 3) {
            r.qual.clear();
        }
        if rng.chance(1, 5) {
            r.seq.clear();
            r.qual.clear();
        }
        if rng.chance(1, 4) {
            r.data.clear();
        }
        if rng.chance(1, 5) {
            r.cigar.clear();
        }
        if rng.chance(1, 6) {
            r.name = None;
        }
        if let Ok(b) = real_encode(nref, &r) {
            bodies.push(b);
        }
    }
    if bodies.len() < 2 {
        return;
    }
    ctx.eval(Some(fnv(case.as_bytes())));
    let mut stream = vec![];
    for b in &bodies {
        stream.extend_from_slice(&framed(b));
    }
    let fresh: Vec<Result<Rec, String>> = bodies.iter().map(|b| real_decode(b)).collect();
    let got = guarded(|| {
        let mut rd = bam::io::Reader::from(&stream[..]);
        let mut rb = RecordBuf::default();
        let mut out: Vec<Result<Rec, String>> = vec![];
        loop {
            match rd.read_record_buf(&sam::Header::default(), &mut rb) {
                Ok(0) => break,
                Ok(_) => out.push(Ok(from_record_buf(&rb))),
                Err(e) => {
                    out.push(Err(errclass(&e).into()));
                    break;
                }
            }
        }
        out
    });
    match got {
        Err(p) => ctx.fail("reused-buffer", format!("read_record_buf into a reused buffer panicked: {p}"), case),
        Ok(out) => {
            for (i, f) in fresh.iter().enumerate() {
                match (f, out.get(i)) {
                    (Ok(a), Some(Ok(b))) if fmt_rec(a) == fmt_rec(b) => {}
                    (Err(a), Some(Err(b))) if a == b => break,
                    (a, b) => {
                        ctx.fail(
                            "reused-buffer",
                            format!(
                                "record {i} of {} read into a reused RecordBuf differs from the same bytes read into a fresh one: fresh {} reused {}",
                                bodies.len(),
                                match a { Ok(r) => fmt_rec(r), Err(e) => format!("error {e}") },
                                match b { Some(Ok(r)) => fmt_rec(r), Some(Err(e)) => format!("error {e}"), None => "nothing (end of stream)".into() },
                            ),
                            case,
                        );
                        return;
                    }
                }
            }
            ctx.bump("rseq_ok");
        }
    }
}

fn bin_case(ctx: &mut Ctx, start: usize, end: usize) {
    // a record spanning [start, end] (1-based inclusive): N ops of at most 2^28-1
    let mut span = end + 1 - start;
    let mut cigar = vec![];
    while span > 0 {
        let l = span.min((1 << 28) - 1);
        cigar.push((3u8, l));
        span -= l;
    }
    let r = Rec { pos: Some(start), cigar, ..Default::default() };
    if let Ok(b) = real_encode(0, &r) {
        let stored = u16::from_le_bytes([b[10], b[11]]);
        ctx.corr(format!("c05 bin {start} {end}"), stored.to_string());
        ctx.eval(None);
        if end <= 1 << 29 {
            let want = spec_reg2bin(start as i64 - 1, end as i64);
            if stored as i64 != want {
                ctx.fail("bin", format!("stored bin {stored} != reg2bin({}, {end}) = {want}", start - 1), format!("bin {start} {end}"));
            }
        }
    }
}

fn bins(ctx: &mut Ctx, n: u64) {
    let mut rng = Rng::new(ctx.seed ^ 0xb1b1);
    // every level boundary, both sides
    for sh in [14u32, 17, 20, 23, 26, 29] {
        let e = 1usize << sh;
        for k in [1usize, 2, 3, 7] {
            let b = e * k;
            if b > 1 << 30 {
                continue;
            }
            for (s, t) in [(b, b), (b, b + 1), (b + 1, b + 1), (b - 1, b), (b - 1, b + 1), (b + 1, b + 2), (1, b), (1, b + 1), (b, 2 * b)] {
                bin_case(ctx, s, t);
            }
        }
    }
    bin_case(ctx, 1, 1);
    bin_case(ctx, 1 << 29, 1 << 29);
    bin_case(ctx, (1 << 29) + 1, (1 << 29) + 1);
    bin_case(ctx, 1 << 31, 1 << 31);
    for _ in 0..n {
        let sh = *rng.pick(&EDGES[..6]);
        let s = 1 + rng.below(1 << 29) as usize;
        let e = match rng.below(4) {
            0 => s + rng.below(40) as usize,
            1 => ((s >> sh) + 1) << sh, // first 1-based position whose 0-based twin is still in the bin, +-1
            2 => (((s >> sh) + 1) << sh) + 1,
            _ => s + rng.below(1 << sh) as usize,
        };
        bin_case(ctx, s, e.max(s));
    }
}

// ------------------------------------------------------------------ corpus (always first)

fn corpus() -> Vec<(usize, Rec, &'static str)> {
    let base = Rec { name: Some(b"r0".to_vec()), flags: 65, refid: Some(1), pos: Some(9), mapq: Some(13), cigar: vec![(0, 3), (4, 1)], mref: Some(1), mpos: Some(22), tlen: 144, seq: b"ACGT".to_vec(), qual: vec![45, 35, 43, 50], data: vec![(*b"NH", Val::Num(Ty::U8, 1))] };
    let mut v: Vec<(usize, Rec, &'static str)> = vec![];
    v.push((0, Rec::default(), "corpus_default"));
    v.push((2, base.clone(), "corpus_all_fields"));
    let with = |f: &dyn Fn(&mut Rec)| {
        let mut r = base.clone();
        f(&mut r);
        r
    };
    v.push((2, with(&|r| r.name = Some(vec![b'n'; 254])), "corpus_name_254"));
    v.push((2, with(&|r| r.name = Some(vec![b'n'; 255])), "corpus_name_255_rejected"));
    v.push((2, with(&|r| r.name = Some(b"*".to_vec())), "corpus_name_star_rejected"));
    v.push((2, with(&|r| r.name = Some(vec![])), "corpus_name_empty_rejected"));
    v.push((2, with(&|r| r.name = None), "corpus_name_missing"));
    v.push((2, with(&|r| r.refid = Some(2)), "corpus_refid_not_in_dictionary"));
    v.push((0, with(&|r| r.refid = Some(0)), "corpus_refid_without_dictionary"));
    v.push((0, with(&|r| { r.refid = None; r.mref = None }), "corpus_no_dictionary"));
    v.push((2, with(&|r| r.pos = Some(1 << 31)), "corpus_pos_max"));
    v.push((2, with(&|r| r.pos = Some((1 << 31) + 1)), "corpus_pos_too_large"));
    v.push((2, with(&|r| r.mpos = Some((1 << 31) + 1)), "corpus_mpos_too_large"));
    v.push((2, with(&|r| r.cigar = vec![(0, 4), (3, (1 << 28) - 1)]), "corpus_op_len_max"));
    v.push((2, with(&|r| r.cigar = vec![(0, 4), (3, 1 << 28)]), "corpus_op_len_too_large"));
    v.push((2, with(&|r| { r.seq = b"acgtn=xU".to_vec(); r.qual = vec![]; r.cigar = vec![(0, 8)] }), "corpus_case_folding"));
    v.push((2, with(&|r| { r.seq = b"ACG".to_vec(); r.qual = vec![1, 2, 3]; r.cigar = vec![(0, 3)] }), "corpus_odd_length"));
    v.push((2, with(&|r| { r.seq = vec![]; r.qual = vec![] }), "corpus_seq_star_with_cigar"));
    v.push((2, with(&|r| r.qual = vec![255; 4]), "corpus_qual_ff_rejected"));
    v.push((2, with(&|r| r.qual = vec![1, 2, 3]), "corpus_qual_length_mismatch"));
    v.push((2, with(&|r| r.seq = b"ACGTA".to_vec()), "corpus_seq_cigar_mismatch"));
    v.push((2, with(&|r| { r.cigar = vec![(4, 4), (3, 100)]; r.data = vec![(*b"CG", Val::Arr(Ty::U32, vec![0x40]))] }), "corpus_real_kSmN_cigar_with_user_CG"));
    v.push((2, with(&|r| r.mapq = None), "corpus_mapq_missing"));
    v.push((2, with(&|r| r.flags = 0xfff), "corpus_all_flags"));
    v.push((2, with(&|r| r.tlen = i32::MIN), "corpus_tlen_min"));
    let every: Vec<([u8; 2], Val)> = vec![
        (*b"XA", Val::Char(b'q')),
        (*b"Xc", Val::Num(Ty::I8, -128)),
        (*b"XC", Val::Num(Ty::U8, 255)),
        (*b"Xs", Val::Num(Ty::I16, -32768)),
        (*b"XS", Val::Num(Ty::U16, 65535)),
        (*b"Xi", Val::Num(Ty::I32, i32::MIN as i64)),
        (*b"XI", Val::Num(Ty::U32, u32::MAX as i64)),
        (*b"Xf", Val::Num(Ty::F32, 0x7fc0_0001)),
        (*b"XZ", Val::Str(b" noodles~".to_vec())),
        (*b"XH", Val::Hex(b"CAFE".to_vec())),
        (*b"Bc", Val::Arr(Ty::I8, vec![-128, 127])),
        (*b"BC", Val::Arr(Ty::U8, vec![0, 255])),
        (*b"Bs", Val::Arr(Ty::I16, vec![-32768, 32767])),
        (*b"BS", Val::Arr(Ty::U16, vec![0, 65535])),
        (*b"Bi", Val::Arr(Ty::I32, vec![i32::MIN as i64, i32::MAX as i64])),
        (*b"BI", Val::Arr(Ty::U32, vec![0, u32::MAX as i64])),
        (*b"Bf", Val::Arr(Ty::F32, vec![0, 0xff80_0000, 0x7fc0_0000])),
        (*b"Be", Val::Arr(Ty::I16, vec![])),
        (*b"Ze", Val::Str(vec![])),
        (*b"He", Val::Hex(vec![])),
    ];
    v.push((2, with(&|r| r.data = every.clone()), "corpus_every_aux_type_at_bounds"));
    v.push((2, with(&|r| r.data = vec![(*b"XZ", Val::Str(b"a\x00b".to_vec()))]), "corpus_string_with_nul_rejected"));
    v.push((2, with(&|r| r.data = vec![(*b"XH", Val::Hex(b"abc".to_vec()))]), "corpus_hex_invalid_rejected"));
    // the 65535 / 65536-op edge, SEQ present and SEQ `*`
    for (n, star) in [(65535usize, false), (65536, false), (65536, true), (70000, false)] {
        let mut r = base.clone();
        r.cigar = (0..n).map(|i| if i % 3 == 2 { (2u8, 1usize) } else { (0, 1) }).collect();
        let rl = read_len(&r.cigar);
        r.seq = if star { vec![] } else { (0..rl).map(|i| b"ACGT"[i % 4]).collect() };
        r.qual = vec![];
        r.data = vec![(*b"NH", Val::Num(Ty::U8, 1)), (*b"XB", Val::Arr(Ty::I16, vec![-1, 2]))];
        v.push((2, r, if n > 65535 { "corpus_cigar_over_65535" } else { "corpus_cigar_65535" }));
    }
    v
}

fn rec_case(ctx: &mut Ctx, sub: u64, long: bool, emit_corr: bool) {
    let mut rng = Rng::new(sub);
    let (nref, r, label) = if long { gen_long(&mut rng) } else { gen_rec(&mut rng) };
    let case = format!("{} {sub}", if long { "long" } else { "rec" });
    one_record(ctx, nref, &r, label, &case, &mut rng, emit_corr);
    ctx.sample(|| enc_req(nref, &r));
}

pub fn run(ctx: &mut Ctx) {
    if let Some(case) = ctx.replay_only.clone() {
        if super::c05_reenc::replay(ctx, &case) { return; }
        if super::c05_fast::replay(ctx, &case) { return; }
        let sub: u64 = case.get(1).and_then(|s| s.parse().ok()).unwrap_or(0);
        match case.first().map(|s| s.as_str()) {
            Some("rec") => rec_case(ctx, sub, false, true),
            Some("long") => rec_case(ctx, sub, true, true),
            Some("seq") => writer_sequence(ctx, sub, false),
            Some("rseq") => reader_sequence(ctx, sub),
            Some("corpus") => {
                if let Some((nref, r, label)) = corpus().into_iter().nth(sub as usize) {
                    let mut rng = Rng::new(1000 + sub);
                    one_record(ctx, nref, &r, label, &format!("corpus {sub}"), &mut rng, true);
                }
            }
            Some("bin") => {
                let e: usize = case.get(2).and_then(|s| s.parse().ok()).unwrap_or(1);
                bin_case(ctx, sub as usize, e);
            }
            _ => {}
        }
        return;
    }
    for (i, (nref, r, label)) in corpus().into_iter().enumerate() {
        let mut rng = Rng::new(1000 + i as u64);
        one_record(ctx, nref, &r, label, &format!("corpus {i}"), &mut rng, true);
    }
    bins(ctx, ctx.n(400, 20_000));
    let n = ctx.n(2500, 600_000);
    for it in 0..n {
        let sub = ctx.seed.wrapping_mul(5_000_011).wrapping_add(it);
        // thorough: every record goes through the oracle, one in 25 also through the model
        rec_case(ctx, sub, false, !ctx.tier_thorough || it % 25 == 0);
    }
    let n = ctx.n(8, 400);
    for it in 0..n {
        let sub = ctx.seed.wrapping_mul(7_000_003).wrapping_add(it);
        rec_case(ctx, sub, true, !ctx.tier_thorough || it % 16 == 0);
    }
    let n = ctx.n(150, 20_000);
    for it in 0..n {
        let sub = ctx.seed.wrapping_mul(3_000_017).wrapping_add(it);
        writer_sequence(ctx, sub, !ctx.tier_thorough || it % 40 == 0);
    }
    let n = ctx.n(400, 40_000);
    for it in 0..n {
        reader_sequence(ctx, ctx.seed.wrapping_mul(9_000_011).wrapping_add(it));
    }
    super::c05_reenc::run(ctx);
    super::c05_fast::run(ctx);
}
