//! C10 / Record — BCF string / character columns, the site block and whole-record assembly.
//!
//! Extension of `c10.rs` (same case data and wire syntax; the helpers are copied so that this module
//! is self-contained). One *case* is a header + one record, biased towards what `c10.rs` does not
//! generate: string / character values with the bytes the BCF string encoding gives a meaning to
//! (NUL padding, `,` joins, `.` = missing, empty strings), long strings (descriptor lengths ≥ 15,
//! ≥ 128, ≥ 32768, ≥ 65536), the site-block limits (n_allele / n_info as u16, n_fmt as u8, POS as
//! i32), `rlen` derived from INFO `END`, QUAL NaN payloads incl. the reserved ones, ID lists, rows
//! narrower than the FORMAT key list, records without samples / without FORMAT keys.
//!
//!  * correspondence (`c10 recx …`): the Lean model evaluates the decidable well-formedness
//!    relation `recWF` of `bcf_record_roundtrip` on the request and this file evaluates its own twin
//!    (`wf`); both print it, followed by `l_shared`, `l_indiv`, the record bytes of the real writer
//!    vs. `writeRecord`, the end position `bcf::Record::end()` computes from `rlen`, and what the
//!    eager and the lazy reader return vs. `readRecord`;
//!  * oracle: (a) a record with `wf` is accepted by the writer, the stream holding it twice is
//!    read back as two records by both readers (the framing lengths are exact), each equal to the
//!    theorem's normal form `normRec` computed by this file's own code, the VCF text of the
//!    three views is identical, `end()` = `variant_end` of the written record;
//!    (b) a record without `wf` that the writer accepts must still read back as a record with the
//!    same VCF text (else: a value BCF cannot represent was accepted — the failure class names
//!    the first unrepresentable shape of the input); (c) no panic anywhere.
use crate::common::*;
use noodles_bcf as bcf;
use noodles_core::Position;
use noodles_vcf as vcf;
use std::fmt::Write as _;
use vcf::variant::io::Write as _;

// ------------------------------------------------------------------------------------ case data

#[derive(Clone, Debug, PartialEq)]
pub enum Val {
    None,
    Flag,
    Int(i32),
    Float(u32),
    Char(u8),
    Str(Vec<u8>),
    Ints(Vec<Option<i32>>),
    Floats(Vec<Option<u32>>),
    Chars(Vec<Option<u8>>),
    Strs(Vec<Option<Vec<u8>>>),
    Gt(Vec<(Option<usize>, bool)>),
}

#[derive(Clone, Debug, PartialEq)]
pub struct Def {
    kind: char, // C contig, I info, F filter, G format
    name: String,
    idx: Option<usize>,
    num: &'static str, // VCF Number text: 0 1 2 3 A R G .
    ty: char,          // i f b c s
}

#[derive(Clone, Debug, PartialEq)]
pub struct Hdr {
    v44: bool,
    samples: usize,
    defs: Vec<Def>,
}

#[derive(Clone, Debug, PartialEq)]
pub struct Rec {
    chrom: String,
    pos: usize, // 0 = missing (telomere)
    qual: Option<u32>,
    ids: Vec<String>,
    refb: String,
    alts: Vec<String>,
    filters: Vec<String>,
    info: Vec<(String, Val)>,
    keys: Vec<String>,
    rows: Vec<Vec<Val>>,
}

fn num_class(n: &str) -> &'static str {
    match n {
        "0" => "0",
        "1" => "1",
        _ => "n",
    }
}

// ------------------------------------------------------------------------------------ wire text

fn fmt_elems<T>(xs: &[Option<T>], f: impl Fn(&T) -> String) -> String {
    format!("[{}]", xs.iter().map(|x| x.as_ref().map(&f).unwrap_or_else(|| ".".into())).collect::<Vec<_>>().join(","))
}

fn hexs(b: &[u8]) -> String {
    if b.is_empty() { String::new() } else { hex(b) }
}

fn fmt_val(v: &Val) -> String {
    match v {
        Val::None => "~".into(),
        Val::Flag => "!".into(),
        Val::Int(n) => format!("i{n}"),
        Val::Float(b) => format!("f{b:08x}"),
        Val::Char(c) => format!("c{c:02x}"),
        Val::Str(s) => format!("s{}", hexs(s)),
        Val::Ints(xs) => format!("I{}", fmt_elems(xs, |n| n.to_string())),
        Val::Floats(xs) => format!("F{}", fmt_elems(xs, |b| format!("{b:08x}"))),
        Val::Chars(xs) => format!("C{}", fmt_elems(xs, |c| format!("{c:02x}"))),
        Val::Strs(xs) => format!("S{}", fmt_elems(xs, |s| hexs(s))),
        Val::Gt(g) => {
            let mut s = String::from("G");
            for (p, ph) in g {
                s.push(if *ph { 'p' } else { 'u' });
                match p {
                    Some(p) => {
                        let _ = write!(s, "{p}");
                    }
                    None => s.push('x'),
                }
            }
            s
        }
    }
}

fn dash_join(sep: &str, xs: &[String]) -> String {
    if xs.is_empty() { "-".into() } else { xs.join(sep) }
}

fn fmt_rec(r: &Rec) -> String {
    let info = dash_join(";", &r.info.iter().map(|(k, v)| format!("{k}={}", fmt_val(v))).collect::<Vec<_>>());
    let fmt = if r.keys.is_empty() && r.rows.iter().all(|x| x.is_empty()) {
        "-".to_string()
    } else {
        let mut parts = vec![r.keys.join(":")];
        for row in &r.rows {
            parts.push(row.iter().map(fmt_val).collect::<Vec<_>>().join(":"));
        }
        parts.join("/")
    };
    format!(
        "{} {} {} {} {} {} {} {} {}",
        r.chrom,
        r.pos,
        r.qual.map(|q| format!("{q:08x}")).unwrap_or_else(|| "-".into()),
        hex(r.ids.join(";").as_bytes()),
        hex(r.refb.as_bytes()),
        dash_join(",", &r.alts.iter().map(|a| hex(a.as_bytes())).collect::<Vec<_>>()),
        dash_join(";", &r.filters),
        info,
        fmt
    )
}

fn fmt_dict(h: &Hdr) -> String {
    let ents: Vec<String> = ['C', 'I', 'F', 'G']
        .iter()
        .flat_map(|k| h.defs.iter().filter(move |d| d.kind == *k))
        .map(|d| {
            let idx = d.idx.map(|i| i.to_string()).unwrap_or_else(|| "-".into());
            match d.kind {
                'C' | 'F' => format!("{}/{}/{}", d.kind, d.name, idx),
                _ => format!("{}/{}/{}/{}/{}", d.kind, d.name, idx, num_class(d.num), d.ty),
            }
        })
        .collect();
    dash_join(",", &ents)
}

fn fmt_hdr_words(h: &Hdr) -> String {
    format!("{} {} {}", if h.v44 { 44 } else { 43 }, h.samples, fmt_dict(h))
}

// ------------------------------------------------------------------------------------ to noodles

fn header_text(h: &Hdr) -> String {
    let mut s = format!("##fileformat=VCFv4.{}\n", if h.v44 { 4 } else { 3 });
    for k in ['I', 'F', 'G', 'C'] {
        for d in h.defs.iter().filter(|d| d.kind == k) {
            let idx = d.idx.map(|i| format!(",IDX={i}")).unwrap_or_default();
            let ty = match d.ty {
                'i' => "Integer",
                'f' => "Float",
                'b' => "Flag",
                'c' => "Character",
                _ => "String",
            };
            match k {
                'I' => {
                    let _ = writeln!(s, "##INFO=<ID={},Number={},Type={},Description=\"d\"{}>", d.name, d.num, ty, idx);
                }
                'G' => {
                    let _ = writeln!(s, "##FORMAT=<ID={},Number={},Type={},Description=\"d\"{}>", d.name, d.num, ty, idx);
                }
                'F' => {
                    let _ = writeln!(s, "##FILTER=<ID={},Description=\"d\"{}>", d.name, idx);
                }
                _ => {
                    let _ = writeln!(s, "##contig=<ID={},length=2147483647{}>", d.name, idx);
                }
            }
        }
    }
    s.push_str("#CHROM\tPOS\tID\tREF\tALT\tQUAL\tFILTER\tINFO");
    if h.samples > 0 {
        s.push_str("\tFORMAT");
        for i in 0..h.samples {
            let _ = write!(s, "\ts{i}");
        }
    }
    s.push('\n');
    s
}

fn parse_header(h: &Hdr) -> Result<vcf::Header, String> {
    let text = header_text(h);
    let mut r = vcf::io::Reader::new(text.as_bytes());
    r.read_header().map_err(|e| format!("header: {e}"))
}

fn sv(b: &[u8]) -> String {
    String::from_utf8_lossy(b).into_owned()
}

fn info_value(v: &Val) -> Option<vcf::variant::record_buf::info::field::Value> {
    use vcf::variant::record_buf::info::field::Value as V;
    Some(match v {
        Val::None => return None,
        Val::Flag => V::Flag,
        Val::Int(n) => V::from(*n),
        Val::Float(b) => V::from(f32::from_bits(*b)),
        Val::Char(c) => V::from(*c as char),
        Val::Str(s) => V::from(sv(s)),
        Val::Ints(xs) => V::from(xs.clone()),
        Val::Floats(xs) => V::from(xs.iter().map(|x| x.map(f32::from_bits)).collect::<Vec<_>>()),
        Val::Chars(xs) => V::from(xs.iter().map(|x| x.map(|c| c as char)).collect::<Vec<_>>()),
        Val::Strs(xs) => V::from(xs.iter().map(|x| x.as_ref().map(|s| sv(s))).collect::<Vec<_>>()),
        Val::Gt(_) => return None,
    })
}

fn sample_value(v: &Val) -> Option<vcf::variant::record_buf::samples::sample::Value> {
    use vcf::variant::record::samples::series::value::genotype::Phasing;
    use vcf::variant::record_buf::samples::sample::{value::genotype::Allele, value::Genotype, Value as V};
    Some(match v {
        Val::None | Val::Flag => return None,
        Val::Int(n) => V::from(*n),
        Val::Float(b) => V::from(f32::from_bits(*b)),
        Val::Char(c) => V::from(*c as char),
        Val::Str(s) => V::from(sv(s)),
        Val::Ints(xs) => V::from(xs.clone()),
        Val::Floats(xs) => V::from(xs.iter().map(|x| x.map(f32::from_bits)).collect::<Vec<_>>()),
        Val::Chars(xs) => V::from(xs.iter().map(|x| x.map(|c| c as char)).collect::<Vec<_>>()),
        Val::Strs(xs) => V::from(xs.iter().map(|x| x.as_ref().map(|s| sv(s))).collect::<Vec<_>>()),
        Val::Gt(g) => V::Genotype(
            g.iter().map(|(p, ph)| Allele::new(*p, if *ph { Phasing::Phased } else { Phasing::Unphased })).collect::<Genotype>(),
        ),
    })
}

fn to_record_buf(r: &Rec) -> vcf::variant::RecordBuf {
    use vcf::variant::record_buf::{AlternateBases, Samples};
    let mut b = vcf::variant::RecordBuf::builder()
        .set_reference_sequence_name(r.chrom.clone())
        .set_ids(r.ids.iter().cloned().collect())
        .set_reference_bases(r.refb.clone())
        .set_alternate_bases(AlternateBases::from(r.alts.clone()))
        .set_filters(r.filters.iter().cloned().collect())
        .set_info(r.info.iter().map(|(k, v)| (k.clone(), info_value(v))).collect())
        .set_samples(Samples::new(r.keys.iter().cloned().collect(), r.rows.iter().map(|row| row.iter().map(sample_value).collect()).collect()));
    if r.pos > 0 {
        b = b.set_variant_start(Position::new(r.pos).unwrap());
    }
    if let Some(q) = r.qual {
        b = b.set_quality_score(f32::from_bits(q));
    }
    let mut rb = b.build();
    if r.pos == 0 {
        // the builder's default is position 1
        *rb.variant_start_mut() = None;
    }
    rb
}

// ------------------------------------------------------------------------------------ from noodles

fn from_info_buf(v: Option<&vcf::variant::record_buf::info::field::Value>) -> Val {
    use vcf::variant::record_buf::info::field::{value::Array as A, Value as V};
    match v {
        None => Val::None,
        Some(V::Integer(n)) => Val::Int(*n),
        Some(V::Float(f)) => Val::Float(f.to_bits()),
        Some(V::Flag) => Val::Flag,
        Some(V::Character(c)) => Val::Char(*c as u8),
        Some(V::String(s)) => Val::Str(s.as_bytes().to_vec()),
        Some(V::Array(A::Integer(xs))) => Val::Ints(xs.clone()),
        Some(V::Array(A::Float(xs))) => Val::Floats(xs.iter().map(|x| x.map(f32::to_bits)).collect()),
        Some(V::Array(A::Character(xs))) => Val::Chars(xs.iter().map(|x| x.map(|c| c as u8)).collect()),
        Some(V::Array(A::String(xs))) => Val::Strs(xs.iter().map(|x| x.as_ref().map(|s| s.as_bytes().to_vec())).collect()),
    }
}

fn from_sample_buf(v: Option<&vcf::variant::record_buf::samples::sample::Value>) -> Val {
    use vcf::variant::record::samples::series::value::genotype::Phasing;
    use vcf::variant::record_buf::samples::sample::{value::Array as A, Value as V};
    match v {
        None => Val::None,
        Some(V::Integer(n)) => Val::Int(*n),
        Some(V::Float(f)) => Val::Float(f.to_bits()),
        Some(V::Character(c)) => Val::Char(*c as u8),
        Some(V::String(s)) => Val::Str(s.as_bytes().to_vec()),
        Some(V::Genotype(g)) => Val::Gt(g.as_ref().iter().map(|a| (a.position(), a.phasing() == Phasing::Phased)).collect()),
        Some(V::Array(A::Integer(xs))) => Val::Ints(xs.clone()),
        Some(V::Array(A::Float(xs))) => Val::Floats(xs.iter().map(|x| x.map(f32::to_bits)).collect()),
        Some(V::Array(A::Character(xs))) => Val::Chars(xs.iter().map(|x| x.map(|c| c as u8)).collect()),
        Some(V::Array(A::String(xs))) => Val::Strs(xs.iter().map(|x| x.as_ref().map(|s| s.as_bytes().to_vec())).collect()),
    }
}

fn from_record_buf(rb: &vcf::variant::RecordBuf) -> Rec {
    Rec {
        chrom: rb.reference_sequence_name().to_string(),
        pos: rb.variant_start().map(usize::from).unwrap_or(0),
        qual: rb.quality_score().map(f32::to_bits),
        ids: rb.ids().as_ref().iter().cloned().collect(),
        refb: rb.reference_bases().to_string(),
        alts: rb.alternate_bases().as_ref().to_vec(),
        filters: rb.filters().as_ref().iter().cloned().collect(),
        info: rb.info().as_ref().iter().map(|(k, v)| (k.clone(), from_info_buf(v.as_ref()))).collect(),
        keys: rb.samples().keys().as_ref().iter().cloned().collect(),
        rows: rb.samples().values().map(|s| s.values().iter().map(|v| from_sample_buf(v.as_ref())).collect()).collect(),
    }
}

type R<T> = Result<T, String>;
fn es<E: std::fmt::Display>(e: E) -> String {
    e.to_string()
}

fn from_lazy_info(v: Option<vcf::variant::record::info::field::Value<'_>>) -> R<Val> {
    use vcf::variant::record::info::field::{value::Array as A, Value as V};
    Ok(match v {
        None => Val::None,
        Some(V::Integer(n)) => Val::Int(n),
        Some(V::Float(f)) => Val::Float(f.to_bits()),
        Some(V::Flag) => Val::Flag,
        Some(V::Character(c)) => Val::Char(c as u8),
        Some(V::String(s)) => Val::Str(s.as_bytes().to_vec()),
        Some(V::Array(A::Integer(xs))) => Val::Ints(xs.iter().collect::<std::io::Result<_>>().map_err(es)?),
        Some(V::Array(A::Float(xs))) => Val::Floats(xs.iter().map(|x| x.map(|o| o.map(f32::to_bits))).collect::<std::io::Result<_>>().map_err(es)?),
        Some(V::Array(A::Character(xs))) => Val::Chars(xs.iter().map(|x| x.map(|o| o.map(|c| c as u8))).collect::<std::io::Result<_>>().map_err(es)?),
        Some(V::Array(A::String(xs))) => Val::Strs(xs.iter().map(|x| x.map(|o| o.map(|s| s.as_bytes().to_vec()))).collect::<std::io::Result<_>>().map_err(es)?),
    })
}

fn from_lazy_sample(v: Option<vcf::variant::record::samples::series::Value<'_>>) -> R<Val> {
    use vcf::variant::record::samples::series::value::genotype::Phasing;
    use vcf::variant::record::samples::series::{value::Array as A, Value as V};
    Ok(match v {
        None => Val::None,
        Some(V::Integer(n)) => Val::Int(n),
        Some(V::Float(f)) => Val::Float(f.to_bits()),
        Some(V::Character(c)) => Val::Char(c as u8),
        Some(V::String(s)) => Val::Str(s.as_bytes().to_vec()),
        Some(V::Genotype(g)) => Val::Gt(g.iter().map(|x| x.map(|(p, ph)| (p, ph == Phasing::Phased))).collect::<std::io::Result<_>>().map_err(es)?),
        Some(V::Array(A::Integer(xs))) => Val::Ints(xs.iter().collect::<std::io::Result<_>>().map_err(es)?),
        Some(V::Array(A::Float(xs))) => Val::Floats(xs.iter().map(|x| x.map(|o| o.map(f32::to_bits))).collect::<std::io::Result<_>>().map_err(es)?),
        Some(V::Array(A::Character(xs))) => Val::Chars(xs.iter().map(|x| x.map(|o| o.map(|c| c as u8))).collect::<std::io::Result<_>>().map_err(es)?),
        Some(V::Array(A::String(xs))) => Val::Strs(xs.iter().map(|x| x.map(|o| o.map(|s| s.as_bytes().to_vec()))).collect::<std::io::Result<_>>().map_err(es)?),
    })
}

/// walk every lazy accessor of a `bcf::Record`
fn from_lazy(rec: &bcf::Record, header: &vcf::Header) -> R<Rec> {
    use vcf::variant::record::{AlternateBases as _, Filters as _, Ids as _, Info as _, ReferenceBases as _};
    let chrom = rec.reference_sequence_name(header.string_maps()).map_err(es)?.to_string();
    let pos = match rec.variant_start() {
        None => 0,
        Some(p) => usize::from(p.map_err(es)?),
    };
    let qual = rec.quality_score().map_err(es)?.map(f32::to_bits);
    let ids: Vec<String> = rec.ids().iter().map(String::from).collect();
    let refb = String::from_utf8(rec.reference_bases().iter().collect::<std::io::Result<Vec<u8>>>().map_err(es)?).map_err(es)?;
    let alts = rec.alternate_bases().iter().map(|a| a.map(String::from)).collect::<std::io::Result<Vec<_>>>().map_err(es)?;
    let filters = rec.filters().iter(header).map(|f| f.map(String::from)).collect::<std::io::Result<Vec<_>>>().map_err(es)?;
    let mut info = vec![];
    let inf = rec.info();
    for x in inf.iter(header) {
        let (k, v) = x.map_err(es)?;
        info.push((k.to_string(), from_lazy_info(v)?));
    }
    let samples = rec.samples().map_err(es)?;
    let n = header.sample_names().len();
    let mut keys = vec![];
    let mut rows: Vec<Vec<Val>> = vec![vec![]; n];
    for s in samples.series() {
        let s = s.map_err(es)?;
        keys.push(s.name(header).map_err(es)?.to_string());
        for (i, row) in rows.iter_mut().enumerate() {
            match s.get(header, i) {
                None => return Err("series.get out of range".into()),
                Some(None) => row.push(Val::None),
                Some(Some(v)) => row.push(from_lazy_sample(Some(v.map_err(es)?))?),
            }
        }
    }
    Ok(Rec { chrom, pos, qual, ids, refb, alts, filters, info, keys, rows })
}

// ------------------------------------------------------------------------------------ normal form

/// implicit first-allele phasing of VCF < 4.4: phased iff every following allele is phased
fn norm_gt(g: &[(Option<usize>, bool)], v44: bool) -> Vec<(Option<usize>, bool)> {
    let mut g = g.to_vec();
    if !v44 && !g.is_empty() {
        g[0].1 = g[1..].iter().all(|a| a.1);
    }
    g
}

/// what the VCF text cannot distinguish: a vector that is exactly `[missing]` = a missing value;
/// an empty genotype = a missing value; first-allele phasing before 4.4.
fn norm_val(v: &Val, v44: bool) -> Val {
    match v {
        Val::Ints(xs) if xs.len() == 1 && xs[0].is_none() => Val::None,
        Val::Floats(xs) if xs.len() == 1 && xs[0].is_none() => Val::None,
        Val::Chars(xs) if xs.len() == 1 && xs[0].is_none() => Val::None,
        Val::Strs(xs) if xs.len() == 1 && xs[0].is_none() => Val::None,
        Val::Gt(g) if g.is_empty() => Val::None,
        Val::Gt(g) => Val::Gt(norm_gt(g, v44)),
        v => v.clone(),
    }
}

fn norm(r: &Rec, v44: bool) -> Rec {
    let mut r = r.clone();
    for (_, v) in r.info.iter_mut() {
        *v = norm_val(v, v44);
    }
    let nk = r.keys.len();
    if nk == 0 {
        // no FORMAT keys: `n` empty sample rows and no rows at all are the same record
        r.rows.clear();
    }
    for row in r.rows.iter_mut() {
        for v in row.iter_mut() {
            *v = norm_val(v, v44);
        }
        while row.len() < nk {
            row.push(Val::None);
        }
    }
    r
}

// ------------------------------------------------------------------------------------ running one case

struct Written {
    header_len: usize,
    first_end: usize,
    stream: Vec<u8>,
}

fn write_bcf(header: &vcf::Header, rb: &vcf::variant::RecordBuf) -> Result<Result<Written, std::io::Error>, String> {
    guarded(|| {
        let mut w = bcf::io::Writer::from(Vec::new());
        w.write_header(header)?;
        let header_len = w.get_ref().len();
        w.write_variant_record(header, rb)?;
        let first_end = w.get_ref().len();
        w.write_variant_record(header, rb)?;
        Ok(Written { header_len, first_end, stream: w.into_inner() })
    })
}

fn vcf_text(header: &vcf::Header, rec: &dyn vcf::variant::Record) -> Result<String, String> {
    match guarded(|| {
        let mut w = vcf::io::Writer::new(Vec::new());
        w.write_variant_record(header, rec).map(|_| String::from_utf8_lossy(w.get_ref()).trim_end_matches('\n').to_string())
    }) {
        Ok(Ok(s)) => Ok(s),
        Ok(Err(e)) => Err(format!("err: {e}")),
        Err(p) => Err(format!("panic: {p}")),
    }
}

// ------------------------------------------------------------------------------------ twin of `recWF`
// (Noodles/Bcf/RecordSpec.lean; the Lean driver prints the model's verdict for the same request and
// the two are diffed, so a divergence between the theorem's hypothesis and this file shows up as a
// correspondence disagreement)

/// shapes of a conforming VCF record that the BCF strings written by noodles cannot carry
const ESCAPE_SHAPES: [&str; 12] = [
    "info-strs-elem-comma", "info-strs-elem-dot", "info-chars-elem-comma", "info-chars-elem-dot", "fmt-str-nul", "fmt-str-dot", "fmt-char-nul", "fmt-char-dot", "fmt-chars-elem-comma",
    "fmt-chars-elem-dot", "fmt-strs-elem-comma", "fmt-strs-elem-dot",
];

const COMMA: u8 = b',';
const DOT: u8 = b'.';
const NUL: u8 = 0;

fn fits_i(n: i32) -> bool {
    n >= i32::MIN + 8
}
fn fits_f(b: u32) -> bool {
    !(0x7f80_0001..=0x7f80_0007).contains(&b)
}

fn join_strs(xs: &[Option<Vec<u8>>]) -> Vec<u8> {
    let mut out = vec![];
    for (i, x) in xs.iter().enumerate() {
        if i > 0 {
            out.push(COMMA);
        }
        match x {
            Some(s) => out.extend_from_slice(s),
            None => out.push(DOT),
        }
    }
    out
}

fn dedup_ids(ids: &[u8]) -> Vec<u8> {
    let mut seen: Vec<&[u8]> = vec![];
    for part in ids.split(|&b| b == b';') {
        if !seen.contains(&part) {
            seen.push(part);
        }
    }
    seen.join(&b';')
}

fn find_def<'a>(h: &'a Hdr, kind: char, name: &str) -> Option<&'a Def> {
    h.defs.iter().find(|d| d.kind == kind && d.name == name)
}

/// the unrepresentable / ill-formed shapes of one INFO value against its definition (empty = ok)
fn info_val_shapes(d: &Def, v: &Val, out: &mut Vec<&'static str>) {
    let num = num_class(d.num);
    match (num, d.ty, v) {
        (_, _, Val::None) => {
            if num == "0" || d.ty == 'b' {
                out.push("info-flag-missing-value");
            }
        }
        ("0", 'b', Val::Flag) => {}
        ("1", 'i', Val::Int(n)) => {
            if !fits_i(*n) {
                out.push("int-unrepresentable");
            }
        }
        ("n", 'i', Val::Ints(xs)) => {
            if xs.is_empty() {
                out.push("info-vector-empty");
            }
            if xs.iter().flatten().any(|n| !fits_i(*n)) {
                out.push("int-unrepresentable");
            }
        }
        ("1", 'f', Val::Float(b)) => {
            if !fits_f(*b) {
                out.push("float-reserved-nan");
            }
        }
        ("n", 'f', Val::Floats(xs)) => {
            if xs.is_empty() {
                out.push("info-vector-empty");
            }
            if xs.iter().flatten().any(|b| !fits_f(*b)) {
                out.push("float-reserved-nan");
            }
        }
        ("1", 'c', Val::Char(_)) => {}
        ("n", 'c', Val::Chars(xs)) => {
            if xs.is_empty() {
                out.push("info-vector-empty");
            }
            if xs.iter().flatten().any(|c| *c == COMMA) {
                out.push("info-chars-elem-comma");
            }
            if xs.iter().flatten().any(|c| *c == DOT) {
                out.push("info-chars-elem-dot");
            }
        }
        ("1", 's', Val::Str(s)) => {
            if s.is_empty() {
                out.push("info-str-empty");
            }
        }
        ("n", 's', Val::Strs(xs)) => {
            if join_strs(xs).is_empty() {
                out.push("info-strs-serialised-empty");
            }
            if xs.iter().flatten().any(|s| s.contains(&COMMA)) {
                out.push("info-strs-elem-comma");
            }
            if xs.iter().flatten().any(|s| s == &[DOT]) {
                out.push("info-strs-elem-dot");
            }
        }
        _ => out.push("info-shape-mismatch"),
    }
}

fn max_len_some(lens: impl Iterator<Item = Option<usize>>) -> Option<usize> {
    lens.flatten().max()
}

/// the shapes of one FORMAT column (twin of `colOk`)
fn col_shapes(h: &Hdr, key: &str, col: &[Val], out: &mut Vec<&'static str>) {
    if key == "GT" {
        let mut ploidy = 0;
        for v in col {
            match v {
                Val::Gt(g) => {
                    ploidy = ploidy.max(g.len());
                    if g.iter().any(|a| a.0.is_some_and(|p| p > 62)) {
                        out.push("gt-allele-above-62");
                    }
                }
                _ => out.push("gt-sample-without-genotype"),
            }
        }
        if ploidy == 0 {
            out.push("gt-ploidy-0");
        }
        return;
    }
    let Some(d) = find_def(h, 'G', key) else {
        out.push("fmt-key-undefined");
        return;
    };
    let num = num_class(d.num);
    let all_missing = col.iter().all(|v| *v == Val::None);
    match (num, d.ty) {
        ("1", 'i') => {
            for v in col {
                match v {
                    Val::None => {}
                    Val::Int(n) => {
                        if !fits_i(*n) {
                            out.push("int-unrepresentable");
                        }
                    }
                    _ => out.push("fmt-shape-mismatch"),
                }
            }
        }
        ("n", 'i') => {
            let mut mx = 0;
            for v in col {
                match v {
                    Val::None => mx = mx.max(1),
                    Val::Ints(xs) => {
                        mx = mx.max(xs.len());
                        if xs.iter().flatten().any(|n| !fits_i(*n)) {
                            out.push("int-unrepresentable");
                        }
                    }
                    _ => out.push("fmt-shape-mismatch"),
                }
            }
            if mx == 0 {
                out.push("fmt-vector-column-length-0");
            }
        }
        ("1", 'f') => {
            for v in col {
                match v {
                    Val::None => {}
                    Val::Float(b) => {
                        if !fits_f(*b) {
                            out.push("float-reserved-nan");
                        }
                    }
                    _ => out.push("fmt-shape-mismatch"),
                }
            }
        }
        ("n", 'f') => {
            for v in col {
                match v {
                    Val::None => {}
                    Val::Floats(xs) => {
                        if xs.iter().flatten().any(|b| !fits_f(*b)) {
                            out.push("float-reserved-nan");
                        }
                    }
                    _ => out.push("fmt-shape-mismatch"),
                }
            }
            match max_len_some(col.iter().map(|v| if let Val::Floats(x) = v { Some(x.len()) } else { None })) {
                None => out.push("fmt-column-all-missing"),
                Some(0) => out.push("fmt-vector-column-length-0"),
                _ => {}
            }
        }
        ("1", 'c') => {
            for v in col {
                match v {
                    Val::None => {}
                    Val::Char(c) => {
                        if *c == NUL {
                            out.push("fmt-char-nul");
                        }
                        if *c == DOT {
                            out.push("fmt-char-dot");
                        }
                    }
                    _ => out.push("fmt-shape-mismatch"),
                }
            }
            if all_missing {
                out.push("fmt-column-all-missing");
            }
        }
        ("n", 'c') => {
            for v in col {
                match v {
                    Val::None => {}
                    Val::Chars(cs) => {
                        if cs.is_empty() {
                            out.push("fmt-chars-empty");
                        }
                        if cs.iter().flatten().any(|c| *c == NUL) {
                            out.push("fmt-char-nul");
                        }
                        if cs.iter().flatten().any(|c| *c == COMMA) {
                            out.push("fmt-chars-elem-comma");
                        }
                        if cs.iter().flatten().any(|c| *c == DOT) {
                            out.push("fmt-chars-elem-dot");
                        }
                    }
                    _ => out.push("fmt-shape-mismatch"),
                }
            }
            if all_missing {
                out.push("fmt-column-all-missing");
            }
        }
        ("1", 's') => {
            for v in col {
                match v {
                    Val::None => {}
                    Val::Str(s) => {
                        if s.contains(&NUL) {
                            out.push("fmt-str-nul");
                        }
                        if s == &[DOT] {
                            out.push("fmt-str-dot");
                        }
                    }
                    _ => out.push("fmt-shape-mismatch"),
                }
            }
            match max_len_some(col.iter().map(|v| if let Val::Str(s) = v { Some(s.len()) } else { None })) {
                None => out.push("fmt-column-all-missing"),
                Some(0) if col.iter().any(|v| *v == Val::None) => out.push("fmt-str-missing-next-to-only-empty"),
                _ => {}
            }
        }
        ("n", 's') => {
            for v in col {
                match v {
                    Val::None => {}
                    Val::Strs(xs) => {
                        if join_strs(xs).is_empty() {
                            out.push("fmt-strs-serialised-empty");
                        }
                        if xs.iter().flatten().any(|s| s.contains(&NUL)) {
                            out.push("fmt-str-nul");
                        }
                        if xs.iter().flatten().any(|s| s.contains(&COMMA)) {
                            out.push("fmt-strs-elem-comma");
                        }
                        if xs.iter().flatten().any(|s| s == &[DOT]) {
                            out.push("fmt-strs-elem-dot");
                        }
                    }
                    _ => out.push("fmt-shape-mismatch"),
                }
            }
            if col.is_empty() {
                out.push("fmt-column-empty");
            }
        }
        _ => out.push("fmt-definition-not-readable"),
    }
}

/// `rlenOf` of Record.lean: Ok(span) / Err(class)
fn rlen_of(r: &Rec) -> Result<u64, &'static str> {
    let start = if r.pos == 0 { 1 } else { r.pos as u64 };
    let span = match r.info.iter().find(|(k, _)| k == "END").map(|(_, v)| v) {
        Some(Val::Int(n)) => {
            if *n < 1 || (*n as u64) < start {
                return Err("err:invalid-data");
            }
            *n as u64 - start + 1
        }
        Some(Val::None) | None => {
            if r.refb.is_empty() {
                return Err("err:invalid-data");
            }
            r.refb.len() as u64
        }
        Some(_) => return Err("err:invalid-data"),
    };
    if span > i32::MAX as u64 { Err("err:invalid-input") } else { Ok(span) }
}

fn resolves_in(get_index_of: impl Fn(&str) -> Option<usize>, get_index: impl Fn(usize) -> Option<String>, name: &str) -> bool {
    match get_index_of(name) {
        Some(i) => i <= i32::MAX as usize && get_index(i).as_deref() == Some(name),
        None => false,
    }
}

fn column(r: &Rec, k: usize) -> Vec<Val> {
    r.rows.iter().map(|row| row.get(k).cloned().unwrap_or(Val::None)).collect()
}

/// every conjunct of `recWF` that fails, by name (empty = well-formed)
fn shapes(h: &Hdr, sm: &vcf::header::StringMaps, r: &Rec) -> Vec<&'static str> {
    let mut out = vec![];
    let in_strings = |n: &str| resolves_in(|s| sm.strings().get_index_of(s), |i| sm.strings().get_index(i).map(String::from), n);
    let in_contigs = |n: &str| resolves_in(|s| sm.contigs().get_index_of(s), |i| sm.contigs().get_index(i).map(String::from), n);
    if !in_contigs(&r.chrom) {
        out.push("chrom-unresolved");
    }
    if r.pos > i32::MAX as usize {
        out.push("pos-above-i32");
    }
    if r.qual.is_some_and(|q| !fits_f(q)) {
        out.push("qual-reserved-nan");
    }
    let ids = r.ids.join(";").into_bytes();
    if dedup_ids(&ids) != ids {
        out.push("ids-not-a-set");
    }
    if r.refb.is_empty() {
        out.push("ref-empty");
    }
    if r.alts.iter().any(|a| a.is_empty()) {
        out.push("alt-empty");
    }
    if r.alts.len() + 1 > 65535 {
        out.push("n-allele-above-u16");
    }
    if r.filters.iter().any(|f| !in_strings(f)) {
        out.push("filter-unresolved");
    }
    {
        let mut seen: Vec<&String> = vec![];
        for f in &r.filters {
            if seen.contains(&f) {
                out.push("filters-not-a-set");
                break;
            }
            seen.push(f);
        }
    }
    if rlen_of(r).is_err() {
        out.push("rlen-invalid");
    }
    if r.info.len() > 65535 {
        out.push("n-info-above-u16");
    }
    for (i, (k, _)) in r.info.iter().enumerate() {
        if r.info[i + 1..].iter().any(|(k2, _)| k2 == k) {
            out.push("info-duplicate-key");
            break;
        }
    }
    for (k, v) in &r.info {
        if !in_strings(k) {
            out.push("info-key-unresolved");
        }
        match find_def(h, 'I', k) {
            Some(d) => info_val_shapes(d, v, &mut out),
            None => out.push("info-key-undefined"),
        }
    }
    if r.keys.len() > 255 {
        out.push("n-fmt-above-u8");
    }
    if h.samples > 0xff_ffff {
        out.push("n-sample-above-u24");
    }
    if r.keys.is_empty() {
        if r.rows.iter().any(|row| !row.is_empty()) {
            out.push("values-without-keys");
        }
    } else {
        if r.rows.len() != h.samples || h.samples == 0 {
            out.push("rows-not-one-per-sample");
        }
        if r.rows.iter().any(|row| row.len() > r.keys.len()) {
            out.push("row-wider-than-keys");
        }
    }
    for (k, key) in r.keys.iter().enumerate() {
        if !in_strings(key) {
            out.push("fmt-key-unresolved");
        }
        if find_def(h, 'G', key).is_none() {
            out.push("fmt-key-undefined");
            continue;
        }
        col_shapes(h, key, &column(r, k), &mut out);
    }
    out
}

// ------------------------------------------------------------------------------------ twin of `normRec`

fn kind_of(h: &Hdr, key: &str) -> (&'static str, char) {
    if key == "GT" {
        return ("gt", 'g');
    }
    match find_def(h, 'G', key) {
        Some(d) => (num_class(d.num), d.ty),
        None => ("gt", 'g'),
    }
}

fn norm_info_x(v: &Val) -> Val {
    match v {
        Val::Ints(xs) if xs.len() == 1 && xs[0].is_none() => Val::None,
        Val::Floats(xs) if xs.len() == 1 && xs[0].is_none() => Val::None,
        v => v.clone(),
    }
}

fn norm_sval_x(lazy: bool, v44: bool, kind: (&str, char), v: &Val) -> Val {
    match (lazy, kind) {
        (false, ("n", 'i')) => match v {
            Val::Ints(xs) if !(xs.len() == 1 && xs[0].is_none()) => v.clone(),
            _ => Val::None,
        },
        (false, ("n", 'f')) => match v {
            Val::Floats(xs) if !(xs.len() == 1 && xs[0].is_none()) => v.clone(),
            _ => Val::None,
        },
        (_, ("n", 'c')) => match v {
            Val::Chars(_) => v.clone(),
            _ => Val::Chars(vec![None]),
        },
        (false, ("n", 's')) => match v {
            Val::Strs(xs) if !(xs.len() == 1 && xs[0].is_none()) => v.clone(),
            _ => Val::None,
        },
        (true, ("gt", _)) => match v {
            Val::Gt(g) => Val::Gt(norm_gt(g, v44)),
            _ => Val::Gt(vec![]),
        },
        (true, ("n", 'i')) => match v {
            Val::Ints(_) => v.clone(),
            _ => Val::Ints(vec![None]),
        },
        (true, ("n", 'f')) => match v {
            Val::Floats(_) => v.clone(),
            _ => Val::Floats(vec![None]),
        },
        (true, ("n", 's')) => match v {
            Val::Strs(_) => v.clone(),
            _ => Val::Strs(vec![None]),
        },
        _ => v.clone(),
    }
}

/// what the theorem says the reader returns
fn norm_rec_x(lazy: bool, h: &Hdr, r: &Rec) -> Rec {
    let mut out = r.clone();
    for (_, v) in out.info.iter_mut() {
        *v = norm_info_x(v);
    }
    out.rows = (0..h.samples)
        .map(|i| {
            r.keys
                .iter()
                .enumerate()
                .filter_map(|(k, key)| {
                    // `toRows`: the i-th value of every column that has one
                    r.rows.get(i).map(|row| norm_sval_x(lazy, h.v44, kind_of(h, key), row.get(k).unwrap_or(&Val::None)))
                })
                .collect()
        })
        .collect();
    out
}

// ------------------------------------------------------------------------------------ running one case

fn read_eager_two(stream: &[u8]) -> Result<std::io::Result<(vcf::Header, vcf::variant::RecordBuf, vcf::variant::RecordBuf, usize)>, String> {
    guarded(|| {
        let mut rd = bcf::io::Reader::from(stream);
        let h2 = rd.read_header()?;
        let mut a = vcf::variant::RecordBuf::default();
        let mut b = vcf::variant::RecordBuf::default();
        if rd.read_record_buf(&h2, &mut a)? == 0 {
            return Err(std::io::Error::other("no first record"));
        }
        if rd.read_record_buf(&h2, &mut b)? == 0 {
            return Err(std::io::Error::other("no second record"));
        }
        let mut c = vcf::variant::RecordBuf::default();
        let trailing = rd.read_record_buf(&h2, &mut c)?;
        Ok((h2, a, b, trailing))
    })
}

struct LazyOut {
    rec: bcf::Record,
    first: Rec,
    second: Rec,
    end: Result<usize, String>,
}

fn read_lazy_two(stream: &[u8]) -> Result<Result<LazyOut, String>, String> {
    guarded(|| {
        let mut rd = bcf::io::Reader::from(stream);
        let h3 = rd.read_header().map_err(es)?;
        let mut rec = bcf::Record::default();
        if rd.read_record(&mut rec).map_err(es)? == 0 {
            return Err("no first record".into());
        }
        let first = from_lazy(&rec, &h3)?;
        let end = rec.end().map(usize::from).map_err(es);
        let mut rec2 = bcf::Record::default();
        if rd.read_record(&mut rec2).map_err(es)? == 0 {
            return Err("no second record".into());
        }
        let second = from_lazy(&rec2, &h3)?;
        Ok(LazyOut { rec, first, second, end })
    })
}

fn run_case(ctx: &mut Ctx, h: &Hdr, r: &Rec, case: &str, emit: bool) {
    let req = format!("c10 recx {} {}", fmt_hdr_words(h), fmt_rec(r));
    ctx.eval(Some(fnv(req.as_bytes())));
    let header = match parse_header(h) {
        Ok(x) => x,
        Err(e) => {
            ctx.fail("harness-header", format!("generated header rejected: {e}"), case.into());
            return;
        }
    };
    let sm = match vcf::header::StringMaps::try_from(&header) {
        Ok(x) => x,
        Err(e) => {
            ctx.fail("harness-header", format!("string maps of the generated header: {e}"), case.into());
            return;
        }
    };
    let sh = shapes(h, &sm, r);
    let wf = sh.is_empty();
    ctx.bump(if wf { "x_wf" } else { "x_not_wf" });
    for s in &sh {
        ctx.bump(&format!("x_shape[{s}]"));
    }
    // string-array values with `%`: the lazy accessors used to percent-decode them (F31, repaired in
    // 4fedf9b); they are ordinary values now and take part in the correspondence
    let f31 = false;
    // a record that is not well-formed is either outside the property's domain (not a conforming VCF
    // record: empty strings / vectors / alleles, reserved NaN patterns, ids that are not a set, a
    // sample matrix that does not fit the header, undefined keys, …) or it is a conforming record
    // holding a value the BCF strings of this writer cannot carry (`ESCAPE_SHAPES`: the VCF text has
    // `%2C`, `%2E`, `%00` there). Only the second kind is the property's business.
    let escape_only = !wf && sh.iter().all(|s| ESCAPE_SHAPES.contains(s));
    let out_of_domain = !wf && !escape_only;
    if out_of_domain {
        ctx.bump("x_out_of_domain");
    }
    let cls = |generic: &str| -> String {
        if f31 {
            "lazy-string-array-percent-decoded".into()
        } else if escape_only {
            "bcf-string-value-not-escaped".into()
        } else {
            format!("x-{generic}")
        }
    };
    let rb = to_record_buf(r);
    let written = match write_bcf(&header, &rb) {
        Err(p) => {
            ctx.fail(&cls("writer-panic"), format!("BCF writer panicked ({p}) on {}", fmt_rec(r)), case.into());
            if emit {
                ctx.corr(req, format!("wf={} panic", wf as u8));
            }
            return;
        }
        Ok(Err(e)) => {
            ctx.bump(&format!("x_writer_error[{}]", errclass(&e)));
            if wf {
                ctx.fail("x-wf-rejected", format!("a well-formed record was refused by the BCF writer ({e}): {}", fmt_rec(r)), case.into());
            }
            if emit {
                ctx.corr(req, format!("wf={} {}", wf as u8, errclass(&e)));
            }
            return;
        }
        Ok(Ok(w)) => w,
    };
    ctx.bump("x_writer_ok");
    // a count / position beyond the width of its field must have been refused (`bcf_site_count_limits`)
    if let Some(lim) = sh.iter().find(|s| ["n-allele-above-u16", "n-info-above-u16", "n-fmt-above-u8", "n-sample-above-u24", "pos-above-i32"].contains(s)) {
        ctx.fail("x-field-overflow-accepted", format!("{lim}: the BCF writer accepted a record whose count does not fit its site-block field ({} ALT, {} INFO, {} FORMAT keys, POS {})", r.alts.len(), r.info.len(), r.keys.len(), r.pos), case.into());
        return;
    }
    // a genotype allele index above 62 does not fit the int8 coding ((allele + 1) << 1 | phased): it must
    // have been refused, never wrapped into another allele, the missing code or end-of-vector
    if sh.contains(&"gt-allele-above-62") {
        ctx.fail("x-field-overflow-accepted", format!("gt-allele-above-62: the BCF writer accepted a genotype allele index that does not fit one signed byte: {}", fmt_rec(r)), case.into());
        return;
    }
    let rec_bytes = written.stream[written.header_len..written.first_end].to_vec();
    // ---- framing: l_shared + l_indiv + 8 = the record's length, the second copy is identical
    let ls = u32::from_le_bytes(rec_bytes[0..4].try_into().unwrap()) as usize;
    let li = u32::from_le_bytes(rec_bytes[4..8].try_into().unwrap()) as usize;
    if 8 + ls + li != rec_bytes.len() || written.stream[written.first_end..] != rec_bytes[..] {
        ctx.fail(&cls("framing"), format!("l_shared {ls} + l_indiv {li} + 8 != record length {} (or the second copy differs) for {}", rec_bytes.len(), fmt_rec(r)), case.into());
        return;
    }
    if li == 0 {
        ctx.bump("x_l_indiv_0");
    }
    // ---- eager
    let eager = read_eager_two(&written.stream);
    let lazy = read_lazy_two(&written.stream);
    let (e_txt, e_ok) = match &eager {
        Err(p) => {
            ctx.fail(&cls("reader-panic"), format!("read_record_buf panicked ({p}) on the writer's own output for {}", fmt_rec(r)), case.into());
            return;
        }
        Ok(Err(_)) => ("err".to_string(), None),
        Ok(Ok((h2, a, b, trailing))) => {
            let ea = from_record_buf(a);
            if from_record_buf(b) != ea || *trailing != 0 {
                ctx.fail(&cls("framing"), format!("the second copy of the record reads back differently (eager) for {}", fmt_rec(r)), case.into());
                return;
            }
            (fmt_rec(&ea), Some((h2, a, ea)))
        }
    };
    let (l_txt, end_txt, l_ok) = match &lazy {
        Err(p) => {
            ctx.fail(&cls("lazy-panic"), format!("lazy bcf::Record accessors panicked ({p}) for {}", fmt_rec(r)), case.into());
            return;
        }
        Ok(Err(_)) => ("err".to_string(), "err".to_string(), None),
        Ok(Ok(lo)) => {
            if lo.second != lo.first {
                ctx.fail(&cls("framing"), format!("the second copy of the record reads back differently (lazy) for {}", fmt_rec(r)), case.into());
                return;
            }
            (fmt_rec(&lo.first), lo.end.as_ref().map(|e| e.to_string()).unwrap_or_else(|_| "err".into()), Some(lo))
        }
    };
    if emit {
        ctx.corr(req, format!("wf={} ls={ls} li={li} {} end={end_txt} E {e_txt} L {l_txt}", wf as u8, hex(&rec_bytes)));
    }
    // ---- oracle
    let t0 = {
        // rows as wide as the key list: `0/1:5` and `0/1:5:.` are the same record
        let mut padded = r.clone();
        for row in padded.rows.iter_mut() {
            while row.len() < padded.keys.len() {
                row.push(Val::None);
            }
        }
        vcf_text(&header, &to_record_buf(&padded))
    };
    if wf {
        // (a) the theorem's conclusion on the real code
        let want_e = fmt_rec(&norm_rec_x(false, h, r));
        let want_l = fmt_rec(&norm_rec_x(true, h, r));
        if e_txt != want_e {
            ctx.fail(&cls("eager-roundtrip"), format!("read_record_buf: wrote {} read {e_txt} expected {want_e}", fmt_rec(r)), case.into());
            return;
        }
        if l_txt != want_l {
            ctx.fail(&cls("lazy-roundtrip"), format!("lazy bcf::Record: wrote {} read {l_txt} expected {want_l}", fmt_rec(r)), case.into());
            return;
        }
        // end() = variant_end of the written record (when it has a position)
        if r.pos > 0 {
            let want_end = guarded(|| {
                use vcf::variant::Record as _;
                rb.variant_end(&header).map(usize::from)
            });
            match (&want_end, l_ok.as_ref().map(|lo| &lo.end)) {
                (Ok(Ok(w)), Some(Ok(g))) if w == g => ctx.bump("x_end_compared"),
                other => {
                    ctx.fail(&cls("rlen-end"), format!("bcf::Record::end() {:?} != variant_end of the written record for {}", other, fmt_rec(r)), case.into());
                    return;
                }
            }
        }
    }
    // (b) the VCF text of the three views (every accepted record of the property's domain)
    if out_of_domain {
        ctx.bump(&format!("x_out_of_domain_accepted[{}]", sh[0]));
        ctx.bump(if e_ok.is_some() && l_ok.is_some() { "x_out_of_domain_read_back" } else { "x_out_of_domain_reader_error" });
        return;
    }
    let shape_txt = if escape_only { format!(" [{}]", sh.join(",")) } else { String::new() };
    match (&t0, &e_ok, &l_ok) {
        (Ok(t0), Some((h2, a, _)), Some(lo)) => {
            let t1 = vcf_text(h2, *a);
            let t2 = vcf_text(h2, &lo.rec);
            if t1.as_deref() != Ok(t0.as_str()) {
                ctx.fail(&cls("vcf-text-eager"), format!("VCF text differs{shape_txt}: original `{t0}` after BCF (eager) `{t1:?}`"), case.into());
                return;
            }
            if t2.as_deref() != Ok(t0.as_str()) {
                ctx.fail(&cls("vcf-text-lazy"), format!("VCF text differs{shape_txt}: original `{t0}` after BCF (lazy) `{t2:?}`"), case.into());
                return;
            }
            ctx.bump("x_vcf_text_compared");
        }
        (Err(_), _, _) => ctx.bump("x_vcf_text_original_unrenderable"),
        (Ok(_), e, l) => {
            let which = if e.is_none() { "read_record_buf" } else { "lazy bcf::Record" };
            let _ = l;
            ctx.fail(&cls("read-error"), format!("{which} rejects the writer's own output{shape_txt} for {} bytes {}", fmt_rec(r), if rec_bytes.len() > 200 { format!("({} bytes)", rec_bytes.len()) } else { hex(&rec_bytes) }), case.into());
        }
    }
}

// ------------------------------------------------------------------------------------ generators

const ALNUM: &[u8] = b"ABCDEFGHIJKLMNOPQRSTUVWXYZabcdefghijklmnopqrstuvwxyz0123456789_";
const FLOATS: [u32; 14] = [
    0x0000_0000, 0x8000_0000, 0x3f80_0000, 0x41f0_cccd, 0x7fc0_0000, 0x7f80_0000, 0xff80_0000, 0x7f80_0008, 0x7fff_ffff, 0x0000_0001, 0x7f7f_ffff, 0xffc0_0000, 0x7fc0_0001,
    0x7f80_0000 - 1,
];
const INTS: [i32; 12] = [-121, -120, 0, 1, 127, 128, -32761, -32760, 32767, 32768, i32::MIN + 8, i32::MAX];

/// string length classes: short, the descriptor boundaries 14/15/16, the Int8/Int16 length
/// boundaries 127/128, 255/256, and (rarely) 32767/32768 and 65535/65536/70000
fn gen_strlen(rng: &mut Rng, big: bool) -> usize {
    match rng.below(60) {
        0 => 14,
        1 => 15,
        2 => 16,
        3 => 127,
        4 => 128,
        5 => 255,
        6 => 256,
        7 if big => *rng.pick(&[32767usize, 32768, 65535, 65536, 70000]),
        _ => 1 + rng.below(6) as usize,
    }
}

/// a string; `hostile` (0..=100) is the rate of the bytes / whole values BCF gives a meaning to.
/// Always valid UTF-8.
fn gen_str(rng: &mut Rng, hostile: u64, big: bool) -> Vec<u8> {
    if rng.below(100) < hostile {
        if rng.chance(1, 3) {
            return rng.pick(&[&b"."[..], b"", b"..", b",", b".,.", b"\0", b"a\0", b"\0a", b"a,b", b"a;b", b"a=b", b" ", b"%", b"a%41"]).to_vec();
        }
    }
    let n = gen_strlen(rng, big);
    let mut s: Vec<u8> = (0..n).map(|_| *rng.pick(ALNUM)).collect();
    if rng.below(100) < hostile && !s.is_empty() {
        let i = rng.below(s.len() as u64) as usize;
        match rng.below(8) {
            0 => s[i] = NUL,
            1 => s[i] = COMMA,
            2 => s[i] = DOT,
            3 => s[i] = b';',
            4 => s[i] = b' ',
            5 => {
                // a two-byte and a four-byte UTF-8 character
                s.splice(i..i + 1, "é𝄞".bytes());
            }
            6 => s[i] = b':',
            _ => s[i] = b'=',
        }
    }
    s
}

fn gen_char(rng: &mut Rng, hostile: u64) -> u8 {
    if rng.below(100) < hostile { *rng.pick(&[NUL, COMMA, DOT, b';', b' ', b':', b'%']) } else { *rng.pick(ALNUM) }
}

fn gen_opt<T>(rng: &mut Rng, miss: u64, f: impl FnOnce(&mut Rng) -> T) -> Option<T> {
    if rng.below(100) < miss { None } else { Some(f(rng)) }
}

fn gen_float(rng: &mut Rng, hostile: u64) -> u32 {
    // the reserved patterns only for QUAL (`hostile` > 100): in a value vector they are `todo!()`
    // in the writer, known and modelled as `panic` by c10.rs
    if hostile > 100 && rng.below(400) < hostile {
        return 0x7f80_0001 + rng.below(7) as u32;
    }
    if rng.chance(3, 4) {
        *rng.pick(&FLOATS)
    } else {
        let b = rng.next() as u32;
        if (0x7f80_0001..=0x7f80_0007).contains(&b) { 0x3f80_0000 } else { b }
    }
}

fn gen_int(rng: &mut Rng, _hostile: u64) -> i32 {
    if rng.chance(1, 2) { *rng.pick(&INTS) } else { rng.below(70_000) as i32 - 35_000 }
}

fn gen_value(rng: &mut Rng, num: &str, ty: char, hostile: u64, big: bool) -> Val {
    let miss = *rng.pick(&[0u64, 0, 15, 50, 100]);
    let n = match rng.below(30) {
        0 if hostile > 0 => 0,
        1 => 15,
        2 => 16,
        _ => 1 + rng.below(4) as usize,
    };
    match (num_class(num), ty) {
        ("0", _) => Val::Flag,
        ("1", 'i') => Val::Int(gen_int(rng, hostile)),
        ("1", 'f') => Val::Float(gen_float(rng, hostile)),
        ("1", 'c') => Val::Char(gen_char(rng, hostile)),
        ("1", _) => Val::Str(gen_str(rng, hostile, big)),
        (_, 'i') => Val::Ints((0..n).map(|_| gen_opt(rng, miss, |r| gen_int(r, hostile))).collect()),
        (_, 'f') => Val::Floats((0..n).map(|_| gen_opt(rng, miss, |r| gen_float(r, hostile))).collect()),
        (_, 'c') => Val::Chars((0..n).map(|_| gen_opt(rng, miss, |r| gen_char(r, hostile))).collect()),
        _ => Val::Strs((0..n).map(|_| gen_opt(rng, miss, |r| gen_str(r, hostile, big && n < 3))).collect()),
    }
}

const INFO_POOL: [(&str, &str, char); 12] =
    [("S1", "1", 's'), ("SD", ".", 's'), ("S2", "2", 's'), ("C1", "1", 'c'), ("CD", ".", 'c'), ("CA", "A", 'c'), ("I1", "1", 'i'), ("ID", ".", 'i'), ("F1", "1", 'f'), ("FD", ".", 'f'), ("B0", "0", 'b'), ("END", "1", 'i')];
const FMT_POOL: [(&str, &str, char); 10] = [("M1", "1", 's'), ("MD", ".", 's'), ("M2", "2", 's'), ("L1", "1", 'c'), ("LD", ".", 'c'), ("J1", "1", 'i'), ("JD", ".", 'i'), ("K1", "1", 'f'), ("KD", ".", 'f'), ("LR", "R", 'c')];

fn gen_header(rng: &mut Rng) -> Hdr {
    let v44 = rng.chance(1, 3);
    let samples = *rng.pick(&[0usize, 0, 1, 1, 2, 3, 4]);
    let mut defs = vec![];
    let nc = 1 + rng.below(3);
    for i in 0..nc {
        defs.push(Def { kind: 'C', name: format!("sq{i}"), idx: None, num: "", ty: ' ' });
    }
    for (n, num, ty) in INFO_POOL {
        if rng.chance(3, 5) {
            defs.push(Def { kind: 'I', name: n.into(), idx: None, num, ty });
        }
    }
    if rng.chance(1, 4) {
        defs.push(Def { kind: 'F', name: "PASS".into(), idx: None, num: "", ty: ' ' });
    }
    for f in ["q10", "s50", "lowq", "f4"] {
        if rng.chance(2, 3) {
            defs.push(Def { kind: 'F', name: f.into(), idx: None, num: "", ty: ' ' });
        }
    }
    if samples > 0 {
        if rng.chance(1, 2) {
            defs.push(Def { kind: 'G', name: "GT".into(), idx: None, num: "1", ty: 's' });
        }
        for (n, num, ty) in FMT_POOL {
            if rng.chance(3, 5) {
                defs.push(Def { kind: 'G', name: n.into(), idx: None, num, ty });
            }
        }
    }
    if rng.chance(1, 3) {
        // explicit IDX: injective, PASS = 0, gaps; sometimes beyond 127 / 32767 (Int16 / Int32 keys)
        let mut names: Vec<String> = vec![];
        for d in defs.iter().filter(|d| d.kind != 'C') {
            if d.name != "PASS" && !names.contains(&d.name) {
                names.push(d.name.clone());
            }
        }
        let spread = *rng.pick(&[1u64, 2, 40, 3000, 20_000]);
        let mut pool: Vec<usize> = vec![];
        let mut next = 1 + if rng.chance(1, 4) { 120 } else { 0 } + if rng.chance(1, 6) { 32_700 } else { 0 };
        for _ in 0..names.len() {
            next += rng.below(spread) as usize;
            pool.push(next);
            next += 1;
        }
        for i in (1..pool.len()).rev() {
            let j = rng.below(i as u64 + 1) as usize;
            pool.swap(i, j);
        }
        for d in defs.iter_mut().filter(|d| d.kind != 'C') {
            d.idx = Some(if d.name == "PASS" { 0 } else { pool[names.iter().position(|n| *n == d.name).unwrap()] });
        }
        let base = *rng.pick(&[0usize, 0, 126, 32766]);
        for (i, d) in defs.iter_mut().filter(|d| d.kind == 'C').enumerate() {
            d.idx = Some(base + 2 * i);
        }
    }
    Hdr { v44, samples, defs }
}

fn gen_record(rng: &mut Rng, h: &Hdr, big: bool) -> Rec {
    // most records are meant to be well-formed; the others carry unrepresentable values
    let hostile = *rng.pick(&[0u64, 0, 0, 8, 30]);
    let contigs: Vec<&Def> = h.defs.iter().filter(|d| d.kind == 'C').collect();
    let chrom = rng.pick(&contigs).name.clone();
    let pos = match rng.below(12) {
        0 => 1,
        1 => i32::MAX as usize,
        2 => 0,
        3 => i32::MAX as usize - 1,
        _ => 1 + rng.below(1_000_000) as usize,
    };
    let qual_hostile = if hostile > 0 && rng.chance(1, 4) { 200 } else { 0 };
    let qual = if rng.chance(1, 3) { None } else { Some(gen_float(rng, qual_hostile)) };
    let mut ids: Vec<String> = vec![];
    for _ in 0..*rng.pick(&[0u64, 0, 1, 2, 3]) {
        let mut w = sv(&gen_str(rng, 0, false));
        if hostile > 0 && rng.chance(1, 25) {
            w = format!("{w};{}", ids.first().cloned().unwrap_or_else(|| w.clone()));
        }
        if !ids.contains(&w) {
            ids.push(w);
        }
    }
    let bases = |rng: &mut Rng, n: usize| -> String { (0..n).map(|_| *rng.pick(b"ACGT") as char).collect() };
    let rl = if hostile > 0 && rng.chance(1, 15) { 0 } else { gen_strlen(rng, big).min(if big { 70000 } else { 300 }) };
    let refb = bases(rng, rl);
    let n_alt = match rng.below(40) {
        0 => 14,
        1 => 15,
        2 => 16,
        _ => *rng.pick(&[0usize, 1, 1, 1, 2, 3]),
    };
    let alts: Vec<String> = (0..n_alt)
        .map(|_| match rng.below(10) {
            0 => "<DEL>".to_string(),
            1 => "*".to_string(),
            2 if hostile > 0 => String::new(),
            3 => {
                let n = gen_strlen(rng, false);
                bases(rng, n)
            }
            _ => {
                let n = 1 + rng.below(3) as usize;
                bases(rng, n)
            }
        })
        .collect();
    let mut alts = alts;
    if alts.len() == 1 && alts[0].is_empty() {
        // the wire syntax shows a lone empty ALT like no ALT at all
        alts.push("A".into());
    }
    let fdefs: Vec<&Def> = h.defs.iter().filter(|d| d.kind == 'F').collect();
    let mut filters: Vec<String> = vec![];
    match rng.below(4) {
        0 => {}
        1 => filters.push("PASS".into()),
        _ => {
            for d in &fdefs {
                if d.name != "PASS" && rng.chance(1, 2) {
                    filters.push(d.name.clone());
                }
            }
            if rng.chance(1, 2) {
                filters.reverse();
            }
        }
    }
    let mut info = vec![];
    for d in h.defs.iter().filter(|d| d.kind == 'I') {
        if !rng.chance(1, 2) {
            continue;
        }
        let v = if d.name == "END" {
            match rng.below(8) {
                0 => Val::None,
                1 if hostile > 0 => Val::Int(pos as i32 - 1 - rng.below(3) as i32),
                2 => Val::Int(pos.min(i32::MAX as usize) as i32),
                3 => Val::Int(i32::MAX),
                _ => Val::Int((pos as u64 + rng.below(100_000)).min(i32::MAX as u64) as i32),
            }
        } else if d.ty != 'b' && rng.chance(1, 30) {
            Val::None
        } else {
            gen_value(rng, d.num, d.ty, hostile, big)
        };
        info.push((d.name.clone(), v));
    }
    for i in (1..info.len()).rev() {
        let j = rng.below(i as u64 + 1) as usize;
        info.swap(i, j);
    }
    let mut keys: Vec<String> = vec![];
    let mut rows: Vec<Vec<Val>> = vec![];
    if h.samples > 0 && rng.chance(9, 10) {
        let gdefs: Vec<&Def> = h.defs.iter().filter(|d| d.kind == 'G').collect();
        let mut cols: Vec<Vec<Val>> = vec![];
        for d in &gdefs {
            if !rng.chance(1, 2) {
                continue;
            }
            keys.push(d.name.clone());
            let mut col = vec![];
            if d.name == "GT" {
                let pl = *rng.pick(&[1usize, 2, 2, 3]);
                for _ in 0..h.samples {
                    // allele indices at and around the int8 coding limit: (allele + 1) << 1 | phased fits an
                    // i8 up to allele 62; 63 and above must be refused by the writer, never wrapped
                    let hi = rng.chance(1, 12);
                    let g: Vec<(Option<usize>, bool)> = (0..pl)
                        .map(|_| {
                            let a = if rng.chance(1, 6) {
                                None
                            } else if hi && rng.chance(1, 2) {
                                Some(*rng.pick(&[61usize, 62, 63, 64, 126, 127, 128, 255, 256]))
                            } else {
                                Some(rng.below(3) as usize)
                            };
                            (a, rng.chance(1, 2))
                        })
                        .collect();
                    col.push(Val::Gt(if h.v44 { g } else { norm_gt(&g, false) }));
                }
            } else {
                let missing_rate = *rng.pick(&[0u64, 0, 25, 60, 100]);
                for _ in 0..h.samples {
                    if rng.below(100) < missing_rate {
                        col.push(Val::None);
                    } else {
                        col.push(gen_value(rng, d.num, d.ty, hostile, big));
                    }
                }
                // a column with every sample missing is refused for most types: keep a few
                if col.iter().all(|v| *v == Val::None) && rng.chance(5, 6) {
                    let s = rng.below(h.samples as u64) as usize;
                    col[s] = gen_value(rng, d.num, d.ty, hostile, big);
                }
            }
            cols.push(col);
        }
        if !keys.is_empty() || rng.chance(1, 2) {
            for s in 0..h.samples {
                rows.push(cols.iter().map(|c| c[s].clone()).collect());
            }
        }
        // rows narrower than the key list: trailing missing values dropped (`0/1:5` for GT:DP:AD)
        if !keys.is_empty() && rng.chance(1, 5) {
            for row in rows.iter_mut() {
                while row.last() == Some(&Val::None) && rng.chance(2, 3) {
                    row.pop();
                }
            }
        }
    } else if h.samples > 0 && rng.chance(1, 2) {
        rows = vec![vec![]; h.samples];
    }
    Rec { chrom, pos, qual, ids, refb, alts, filters, info, keys, rows }
}

fn case_of(sub: u64, big: bool) -> (Hdr, Rec) {
    let mut rng = Rng::new(sub ^ 0xC10E_C0DE);
    let h = gen_header(&mut rng);
    let r = gen_record(&mut rng, &h, big);
    (h, r)
}

// ------------------------------------------------------------------------------------ corpus

fn d(kind: char, name: &str, idx: Option<usize>, num: &'static str, ty: char) -> Def {
    Def { kind, name: name.into(), idx, num, ty }
}

fn x_hdr(samples: usize, v44: bool) -> Hdr {
    Hdr {
        v44,
        samples,
        defs: vec![
            d('C', "sq0", None, "", ' '),
            d('C', "sq1", None, "", ' '),
            d('I', "S1", None, "1", 's'),
            d('I', "SD", None, ".", 's'),
            d('I', "C1", None, "1", 'c'),
            d('I', "CD", None, ".", 'c'),
            d('I', "I1", None, "1", 'i'),
            d('I', "ID", None, ".", 'i'),
            d('I', "F1", None, "1", 'f'),
            d('I', "FD", None, ".", 'f'),
            d('I', "B0", None, "0", 'b'),
            d('I', "END", None, "1", 'i'),
            d('F', "q10", None, "", ' '),
            d('F', "s50", None, "", ' '),
            d('G', "GT", None, "1", 's'),
            d('G', "M1", None, "1", 's'),
            d('G', "MD", None, ".", 's'),
            d('G', "L1", None, "1", 'c'),
            d('G', "LD", None, ".", 'c'),
            d('G', "J1", None, "1", 'i'),
            d('G', "JD", None, ".", 'i'),
            d('G', "K1", None, "1", 'f'),
            d('G', "KD", None, ".", 'f'),
        ],
    }
}

fn x_rec() -> Rec {
    Rec { chrom: "sq0".into(), pos: 100, qual: None, ids: vec![], refb: "A".into(), alts: vec!["C".into()], filters: vec![], info: vec![], keys: vec![], rows: vec![] }
}

fn s(x: &str) -> Option<Vec<u8>> {
    Some(x.as_bytes().to_vec())
}

fn corpus_cases(thorough: bool) -> Vec<(String, Hdr, Rec)> {
    let mut out = vec![];
    let mut add = |name: &str, h: Hdr, r: Rec| out.push((format!("xcorpus {name}"), h, r));
    // ---- INFO strings: plain, the values BCF cannot tell apart, long
    for (i, v) in ["abc", ".", "", "a,b", "a\0b", "abc\0", " ", "é𝄞", "a;b=c"].iter().enumerate() {
        let mut r = x_rec();
        r.info = vec![("S1".into(), Val::Str(v.as_bytes().to_vec()))];
        add(&format!("info-str-{i}"), x_hdr(0, false), r);
    }
    for (i, v) in [vec![s("a"), s("bc")], vec![s("a"), None, s("")], vec![None], vec![s(".")], vec![s("a,b")], vec![s("")], vec![], vec![s(""), s("")], vec![None, None], vec![s("a\0"), s("b")], vec![s(".."), s(".a")]]
        .into_iter()
        .enumerate()
    {
        let mut r = x_rec();
        r.info = vec![("SD".into(), Val::Strs(v))];
        add(&format!("info-strs-{i}"), x_hdr(0, false), r);
    }
    for (i, c) in [b'a', b'.', b',', 0u8, b' '].iter().enumerate() {
        let mut r = x_rec();
        r.info = vec![("C1".into(), Val::Char(*c))];
        add(&format!("info-char-{i}"), x_hdr(0, false), r);
    }
    for (i, v) in [vec![Some(b'a'), Some(b'b')], vec![Some(b'a'), None], vec![None], vec![Some(b'.')], vec![Some(b',')], vec![], vec![Some(0u8)], vec![Some(b'a'), Some(b','), Some(b'b')]].into_iter().enumerate() {
        let mut r = x_rec();
        r.info = vec![("CD".into(), Val::Chars(v))];
        add(&format!("info-chars-{i}"), x_hdr(0, false), r);
    }
    for n in [14usize, 15, 16, 127, 128, 255, 256, 32767, 32768, 65535, 65536, 70000] {
        let mut r = x_rec();
        r.info = vec![("S1".into(), Val::Str(vec![b'x'; n])), ("SD".into(), Val::Strs(vec![Some(vec![b'y'; n]), None]))];
        r.ids = vec!["i".repeat(n)];
        r.refb = "ACGT".repeat(n / 4 + 1)[..n].to_string();
        r.alts = vec!["G".repeat(n)];
        add(&format!("long-{n}"), x_hdr(0, false), r);
    }
    // ---- FORMAT strings / characters
    let fmt = |key: &str, col: Vec<Val>| {
        let mut r = x_rec();
        r.keys = vec![key.to_string()];
        r.rows = col.into_iter().map(|v| vec![v]).collect();
        r
    };
    let st = |x: &str| Val::Str(x.as_bytes().to_vec());
    for (i, col) in [
        vec![st("ab"), Val::None, st("c")],
        vec![st("ab"), st(""), st("c")],
        vec![st(""), st(""), st("")],
        vec![Val::None, st(""), st("")],
        vec![st("."), st("a"), st("b")],
        vec![st("a\0b"), st("a"), st("abcd")],
        vec![st("ab\0"), st("a"), st("b")],
        vec![Val::None, Val::None, Val::None],
        vec![st("a,b"), st("é"), st("𝄞𝄞")],
        vec![st(&"z".repeat(15)), Val::None, st(&"y".repeat(300))],
    ]
    .into_iter()
    .enumerate()
    {
        add(&format!("fmt-str-{i}"), x_hdr(3, false), fmt("M1", col));
    }
    let sa = |xs: Vec<Option<&str>>| Val::Strs(xs.into_iter().map(|x| x.map(|s| s.as_bytes().to_vec())).collect());
    for (i, col) in [
        vec![sa(vec![Some("a"), Some("bc")]), Val::None, sa(vec![None])],
        vec![sa(vec![Some("a"), None, Some("")]), sa(vec![Some("b")]), sa(vec![None, None])],
        vec![Val::None, Val::None, Val::None],
        vec![sa(vec![]), sa(vec![Some("a")]), Val::None],
        vec![sa(vec![Some("")]), sa(vec![Some("a")]), Val::None],
        vec![sa(vec![Some(".")]), sa(vec![Some("a")]), Val::None],
        vec![sa(vec![Some("a,b")]), sa(vec![Some("a")]), Val::None],
        vec![sa(vec![Some("a\0b")]), sa(vec![Some("a")]), Val::None],
        vec![sa(vec![]), sa(vec![]), sa(vec![])],
    ]
    .into_iter()
    .enumerate()
    {
        add(&format!("fmt-strs-{i}"), x_hdr(3, false), fmt("MD", col));
    }
    for (i, col) in [
        vec![Val::Char(b'a'), Val::None, Val::Char(b'b')],
        vec![Val::Char(b'.'), Val::Char(b'a'), Val::None],
        vec![Val::Char(0), Val::Char(b'a'), Val::None],
        vec![Val::Char(b','), Val::Char(b'a'), Val::None],
        vec![Val::None, Val::None, Val::None],
    ]
    .into_iter()
    .enumerate()
    {
        add(&format!("fmt-char-{i}"), x_hdr(3, false), fmt("L1", col));
    }
    for (i, col) in [
        vec![Val::Chars(vec![Some(b'a'), None, Some(b'b')]), Val::None, Val::Chars(vec![Some(b'c')])],
        vec![Val::Chars(vec![None]), Val::Chars(vec![Some(b'a')]), Val::None],
        vec![Val::Chars(vec![]), Val::Chars(vec![Some(b'a')]), Val::None],
        vec![Val::Chars(vec![Some(b',')]), Val::Chars(vec![Some(b'a')]), Val::None],
        vec![Val::Chars(vec![Some(b'.')]), Val::Chars(vec![Some(b'a')]), Val::None],
        vec![Val::Chars(vec![Some(0)]), Val::Chars(vec![Some(b'a')]), Val::None],
        vec![Val::None, Val::None, Val::None],
    ]
    .into_iter()
    .enumerate()
    {
        add(&format!("fmt-chars-{i}"), x_hdr(3, false), fmt("LD", col));
    }
    // float columns (scalar, vector), every sample missing, empty vectors
    for (i, col) in [
        vec![Val::Float(0x3f80_0000), Val::None, Val::Float(0x7fc0_0001)],
        vec![Val::None, Val::None, Val::None],
        vec![Val::Float(0x7f80_0001), Val::Float(0), Val::None],
        vec![Val::Float(0x7f80_0002), Val::Float(0), Val::None],
    ]
    .into_iter()
    .enumerate()
    {
        add(&format!("fmt-float-{i}"), x_hdr(3, false), fmt("K1", col));
    }
    for (i, col) in [
        vec![Val::Floats(vec![Some(1), None]), Val::None, Val::Floats(vec![None])],
        vec![Val::Floats(vec![]), Val::Floats(vec![Some(5), Some(6), Some(7)]), Val::None],
        vec![Val::None, Val::None, Val::None],
        vec![Val::Floats(vec![]), Val::Floats(vec![]), Val::None],
    ]
    .into_iter()
    .enumerate()
    {
        add(&format!("fmt-floats-{i}"), x_hdr(3, false), fmt("KD", col));
    }
    // ---- site block
    // POS: first, last representable, beyond, missing
    for (i, p) in [1usize, i32::MAX as usize - 1, i32::MAX as usize, i32::MAX as usize + 1, 0].iter().enumerate() {
        let mut r = x_rec();
        r.pos = *p;
        add(&format!("pos-{i}"), x_hdr(0, false), r);
    }
    // rlen: END present / missing / before the start / at the start / non-positive; no REF
    for (i, (pos, end, refb)) in [(100usize, Some(100i32), "A"), (100, Some(250), "ACG"), (100, Some(99), "A"), (100, Some(0), "A"), (100, Some(-5), "A"), (100, None, "ACGT"), (0, Some(10), "A"), (0, None, "AC"), (100, Some(i32::MAX), "A"), (1, Some(i32::MAX), "A"), (100, Some(250), "")]
        .into_iter()
        .enumerate()
    {
        let mut r = x_rec();
        r.pos = pos;
        r.refb = refb.to_string();
        r.info = vec![("I1".into(), Val::Int(3)), ("END".into(), end.map(Val::Int).unwrap_or(Val::None))];
        add(&format!("end-{i}"), x_hdr(0, false), r);
    }
    // a `RecordBuf` whose END holds a string (the header parser insists on END being an Integer)
    let mut r = x_rec();
    r.info = vec![("END".into(), st_val("250"))];
    add("end-not-an-integer", x_hdr(0, false), r);
    let mut r = x_rec();
    r.refb = String::new();
    add("ref-empty", x_hdr(0, false), r);
    let mut r = x_rec();
    r.alts = vec!["C".into(), String::new()];
    add("alt-empty", x_hdr(0, false), r);
    // QUAL: value, NaN payloads, missing, the reserved patterns
    for q in [0x41f0_cccdu32, 0x7fc0_0000, 0x7fc0_0001, 0x7f80_0008, 0xffc0_0000, 0x7f80_0001, 0x7f80_0002, 0x7f80_0007, 0xff80_0001] {
        let mut r = x_rec();
        r.qual = Some(q);
        add(&format!("qual-{q:08x}"), x_hdr(0, false), r);
    }
    // counts: n_allele 65535 (last accepted) / 65536, n_info 65536 (undefined keys: refused before
    // they are looked at), n_fmt 255 / 256
    for n_alt in [65534usize, 65535] {
        // the accepted one costs the Lean model ~20 s (65535 length checks on a 130 KiB list): thorough tier
        if n_alt == 65534 && !thorough {
            continue;
        }
        let mut r = x_rec();
        r.alts = vec!["C".to_string(); n_alt];
        add(&format!("n-allele-{}", n_alt + 1), x_hdr(0, false), r);
    }
    let mut r = x_rec();
    r.info = (0..65536).map(|i| (format!("k{i}"), Val::Int(1))).collect();
    add("n-info-65536", x_hdr(0, false), r);
    for n in [255usize, 256] {
        let mut h = x_hdr(1, false);
        let mut r = x_rec();
        for i in 0..n {
            h.defs.push(d('G', &format!("g{i}"), None, "1", 'i'));
            r.keys.push(format!("g{i}"));
        }
        r.rows = vec![(0..n).map(|i| Val::Int(i as i32)).collect()];
        add(&format!("n-fmt-{n}"), h, r);
    }
    // IDs: none, one, several, a `;` inside an id, the same id twice after splitting
    for (i, ids) in [vec![], vec!["rs1"], vec!["rs1", "rs2", "x"], vec!["a;b"], vec!["a", "b;a"]].into_iter().enumerate() {
        let mut r = x_rec();
        r.ids = ids.into_iter().map(String::from).collect();
        add(&format!("ids-{i}"), x_hdr(0, false), r);
    }
    // FILTER: none, PASS, one, two in both orders
    for (i, f) in [vec![], vec!["PASS"], vec!["s50"], vec!["q10", "s50"], vec!["s50", "q10"], vec!["nope"]].into_iter().enumerate() {
        let mut r = x_rec();
        r.filters = f.into_iter().map(String::from).collect();
        add(&format!("filter-{i}"), x_hdr(0, false), r);
    }
    // dictionary indices on both sides of 127 and 32767: contig, INFO key, FILTER vector, FORMAT key
    for (i, base) in [126usize, 127, 128, 32766, 32767, 32768].into_iter().enumerate() {
        let mut h = x_hdr(2, false);
        for (j, dd) in h.defs.iter_mut().filter(|d| d.kind != 'C').enumerate() {
            dd.idx = Some(if j == 0 { base } else if j == 1 { base + 1 } else { 2 + j });
        }
        // S1 = base, SD = base + 1; move the filters and one FORMAT key up as well
        for dd in h.defs.iter_mut() {
            if dd.name == "q10" {
                dd.idx = Some(base + 2);
            }
            if dd.name == "s50" {
                dd.idx = Some(1);
            }
            if dd.name == "M1" {
                dd.idx = Some(base + 3);
            }
        }
        for (j, dd) in h.defs.iter_mut().filter(|d| d.kind == 'C').enumerate() {
            dd.idx = Some(base + j);
        }
        let mut r = x_rec();
        r.chrom = "sq1".into();
        r.info = vec![("S1".into(), st_val("v")), ("SD".into(), Val::Strs(vec![s("w")]))];
        r.filters = vec!["s50".into(), "q10".into()];
        r.keys = vec!["M1".into(), "J1".into()];
        r.rows = vec![vec![st_val("p"), Val::Int(1)], vec![st_val("qq")]];
        add(&format!("idx-{i}"), h, r);
    }
    // unknown names
    let mut r = x_rec();
    r.chrom = "nope".into();
    add("chrom-unknown", x_hdr(0, false), r);
    let mut r = x_rec();
    r.info = vec![("ZZ".into(), Val::Int(1))];
    add("info-key-unknown", x_hdr(0, false), r);
    // samples: no keys and no rows / rows of nothing; keys with fewer rows than samples; narrow rows
    let mut r = x_rec();
    r.rows = vec![vec![], vec![]];
    add("rows-without-keys", x_hdr(2, false), r);
    add("no-rows-2-samples", x_hdr(2, false), x_rec());
    let mut r = x_rec();
    r.keys = vec!["J1".into()];
    add("keys-without-rows-0-samples", x_hdr(0, false), r);
    let mut r = x_rec();
    r.keys = vec!["J1".into()];
    r.rows = vec![vec![Val::Int(1)]];
    add("one-row-2-samples", x_hdr(2, false), r);
    let mut r = x_rec();
    r.keys = vec!["GT".into(), "J1".into(), "MD".into(), "LD".into(), "KD".into(), "JD".into()];
    r.rows = vec![
        vec![Val::Gt(vec![(Some(0), false), (Some(1), true)]), Val::Int(5), Val::Strs(vec![s("a")]), Val::Chars(vec![Some(b'c')]), Val::Floats(vec![Some(1)]), Val::Ints(vec![Some(1)])],
        vec![Val::Gt(vec![(Some(1), true), (Some(1), true)]), Val::Int(6)],
        vec![Val::Gt(vec![(None, false), (None, false)])],
    ];
    add("narrow-rows-43", x_hdr(3, false), r.clone());
    add("narrow-rows-44", x_hdr(3, true), r);
    out
}

fn st_val(x: &str) -> Val {
    Val::Str(x.as_bytes().to_vec())
}

/// hand-framed records through both readers (`c10 dec …`, the request word of c10.rs): the reader
/// paths a record written by noodles never takes — an id / a filter twice, an INFO key twice, typed
/// "no string" alleles, the sign checks of the fixed fields, reserved QUAL codes.
fn dec_corpus(ctx: &mut Ctx) {
    let h = x_hdr(2, false);
    let header = parse_header(&h).unwrap();
    // dictionary of x_hdr: PASS 0, S1 1, SD 2, C1 3, CD 4, I1 5, ID 6, F1 7, FD 8, B0 9, END 10, q10 11, s50 12, GT 13, M1 14, …
    struct Site {
        chrom: i32,
        pos: i32,
        rlen: i32,
        qual: u32,
        n_info: u16,
        n_allele: u16,
        n_fmt: u8,
        n_sample: u32,
        rest: Vec<u8>,
    }
    let base = |rest: &[u8]| Site { chrom: 0, pos: 99, rlen: 1, qual: 0x7f80_0001, n_info: 0, n_allele: 2, n_fmt: 0, n_sample: 2, rest: rest.to_vec() };
    let enc = |s: &Site| -> Vec<u8> {
        let mut v = vec![];
        v.extend(s.chrom.to_le_bytes());
        v.extend(s.pos.to_le_bytes());
        v.extend(s.rlen.to_le_bytes());
        v.extend(s.qual.to_le_bytes());
        v.extend(s.n_info.to_le_bytes());
        v.extend(s.n_allele.to_le_bytes());
        v.extend(((s.n_fmt as u32) << 24 | s.n_sample).to_le_bytes());
        v.extend(&s.rest);
        v
    };
    let frame = |site: Vec<u8>, smp: Vec<u8>| -> Vec<u8> {
        let mut v = (site.len() as u32).to_le_bytes().to_vec();
        v.extend_from_slice(&(smp.len() as u32).to_le_bytes());
        v.extend(site);
        v.extend(smp);
        v
    };
    // ids, ref, alt, filter
    let plain: &[u8] = &[0x07, 0x17, b'A', 0x17, b'C', 0x00];
    let mut cases: Vec<(&str, Vec<u8>)> = vec![];
    cases.push(("plain", frame(enc(&base(plain)), vec![])));
    cases.push(("ids-twice", frame(enc(&base(&[0x57, b'a', b';', b'a', b';', b'b', 0x17, b'A', 0x17, b'C', 0x00])), vec![])));
    cases.push(("filter-twice", frame(enc(&base(&[0x07, 0x17, b'A', 0x17, b'C', 0x21, 11, 11])), vec![])));
    cases.push(("filter-two", frame(enc(&base(&[0x07, 0x17, b'A', 0x17, b'C', 0x21, 12, 11])), vec![])));
    let mut s = base(&[0x07, 0x17, b'A', 0x17, b'C', 0x00, 0x11, 5, 0x11, 1, 0x11, 5, 0x11, 2]);
    s.n_info = 2;
    cases.push(("info-key-twice", frame(enc(&s), vec![])));
    cases.push(("ref-none", frame(enc(&base(&[0x07, 0x07, 0x17, b'C', 0x00])), vec![])));
    cases.push(("alt-none", frame(enc(&base(&[0x07, 0x17, b'A', 0x07, 0x00])), vec![])));
    let mut s = base(&[0x07, 0x00]);
    s.n_allele = 0;
    cases.push(("n-allele-0", frame(enc(&s), vec![])));
    let mut s = base(plain);
    s.rlen = -1;
    cases.push(("rlen-negative", frame(enc(&s), vec![])));
    let mut s = base(plain);
    s.rlen = 0;
    cases.push(("rlen-0", frame(enc(&s), vec![])));
    let mut s = base(plain);
    s.pos = -1;
    cases.push(("pos-missing", frame(enc(&s), vec![])));
    let mut s = base(plain);
    s.pos = -2;
    cases.push(("pos-negative", frame(enc(&s), vec![])));
    let mut s = base(plain);
    s.pos = i32::MAX;
    cases.push(("pos-max", frame(enc(&s), vec![])));
    let mut s = base(plain);
    s.chrom = -1;
    cases.push(("chrom-negative", frame(enc(&s), vec![])));
    let mut s = base(plain);
    s.chrom = 2;
    cases.push(("chrom-unknown", frame(enc(&s), vec![])));
    for q in [0x7f80_0002u32, 0x7f80_0007, 0x7fc0_0000, 0x7f80_0008] {
        let mut s = base(plain);
        s.qual = q;
        cases.push(("qual", frame(enc(&s), vec![])));
    }
    // n_fmt = 1, n_sample = 2: M1 (14) as two NUL-padded strings; n_sample = 3 with the same block (short)
    let mut s = base(plain);
    s.n_fmt = 1;
    cases.push(("fmt-str", frame(enc(&s), vec![0x11, 14, 0x27, b'a', 0, b'b', b'c'])));
    let mut s = base(plain);
    s.n_fmt = 1;
    s.n_sample = 3;
    cases.push(("fmt-str-short", frame(enc(&s), vec![0x11, 14, 0x27, b'a', 0, b'b', b'c'])));
    // l_shared one byte short / one byte long
    let good = frame(enc(&base(plain)), vec![]);
    let mut short = good.clone();
    short[0] -= 1;
    cases.push(("l-shared-short", short));
    let mut long = good.clone();
    long[0] += 1;
    long.push(0);
    cases.push(("l-shared-long", long));
    let hdr_stream = {
        let mut w = bcf::io::Writer::from(Vec::new());
        w.write_header(&header).unwrap();
        w.into_inner()
    };
    for (name, bytes) in cases {
        let mut stream = hdr_stream.clone();
        stream.extend_from_slice(&bytes);
        let case = format!("xdec {name}");
        ctx.eval(Some(fnv(format!("{case}{}", hex(&bytes)).as_bytes())));
        let e = guarded(|| -> std::io::Result<Rec> {
            let mut rd = bcf::io::Reader::from(&stream[..]);
            let h2 = rd.read_header()?;
            let mut out = vcf::variant::RecordBuf::default();
            rd.read_record_buf(&h2, &mut out)?;
            Ok(from_record_buf(&out))
        });
        let l = guarded(|| -> Result<Rec, String> {
            let mut rd = bcf::io::Reader::from(&stream[..]);
            let h2 = rd.read_header().map_err(es)?;
            let mut rec = bcf::Record::default();
            rd.read_record(&mut rec).map_err(es)?;
            from_lazy(&rec, &h2)
        });
        let (e, l) = match (e, l) {
            (Ok(e), Ok(l)) => (e, l),
            (e, l) => {
                ctx.fail("x-reader-panic", format!("reader panicked on hand-framed record {name}: eager {:?} lazy {:?}", e.err(), l.err()), case);
                continue;
            }
        };
        let f = |x: Result<Rec, String>| x.map(|r| fmt_rec(&r)).unwrap_or_else(|_| "err".into());
        ctx.corr(format!("c10 dec {} {}", fmt_hdr_words(&h), hex(&bytes)), format!("E {} L {}", f(e.map_err(|e| e.to_string())), f(l)));
        ctx.bump("x_dec_corpus");
        // `bcf::Record::end()` on the same bytes (only when `read_record` itself accepts them)
        let end = guarded(|| -> Result<usize, String> {
            let mut rd = bcf::io::Reader::from(&stream[..]);
            rd.read_header().map_err(es)?;
            let mut rec = bcf::Record::default();
            rd.read_record(&mut rec).map_err(es)?;
            rec.end().map(usize::from).map_err(es)
        });
        let indexed = guarded(|| {
            let mut rd = bcf::io::Reader::from(&stream[..]);
            rd.read_header().is_ok() && rd.read_record(&mut bcf::Record::default()).is_ok()
        });
        if let (Ok(end), Ok(true)) = (end, indexed) {
            ctx.corr(format!("c10 end {}", hex(&bytes)), end.map(|n| n.to_string()).unwrap_or_else(|_| "err".into()));
            ctx.bump("x_dec_end");
        }
    }
}

fn histogram(ctx: &mut Ctx, h: &Hdr, r: &Rec) {
    ctx.bump(&format!("x_samples_{}", h.samples));
    ctx.bump(if h.defs.iter().any(|d| d.idx.is_some()) { "x_header_idx_explicit" } else { "x_header_idx_implicit" });
    let lenclass = |n: usize| match n {
        0 => "0",
        1..=14 => "1..14",
        15..=127 => "15..127",
        128..=32767 => "128..32767",
        _ => ">=32768",
    };
    let mut visit = |v: &Val, place: &str| match v {
        Val::Str(s) => ctx.bump(&format!("x_{place}_str_len[{}]", lenclass(s.len()))),
        Val::Strs(xs) => ctx.bump(&format!("x_{place}_strs_len[{}]", lenclass(join_strs(xs).len()))),
        Val::Char(_) => ctx.bump(&format!("x_{place}_char")),
        Val::Chars(xs) => ctx.bump(&format!("x_{place}_chars_n[{}]", lenclass(xs.len()))),
        Val::None => ctx.bump(&format!("x_{place}_missing")),
        _ => ctx.bump(&format!("x_{place}_numeric")),
    };
    for (_, v) in &r.info {
        visit(v, "info");
    }
    for v in r.rows.iter().flatten() {
        visit(v, "fmt");
    }
    ctx.bump(&format!("x_ref_len[{}]", lenclass(r.refb.len())));
    ctx.bump(&format!("x_n_alt[{}]", lenclass(r.alts.len())));
    ctx.bump(&format!("x_n_ids_{}", r.ids.len().min(3)));
    ctx.bump(&format!("x_n_filters_{}", r.filters.len().min(3)));
    ctx.bump(&format!("x_n_fmt_{}", r.keys.len().min(4)));
    if r.info.iter().any(|(k, v)| k == "END" && *v != Val::None) {
        ctx.bump("x_rlen_from_END");
    }
    if r.pos == 0 {
        ctx.bump("x_pos_missing");
    }
    if r.keys.len() > 0 && r.rows.iter().any(|row| row.len() < r.keys.len()) {
        ctx.bump("x_rows_narrower_than_keys");
    }
}

pub fn run(ctx: &mut Ctx) {
    for (n, h, r) in corpus_cases(ctx.tier_thorough) {
        run_case(ctx, &h, &r, &n, true);
        ctx.bump("x_corpus_cases");
    }
    dec_corpus(ctx);
    let n = ctx.n(1_200, 40_000);
    for it in 0..n {
        let sub = ctx.seed.wrapping_mul(10_000_019).wrapping_add(it);
        // long strings (≥ 32 KiB) in one case out of 40
        let big = it % 40 == 7;
        let (h, r) = case_of(sub, big);
        histogram(ctx, &h, &r);
        run_case(ctx, &h, &r, &format!("xcase {sub} {}", big as u8), true);
    }
}

/// `true` when the replay words are this module's
pub fn replay(ctx: &mut Ctx, case: &[String]) -> bool {
    match case.first().map(|s| s.as_str()) {
        Some("xcase") => {
            let sub: u64 = case.get(1).and_then(|s| s.parse().ok()).unwrap_or(0);
            let big = case.get(2).map(|s| s == "1").unwrap_or(false);
            let (h, r) = case_of(sub, big);
            run_case(ctx, &h, &r, &format!("xcase {sub} {}", big as u8), true);
            true
        }
        Some("xdec") => {
            dec_corpus(ctx);
            true
        }
        Some("xprobe") => {
            // parse one VCF text line (hex) against the corpus header and show what the VCF reader makes of it
            let h = x_hdr(3, false);
            let header = parse_header(&h).unwrap();
            let line = String::from_utf8(unhex(&case[1])).unwrap();
            let text = format!("{}{}\n", header_text(&h), line);
            let mut rd = vcf::io::Reader::new(text.as_bytes());
            let hd = rd.read_header().unwrap();
            let mut rb = vcf::variant::RecordBuf::default();
            match rd.read_record_buf(&hd, &mut rb) {
                Ok(_) => eprintln!("parsed: {}", fmt_rec(&from_record_buf(&rb))),
                Err(e) => eprintln!("vcf reader error: {e}"),
            }
            let _ = header;
            true
        }
        Some("xcorpus") => {
            let name = format!("xcorpus {}", case.get(1).cloned().unwrap_or_default());
            for (n, h, r) in corpus_cases(true) {
                if n == name {
                    run_case(ctx, &h, &r, &n, true);
                }
            }
            true
        }
        _ => false,
    }
}
