//! C16 — async readers and writers behave like their sync counterparts.
//!
//! BGZF layer: correspondence with the Lean poll machines (`c16 rd …`, `c16 wr …`; the sync side of
//! the theorem is tied to the real sync reader by `c02 ops …` requests on the same cases) and an
//! oracle that runs the same operation history on the real async reader (adversarial async source,
//! 1..8 workers) and the real sync reader and compares op by op.
//! Format layer (BAM, SAM, BCF, VCF, CRAM, FASTA, FASTQ, GFF, CSI, tabix): oracle only — async
//! reader on an adversarial source vs sync reader on the same bytes; async writer on an adversarial
//! sink vs sync writer for the same calls.
use super::c01::{gen_payload, split_members, stored_member, EOF, MAX_BUF};
use super::c02::{self, gen_file, resolve, table, Blk};
use crate::adversary::{block_on, poll_schedule, AsyncSchedReader, AsyncScriptSink, Poll1};
use crate::common::*;
use noodles_bgzf as bgzf;
use std::io::{BufRead, Cursor, Read, Write};
use std::num::NonZero;
use tokio::io::{AsyncBufReadExt, AsyncReadExt, AsyncWriteExt};

#[path = "c16_formats.rs"]
mod formats;

// ------------------------------------------------------------------ BGZF reader

#[derive(Clone, Debug)]
pub enum Op {
    Read(usize),
    ReadExact(usize),
    /// fill_buf, then consume min(n, returned length)
    FillConsume(usize),
    Seek(u64, u16),
    Tell,
}

fn fmt_bytes(b: &[u8]) -> String {
    if b.len() <= 32 { hex(b) } else { format!("{}:{}", b.len(), crc32(b)) }
}

fn fmt_layout(layout: &[Blk]) -> String {
    if layout.is_empty() {
        return "-".into();
    }
    layout.iter().map(|b| format!("{}:{}", b.csize, hex(&b.data))).collect::<Vec<_>>().join(",")
}

fn fmt_ops(ops: &[Op], c02_syntax: bool) -> String {
    if ops.is_empty() {
        return "-".into();
    }
    ops.iter()
        .map(|o| match o {
            Op::Read(n) => format!("r{n}"),
            Op::ReadExact(n) => format!("x{n}"),
            Op::FillConsume(n) => if c02_syntax { format!("b,c{n}") } else { format!("f{n}") },
            Op::Seek(c, u) => format!("s{c}/{u}"),
            Op::Tell => "t".into(),
        })
        .collect::<Vec<_>>()
        .join(",")
}

fn fmt_sched(s: &[Poll1]) -> String {
    if s.is_empty() {
        return "-".into();
    }
    s.iter().take(48).map(|p| match p { Poll1::Pending => "p".to_string(), Poll1::Ready(n) => n.to_string() }).collect::<Vec<_>>().join(",")
}

fn gen_ops(rng: &mut Rng, layout: &[Blk], t: &c02::Tab) -> Vec<Op> {
    let n = 1 + rng.below(20);
    let mut ops = vec![];
    let total = t.flat.len();
    for _ in 0..n {
        let k = rng.below(layout.len() as u64 + 1) as usize;
        let blen = layout.get(k).map(|b| b.data.len()).unwrap_or(0);
        match rng.below(16) {
            0 | 1 | 2 => {
                let n = *rng.pick(&[0usize, 1, 3, 7, 40, 65535, 65536, 70000, blen, blen + 1, blen.saturating_sub(1)]);
                ops.push(Op::Read(n));
            }
            3 | 4 | 5 => {
                let n = *rng.pick(&[0usize, 1, 2, 5, 9, 41, blen, blen + 1, 65536, 65537, 131072, total + 1]);
                ops.push(Op::ReadExact(n));
            }
            6 | 7 => {
                let c = *rng.pick(&[0usize, 1, 2, blen, blen / 2, blen + 5, 100_000]);
                ops.push(Op::FillConsume(c));
            }
            8 | 9 | 10 | 11 => {
                // seek to a byte boundary: any member (incl. the end of the file), any offset 0..=len.
                // An offset > 0 into an EMPTY member names no byte (the sync reader applies it to the
                // next non-empty member): outside the property, never generated.
                let u = match rng.below(4) {
                    0 => 0,
                    1 => blen,
                    _ => rng.below(blen as u64 + 1) as usize,
                };
                ops.push(Op::Seek(t.coff[k] as u64, u.min(65535) as u16));
            }
            12 => {
                // offset beyond a NON-EMPTY member, or beyond the end-of-file position: the sync
                // reader answers InvalidInput
                let at_end = k == layout.len();
                if (blen > 0 || at_end) && blen < 65535 {
                    ops.push(Op::Seek(t.coff[k] as u64, (blen + 1 + rng.below(3) as usize).min(65535) as u16));
                }
            }
            _ => ops.push(Op::Tell),
        }
    }
    ops
}

/// one answer per op: `<out>@<c>/<u>#<position>`; Err(panic text) when the reader panicked
type Answers = Result<Vec<String>, (usize, String)>;

/// also returns the answers at the granularity of the `c02 ops` suite (fill_buf and consume are two ops there)
fn run_sync(file: &[u8], ops: &[Op]) -> (Answers, Vec<String>) {
    let mut r = bgzf::io::Reader::new(Cursor::new(file.to_vec()));
    let mut out = vec![];
    let mut fine = vec![];
    for (i, op) in ops.iter().enumerate() {
        let mut mid: Option<String> = None;
        let a = guarded(|| match op {
            Op::Read(n) => {
                let mut buf = vec![0u8; *n];
                match r.read(&mut buf) {
                    Ok(k) => fmt_bytes(&buf[..k]),
                    Err(e) => errclass(&e).to_string(),
                }
            }
            Op::ReadExact(n) => {
                let mut buf = vec![0u8; *n];
                match r.read_exact(&mut buf) {
                    Ok(()) => fmt_bytes(&buf),
                    Err(e) => errclass(&e).to_string(),
                }
            }
            Op::FillConsume(n) => match r.fill_buf() {
                Ok(b) => {
                    let s = fmt_bytes(b);
                    let k = (*n).min(b.len());
                    let (c, u): (u64, u16) = r.virtual_position().into();
                    mid = Some(format!("{s}@{c}/{u}#{}", r.position()));
                    r.consume(k);
                    s
                }
                Err(e) => errclass(&e).to_string(),
            },
            Op::Seek(c, u) => match r.seek(bgzf::VirtualPosition::try_from((*c, *u)).unwrap()) {
                Ok(_) => "ok".into(),
                Err(e) => errclass(&e).to_string(),
            },
            Op::Tell => {
                let (c, u) = r.virtual_position().into();
                format!("v{c}/{u}")
            }
        })
        .and_then(|a| guarded(|| <(u64, u16)>::from(r.virtual_position())).map(|(c, u)| (a, format!("@{c}/{u}#{}", r.position()))));
        match a {
            Ok((a, at)) => {
                if let Op::FillConsume(_) = op {
                    match mid {
                        Some(m) => {
                            fine.push(m);
                            fine.push(format!("ok{at}"));
                        }
                        None => {
                            // fill_buf failed: the c02 suite would still run `consume`
                            fine.push(format!("{a}{at}"));
                            fine.push(format!("ok{at}"));
                        }
                    }
                } else {
                    fine.push(format!("{a}{at}"));
                }
                out.push(format!("{a}{at}"));
            }
            Err(p) => return (Err((i, p)), fine),
        }
    }
    (Ok(out), fine)
}

fn run_async(file: &[u8], ops: &[Op], workers: usize, sched: Vec<Poll1>, fallback: usize) -> Answers {
    let src = AsyncSchedReader::new(file.to_vec(), sched, fallback);
    let ops = ops.to_vec();
    let res = guarded(move || {
        block_on(async move {
            let mut r = bgzf::r#async::io::reader::Builder::default().set_worker_count(NonZero::new(workers).unwrap()).build_from_reader(src);
            let mut out: Vec<String> = vec![];
            for (i, op) in ops.iter().enumerate() {
                // a panic inside an op unwinds through block_on; remember how far we got
                PROGRESS.with(|p| p.set(i));
                let a = match op {
                    Op::Read(n) => {
                        let mut buf = vec![0u8; *n];
                        match r.read(&mut buf).await {
                            Ok(k) => fmt_bytes(&buf[..k]),
                            Err(e) => errclass(&e).to_string(),
                        }
                    }
                    Op::ReadExact(n) => {
                        let mut buf = vec![0u8; *n];
                        match r.read_exact(&mut buf).await {
                            Ok(_) => fmt_bytes(&buf),
                            Err(e) => errclass(&e).to_string(),
                        }
                    }
                    Op::FillConsume(n) => match r.fill_buf().await {
                        Ok(b) => {
                            let s = fmt_bytes(b);
                            let k = (*n).min(b.len());
                            r.consume(k);
                            s
                        }
                        Err(e) => errclass(&e).to_string(),
                    },
                    Op::Seek(c, u) => match r.seek(bgzf::VirtualPosition::try_from((*c, *u)).unwrap()).await {
                        Ok(_) => "ok".into(),
                        Err(e) => errclass(&e).to_string(),
                    },
                    Op::Tell => {
                        let (c, u) = r.virtual_position().into();
                        format!("v{c}/{u}")
                    }
                };
                let (c, u): (u64, u16) = r.virtual_position().into();
                out.push(format!("{a}@{c}/{u}#{}", r.position()));
            }
            out
        })
    });
    res.map_err(|p| (PROGRESS.with(|x| x.get()), p))
}

thread_local! {
    static PROGRESS: std::cell::Cell<usize> = const { std::cell::Cell::new(0) };
}

/// `out@c/u#pos` → (out, c, u, pos)
fn split_answer(a: &str) -> (&str, u64, u16, u64) {
    let (out, rest) = a.rsplit_once('@').unwrap();
    let (v, pos) = rest.split_once('#').unwrap();
    let (c, u) = v.split_once('/').unwrap();
    (out, c.parse().unwrap(), u.parse().unwrap(), pos.parse().unwrap())
}

fn seek_class(layout: &[Blk], t: &c02::Tab, op: &Op) -> &'static str {
    if let Op::Seek(c, u) = op {
        let k = t.coff.iter().position(|&x| x as u64 == *c).unwrap_or(usize::MAX);
        let blen = layout.get(k).map(|b| b.data.len()).unwrap_or(0);
        if (*u as usize) > blen {
            return "bgzf-async-seek-beyond-block";
        }
        if k == layout.len() {
            return "bgzf-async-seek-eof";
        }
    }
    "bgzf-async-reader"
}

struct RdCase {
    file: Vec<u8>,
    layout: Vec<Blk>,
    ops: Vec<Op>,
    workers: usize,
    sched: Vec<Poll1>,
    fallback: usize,
    sched_name: String,
    inf_bits: String,
}

fn rd_case_of(sub: u64) -> RdCase {
    let mut rng = Rng::new(sub);
    let (file, layout) = gen_file(&mut rng);
    let t = table(&layout);
    let ops = gen_ops(&mut rng, &layout, &t);
    let workers = 1 + rng.below(8) as usize;
    let kind = rng.below(4) as usize;
    let (sched, fallback, sched_name) = poll_schedule(&mut rng, kind, file.len());
    let nb = rng.below(12);
    let inf_bits: String = if nb == 0 { "-".into() } else { (0..nb).map(|_| if rng.chance(1, 2) { '0' } else { '1' }).collect() };
    RdCase { file, layout, ops, workers, sched, fallback, sched_name, inf_bits }
}

/// the property on the real code: async reader under the adversary == sync reader, op by op
fn rd_check(ctx: &mut Ctx, cs: &RdCase, case: &str, emit_corr: bool) {
    let t = table(&cs.layout);
    let (sync, sync_fine) = run_sync(&cs.file, &cs.ops);
    let asy = run_async(&cs.file, &cs.ops, cs.workers, cs.sched.clone(), cs.fallback);
    ctx.eval(if cs.layout.len() >= 2 && cs.ops.len() >= 2 { Some(fnv(case.as_bytes())) } else { None });
    let sync = match sync {
        Ok(s) => s,
        Err((i, p)) => {
            // the sync reader itself panicked: not this property's subject (C15), nothing to compare
            ctx.bump("sync_reader_panicked");
            let _ = (i, p);
            return;
        }
    };
    let mut failed = false;
    match &asy {
        Err((i, p)) => {
            // attribute the panic to the last seek at or before op i (the seek leaves the bad cursor)
            let cls = cs.ops[..=(*i).min(cs.ops.len() - 1)].iter().rev().map(|o| seek_class(&cs.layout, &t, o)).find(|c| *c != "bgzf-async-reader").unwrap_or("bgzf-async-reader");
            ctx.fail(cls, format!("async reader panicked at op {i} {:?}: {p} (workers {}, schedule {}); the sync reader answers {:?}", cs.ops.get(*i), cs.workers, cs.sched_name, sync.get(*i)), case.into());
            failed = true;
        }
        Ok(asy) => {
            // Reported positions must be numerically equal, except between a seek onto an EMPTY member
            // (which the async reader, unlike the sync reader, does not skip) and the next read: there
            // the two positions must name the same byte.
            let mut lagging = false;
            for (i, (a, s)) in asy.iter().zip(sync.iter()).enumerate() {
                match &cs.ops[i] {
                    Op::Seek(c, _) => {
                        let k = t.coff.iter().position(|&x| x as u64 == *c).unwrap_or(usize::MAX);
                        lagging = cs.layout.get(k).map(|b| b.data.is_empty()).unwrap_or(false);
                    }
                    Op::Read(_) | Op::FillConsume(_) => lagging = false,
                    Op::ReadExact(n) if *n > 0 => lagging = false,
                    _ => {}
                }
                let (ao, ac, au, _ap) = split_answer(a);
                let (so, sc, su, _sp) = split_answer(s);
                let same_out = if let (Some(av), Some(sv)) = (ao.strip_prefix('v'), so.strip_prefix('v')) {
                    let p = |v: &str| { let (c, u) = v.split_once('/').unwrap(); resolve(&cs.layout, &t, c.parse().unwrap(), u.parse().unwrap()) };
                    p(av).is_some() && p(av) == p(sv) && (lagging || av == sv)
                } else {
                    ao == so
                };
                let na = resolve(&cs.layout, &t, ac, au);
                let ns = resolve(&cs.layout, &t, sc, su);
                if !same_out || na.is_none() || na != ns || (!lagging && (ac, au) != (sc, su)) {
                    let cls = seek_class(&cs.layout, &t, &cs.ops[i]);
                    ctx.fail(cls, format!("op {i} {:?}: async reader answers {a} (names flat offset {na:?}), sync reader answers {s} (names {ns:?}); workers {}, schedule {}", cs.ops[i], cs.workers, cs.sched_name), case.into());
                    failed = true;
                    break;
                }
                if (ac, au) != (sc, su) {
                    ctx.bump("rd_position_differs_numerically_same_byte_after_seek_onto_empty_member");
                }
            }
        }
    }
    if emit_corr && !failed {
        if let Ok(asy) = asy {
            ctx.corr(
                format!("c16 rd {} {} {} {} {}", cs.workers, fmt_layout(&cs.layout), fmt_ops(&cs.ops, false), fmt_sched(&cs.sched), cs.inf_bits),
                if asy.is_empty() { "-".into() } else { asy.join(" ") },
            );
            // the sync side of the theorem, tied to the real sync reader on the same case
            ctx.corr(format!("c02 ops {} {}", fmt_layout(&cs.layout), fmt_ops(&cs.ops, true)), if sync_fine.is_empty() { "-".into() } else { sync_fine.join(" ") });
        }
    }
}

fn rd_corpus(ctx: &mut Ctx) {
    let a = stored_member(b"noodles");
    let b = stored_member(b"bgzf");
    let e = EOF.to_vec();
    let l1 = vec![Blk { csize: a.len(), data: b"noodles".to_vec() }];
    let mk = |file: &[u8], layout: &[Blk], ops: Vec<Op>, workers: usize, sched: Vec<Poll1>, fallback: usize, name: &str| RdCase {
        file: file.to_vec(),
        layout: layout.to_vec(),
        ops,
        workers,
        sched,
        fallback,
        sched_name: name.into(),
        inf_bits: "0101".into(),
    };
    let c1 = a.len() as u64;
    // F23: seek to the end-of-file position (file without / with EOF marker), then tell and read
    rd_check(ctx, &mk(&a, &l1, vec![Op::Read(3), Op::Seek(c1, 0), Op::Tell, Op::Read(10), Op::Tell], 1, vec![], 1, "one-byte"), "corpus rd-seek-eof", true);
    let mut f = a.clone();
    f.extend_from_slice(&e);
    let l1e = vec![l1[0].clone(), Blk { csize: 28, data: vec![] }];
    rd_check(ctx, &mk(&f, &l1e, vec![Op::ReadExact(7), Op::Tell, Op::Seek(c1 + 28, 0), Op::Tell, Op::Read(1), Op::Seek(0, 2), Op::ReadExact(5)], 2, vec![Poll1::Pending, Poll1::Ready(5)], usize::MAX, "pending-first"), "corpus rd-seek-eof-marker", true);
    // seek onto the EOF marker itself (an empty member at the end)
    rd_check(ctx, &mk(&f, &l1e, vec![Op::Seek(c1, 0), Op::Tell, Op::Read(4), Op::Tell], 3, vec![], 4096, "4k"), "corpus rd-seek-onto-eof-marker", true);
    // F23b: in-block offset beyond the block, then reads
    rd_check(ctx, &mk(&a, &l1, vec![Op::Seek(0, 9), Op::Tell, Op::ReadExact(1), Op::Read(5)], 1, vec![], usize::MAX, "all"), "corpus rd-seek-beyond", true);
    // empty member mid-file: seek onto it, positions around it
    let mut g = a.clone();
    g.extend_from_slice(&e);
    g.extend_from_slice(&b);
    g.extend_from_slice(&e);
    let l2 = vec![
        Blk { csize: a.len(), data: b"noodles".to_vec() },
        Blk { csize: 28, data: vec![] },
        Blk { csize: b.len(), data: b"bgzf".to_vec() },
        Blk { csize: 28, data: vec![] },
    ];
    let c2 = c1 + 28;
    let c3 = c2 + b.len() as u64;
    rd_check(ctx, &mk(&g, &l2, vec![Op::ReadExact(7), Op::Tell, Op::FillConsume(2), Op::Tell, Op::Seek(c1, 0), Op::Tell, Op::ReadExact(4), Op::Seek(0, 7), Op::Read(2), Op::Seek(c2, 4), Op::Read(1), Op::Seek(c3, 0), Op::Read(1), Op::Read(65536), Op::Tell], 4, (0..40).flat_map(|_| [Poll1::Pending, Poll1::Ready(3)]).collect(), usize::MAX, "pending+3"), "corpus rd-empty-mid", true);
    // two consecutive empty members: positions differ numerically, name the same byte
    let mut h = a.clone();
    h.extend_from_slice(&e);
    h.extend_from_slice(&e);
    h.extend_from_slice(&b);
    let l3 = vec![
        Blk { csize: a.len(), data: b"noodles".to_vec() },
        Blk { csize: 28, data: vec![] },
        Blk { csize: 28, data: vec![] },
        Blk { csize: b.len(), data: b"bgzf".to_vec() },
    ];
    rd_check(ctx, &mk(&h, &l3, vec![Op::Seek(c1, 0), Op::Tell, Op::Read(9), Op::Tell, Op::Read(9), Op::Tell], 8, vec![], 1, "one-byte"), "corpus rd-two-empties", true);
    // empty file, and a file that is only an EOF marker
    rd_check(ctx, &mk(&[], &[], vec![Op::Tell, Op::Read(5), Op::Seek(0, 0), Op::ReadExact(1), Op::FillConsume(3)], 1, vec![Poll1::Pending], usize::MAX, "pending-once"), "corpus rd-empty-file", true);
    rd_check(ctx, &mk(&e, &[Blk { csize: 28, data: vec![] }], vec![Op::Read(5), Op::Tell, Op::Seek(28, 0), Op::Tell, Op::Seek(0, 0), Op::Tell], 2, vec![], 1, "one-byte"), "corpus rd-only-eof", true);
}

// ------------------------------------------------------------------ BGZF reader on damaged input

/// read everything in 1000-byte reads; the transcript is the byte count + CRC of what was delivered
/// before the end, and how the stream ended (EOF or error class)
fn drain_sync(file: &[u8]) -> String {
    let mut r = bgzf::io::Reader::new(file);
    let mut got = vec![];
    let mut buf = vec![0u8; 1000];
    loop {
        match guarded(|| r.read(&mut buf)) {
            Ok(Ok(0)) => return format!("{}:{:08x} EOF", got.len(), crc32(&got)),
            Ok(Ok(n)) => got.extend_from_slice(&buf[..n]),
            Ok(Err(e)) => return format!("{}:{:08x} {}", got.len(), crc32(&got), errclass(&e)),
            Err(_) => return format!("{}:{:08x} panic", got.len(), crc32(&got)),
        }
    }
}

fn drain_async(file: &[u8], workers: usize, sched: Vec<Poll1>, fallback: usize) -> String {
    let src = AsyncSchedReader::new(file.to_vec(), sched, fallback);
    let got = std::sync::Arc::new(std::sync::Mutex::new(Vec::<u8>::new()));
    let g2 = got.clone();
    let r = guarded(move || {
        block_on(async move {
            let mut r = bgzf::r#async::io::reader::Builder::default().set_worker_count(NonZero::new(workers).unwrap()).build_from_reader(src);
            let mut buf = vec![0u8; 1000];
            loop {
                match r.read(&mut buf).await {
                    Ok(0) => return "EOF".to_string(),
                    Ok(n) => g2.lock().unwrap().extend_from_slice(&buf[..n]),
                    Err(e) => return errclass(&e).to_string(),
                }
            }
        })
    });
    let got = got.lock().unwrap().clone();
    format!("{}:{:08x} {}", got.len(), crc32(&got), r.unwrap_or_else(|_| "panic".into()))
}

/// a valid file cut at an arbitrary offset, or followed by a few stray bytes
fn damaged_case(ctx: &mut Ctx, sub: u64) {
    damaged_case_at(ctx, sub, None);
}

/// `forced = Some((k, d))`: the file of `sub` cut `d` bytes into block `k` (replay word `damagedat`)
fn damaged_case_at(ctx: &mut Ctx, sub: u64, forced: Option<(usize, usize)>) {
    let mut rng = Rng::new(sub);
    let case = match forced {
        None => format!("damaged {sub}"),
        Some((k, d)) => format!("damagedat {sub} {k} {d}"),
    };
    let (mut file, layout) = gen_file(&mut rng);
    if file.len() > 200_000 {
        return;
    }
    let mut judged = true;
    let pick = rng.below(4);
    let how = match pick {
        _ if forced.is_some() => {
            let (k, d) = forced.unwrap();
            if k >= layout.len() {
                return;
            }
            let start: usize = layout[..k].iter().map(|b| b.csize).sum();
            let cut = (start + d).min(file.len());
            file.truncate(cut);
            format!("cut at {cut} = block {k} + {d}")
        }
        3 if !layout.is_empty() => {
            // a cut at and around the end of a block HEADER: the trailing fragment is 0..=30 bytes, in
            // particular exactly the 18 header bytes with no payload
            let k = rng.below(layout.len() as u64) as usize;
            let start: usize = layout[..k].iter().map(|b| b.csize).sum();
            let cut = (start + rng.below(31) as usize).min(file.len());
            file.truncate(cut);
            format!("cut at {cut} = block {k} + {}", cut - start)
        }
        0 | 3 => {
            let cut = rng.below(file.len() as u64 + 1) as usize;
            file.truncate(cut);
            format!("cut at {cut}")
        }
        1 => {
            let n = 1 + rng.below(17) as usize;
            file.extend(std::iter::repeat(0x1f).take(n));
            format!("{n} stray bytes appended")
        }
        _ => {
            // A flipped bit is CORRUPTION, not truncation. Whether the sync reader notices depends on what the
            // previous block left in its buffer (observed: a flipped bit in the CDATA of the second of two
            // identical 64 KiB blocks is accepted by read() and rejected by read_to_end() — the inflater
            // resolves a back-reference before the start of the output from stale buffer contents). That is
            // C13/C15's subject; here such cases are counted, not judged.
            judged = false;
            if file.len() > 30 {
                let at = rng.below(file.len() as u64) as usize;
                file[at] ^= 1 << rng.below(8);
                format!("bit flipped at {at}")
            } else {
                "unchanged".to_string()
            }
        }
    };
    let workers = 1 + rng.below(8) as usize;
    let kind = rng.below(4) as usize;
    let (sched, fallback, sname) = poll_schedule(&mut rng, kind, file.len());
    if let Ok(d) = std::env::var("NVH_DUMP") {
        let _ = std::fs::write(format!("{d}/damaged.bin"), &file);
    }
    let s = drain_sync(&file);
    let a = drain_async(&file, workers, sched, fallback);
    ctx.eval(Some(fnv(case.as_bytes())));
    ctx.bump(&format!("damaged_sync_ends_{}", s.rsplit(' ').next().unwrap()));
    if s.ends_with("panic") {
        return; // the sync reader itself panics: C15's subject
    }
    if a != s {
        let (sd, se) = s.rsplit_once(' ').unwrap();
        let (ad, ae) = a.rsplit_once(' ').unwrap();
        if !judged {
            ctx.bump(&format!("damaged_bitflip_sync_{se}_async_{ae}"));
            return;
        }
        if se != "EOF" {
            // the sync path REJECTS this input. The property asks for "the same … errors": WHICH error the
            // async reader reports on a truncated stream is recorded, not judged (the two paths name the
            // same truncation differently); that it reports one is judged — a truncated stream the sync
            // reader rejects must not read as a complete one through the async reader.
            ctx.bump(&format!("damaged_rejected_by_sync_{se}_async_{ae}"));
            if ae == "EOF" {
                ctx.fail("bgzf-async-accepts-truncated", format!("{how}: the sync reader rejects the stream ({s}), the async reader reports a clean end of stream ({a}) (bytes:crc32 then how the stream ended; workers {workers}, schedule {sname})"), case);
            }
            return;
        }
        // The sync frame reader treats a trailing fragment shorter than a block header (< 18 bytes) as the
        // end of the stream; the async block codec hands the fragment to the block parser, which fails.
        let cls = if ae != "EOF" && ae != "panic" && sd == ad { "bgzf-async-trailing-fragment" } else { "bgzf-async-damaged-input" };
        ctx.fail(cls, format!("{how}: reading to the end, the async reader delivers {a}, the sync reader {s} (bytes:crc32 then how the stream ended; workers {workers}, schedule {sname})"), case);
    }
}

// ------------------------------------------------------------------ BGZF writer

#[derive(Clone, Debug)]
pub enum WOp {
    All(Vec<u8>),
    One(Vec<u8>),
    Flush,
}

pub struct WOut {
    pub per_op: Vec<String>,
    pub end: String,
    pub sink: Vec<u8>,
}

fn w_sync(level: u8, ops: &[WOp]) -> WOut {
    let mut sink: Vec<u8> = Vec::new();
    let mut per = vec![];
    let lvl = bgzf::io::writer::CompressionLevel::new(level).unwrap();
    let mut w = bgzf::io::writer::Builder::default().set_compression_level(lvl).build_from_writer(&mut sink);
    for op in ops {
        let r = match op {
            WOp::All(b) => w.write_all(b).map(|_| "ok".to_string()),
            WOp::One(b) => w.write(b).map(|amt| format!("amt{amt}")),
            WOp::Flush => w.flush().map(|_| "ok".to_string()),
        };
        match r {
            Ok(t) => per.push(t),
            Err(e) => {
                per.push(errclass(&e).to_string());
                break;
            }
        }
    }
    let end = match w.try_finish() {
        Ok(()) => "ok".to_string(),
        Err(e) => errclass(&e).to_string(),
    };
    let _ = w.into_inner();
    WOut { per_op: per, end, sink }
}

fn w_async(level: u8, ops: &[WOp], workers: usize, sched: Vec<Poll1>, fallback: usize) -> Result<WOut, String> {
    let (snk, acc) = AsyncScriptSink::new(sched, fallback);
    let ops = ops.to_vec();
    let r = guarded(move || {
        block_on(async move {
            let lvl = bgzf::io::writer::CompressionLevel::new(level).unwrap();
            let mut w = bgzf::r#async::io::writer::Builder::default().set_compression_level(lvl).set_worker_count(NonZero::new(workers).unwrap()).build_from_writer(snk);
            let mut per = vec![];
            for op in &ops {
                let r = match op {
                    WOp::All(b) => w.write_all(b).await.map(|_| "ok".to_string()),
                    WOp::One(b) => w.write(b).await.map(|amt| format!("amt{amt}")),
                    WOp::Flush => w.flush().await.map(|_| "ok".to_string()),
                };
                match r {
                    Ok(t) => per.push(t),
                    Err(e) => {
                        per.push(errclass(&e).to_string());
                        break;
                    }
                }
            }
            let end = match w.shutdown().await {
                Ok(()) => "ok".to_string(),
                Err(e) => errclass(&e).to_string(),
            };
            (per, end)
        })
    })?;
    let sink = acc.lock().unwrap().clone();
    Ok(WOut { per_op: r.0, end: r.1, sink })
}

fn gen_wops(rng: &mut Rng, small: bool) -> Vec<WOp> {
    let mut ops = vec![];
    let n = rng.below(9);
    for _ in 0..n {
        let len = if small {
            *rng.pick(&[0usize, 1, 5, 40, 300])
        } else {
            *rng.pick(&[0usize, 1, 7, 300, 20_000, MAX_BUF - 1, MAX_BUF, MAX_BUF + 1, 2 * MAX_BUF, 2 * MAX_BUF + 3, 70_000, 140_000])
        };
        let len = if len > 2 && rng.chance(1, 3) { 1 + rng.below(len as u64) as usize } else { len };
        let d = gen_payload(rng, len);
        match rng.below(8) {
            0 | 1 => ops.push(WOp::One(d)),
            _ => ops.push(WOp::All(d)),
        }
        if rng.chance(1, 4) {
            ops.push(WOp::Flush);
            if rng.chance(1, 4) {
                ops.push(WOp::Flush);
            }
        }
    }
    ops
}

fn member_sizes(file: &[u8]) -> Result<Vec<u32>, String> {
    split_members(file).map(|ms| ms.iter().map(|m| m.isize).collect())
}

struct WrCase {
    level: u8,
    ops: Vec<WOp>,
    workers: usize,
    sched: Vec<Poll1>,
    fallback: usize,
    sched_name: String,
    defl_bits: String,
}

fn wr_case_of(sub: u64) -> WrCase {
    let mut rng = Rng::new(sub);
    let small = rng.chance(1, 2);
    let ops = gen_wops(&mut rng, small);
    let level = *rng.pick(&[0u8, 1, 6, 6, 6, 9, 3]);
    let workers = 1 + rng.below(8) as usize;
    let total: usize = ops.iter().map(|o| match o { WOp::All(b) | WOp::One(b) => b.len(), WOp::Flush => 0 }).sum();
    let kind = rng.below(4) as usize;
    let (sched, fallback, sched_name) = poll_schedule(&mut rng, kind, total / 2 + 64);
    let nb = rng.below(12);
    let defl_bits: String = if nb == 0 { "-".into() } else { (0..nb).map(|_| if rng.chance(1, 2) { '0' } else { '1' }).collect() };
    WrCase { level, ops, workers, sched, fallback, sched_name, defl_bits }
}

fn fmt_wops(ops: &[WOp]) -> String {
    if ops.is_empty() {
        return "-".into();
    }
    ops.iter().map(|o| match o { WOp::All(b) => format!("a{}", hex(b)), WOp::One(b) => format!("w{}", hex(b)), WOp::Flush => "f".into() }).collect::<Vec<_>>().join(",")
}

fn wr_check(ctx: &mut Ctx, cs: &WrCase, case: &str, emit_corr: bool) {
    let s = w_sync(cs.level, &cs.ops);
    let a = w_async(cs.level, &cs.ops, cs.workers, cs.sched.clone(), cs.fallback);
    let total: usize = cs.ops.iter().map(|o| match o { WOp::All(b) | WOp::One(b) => b.len(), WOp::Flush => 0 }).sum();
    ctx.eval(if total > 1 { Some(fnv(case.as_bytes())) } else { None });
    let a = match a {
        Ok(a) => a,
        Err(p) => {
            ctx.fail("bgzf-async-writer", format!("async writer panicked: {p} (level {}, workers {}, schedule {})", cs.level, cs.workers, cs.sched_name), case.into());
            return;
        }
    };
    let ctxt = format!("level {}, workers {}, schedule {}", cs.level, cs.workers, cs.sched_name);
    if a.per_op != s.per_op || a.end != s.end {
        ctx.fail("bgzf-async-writer", format!("per-call results differ: async {:?} end {}, sync {:?} end {} ({ctxt})", a.per_op, a.end, s.per_op, s.end), case.into());
        return;
    }
    // decoded content
    let dec = |f: &[u8]| -> Result<Vec<u8>, String> {
        let mut out = vec![];
        bgzf::io::Reader::new(f).read_to_end(&mut out).map_err(|e| e.to_string())?;
        Ok(out)
    };
    let (da, ds) = (dec(&a.sink), dec(&s.sink));
    if da != ds || da.is_err() {
        ctx.fail("bgzf-async-writer", format!("decoded output differs: async {:?} bytes, sync {:?} bytes ({ctxt})", da.map(|v| v.len()), ds.map(|v| v.len())), case.into());
        return;
    }
    let (ma, ms) = (member_sizes(&a.sink), member_sizes(&s.sink));
    if ma != ms || ma.is_err() {
        ctx.fail("bgzf-async-writer", format!("block boundaries differ: async members {:?}, sync members {:?} ({ctxt})", ma, ms), case.into());
        return;
    }
    if !a.sink.ends_with(&EOF) {
        ctx.fail("bgzf-async-writer", format!("async output does not end with the EOF marker ({ctxt})"), case.into());
        return;
    }
    if a.sink != s.sink {
        ctx.fail("bgzf-async-writer", format!("same level, same calls, same block boundaries, but the bytes differ: async {}:{:08x}, sync {}:{:08x} ({ctxt})", a.sink.len(), crc32(&a.sink), s.sink.len(), crc32(&s.sink)), case.into());
        return;
    }
    if emit_corr {
        let table = match split_members(&a.sink) {
            Ok(ms) => {
                let v: Vec<String> = ms.iter().filter(|m| m.isize > 0).map(|m| format!("{}:{}:{}", m.crc, m.isize, hex(m.cdata))).collect();
                if v.is_empty() { "-".to_string() } else { v.join(",") }
            }
            Err(_) => "-".to_string(),
        };
        let per = if a.per_op.is_empty() { "-".to_string() } else { a.per_op.join(",") };
        ctx.corr(
            format!("c16 wr {} {} {} {} {} {}", cs.workers, cs.level, fmt_wops(&cs.ops), table, fmt_sched(&cs.sched), cs.defl_bits),
            format!("{per} | end={} sink={}:{} members={}", a.end, a.sink.len(), crc32(&a.sink), ma.unwrap().iter().map(|n| n.to_string()).collect::<Vec<_>>().join(",")),
        );
    }
}

fn wr_corpus(ctx: &mut Ctx) {
    let mk = |ops: Vec<WOp>, level: u8, workers: usize, sched: Vec<Poll1>, fallback: usize, name: &str| WrCase { level, ops, workers, sched, fallback, sched_name: name.into(), defl_bits: "010".into() };
    // nothing written
    wr_check(ctx, &mk(vec![], 6, 1, vec![], 1, "one-byte"), "corpus wr-empty", true);
    wr_check(ctx, &mk(vec![WOp::Flush, WOp::Flush], 6, 2, vec![Poll1::Pending], usize::MAX, "pending-once"), "corpus wr-flush-only", true);
    // small writes and flushes
    wr_check(ctx, &mk(vec![WOp::All(b"noodles".to_vec()), WOp::Flush, WOp::All(b"bgzf".to_vec()), WOp::All(vec![]), WOp::Flush, WOp::Flush], 6, 1, (0..30).flat_map(|_| [Poll1::Pending, Poll1::Ready(3)]).collect(), usize::MAX, "pending+3"), "corpus wr-small", true);
    // staging limit: exactly full, one more, a single write() larger than the buffer
    let big = vec![b'a'; MAX_BUF];
    wr_check(ctx, &mk(vec![WOp::All(big.clone()), WOp::All(b"x".to_vec())], 1, 3, vec![], 4096, "4k"), "corpus wr-exactly-full", true);
    wr_check(ctx, &mk(vec![WOp::One(vec![b'c'; MAX_BUF + 10]), WOp::One(vec![b'd'; 5]), WOp::Flush], 6, 8, vec![], 1, "one-byte"), "corpus wr-one-larger-than-buffer", true);
    wr_check(ctx, &mk(vec![WOp::All(big.clone()), WOp::Flush, WOp::All(big), WOp::One(b"tail".to_vec())], 0, 2, vec![Poll1::Pending, Poll1::Pending, Poll1::Ready(100)], usize::MAX, "pending-twice"), "corpus wr-full-then-flush", true);
}

// ------------------------------------------------------------------ entry

pub fn run(ctx: &mut Ctx) {
    if let Some(case) = ctx.replay_only.clone() {
        let sub: u64 = case.get(1).and_then(|s| s.parse().ok()).unwrap_or(0);
        match case.first().map(|s| s.as_str()) {
            Some("rd") => rd_check(ctx, &rd_case_of(sub), &format!("rd {sub}"), false),
            Some("wr") => wr_check(ctx, &wr_case_of(sub), &format!("wr {sub}"), false),
            Some("damaged") => damaged_case(ctx, sub),
            Some("damagedat") => {
                let k: usize = case.get(2).and_then(|s| s.parse().ok()).unwrap_or(0);
                let d: usize = case.get(3).and_then(|s| s.parse().ok()).unwrap_or(0);
                damaged_case_at(ctx, sub, Some((k, d)));
            }
            Some("corpus") => {
                rd_corpus(ctx);
                wr_corpus(ctx);
                formats::corpus(ctx);
                // keep only the failures of the named corpus case
                let want = case.join(" ");
                ctx.failures.retain(|f| f.2 == want);
            }
            Some(w) if super::c16_fmtmodel::replay(ctx, &case) => { let _ = w; }
            Some(w) if super::c16_more2::replay(ctx, &case) => { let _ = w; }
            Some(w) if super::c16_query::replay(ctx, &case) => { let _ = w; }
            Some(other) => formats::replay(ctx, other, sub),
            None => {}
        }
        return;
    }
    rd_corpus(ctx);
    wr_corpus(ctx);
    // a valid file followed by 2 stray bytes; a file cut inside its first block header (known finding)
    damaged_case(ctx, 16000217);
    damaged_case(ctx, 16000216);
    formats::corpus(ctx);
    let n = ctx.n(500, 20_000);
    for it in 0..n {
        let sub = ctx.seed.wrapping_mul(16_000_057).wrapping_add(it);
        let cs = rd_case_of(sub);
        let big = cs.layout.iter().map(|b| b.data.len()).sum::<usize>() > 20_000;
        rd_check(ctx, &cs, &format!("rd {sub}"), !big || it % 16 == 0);
        ctx.bump(&format!("rd_workers_{}", cs.workers));
        ctx.bump(&format!("rd_schedule_{}", cs.sched_name));
        ctx.bump(&format!("rd_layout_blocks_{}", cs.layout.len().min(8)));
        if cs.layout.iter().take(cs.layout.len().saturating_sub(1)).any(|b| b.data.is_empty()) {
            ctx.bump("rd_layout_with_empty_member_mid_file");
        }
        if cs.layout.last().map(|b| !b.data.is_empty()).unwrap_or(false) {
            ctx.bump("rd_layout_without_eof_marker");
        }
        let t = table(&cs.layout);
        for op in &cs.ops {
            ctx.bump(match op {
                Op::Read(_) => "rd_op_read",
                Op::ReadExact(_) => "rd_op_read_exact",
                Op::FillConsume(_) => "rd_op_fill_buf_consume",
                Op::Seek(..) => match seek_class(&cs.layout, &t, op) {
                    "bgzf-async-seek-eof" => "rd_op_seek_to_end_of_file",
                    "bgzf-async-seek-beyond-block" => "rd_op_seek_beyond_block",
                    _ => "rd_op_seek",
                },
                Op::Tell => "rd_op_tell",
            });
        }
    }
    let n = ctx.n(250, 8_000);
    for it in 0..n {
        let sub = ctx.seed.wrapping_mul(16_000_133).wrapping_add(it);
        let cs = wr_case_of(sub);
        let total: usize = cs.ops.iter().map(|o| match o { WOp::All(b) | WOp::One(b) => b.len(), WOp::Flush => 0 }).sum();
        wr_check(ctx, &cs, &format!("wr {sub}"), total <= 3000);
        ctx.bump(&format!("wr_workers_{}", cs.workers));
        ctx.bump(&format!("wr_schedule_{}", cs.sched_name));
        ctx.bump(&format!("wr_level_{}", cs.level));
        ctx.bump(if total == 0 { "wr_payload_empty" } else if total < MAX_BUF { "wr_payload_lt_one_block" } else { "wr_payload_multi_block" });
    }
    let n = ctx.n(60, 3_000);
    for it in 0..n {
        damaged_case(ctx, ctx.seed.wrapping_mul(16_000_211).wrapping_add(it));
    }
    // every cut from 0 to 30 bytes into the first, second and last-but-one block of a few files: the
    // trailing fragment passes through "shorter than a header", "exactly a header", "header + part of
    // the payload"
    for f in 0..ctx.n(2, 40) {
        let sub = ctx.seed.wrapping_mul(16_000_231).wrapping_add(f);
        for k in [0usize, 1, 2] {
            for d in 0..=30usize {
                damaged_case_at(ctx, sub, Some((k, d)));
            }
        }
    }
    formats::run(ctx);
    super::c16_fmtmodel::run(ctx);
    super::c16_more2::run(ctx);
    super::c16_query::run(ctx);
    ctx.sample(|| "c16 rd 2 35:6e6f6f646c6573,28:-,31:62677a66,28:- r3,t,s35/0,t,x4,f2,t,s94/0,t,r5 p,3,p,40,p,p,1 0010".into());
}
