#!/usr/bin/env python3
"""check.py — the single entry point of the noodles verification machinery.

  check.py --setup                       build everything from files on disk (offline)
  check.py <ID> --tier quick|thorough    decide property <ID> on /repo's current working tree
  check.py <ID> --replay <file>          re-run the case recorded in a replay file

Stages of a check (DESIGN.md §1.3):
  1. proof obligations: lake build Noodles.Props.<ID>; audit `#print axioms` of every registered
     theorem; grep for sorry/admit/axiom/native_decide…; (thorough) leanchecker
  2. rebuild the harness against /repo's working tree (path dependencies, cfg noodles_verif)
  3. harness run: correspondence requests + implementation answers + oracle
  4. Lean driver answers the same requests; line diff
  5. verdict, evidence, replay files
"""
import hashlib
import json
import os
import re
import subprocess
import sys
import time

ROOT = os.path.dirname(os.path.abspath(__file__))
LEAN = os.path.join(ROOT, "lean")
HARNESS = os.path.join(ROOT, "harness")
TARGET = os.path.join(ROOT, "target")
WORK = os.path.join(ROOT, "work")
NVH = os.path.join(TARGET, "release", "nvh")
DRIVER = os.path.join(LEAN, ".lake", "build", "bin", "driver")
ALLOWED_AXIOMS = {"propext", "Classical.choice", "Quot.sound"}
FORBIDDEN = re.compile(r"\b(sorry|admit|native_decide|bv_decide|implemented_by)\b|^\s*axiom\s|\bunsafe\s|maxHeartbeats\s+0\b")

ENV = dict(os.environ)
ENV.update({"CARGO_NET_OFFLINE": "true", "CARGO_TARGET_DIR": TARGET})


def _limit_memory():
    # a runaway allocation in a harness run must abort that process, not the machine
    import resource
    lim = 24 * 1024 ** 3
    _, hard = resource.getrlimit(resource.RLIMIT_AS)
    if hard != resource.RLIM_INFINITY:
        lim = min(lim, hard)   # already running under a tighter `ulimit -v`: keep that one
    resource.setrlimit(resource.RLIMIT_AS, (lim, lim))


def sh(cmd, cwd=None, timeout=None, env=None, stdin=None, limit_mem=False):
    t0 = time.time()
    try:
        p = subprocess.run(cmd, cwd=cwd, timeout=timeout, env=env or ENV, stdin=stdin,
                           preexec_fn=_limit_memory if limit_mem else None,
                           stdout=subprocess.PIPE, stderr=subprocess.STDOUT, text=True, errors="replace")
        return p.returncode, p.stdout, time.time() - t0
    except subprocess.TimeoutExpired as e:
        out = e.stdout if isinstance(e.stdout, str) else (e.stdout or b"").decode(errors="replace")
        return 124, out + "\n[timeout]", time.time() - t0


def load_json(path, default=None):
    try:
        with open(path) as f:
            return json.load(f)
    except FileNotFoundError:
        return default


REG = load_json(os.path.join(ROOT, "props.json"), {})
KNOWN = load_json(os.path.join(ROOT, "known_findings.json"), {"findings": []})


# ----------------------------------------------------------------------------- lean side

def strip_comments(src):
    # remove /- … -/ (nested) and -- … comments
    out, i, depth = [], 0, 0
    while i < len(src):
        if src.startswith("/-", i):
            depth += 1
            i += 2
        elif depth and src.startswith("-/", i):
            depth -= 1
            i += 2
        elif depth:
            if src[i] == "\n":
                out.append("\n")
            i += 1
        elif src.startswith("--", i):
            while i < len(src) and src[i] != "\n":
                i += 1
        else:
            out.append(src[i])
            i += 1
    return "".join(out)


def grep_forbidden():
    hits = []
    for d, _, fs in os.walk(LEAN):
        if ".lake" in d:
            continue
        for f in fs:
            if not f.endswith(".lean"):
                continue
            p = os.path.join(d, f)
            body = strip_comments(open(p).read())
            # string literals may legitimately contain words; drop them
            body = re.sub(r'"(\\.|[^"\\])*"', '""', body)
            for n, line in enumerate(body.split("\n"), 1):
                if FORBIDDEN.search(line):
                    hits.append(f"{os.path.relpath(p, ROOT)}:{n}: {line.strip()[:120]}")
    return hits


def tie_audit(pid, mod, theorems):
    """Report only (never a verdict): which model definitions occurring (transitively, through Prop-level
    definitions) in the STATEMENTS of the registered theorems are also reachable from the driver's `main`,
    i.e. are executed against the real code by the correspondence, and which are specification-only
    (well-formedness predicates, naive reference functions, normal forms)."""
    tmpl = os.path.join(ROOT, "tools", "tie_audit.lean.tmpl")
    if not os.path.exists(tmpl) or not theorems:
        return None
    path = os.path.join(LEAN, "Audit", f"{pid}Tie.lean")
    with open(path, "w") as f:
        f.write(open(tmpl).read().replace("@MOD@", mod))
        f.write("#eval TieAudit.report [" + ", ".join("`" + t["name"] for t in theorems) + "]\n")
    rc, out, dt = sh(["lake", "env", "lean", path], cwd=LEAN, timeout=1200)
    m = re.search(r"TIE theorems=(\d+) model_defs_in_statements=(\d+) executed_by_driver=(\d+) spec_only=(\d+)", out)
    if not m:
        return {"error": out.strip()[-300:], "s": round(dt, 1)}
    spec = re.search(r"TIE-SPEC-ONLY ?(.*)", out)
    names = spec.group(1).split() if spec else []
    return {"model_defs_in_theorem_statements": int(m.group(2)), "executed_by_driver": int(m.group(3)),
            "spec_only": int(m.group(4)), "spec_only_names": names[:400], "s": round(dt, 1)}


def lean_obligations(pid, thorough):
    """Build the property module, audit the axioms of every registered theorem."""
    reg = REG.get(pid, {})
    theorems = reg.get("theorems", [])
    mod = f"Noodles.Props.{pid}"
    res = {"module": mod, "obligations": len(theorems), "discharged": 0, "failed": [], "axioms": {}, "log": ""}
    rc, out, dt = sh(["lake", "build", mod, "driver"], cwd=LEAN, timeout=3000)
    res["build_s"] = round(dt, 1)
    if rc != 0:
        res["failed"] = [f"lake build {mod} failed"]
        res["log"] = out[-3000:]
        return res
    os.makedirs(os.path.join(LEAN, "Audit"), exist_ok=True)
    audit = os.path.join(LEAN, "Audit", f"{pid}.lean")
    with open(audit, "w") as f:
        f.write(f"import {mod}\n")
        for t in theorems:
            f.write(f"#print axioms {t['name']}\n")
    rc, out, dt = sh(["lake", "env", "lean", audit], cwd=LEAN, timeout=1200)
    res["audit_s"] = round(dt, 1)
    seen = {}
    for m in re.finditer(r"'([^']+)' depends on axioms: \[([^\]]*)\]", out.replace("\n", " ")):
        seen[m.group(1)] = {a.strip() for a in m.group(2).split(",") if a.strip()}
    for m in re.finditer(r"'([^']+)' does not depend on any axioms", out):
        seen[m.group(1)] = set()
    for t in theorems:
        name = t["name"]
        if name not in seen:
            res["failed"].append(f"{name}: not found / not checked ({out.strip()[:200]})")
            continue
        extra = seen[name] - ALLOWED_AXIOMS
        res["axioms"][name] = sorted(seen[name])
        if extra:
            res["failed"].append(f"{name}: depends on non-standard axioms {sorted(extra)}")
        else:
            res["discharged"] += 1
    hits = grep_forbidden()
    if hits:
        res["failed"].append("forbidden tokens: " + "; ".join(hits[:5]))
    res["tie"] = tie_audit(pid, mod, theorems)
    if thorough and not res["failed"]:
        rc, out, dt = sh(["lake", "env", "leanchecker", mod], cwd=LEAN, timeout=3000)
        res["leanchecker_s"] = round(dt, 1)
        res["leanchecker_rc"] = rc
        if rc != 0:
            res["failed"].append("leanchecker rejected " + mod + ": " + out[-300:])
    return res


# ----------------------------------------------------------------------------- rust side

def ensure_lock():
    lock = os.path.join(HARNESS, "Cargo.lock")
    src = "/repo/Cargo.lock"
    if not os.path.exists(lock):
        with open(src) as f, open(lock, "w") as g:
            g.write(f.read())


def build_harness():
    ensure_lock()
    rc, out, dt = sh(["cargo", "build", "--release", "--offline"], cwd=HARNESS, timeout=3000)
    if rc != 0 and "Cargo.lock" in out and "needs to be updated" in out:
        os.remove(os.path.join(HARNESS, "Cargo.lock"))
        ensure_lock()
        rc, out, dt = sh(["cargo", "build", "--release", "--offline"], cwd=HARNESS, timeout=3000)
    return rc, out, dt


def run_harness(pid, seed, tier, wdir, timeout, extra=None):
    os.makedirs(wdir, exist_ok=True)
    for f in ("requests.txt", "impl.txt", "oracle.tsv", "stats.tsv", "model.txt"):
        try:
            os.remove(os.path.join(wdir, f))
        except FileNotFoundError:
            pass
    cmd = [NVH, "run", pid, "--seed", str(seed), "--tier", tier, "--dir", wdir]
    if extra:
        cmd = [NVH, "replay", pid, "--seed", str(seed), "--tier", tier, "--dir", wdir] + extra
    return sh(cmd, cwd=ROOT, timeout=timeout, limit_mem=True)


def read_lines(path):
    try:
        with open(path, errors="replace") as f:
            return f.read().split("\n")[:-1]
    except FileNotFoundError:
        return []


def read_stats(wdir):
    st = {"hist": {}, "samples": []}
    for line in read_lines(os.path.join(wdir, "stats.tsv")):
        k, _, v = line.partition("\t")
        if k.startswith("hist:"):
            st["hist"][k[5:]] = int(v)
        elif k == "sample":
            st["samples"].append(v)
        else:
            st[k] = int(v)
    return st


def run_driver(wdir):
    req = os.path.join(wdir, "requests.txt")
    with open(req) as f:
        rc, out, dt = sh([DRIVER], stdin=f, timeout=3000)
    with open(os.path.join(wdir, "model.txt"), "w") as g:
        g.write(out)
    return rc, out.split("\n")[:-1] if out.endswith("\n") else out.split("\n"), dt


def corpus_requests(pid):
    """Hand-written / minimised requests replayed before anything random: corpus/<ID>/*.case.
    Each line: `<request>` TAB `<expected model answer or empty>`."""
    d = os.path.join(ROOT, "corpus", pid)
    out = []
    if os.path.isdir(d):
        for f in sorted(os.listdir(d)):
            if f.endswith(".case"):
                out += [l for l in read_lines(os.path.join(d, f)) if l and not l.startswith("#")]
    return out


# ----------------------------------------------------------------------------- verdict

def match_known(pid, cls, text, case):
    for k in KNOWN.get("findings", []):
        if k.get("property") != pid or k.get("status") != "known":
            continue
        if k.get("class") and k["class"] != cls:
            continue
        pat = k.get("match")
        if pat and not re.search(pat, case + "\t" + text):
            continue
        return k
    return None


def write_replay(pid, payload):
    os.makedirs(os.path.join(ROOT, "replays"), exist_ok=True)
    h = hashlib.sha1(json.dumps(payload, sort_keys=True).encode()).hexdigest()[:10]
    path = os.path.join(ROOT, "replays", f"{pid}-{h}.json")
    with open(path, "w") as f:
        json.dump(payload, f, indent=1)
    return path


def trusted_base(pid, lean):
    reg = REG.get(pid, {})
    tb = [
        "Lean 4.33.0 kernel" + (" + leanchecker re-check" if "leanchecker_rc" in lean else ""),
        "axioms per theorem (from #print axioms): " + json.dumps(lean.get("axioms", {})),
        "correspondence check: /verif/harness (generators, canonicalisation) + /verif/lean/Main.lean request parsing + line diff in check.py",
    ]
    tb += reg.get("trusted_base", [])
    return tb


def check(pid, tier, seed):
    t0 = time.time()
    thorough = tier == "thorough"
    reg = REG.get(pid)
    if reg is None:
        print(f"unknown property {pid}")
        return 2
    wdir = os.path.join(WORK, pid)
    violations = []      # (replay_path, suffix)
    notes = []

    lean = lean_obligations(pid, thorough)
    proof_ok = not lean["failed"] and lean["discharged"] == lean["obligations"]
    if not proof_ok:
        notes.append("proof obligations not discharged: " + "; ".join(lean["failed"]))

    rc, out, bdt = build_harness()
    harness_ok = rc == 0
    stats, oracle, requests, impl, model = {"hist": {}, "samples": []}, [], [], [], []
    disagreements = []
    if not harness_ok:
        notes.append("harness does not build against the current tree: " + out[-1500:])
    else:
        budget = 3000 if thorough else 900
        rc, out, hdt = run_harness(pid, seed, tier, wdir, budget)
        if rc != 0:
            notes.append(f"harness run failed rc={rc}: {out[-800:]}")
            harness_ok = False
        stats = read_stats(wdir)
        oracle = [l.split("\t") for l in read_lines(os.path.join(wdir, "oracle.tsv"))]
        requests = read_lines(os.path.join(wdir, "requests.txt"))
        impl = read_lines(os.path.join(wdir, "impl.txt"))
        # independent reference implementations (Python) over files the harness dumped
        py = os.path.join(ROOT, "pyref", f"{pid}.py")
        if os.path.exists(py) and harness_ok:
            rc, out, _ = sh([sys.executable, py, wdir], cwd=ROOT, timeout=900)
            for line in out.split("\n"):
                if line.startswith("FAIL\t"):
                    oracle.append(line.split("\t")[1:4])
                elif line.startswith("EVALS "):
                    stats["oracle_evals"] = stats.get("oracle_evals", 0) + int(line.split()[1])
                    stats["hist"]["pyref_files_checked"] = int(line.split()[1])
            if rc != 0:
                notes.append(f"pyref/{pid}.py failed rc={rc}: {out[-400:]}")
        if requests:
            rc, model, ddt = run_driver(wdir)
            if rc != 0:
                notes.append(f"lean driver failed rc={rc}")
        n = max(len(impl), len(model)) if requests else 0
        for i in range(n):
            a = impl[i] if i < len(impl) else "<missing>"
            b = model[i] if i < len(model) else "<missing>"
            if a != b:
                disagreements.append({"request": requests[i] if i < len(requests) else "?", "impl": a[:2000], "model": b[:2000]})

    # ---- A. oracle failures
    known_hit = {}
    new_fail = []
    for row in oracle:
        cls, text, case = (row + ["", "", ""])[:3]
        k = match_known(pid, cls, text, case)
        if k:
            known_hit.setdefault(k["id"], [k, 0])[1] += 1
        else:
            new_fail.append((cls, text, case))
    for kid, (k, cnt) in known_hit.items():
        print(f"KNOWN-FINDING: property={pid} {kid}: {k['what']} ({cnt} case(s) this run)")
    for cls, text, case in new_fail[:3]:
        path = write_replay(pid, {"property": pid, "tier": tier, "seed": seed, "kind": "oracle-failure",
                                  "class": cls, "what": text, "case": case,
                                  "replay_cmd": f"python3 check.py {pid} --replay <this file>"})
        violations.append((path, ""))

    # ---- B. proof or correspondence broken, oracle silent → intensified search
    broken = (not proof_ok) or (not harness_ok) or bool(disagreements)
    if broken and not new_fail:
        found = None
        if harness_ok:
            sdir = os.path.join(WORK, pid + "-search")
            for s in range(1, 4):
                rc, out, _ = run_harness(pid, seed + 7919 * s, "thorough", sdir, 600)
                rows = [l.split("\t") for l in read_lines(os.path.join(sdir, "oracle.tsv"))]
                rows = [r for r in rows if not match_known(pid, *(r + ["", "", ""])[:3])]
                if rows:
                    found = rows[0]
                    break
        what = []
        if not proof_ok:
            what.append({"unchecked_theorems": lean["failed"], "log": lean.get("log", "")[-1500:]})
        if not harness_ok:
            what.append({"correspondence": "harness build/run failed", "log": notes[-1][-1500:] if notes else ""})
        if disagreements:
            what.append({"correspondence_suite": disagreements[0]["request"].split(" ")[:2],
                         "first_disagreements": disagreements[:5], "count": len(disagreements)})
        if found:
            cls, text, case = (found + ["", "", ""])[:3]
            path = write_replay(pid, {"property": pid, "tier": tier, "seed": seed, "kind": "oracle-failure-after-broken-obligation",
                                      "class": cls, "what": text, "case": case, "broken": what})
            violations.append((path, ""))
        else:
            path = write_replay(pid, {"property": pid, "tier": tier, "seed": seed, "kind": "obligation-no-longer-checks",
                                      "broken": what})
            violations.append((path, " no-failing-input-found"))

    # ---- evidence
    nontriv_corr = len({r for r, a in zip(requests, impl) if not a.startswith("err") and a != "bad-op"})
    cov = {
        "obligations": max(lean["obligations"], 1),
        "discharged": lean["discharged"],
        "checker_cmd": f"cd /verif/lean && lake build {lean['module']} && lake env lean Audit/{pid}.lean" + (f" && lake env leanchecker {lean['module']}" if thorough else ""),
        "trusted_base": trusted_base(pid, lean),
        "theorems": [t["name"] + " — " + t.get("says", "") for t in reg.get("theorems", [])],
        "evaluations": len(requests) + stats.get("oracle_evals", 0),
        "distinct_nontrivial": stats.get("distinct_nontrivial", 0) + nontriv_corr,
        "rule": reg.get("rule", ""),
        "samples": (stats["samples"] + requests[:3])[:8] or ["(none)"],
        "traces_validated_against_impl": len(requests),
        "model_disagreements": len(disagreements),
        "oracle_evaluations": stats.get("oracle_evals", 0),
        "oracle_failures": len(oracle),
        "known_findings_hit": {k: v[1] for k, v in known_hit.items()},
        "histogram": stats["hist"],
        "notes": notes,
        "partial": reg.get("partial", ""),
        "lean_timing": {k: lean[k] for k in ("build_s", "audit_s", "leanchecker_s") if k in lean},
        "tie_audit": lean.get("tie"),
    }
    ev = {
        "property_id": pid, "tier": tier, "seed": seed, "level": "proof", "coverage": cov,
        "assumptions": reg.get("assumptions", []),
        "wall_s": round(time.time() - t0, 1), "violations": len(violations),
    }
    os.makedirs(os.path.join(ROOT, "evidence"), exist_ok=True)
    with open(os.path.join(ROOT, "evidence", f"{pid}.json"), "w") as f:
        json.dump(ev, f, indent=1)

    print(f"[{pid}] theorems {lean['discharged']}/{lean['obligations']} discharged; "
          f"correspondence {len(requests)} requests, {len(disagreements)} disagreements; "
          f"oracle {stats.get('oracle_evals', 0)} evaluations, {len(oracle)} failures "
          f"({sum(v[1] for v in known_hit.values())} known); {ev['wall_s']} s")
    for n_ in notes:
        print("note:", n_[:600])
    for d in disagreements[:3]:
        print("disagreement:", json.dumps(d)[:600])
    # what failed, in the log itself: a replay file written on another machine (a fresh copy of the
    # sandbox) cannot be fetched afterwards, the log line can
    for cls, text, case in new_fail[:3]:
        print(f"violation-detail: property={pid} class={cls} case=[{case}] what={text[:700]}")
    for path, suffix in violations:
        print(f"VIOLATION property={pid} replay={path}{suffix}")
    return 1 if violations else 0


def replay(pid, path):
    payload = load_json(path)
    if payload is None:
        print("no such replay file")
        return 2
    rc, out, _ = build_harness()
    if rc != 0:
        print("harness does not build:", out[-800:])
        return 1
    wdir = os.path.join(WORK, pid + "-replay")
    if payload.get("case"):
        rc, out, _ = run_harness(pid, payload.get("seed", 1), "quick", wdir, 900, extra=payload["case"].split(" "))
        rows = read_lines(os.path.join(wdir, "oracle.tsv"))
        print("oracle on the current tree:", "FAILS" if rows else "passes")
        for r in rows[:5]:
            print("  ", r[:600])
        if rows:
            print(f"VIOLATION property={pid} replay={path}")
            return 1
        return 0
    reqs = [d["request"] for b in payload.get("broken", []) for d in b.get("first_disagreements", [])]
    print("recorded broken obligations:", json.dumps(payload.get("broken"), indent=1)[:3000])
    if reqs:
        os.makedirs(wdir, exist_ok=True)
        with open(os.path.join(wdir, "requests.txt"), "w") as f:
            f.write("\n".join(reqs) + "\n")
        rc, model, _ = run_driver(wdir)
        for r, m in zip(reqs, model):
            print("model now answers:", r[:200], "=>", m[:200])
    return 0


def setup():
    os.makedirs(WORK, exist_ok=True)
    mods = [f"Noodles.Props.{p}" for p in sorted(REG) if os.path.exists(os.path.join(LEAN, "Noodles", "Props", f"{p}.lean"))]
    rc, out, dt = sh(["lake", "build", "driver"] + mods, cwd=LEAN, timeout=6000)
    print(f"lake build: rc={rc} {dt:.0f}s")
    if rc != 0:
        print(out[-3000:])
        return 1
    rc, out, dt = build_harness()
    print(f"cargo build harness: rc={rc} {dt:.0f}s")
    if rc != 0:
        print(out[-3000:])
        return 1
    return 0


def main():
    a = sys.argv[1:]
    if not a:
        print(__doc__)
        return 2
    if a[0] == "--setup":
        return setup()
    pid = a[0]
    tier = os.environ.get("VERIF_TIER", "quick")
    rp = None
    seed = int(os.environ.get("VERIF_SEED", "1"))
    i = 1
    while i < len(a):
        if a[i] == "--seed":
            seed = int(a[i + 1])
            i += 2
        elif a[i] == "--tier":
            tier = a[i + 1]
            i += 2
        elif a[i] == "--replay":
            rp = a[i + 1]
            i += 2
        else:
            i += 1
    if rp:
        return replay(pid, rp)
    return check(pid, tier, seed)


if __name__ == "__main__":
    sys.exit(main())
