#!/usr/bin/env python3
"""Independent CRAM container walker (CPython only: struct, zlib, bz2, lzma, hashlib).

For every <n>.cram / <n>.meta pair the harness dumped into <workdir>/pyref (files written by the
real noodles CRAM writer): file definition; container headers (length = sum of block sizes,
landmarks = slice offsets, record counters = running totals, record / base counts add up, block
count, CRC32); block headers (method, content type / id, declared raw size = decompressed size for
raw / gzip / bzip2 / xz, CRC32); slice headers (block count, content ids, record counter, reference
MD5 over the slice's extent, extent covers its records); compression header preservation map
(RN / AP vs the writer options); compression methods vs the declared version; EOF container.
Written from the CRAM 3.x specification; shares no code with noodles or with the Rust walker.
Prints `EVALS <n>` and `FAIL<TAB>class<TAB>text<TAB>case` lines.
"""
import bz2, hashlib, lzma, os, struct, sys, zlib

EOF = bytes.fromhex("0f000000ffffffff0fe0454f4600000000010005bdd94f0001000606010001000100ee63014b")


class Cur:
    def __init__(self, b, p=0):
        self.b, self.p = b, p

    def u8(self):
        v = self.b[self.p]
        self.p += 1
        return v

    def take(self, n):
        if self.p + n > len(self.b):
            raise ValueError("unexpected end of data")
        v = self.b[self.p:self.p + n]
        self.p += n
        return v

    def itf8(self):
        b0 = self.u8()
        if b0 < 0x80:
            v = b0
        elif b0 < 0xc0:
            v = ((b0 & 0x7f) << 8) | self.u8()
        elif b0 < 0xe0:
            v = ((b0 & 0x3f) << 16) | (self.u8() << 8) | self.u8()
        elif b0 < 0xf0:
            v = ((b0 & 0x1f) << 24) | (self.u8() << 16) | (self.u8() << 8) | self.u8()
        else:
            v = ((b0 & 0x0f) << 28) | (self.u8() << 20) | (self.u8() << 12) | (self.u8() << 4) | (self.u8() & 0x0f)
        return v - (1 << 32) if v >= (1 << 31) else v

    def ltf8(self):
        b0 = self.u8()
        n = 0
        while n < 8 and b0 & (0x80 >> n):
            n += 1
        v = b0 & (0xff >> (n + 1)) if n < 8 else 0
        for _ in range(n):
            v = (v << 8) | self.u8()
        return v - (1 << 64) if v >= (1 << 63) else v


def container_header(c):
    start = c.p
    (length,) = struct.unpack("<i", c.take(4))
    h = dict(length=length, ref=c.itf8(), start=c.itf8(), span=c.itf8(), nrec=c.itf8(), counter=c.ltf8(), bases=c.ltf8(), nblocks=c.itf8())
    h["landmarks"] = [c.itf8() for _ in range(c.itf8())]
    have = zlib.crc32(c.b[start:c.p])
    (want,) = struct.unpack("<I", c.take(4))
    h["crc_ok"] = have == want
    return h


def block(c, problems, at):
    start = c.p
    method, ctype = c.u8(), c.u8()
    cid, csize, rsize = c.itf8(), c.itf8(), c.itf8()
    data = c.take(csize)
    have = zlib.crc32(c.b[start:c.p])
    (want,) = struct.unpack("<I", c.take(4))
    if have != want:
        problems.append(("block-crc32", f"{at}: block CRC32 mismatch"))
    raw = None
    try:
        if method == 0:
            raw = data
        elif method == 1:
            raw = zlib.decompress(data, 31)
        elif method == 2:
            raw = bz2.decompress(data)
        elif method == 3:
            raw = lzma.decompress(data, format=lzma.FORMAT_XZ)
    except Exception as e:  # noqa
        problems.append(("block-undecodable", f"{at}: method {method} content id {cid}: {e}"))
    if raw is not None and len(raw) != rsize and not (rsize == 0):
        problems.append(("raw-size", f"{at}: block (method {method}, content id {cid}) declares raw size {rsize}, decompresses to {len(raw)}"))
    return dict(method=method, ctype=ctype, cid=cid, csize=csize, rsize=rsize, raw=raw, off=start, len=c.p - start)


def norm_md5(seq):
    return hashlib.md5(bytes(b for b in seq.upper() if 33 <= b <= 126)).digest()


def check(path, meta):
    b = open(path, "rb").read()
    problems = []
    c = Cur(b)
    if c.take(4) != b"CRAM":
        return [("file-definition", "bad magic")]
    major, minor = c.u8(), c.u8()
    c.take(20)
    if (major, minor) not in ((3, 0), (3, 1)):
        problems.append(("version", f"version {major}.{minor}"))
    methods = []
    # header container
    h = container_header(c)
    if not h["crc_ok"]:
        problems.append(("container-crc32", "header container"))
    body = Cur(c.take(h["length"]))
    tot = 0
    for i in range(h["nblocks"]):
        bl = block(body, problems, f"header block {i}")
        tot += bl["len"]
        methods.append(bl["method"])
        if i == 0 and (bl["ctype"] != 0 or bl["raw"] is None or struct.unpack("<i", bl["raw"][:4])[0] + 4 > len(bl["raw"])):
            problems.append(("file-header", "first block is not a well-formed file header block"))
    if tot > h["length"] or any(body.b[tot:]):
        problems.append(("container-length", "header container length"))
    counter = 0
    saw_eof = False
    k = 0
    recs = meta["recs"]
    while c.p < len(b):
        off = c.p
        h = container_header(c)
        at = f"container {k} at {off}"
        if not h["crc_ok"]:
            problems.append(("container-crc32", at))
        if h["nrec"] == 0 and h["ref"] == -1 and h["start"] == 4542278 and h["length"] == 15:
            if b[off:off + 38] != EOF or off + 38 != len(b):
                problems.append(("eof-container", f"{at}: not the specification's EOF container at the end of the file"))
            saw_eof = True
            break
        body = Cur(c.take(h["length"]))
        blocks = []
        for i in range(h["nblocks"]):
            bl = block(body, problems, f"{at} block {i}")
            blocks.append(bl)
            methods.append(bl["method"])
        if sum(x["len"] for x in blocks) != h["length"]:
            problems.append(("container-length", f"{at}: length {h['length']} != sum of its block sizes {sum(x['len'] for x in blocks)}"))
        if not blocks or blocks[0]["ctype"] != 1:
            problems.append(("block-type", f"{at}: first block is not a compression header"))
        else:
            ch = Cur(blocks[0]["raw"])
            size = ch.itf8()
            end = ch.p + size
            n = ch.itf8()
            pm = {}
            for _ in range(n):
                key = bytes(ch.take(2))
                if key in (b"RN", b"AP", b"RR"):
                    pm[key] = ch.u8() != 0
                elif key == b"SM":
                    ch.take(5)
                elif key == b"TD":
                    ch.take(ch.itf8())
                else:
                    problems.append(("compression-header", f"{at}: unknown preservation key {key}"))
            if ch.p != end:
                problems.append(("compression-header", f"{at}: preservation map size"))
            if pm.get(b"RN") != meta["preserve"] or pm.get(b"AP") != meta["deltas"]:
                problems.append(("preservation-map", f"{at}: RN/AP {pm} vs options {meta['preserve']}/{meta['deltas']}"))
        # slices
        slices = []
        i = 1
        while i < len(blocks):
            if blocks[i]["ctype"] != 2:
                problems.append(("block-type", f"{at}: block {i} is not a slice header"))
                i += 1
                continue
            sc = Cur(blocks[i]["raw"])
            s = dict(ref=sc.itf8(), start=sc.itf8(), span=sc.itf8(), nrec=sc.itf8(), counter=sc.ltf8(), nblocks=sc.itf8())
            s["ids"] = [sc.itf8() for _ in range(sc.itf8())]
            s["embedded"] = sc.itf8()
            s["md5"] = bytes(sc.take(16))
            s["off"] = blocks[i]["off"]
            j = i + 1
            while j < len(blocks) and blocks[j]["ctype"] != 2:
                j += 1
            s["blocks"] = blocks[i + 1:j]
            if s["nblocks"] != len(s["blocks"]):
                problems.append(("slice-block-count", f"{at} slice {len(slices)}: {s['nblocks']} declared, {len(s['blocks'])} present"))
            if not s["blocks"] or s["blocks"][0]["ctype"] != 5 or any(x["ctype"] != 4 for x in s["blocks"][1:]):
                problems.append(("block-type", f"{at} slice {len(slices)}: expected core then external blocks"))
            ext = [x["cid"] for x in s["blocks"][1:]]
            if len(set(ext)) != len(ext) or any(x not in s["ids"] for x in ext) or any(x != 0 and x not in ext for x in s["ids"]):
                problems.append(("slice-content-ids", f"{at} slice {len(slices)}: ids {s['ids']} vs blocks {ext}"))
            slices.append(s)
            i = j
        if [s["off"] for s in slices] != h["landmarks"]:
            problems.append(("landmarks", f"{at}: landmarks {h['landmarks']} vs slice offsets {[s['off'] for s in slices]}"))
        if h["counter"] != counter:
            problems.append(("record-counter", f"{at}: counter {h['counter']} but {counter} records precede"))
        sc = h["counter"]
        for si, s in enumerate(slices):
            if s["counter"] != sc:
                problems.append(("record-counter", f"{at} slice {si}: counter {s['counter']} but {sc} records precede"))
            lo, hi = sc, sc + s["nrec"]
            mine = recs[lo:hi]
            if s["ref"] >= 0:
                if any(r[0] != s["ref"] for r in mine):
                    problems.append(("slice-extent", f"{at} slice {si}: record of another reference in a single-reference slice"))
                else:
                    st, en = s["start"], s["start"] + s["span"] - 1
                    if any(r[1] < st or (r[4] and r[2] > en) for r in mine) or (all(r[4] for r in mine) and mine and (st != min(r[1] for r in mine) or en != max(r[2] for r in mine))):
                        problems.append(("slice-extent", f"{at} slice {si}: extent [{st},{en}] vs records"))
                ref = meta["refs"][s["ref"]] if s["ref"] < len(meta["refs"]) else None
                if ref is None or s["start"] < 1 or s["start"] - 1 + s["span"] > len(ref):
                    problems.append(("reference-md5", f"{at} slice {si}: extent outside the reference"))
                elif norm_md5(ref[s["start"] - 1:s["start"] - 1 + s["span"]]) != s["md5"]:
                    problems.append(("reference-md5", f"{at} slice {si}: MD5 mismatch"))
            else:
                if s["ref"] == -1 and any(r[0] >= 0 for r in mine):
                    problems.append(("slice-extent", f"{at} slice {si}: unmapped slice holds a placed record"))
                if s["md5"] != bytes(16):
                    problems.append(("reference-md5", f"{at} slice {si}: non-zero MD5 without a reference"))
            sc = hi
        if sum(s["nrec"] for s in slices) != h["nrec"]:
            problems.append(("record-count", f"{at}: {h['nrec']} vs slices {sum(s['nrec'] for s in slices)}"))
        if sum(r[3] for r in recs[counter:counter + h["nrec"]]) != h["bases"]:
            problems.append(("base-count", f"{at}: base count {h['bases']}"))
        counter += h["nrec"]
        k += 1
    if not saw_eof:
        problems.append(("eof-container", "no EOF container"))
    if counter != len(recs):
        problems.append(("record-count", f"{counter} records in containers, {len(recs)} written"))
    if (major, minor) == (3, 0) and any(m >= 5 for m in methods):
        problems.append(("version-codec", "CRAM 3.0 file with a 3.1 compression method"))
    return problems


def read_meta(path):
    meta = dict(refs=[], recs=[], case="?", preserve=True, deltas=True)
    for line in open(path):
        f = line.split()
        if f[0] == "case":
            meta["case"] = " ".join(f[1:])
        elif f[0] == "opts":
            meta["preserve"], meta["deltas"] = f[1] == "1", f[2] == "1"
        elif f[0] == "ref":
            meta["refs"].append(bytes.fromhex(f[1]))
        elif f[0] == "rec":
            meta["recs"].append((int(f[1]), int(f[2]), int(f[3]), int(f[4]), f[5] == "1"))
    return meta


def main():
    d = os.path.join(sys.argv[1], "pyref")
    n = 0
    for f in sorted(os.listdir(d)) if os.path.isdir(d) else []:
        if not f.endswith(".cram"):
            continue
        n += 1
        meta = read_meta(os.path.join(d, f[:-5] + ".meta"))
        try:
            problems = check(os.path.join(d, f), meta)
        except Exception as e:  # noqa
            problems = [("walker-parse", f"{type(e).__name__}: {e}")]
        seen = set()
        for cls, text in problems:
            if cls not in seen:
                seen.add(cls)
                print(f"FAIL\tpyref-{cls}\t{text}\t{meta['case']}")
    print(f"EVALS {n}")


if __name__ == "__main__":
    main()
