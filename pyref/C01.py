#!/usr/bin/env python3
"""Independent gzip check of BGZF files written by the real noodles writer (CPython zlib/gzip).

For every <n>.bgzf / <n>.raw pair in <workdir>/pyref: each member is a gzip member with the BC
extra field whose BSIZE is the member's own length - 1, member <= 64 KiB, ISIZE <= 64 KiB,
CRC32/ISIZE match the inflated data, the file ends with the 28-byte EOF marker, and
gzip.decompress (multi-member) of the whole file equals the payload.
Prints `EVALS <n>` and `FAIL<TAB>class<TAB>text<TAB>case` lines.
"""
import gzip, os, struct, sys, zlib

EOF = bytes.fromhex("1f8b08040000000000ff0600424302001b0003000000000000000000")

def check(path, raw):
    data = open(path, "rb").read()
    if gzip.decompress(data) != raw:
        return "gzip.decompress(file) != payload"
    off, out = 0, b""
    last = None
    while off < len(data):
        if len(data) - off < 18:
            return f"trailing bytes at {off}"
        id1, id2, cm, flg, mtime, xfl, os_, xlen = struct.unpack_from("<BBBBIBBH", data, off)
        if (id1, id2, cm, flg) != (0x1f, 0x8b, 8, 4) or xlen != 6:
            return f"bad gzip header at {off}"
        si1, si2, slen, bsize = struct.unpack_from("<BBHH", data, off + 12)
        if (si1, si2, slen) != (66, 67, 2):
            return f"missing BC subfield at {off}"
        total = bsize + 1
        if total > 65536 or off + total > len(data):
            return f"BSIZE out of range at {off}"
        member = data[off:off + total]
        d = zlib.decompressobj(-15)
        inflated = d.decompress(member[18:-8])
        if not d.eof or d.unused_data:
            return f"CDATA of member at {off} is not exactly one DEFLATE stream"
        crc, isize = struct.unpack("<II", member[-8:])
        if isize != len(inflated) or isize > 65536:
            return f"ISIZE {isize} != inflated length {len(inflated)} at {off}"
        if crc != zlib.crc32(inflated):
            return f"CRC32 mismatch at {off}"
        out += inflated
        last = member
        off += total
    if last != EOF:
        return "file does not end with the EOF marker"
    if out != raw:
        return "members do not concatenate to the payload"
    return None

def main():
    d = os.path.join(sys.argv[1], "pyref")
    n = 0
    for f in sorted(os.listdir(d)) if os.path.isdir(d) else []:
        if f.endswith(".bgzf"):
            n += 1
            raw = open(os.path.join(d, f[:-5] + ".raw"), "rb").read()
            try:
                err = check(os.path.join(d, f), raw)
            except Exception as e:  # noqa
                err = f"independent gzip implementation rejects the file: {e}"
            if err:
                print(f"FAIL\tindependent-gzip\t{err}\tpyfile {f}")
    print(f"EVALS {n}")

main()
