#!/usr/bin/env python3
"""Regenerate MANIFEST.json from props.json (claimed properties) + the fixed header."""
import json, os, subprocess
ROOT = os.path.dirname(os.path.dirname(os.path.abspath(__file__)))
reg = json.load(open(os.path.join(ROOT, "props.json")))
allp = [json.loads(l)["id"] for l in open(os.path.join(ROOT, "properties.jsonl"))]
hooks = []
try:
    out = subprocess.run(["git", "-C", "/repo", "log", "--format=%H %s"], capture_output=True, text=True).stdout
    hooks = [l.split()[0] for l in out.splitlines() if " hook:" in l or l.split(" ", 1)[1].startswith("hook")]
except Exception:
    pass
claimed = [p for p in allp if p in reg and reg[p].get("claimed", True)]
m = {
    "version": 1,
    "setup_cmd": "python3 check.py --setup",
    "notes": "Technique: machine-checked proof in Lean 4 over a hand-written executable model, tied to /repo on every run by a correspondence check (Rust harness linking /repo by path vs the compiled Lean driver on the same requests) plus an oracle that states each property directly on the real code and supplies replays. See DESIGN.md.",
    "hooks": {
        "guard": "noodles_verif",
        "enable": "RUSTFLAGS=\"--cfg noodles_verif\" (set in /verif/harness/.cargo/config.toml [build] rustflags)",
        "baseline_off_cmd": "cd /repo && (cargo nextest run --workspace --no-fail-fast --offline || cargo test --workspace --no-fail-fast --offline)",
        "source_commits": hooks,
        "add_only": True,
    },
    "engines": [
        {"name": "lean-model", "path": "/verif/lean", "serves_properties": claimed, "kind_free_text": "Lean 4 executable model + theorems (lake project, core-only) + compiled line-protocol driver"},
        {"name": "nvh", "path": "/verif/harness", "serves_properties": claimed, "kind_free_text": "Rust harness linking /repo crates by path (cfg noodles_verif): generators, implementation answers, oracles, replay"},
        {"name": "pyref", "path": "/verif/pyref", "serves_properties": [p for p in claimed if os.path.exists(os.path.join(ROOT, "pyref", p + ".py"))], "kind_free_text": "independent Python references (CPython zlib/gzip, container walkers)"},
    ],
    "checks": [],
    "not_applicable": [{"property_id": p, "reason": reg.get(p, {}).get("not_claimed_reason", "not yet claimed: model and check under construction (see DESIGN.md §8 build order)")} for p in allp if p not in claimed],
}
for p in claimed:
    r = reg[p]
    m["checks"].append({
        "property_id": p,
        "quick_cmd": f"python3 check.py {p} --tier quick",
        "thorough_cmd": f"python3 check.py {p} --tier thorough",
        "evidence_file": f"/verif/evidence/{p}.json",
        "replay_cmd_template": f"python3 check.py {p} --replay {{path}}",
        "engine": "lean-model",
        "level_claimed": {"category": "proof", "text": r.get("level_text", ""), "design_ref": f"DESIGN.md §4 {p}"},
        "level_note": r.get("level_note", "Trusted: Lean kernel, axioms {propext, Classical.choice, Quot.sound}; the hand-written model is tied to the code only by the correspondence run; " + " ".join(r.get("trusted_base", []))),
        "technique": r.get("technique", "Lean 4 proof over a hand-written model + differential correspondence with the real code"),
    })
json.dump(m, open(os.path.join(ROOT, "MANIFEST.json"), "w"), indent=1)
print("claimed:", claimed)
