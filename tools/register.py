#!/usr/bin/env python3
"""register.py <ID> <lean driver import module> <lean handler expr> — add the registry lines for a property."""
import sys
pid, imp, handler = sys.argv[1], sys.argv[2], sys.argv[3]
lid = pid.lower()
p='/verif/lean/Noodles/Driver.lean'
s=open(p).read()
if f"import {imp}\n" not in s:
    s=s.replace("namespace Noodles\n", f"import {imp}\nnamespace Noodles\n",1)
    # imports must precede namespace: move
    lines=s.split('\n'); imps=[l for l in lines if l.startswith('import ')]; rest=[l for l in lines if not l.startswith('import ')]
    s='\n'.join(imps+rest)
if f'"{lid}" :: rest' not in s:
    s=s.replace('  | _ => "bad-suite"', f'  | "{lid}" :: rest => {handler} rest\n  | _ => "bad-suite"')
open(p,'w').write(s)
p='/verif/harness/src/props/mod.rs'
s=open(p).read()
if f"pub mod {lid};" not in s:
    s=s.replace("use crate::common::Ctx;\n", f"use crate::common::Ctx;\npub mod {lid};\n",1)
if f'"{pid}" => {lid}::run(ctx)' not in s:
    s=s.replace("        _ => return false,", f'        "{pid}" => {lid}::run(ctx),\n        _ => return false,')
open(p,'w').write(s)
print("registered", pid)
