#!/usr/bin/env python3
"""apply_fix_source_only.py <diff> — git-apply a fix diff to /repo, then restore every `#[cfg(test)]`
test module to its HEAD text (a fix: commit must leave the existing tests unedited and adds none)."""
import subprocess, sys
d = sys.argv[1]
r = subprocess.run(["git", "-C", "/repo", "apply", d], capture_output=True, text=True)
if r.returncode != 0:
    print("does not apply:", r.stderr); sys.exit(1)
files = subprocess.run(["git", "-C", "/repo", "diff", "--name-only"], capture_output=True, text=True).stdout.split()
new_files = subprocess.run(["git", "-C", "/repo", "ls-files", "--others", "--exclude-standard"], capture_output=True, text=True).stdout.split()
for f in files:
    old = subprocess.run(["git", "-C", "/repo", "show", "HEAD:" + f], capture_output=True, text=True).stdout
    new = open("/repo/" + f).read()
    marker = "#[cfg(test)]\nmod tests"
    if marker in new:
        ns = new[:new.index(marker)]
        if marker in old:
            merged = ns + old[old.index(marker):]
        else:
            merged = ns.rstrip("\n") + "\n"
        if merged != new:
            open("/repo/" + f, "w").write(merged)
            print("restored tests in", f)
for f in new_files:
    if "/tests/" in f:
        import os; os.remove("/repo/" + f); print("removed new test file", f)
print(subprocess.run(["git", "-C", "/repo", "diff", "--stat"], capture_output=True, text=True).stdout)
