#!/bin/bash
# run every claimed check (quick) and print one line each
cd /verif
for p in $(python3 -c "import json;print(' '.join(c['property_id'] for c in json.load(open('MANIFEST.json'))['checks']))"); do
  out=$(python3 check.py $p --tier ${1:-quick} 2>&1); rc=$?
  echo "$(echo "$out" | grep -E "^\[$p\]" | tail -1) rc=$rc"
  echo "$out" | grep -E "^VIOLATION" | head -2
done
