#!/usr/bin/env python3
"""gen_design_status.py — regenerate the generated parts of DESIGN.md §0 (between <!-- GEN:x --> markers)
from props.json, seeded/*/meta.json + notes.md and known_findings.json."""
import json, os, re, glob, subprocess

ROOT = os.path.dirname(os.path.dirname(os.path.abspath(__file__)))
props = json.load(open(os.path.join(ROOT, "props.json")))
kf = json.load(open(os.path.join(ROOT, "known_findings.json")))["findings"]


def cell(s):
    return str(s).replace("|", "\\|").replace("\n", " ")


def props_table():
    rows = ["| id | theorems | rule (generators, what is compared, non-triviality) | partial / not covered by a theorem |", "|---|---|---|---|"]
    for pid in sorted(props):
        e = props[pid]
        if not isinstance(e, dict) or "theorems" not in e or e.get("claimed") is False:
            continue
        names = [t["name"].split(".")[-1] for t in e["theorems"]]
        rows.append(f"| {pid} | {len(names)}: {', '.join(names)} | {cell(e.get('rule', ''))} | {cell(e.get('partial', '') or '—')} |")
    return "\n".join(rows)


def seeds_table():
    rows = ["| seed | change (first line of the agent's notes) | caught by |", "|---|---|---|"]
    for d in sorted(glob.glob(os.path.join(ROOT, "seeded", "C*-*"))):
        name = os.path.basename(d)
        mp = os.path.join(d, "meta.json")
        if not os.path.exists(mp):
            continue
        m = json.load(open(mp))
        first = ""
        np_ = os.path.join(d, "notes.md")
        if os.path.exists(np_):
            for line in open(np_):
                if line.strip():
                    first = line.strip().lstrip("# ").strip()
                    break
        det = m.get("detected_by") or "NOT YET RUN"
        if m.get("detected") is False:
            det = "MISSED: " + det
        rows.append(f"| {name} | {cell(first)} | {cell(det)} |")
    return "\n".join(rows)


def defects():
    fixed = [e for e in kf if e["status"] == "fixed"]
    known = [e for e in kf if e["status"] == "known"]
    nfix = subprocess.run(["git", "-C", "/repo", "log", "--oneline", "--grep", "^fix:"], capture_output=True, text=True).stdout.count("\n")
    out = [f"{nfix} `fix:` commits in /repo (one per defect, source only, the existing suite passes unedited; "
           f"{len(fixed)} `fixed:` entries with commit ids in known_findings.json, `git -C /repo log --grep '^fix:'`), "
           f"{len(known)} entries recorded as known findings because no small, safe, test-compatible repair exists (yet):", ""]
    for e in known:
        out.append(f"* **{e['id']}** ({e['property']}, class `{e.get('class', '')}`" + (f", match `{e['match']}`" if e.get("match") else "") + f"): {e.get('what', e.get('line', ''))}")
    out.append("")
    byp = {}
    for e in fixed:
        byp.setdefault(e["property"], []).append(e)
    out.append("Repaired, by the property whose check found it (where props.json or a Lean comment speaks of a model "
               "\"after fixes/<name>.diff\", that is the diff a sub-agent delivered; each was reviewed and committed to /repo "
               "as one of the `fix:` commits listed here, and the models describe /repo's HEAD):")
    out.append("")
    for pid in sorted(byp):
        items = []
        for e in byp[pid]:
            line = e.get("line", "")
            m = re.match(r"fixed: property=\S+ (\S+) (.*)", line)
            items.append(f"`{m.group(1)[:7]}` {m.group(2)}" if m else line)
        out.append(f"* **{pid}** ({len(items)}): " + "; ".join(items))
    return "\n".join(out)


def main():
    p = os.path.join(ROOT, "DESIGN.md")
    s = open(p).read()
    for key, gen in [("props-table", props_table), ("seeds-table", seeds_table), ("defects", defects)]:
        a, b = f"<!-- GEN:{key} -->", f"<!-- /GEN:{key} -->"
        i, j = s.index(a) + len(a), s.index(b)
        s = s[:i] + "\n" + gen() + "\n" + s[j:]
    open(p, "w").write(s)
    print("DESIGN.md §0 regenerated")


if __name__ == "__main__":
    main()
