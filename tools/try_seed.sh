#!/bin/bash
# usage: try_seed.sh <patch.diff> <ID> [tier]   — apply a seeded change to /repo, run the check, undo it
set -u
patch=$1; id=$2; tier=${3:-quick}
cd /repo || exit 2
if ! git diff --quiet; then echo "repo dirty"; exit 2; fi
git apply "$patch" || { echo "patch does not apply"; exit 2; }
cd /verif && python3 check.py "$id" --tier "$tier" 2>&1 | tail -8
rc=${PIPESTATUS[0]}
git -C /repo checkout -- . 
git -C /repo clean -fdq -- . ':!target' 2>/dev/null
echo "check rc=$rc"
(cd /verif/harness && CARGO_NET_OFFLINE=true cargo build --release -q 2>/dev/null) # leave a binary built from the clean tree
