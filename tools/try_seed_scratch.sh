#!/bin/bash
# usage: try_seed_scratch.sh <abs patch.diff> <ID> [seed]  — like try_seed.sh, but WITHOUT touching /repo:
# a scratch worktree of /repo gets the patch, a copy of the harness is pointed at it and built in its own
# target directory, and only the harness run (oracle + request/answer lines) is done; the answers are then
# diffed against the Lean driver. Prints oracle failures and the number of disagreements. For use while
# something else (a long `vp run`) needs /repo unchanged.
set -u
patch=$1; id=$2; seed=${3:-1}
S=/tmp/scratch-seed; WT=$S/wt; H=$S/harness; T=$S/target; D=$S/work
mkdir -p $S; rm -rf $H $D; mkdir -p $D
git -C /repo worktree remove --force $WT 2>/dev/null; rm -rf $WT
git -C /repo worktree add --detach $WT HEAD -q || exit 2
cp /repo/Cargo.lock $WT/ 2>/dev/null
git -C $WT apply "$patch" || { echo "patch does not apply"; git -C /repo worktree remove --force $WT; exit 2; }
rsync -a --exclude target /verif/harness/ $H/
sed -i "s#\"/repo/#\"$WT/#g" $H/Cargo.toml
sed -i "s#^target-dir.*#target-dir = \"$T\"#" $H/.cargo/config.toml
(cd $H && CARGO_NET_OFFLINE=true cargo build --release 2>&1 | grep -E "^error|Finished" | head -5)
$T/release/nvh run $id --seed $seed --tier quick --dir $D > $D/out.txt 2>&1
echo "nvh rc=$?"; tail -3 $D/out.txt | cut -c1-300
ls $D | head
git -C /repo worktree remove --force $WT; git -C /repo worktree prune
# correspondence: the Lean driver on the recorded requests vs the implementation's answers
if [ -f $D/requests.txt ]; then
  /verif/lean/.lake/build/bin/driver < $D/requests.txt > $D/model.txt
  echo "disagreements: $(diff <(cat $D/impl.txt) <(cat $D/model.txt) | grep -c '^<')  of $(wc -l < $D/requests.txt) requests"
fi
echo "oracle failures: $(grep -c . $D/oracle.tsv 2>/dev/null)"; cut -c1-260 $D/oracle.tsv 2>/dev/null | head -3
