#!/bin/bash
# usage: confirm_seed.sh <seed-dir> <ID> <n>
# Confirms in a scratch worktree (/tmp/wt-confirm) that the seeded change compiles, passes the
# existing suite, that the demo fails with it and passes without it; on success stores it in
# /verif/seeded/<ID>-<n>/ with meta.json.
set -u
sd=$1; id=$2; n=$3
wt=/tmp/wt-confirm
export CARGO_NET_OFFLINE=true
if [ ! -d $wt ]; then git -C /repo worktree add -q --detach $wt HEAD || exit 2; fi
cd $wt && git checkout -q --detach $(git -C /repo rev-parse HEAD) && git checkout -- . && git clean -fdq
cp -n /repo/Cargo.lock $wt/Cargo.lock 2>/dev/null
demo_path=$(grep -oE 'noodles-[a-z]+/tests/seed_demo_[0-9a-z_]*\.rs' $sd/notes.md | head -1)
[ -z "$demo_path" ] && { echo "no demo path in notes"; exit 2; }
crate=${demo_path%%/*}; tname=$(basename $demo_path .rs)
out=/verif/seeded/$id-$n; mkdir -p $out
mkdir -p $(dirname $demo_path); cp $sd/demo.rs $demo_path
echo "--- demo without change"; cargo test --offline --all-features -p $crate --test $tname > $out/demo_without.log 2>&1; rc_without=$?
git apply $sd/patch.diff || { echo "patch does not apply to current HEAD"; exit 2; }
echo "--- demo with change"; cargo test --offline --all-features -p $crate --test $tname > $out/demo_with.log 2>&1; rc_with=$?
rm -f $demo_path; rmdir $(dirname $demo_path) 2>/dev/null
echo "--- suite with change"; cargo nextest run --workspace --no-fail-fast --offline > $out/suite_with.log 2>&1; rc_suite=$?
summary=$(grep -E "Summary|tests run" $out/suite_with.log | tail -1)
git checkout -- . && git clean -fdq
echo "demo_without rc=$rc_without demo_with rc=$rc_with suite rc=$rc_suite $summary"
if [ $rc_without -eq 0 ] && [ $rc_with -ne 0 ] && [ $rc_suite -eq 0 ]; then
  cp $sd/patch.diff $out/patch.diff; cp $sd/demo.rs $out/demo.rs; cp $sd/notes.md $out/notes.md
  tail -5 $out/suite_with.log > $out/suite_with.tail; rm $out/suite_with.log
  python3 - "$out" "$id" "$demo_path" "$crate" "$tname" "$summary" <<'PY'
import json,sys,re
out,id_,demo_path,crate,tname,summary=sys.argv[1:7]
notes=open(out+'/notes.md').read()
meta={"property":id_,"demo_path_in_repo":demo_path,
 "needs_to_manifest": "see notes.md (written by the sub-agent that produced the change)",
 "confirmed":{"base_commit": __import__('subprocess').run(['git','-C','/repo','rev-parse','HEAD'],capture_output=True,text=True).stdout.strip(),
   "ran":[f"cargo test --offline -p {crate} --test {tname}  (without change: pass; with change: FAIL)", "cargo nextest run --workspace --no-fail-fast --offline (with change): "+summary.strip()]},
 "detected_by": None}
json.dump(meta,open(out+'/meta.json','w'),indent=1)
PY
  echo CONFIRMED $id-$n
else
  echo NOT-CONFIRMED $id-$n; 
fi
