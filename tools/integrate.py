#!/usr/bin/env python3
"""integrate.py <ID> [<srcdir>] — bring a build agent's deliverables from its private copy into /verif.
Copies NEW files; for files that exist in both and differ, prints a diff summary (merge by hand),
except the three registries which are merged automatically: lean/Noodles/Driver.lean (import +
dispatch lines), harness/src/props/mod.rs (pub mod + dispatch arm), props.json (entry <ID>)."""
import filecmp, json, os, re, shutil, subprocess, sys
pid = sys.argv[1]
src = sys.argv[2] if len(sys.argv) > 2 else f"/tmp/build-{pid}/verif"
dst = "/verif"
skip_dirs = {".lake", "target", "work", "replays", "evidence", "seeded", ".git", "Audit", "__pycache__"}
auto = {"lean/Noodles/Driver.lean", "harness/src/props/mod.rs", "props.json", "MANIFEST.json", "harness/.cargo/config.toml", "check.py", "harness/Cargo.lock"}
changed = []
for d, dirs, files in os.walk(src):
    dirs[:] = [x for x in dirs if x not in skip_dirs]
    for f in files:
        sp = os.path.join(d, f)
        rel = os.path.relpath(sp, src)
        dp = os.path.join(dst, rel)
        if rel in auto:
            continue
        if not os.path.exists(dp):
            os.makedirs(os.path.dirname(dp), exist_ok=True)
            shutil.copy2(sp, dp)
            print("NEW     ", rel)
        elif not filecmp.cmp(sp, dp, shallow=False):
            changed.append(rel)
for rel in changed:
    out = subprocess.run(["diff", "-u", os.path.join(dst, rel), os.path.join(src, rel)], capture_output=True, text=True).stdout
    n = sum(1 for l in out.splitlines() if l.startswith(("+", "-")) and not l.startswith(("+++", "---")))
    print(f"CHANGED  {rel}  ({n} +/- lines)  -> merge by hand: diff -u {dst}/{rel} {src}/{rel}")
# Driver.lean
def merge_lines(rel, pattern_groups):
    s_src = open(os.path.join(src, rel)).read().splitlines()
    s_dst = open(os.path.join(dst, rel)).read()
    lines_dst = s_dst.splitlines()
    added = []
    for l in s_src:
        if l not in lines_dst:
            added.append(l)
    return added
for rel in ["lean/Noodles/Driver.lean", "harness/src/props/mod.rs", "harness/Cargo.toml"]:
    if os.path.exists(os.path.join(src, rel)):
        add = merge_lines(rel, None)
        if add:
            print(f"REGISTRY {rel}: lines present only in the agent's copy:")
            for l in add:
                print("    +", l)
# props.json
ps, pd = json.load(open(os.path.join(src, "props.json"))), json.load(open(os.path.join(dst, "props.json")))
if pid in ps:
    if pid in pd and pd[pid] != ps[pid]:
        print(f"props.json: entry {pid} exists in both and differs — taking the agent's (old kept as {pid}__old in /tmp/props_old_{pid}.json)")
        json.dump(pd[pid], open(f"/tmp/props_old_{pid}.json", "w"), indent=1)
    pd[pid] = ps[pid]
    json.dump(pd, open(os.path.join(dst, "props.json"), "w"), indent=1)
    print(f"props.json: entry {pid} installed ({len(ps[pid].get('theorems', []))} theorems)")
for extra in ("fixes", "mutants"):
    p = os.path.join(os.path.dirname(src), extra)
    if os.path.isdir(p):
        print(f"{extra}: ", sorted(os.listdir(p)))
