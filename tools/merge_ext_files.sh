#!/bin/bash
# usage: merge_ext_files.sh <TAG> <file>...   — take the extension agent's version of an existing file when
# /verif has not changed it since the agents' snapshot commit; otherwise try a 3-way merge (git merge-file).
tag=$1; shift
base=${BASE:-$(git -C /verif log --format=%h --grep "extension agent brief" | tail -1)}
for f in "$@"; do
  src=/tmp/ext/$tag/verif/$f
  if git -C /verif diff --quiet $base HEAD -- "$f" && git -C /verif diff --quiet -- "$f"; then
    cp "$src" "/verif/$f"; echo "copied   $f"
  else
    git -C /verif show $base:"$f" > /tmp/ext/$tag/.base.tmp
    if git merge-file -q "/verif/$f" /tmp/ext/$tag/.base.tmp "$src"; then echo "merged   $f"; else echo "CONFLICT $f (markers left in file)"; fi
  fi
done
