#!/usr/bin/env python3
"""integrate_ext.py <TAG> <ID> [--apply] — merge an extension agent's private copy /tmp/ext/<TAG>/verif into /verif.

Without --apply: list NEW files, and for every CHANGED existing file print the agent's added lines
(relative to the snapshot the agent started from is unknown, so the diff is against the CURRENT /verif).
With --apply: copy NEW files; for changed existing files under lean/ and harness/src apply only pure
additions when `patch` can do it (3-way is not attempted): the diff is saved to /tmp/ext/<TAG>/existing.diff
for manual merging; merge /tmp/ext/<TAG>/props-fragment.json into props.json."""
import json, os, subprocess, sys, filecmp, shutil

tag, pid = sys.argv[1], sys.argv[2]
apply = "--apply" in sys.argv
src = f"/tmp/ext/{tag}/verif"
dst = "/verif"
SKIP_DIRS = {"target", ".git", "work", "replays", ".lake", "evidence", "seeded", "Audit", "__pycache__"}
SKIP_FILES = {"check.py", "MANIFEST.json", "props.json", "DESIGN.md", "known_findings.json", "Cargo.lock", "config.toml"}
new, changed = [], []
for root, dirs, files in os.walk(src):
    dirs[:] = [d for d in dirs if d not in SKIP_DIRS]
    for f in files:
        sp = os.path.join(root, f)
        rel = os.path.relpath(sp, src)
        dp = os.path.join(dst, rel)
        if f in SKIP_FILES or rel.startswith("tools/"):
            continue
        if not os.path.exists(dp):
            new.append(rel)
        elif not filecmp.cmp(sp, dp, shallow=False):
            changed.append(rel)
print("NEW files:")
for r in sorted(new):
    print("   ", r)
print("CHANGED existing files (agent copy vs current /verif):")
alldiff = ""
for r in sorted(changed):
    d = subprocess.run(["diff", "-u", os.path.join(dst, r), os.path.join(src, r)], capture_output=True, text=True).stdout
    plus = sum(1 for l in d.splitlines() if l.startswith("+") and not l.startswith("+++"))
    minus = sum(1 for l in d.splitlines() if l.startswith("-") and not l.startswith("---"))
    print(f"    {r}  (+{plus} -{minus})")
    alldiff += d
open(f"/tmp/ext/{tag}/existing.diff", "w").write(alldiff)
print(f"diff of existing files saved to /tmp/ext/{tag}/existing.diff")
for sub in ("fixes", "hooks", "mutants"):
    p = f"/tmp/ext/{tag}/{sub}"
    if os.path.isdir(p):
        print(f"{sub}:", sorted(os.listdir(p)))
frag_p = f"/tmp/ext/{tag}/props-fragment.json"
if os.path.exists(frag_p):
    frag = json.load(open(frag_p))
    print("props fragment:", len(frag.get("theorems", [])), "theorems")
else:
    frag = None
    print("NO props-fragment.json")
if apply:
    for r in new:
        os.makedirs(os.path.dirname(os.path.join(dst, r)), exist_ok=True)
        shutil.copy2(os.path.join(src, r), os.path.join(dst, r))
    print("copied", len(new), "new files")
    if frag:
        props = json.load(open("/verif/props.json"))
        e = props[pid]
        have = {t["name"] for t in e["theorems"]}
        for t in frag.get("theorems", []):
            if t["name"] not in have:
                e["theorems"].append(t)
        for k_app, k in (("rule_append", "rule"), ("trusted_base_append", "trusted_base"), ("assumptions_append", "assumptions")):
            v = frag.get(k_app)
            if v:
                cur = e.get(k, "")
                if isinstance(cur, list):
                    for item in (v if isinstance(v, list) else [v]):
                        if item not in cur:
                            cur.append(item)
                elif v not in cur:
                    e[k] = (cur + " " + v).strip()
        if frag.get("partial_replace"):
            e["partial"] = frag["partial_replace"]
        json.dump(props, open("/verif/props.json", "w"), indent=1)
        print("props.json merged")
