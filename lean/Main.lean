import Noodles.Driver

partial def loop (h : IO.FS.Stream) (out : IO.FS.Stream) : IO Unit := do
  let line ← h.getLine
  if line.isEmpty then return ()
  out.putStrLn (Noodles.dispatch line)
  loop h out

def main : IO Unit := do
  let stdin ← IO.getStdin
  let stdout ← IO.getStdout
  loop stdin stdout
