import Noodles.Basic.Wire
import Noodles.Util.DriverC20
import Noodles.Util.Path
import Noodles.Util.Indexed
import Noodles.Util.AsyncDetect
import Noodles.Util.HeaderConv
import Noodles.Index.Text
import Noodles.Vcf.DriverC09
/-! Line-protocol handler for the C20 extension (`c20 …`, chained in front of `handleC20`).

```
c20 pext <path>                                             → <file_name> <extension> <file_stem>   (hex | none)
c20 apath <sync|async> <fmt|-> <comp|-> <path> <created 0|1> → `bam bgzf created` | `err:invalid-input created` | `err:other -`
c20 vpath <fmt|-> <comp|-> <path> <created 0|1>
c20 arpath|vrpath <fmt|-> <comp|-> <path> <window> <inflated> <stop|-> <obs>     (reader from path)
c20 abuild|vbuild <sync|async> <fmt|-> <comp|-> <script> <data> <inflated> <stop|-> <obs>
c20 aidx <fmt|-> <comp|-> <given -|csi|crai> <path|-> <fs> <window> <inflated> <stop|->   → `bam bai` | `bam given` | err
c20 vidx <fmt|-> <comp|-> <given 0|1> <path|-> <fs> <window> <inflated> <stop|->
c20 ahdr <src fmt> <tgt fmt> <SAM header text> <md5 table name=digest,…|->               → header text | rejected
c20 vhdr <src fmt> <tgt fmt> <defs> <VCF header text>                                     → header text | rejected
```
`<obs>`: `fc` / `f` as in `DriverC20`, or `in:<f.c>+<f.c>…` — the reader behaved like each of the
listed explicit configurations (they cannot be told apart on this input); the model's answer must
be one of them and the list is echoed, otherwise the model's answer is printed.
`<script>`: `-` or comma-separated `p` (Pending) / byte counts. `<fs>`: `bai:ok,csi:nf,tbi:eof,…`
(`nf` = NotFound, otherwise `ok` or the error class the index reader raises); an extension that
is not listed does not exist. -/
namespace Noodles.Util.DriverMore
open Noodles.Wire
open Noodles.Util

def optHex : Option Bytes → String
  | none => "none"
  | some b => hexOf b

def utf8 : Utf8 := fun b => Noodles.Index.validUtf8 (b.map UInt8.ofNat)

def parseFlavour : String → Option Flavour
  | "sync" => some .sync
  | "async" => some .async
  | _ => none

/-- echo the candidate list when the model's answer is one of them -/
def showObs (f : String) (c : Comp) (obs : String) : String :=
  if obs.startsWith "in:" then
    let cands := (obs.drop 3).toString.splitOn "+"
    if cands.contains s!"{f}.{compStr c}" then obs else s!"{f} {compStr c}"
  else showKind f c obs

def parseScript (s : String) : Option (List Poll1) :=
  if s = "-" then some [] else
  (s.splitOn ",").mapM fun t => if t = "p" then some .pending else t.toNat?.map .ready

def parseFsRead : String → Option FsRead
  | "ok" => some .ok
  | "nf" => some .notFound
  | "eof" => some (.failed .eof)
  | "invalid-data" => some (.failed .invalidData)
  | "invalid-input" => some (.failed .invalidInput)
  | "other" => some (.failed .other)
  | _ => none

/-- `bai:ok,csi:nf` → the file system next to `path` -/
def parseFs (path : Bytes) (s : String) : Option Fs := do
  let entries ← if s = "-" then some [] else
    (s.splitOn ",").mapM fun e => match e.splitOn ":" with
      | [ext, r] => do pure (pushExt path (ofString ext), ← parseFsRead r)
      | _ => none
  pure fun p => ((entries.find? (·.1 = p)).map (·.2)).getD .notFound

def showIdx : IndexSrc → String
  | .given => "given"
  | .file q => match extension q with
    | some e => String.ofList (e.map Char.ofNat)
    | none => "?"

def parseGiven : String → Option (Option GivenIndex)
  | "-" => some none
  | "csi" => some (some .csi)
  | "crai" => some (some .crai)
  | _ => none

def parseSrc (s : String) : Option (Option Bytes) :=
  if s = "-" then some none else (bytesOf s).map some

def parseMd5 (s : String) : Option (Noodles.Sam.Bytes → Noodles.Sam.Bytes) := do
  let entries ← if s = "-" then some [] else
    (s.splitOn ",").mapM fun e => match e.splitOn "=" with
      | [n, d] => do pure (← unhex n, ← unhex d)
      | _ => none
  pure fun name => ((entries.find? (·.1 = name)).map (·.2)).getD []

/-- the containers are parameters of the model: any lawful instance answers the same -/
def idFraming : HeaderConv.TextFraming := ⟨id, some, fun _ => rfl⟩

def handle? : List String → Option String
  | ["pext", p] => some <|
    match bytesOf p with
    | some p => s!"{optHex (fileName p)} {optHex (extension p)} {optHex (fileStem p)}"
    | none => "bad-op"
  | ["apath", fl, fo, co, p, created] => some <|
    match parseFlavour fl, parseAFormat fo, parseComp co, bytesOf p with
    | some fl, some fo, some co, some p =>
      let r := aWriterFromPathFs fl utf8 fo co p (created = "1")
      let c := if r.created then "created" else "-"
      match r.answer with
      | .ok (f, k) => s!"{aStr f} {compStr k} {c}"
      | .error e => s!"{errStr e} {c}"
    | _, _, _, _ => "bad-op"
  | ["vpath", fo, co, p, created] => some <|
    match parseVFormat fo, parseComp co, bytesOf p with
    | some fo, some co, some p =>
      if created = "1" then let (f, k) := vWriterFromPath utf8 fo co p; s!"{vStr f} {compStr k} created"
      else "err:other -"
    | _, _, _ => "bad-op"
  | ["arpath", fo, co, p, raw, infl, stop, obs] => some <|
    match parseAFormat fo, parseComp co, bytesOf p, bytesOf raw, bytesOf infl, parseStop stop with
    | some fo, some co, some p, some raw, some infl, some stop =>
      match aReaderFromPath fo co p raw ⟨infl, stop⟩ with
      | .ok (f, c) => showObs (aStr f) c obs
      | .error e => errStr e
    | _, _, _, _, _, _ => "bad-op"
  | ["vrpath", fo, co, p, raw, infl, stop, obs] => some <|
    match parseVFormat fo, parseComp co, bytesOf p, bytesOf raw, bytesOf infl, parseStop stop with
    | some fo, some co, some p, some raw, some infl, some stop =>
      match vReaderFromPath fo co p raw ⟨infl, stop⟩ with
      | .ok (f, c) => showObs (vStr f) c obs
      | .error e => errStr e
    | _, _, _, _, _, _ => "bad-op"
  | ["abuild", fl, fo, co, script, data, infl, stop, obs] => some <|
    match parseFlavour fl, parseAFormat fo, parseComp co, parseScript script, bytesOf data, bytesOf infl, parseStop stop with
    | some fl, some fo, some co, some script, some data, some infl, some stop =>
      let r := match fl with
        | .async => aBuildAsync (fun _ => ⟨infl, stop⟩) fo co ⟨data, script⟩
        | .sync => aBuildSync (fun _ => ⟨infl, stop⟩) fo co ⟨data, stripPending script⟩
      match r with
      | .ok (f, c) => showObs (aStr f) c obs
      | .error e => errStr e
    | _, _, _, _, _, _, _ => "bad-op"
  | ["vbuild", fl, fo, co, script, data, infl, stop, obs] => some <|
    match parseFlavour fl, parseVFormat fo, parseComp co, parseScript script, bytesOf data, bytesOf infl, parseStop stop with
    | some fl, some fo, some co, some script, some data, some infl, some stop =>
      let r := match fl with
        | .async => vBuildAsync (fun _ => ⟨infl, stop⟩) fo co ⟨data, script⟩
        | .sync => vBuildSync (fun _ => ⟨infl, stop⟩) fo co ⟨data, stripPending script⟩
      match r with
      | .ok (f, c) => showObs (vStr f) c obs
      | .error e => errStr e
    | _, _, _, _, _, _, _ => "bad-op"
  | ["aidx", fo, co, given, src, fs, raw, infl, stop] => some <|
    match parseAFormat fo, parseComp co, parseGiven given, parseSrc src, bytesOf raw, bytesOf infl, parseStop stop with
    | some fo, some co, some given, some src, some raw, some infl, some stop =>
      match parseFs (src.getD []) fs with
      | some fs =>
        match aIndexedBuild fo co given fs src raw ⟨infl, stop⟩ with
        | .ok (f, i) => s!"{aStr f} {showIdx i}"
        | .error e => errStr e
      | none => "bad-op"
    | _, _, _, _, _, _, _ => "bad-op"
  | ["vidx", fo, co, given, src, fs, raw, infl, stop] => some <|
    match parseVFormat fo, parseComp co, parseSrc src, bytesOf raw, bytesOf infl, parseStop stop with
    | some fo, some co, some src, some raw, some infl, some stop =>
      match parseFs (src.getD []) fs with
      | some fs =>
        match vIndexedBuild fo co (given = "1") fs src raw ⟨infl, stop⟩ with
        | .ok (f, i) => s!"{vStr f} {showIdx i}"
        | .error e => errStr e
      | none => "bad-op"
    | _, _, _, _, _, _ => "bad-op"
  | ["ahdr", f, g, text, md5] => some <|
    match parseAFormat f, parseAFormat g, unhex text, parseMd5 md5 with
    | some (some f), some (some g), some text, some md5 =>
      match Noodles.Sam.headerParse text with
      | .error _ => "unparsed"
      | .ok h =>
        match HeaderConv.aConvertHeader idFraming md5 f g h with
        | none => "rejected"
        | some h' => match Noodles.Sam.headerWrite h' with
          | .ok t => hex t
          | .error _ => "rejected"
    | _, _, _, _ => "bad-op"
  | ["vhdr", f, g, defs, text] => some <|
    match parseVFormat f, parseVFormat g, Noodles.Vcf.Driver.parseDefTables defs, unhex text with
    | some (some f), some (some g), some D, some text =>
      match Noodles.Vcf.Header.parseHeader D text with
      | .error _ => "unparsed"
      | .ok h =>
        match HeaderConv.vConvertHeader idFraming D f g h with
        | none => "rejected"
        | some h' => match Noodles.Vcf.Header.writeHeader h' with
          | some t => hex t
          | none => "rejected"
    | _, _, _, _ => "bad-op"
  | _ => none

end Noodles.Util.DriverMore
