import Noodles.Util.Detect
/-!
# `build_from_path`: what a path says about format and compression (model for C20, extension)

Transcribed from

* `std::path::Path::{file_name, extension, file_stem}` on Unix (`library/std/src/path.rs`:
  `Components::next_back`, `rsplit_file_at_dot`) — an EXTERNAL component: the model below is
  compared with `std` on every run (`c20 pext`);
* noodles-util `src/alignment/io/writer/builder.rs` — `detect_format_from_path_extension`,
  `detect_compression_method_from_path_extension`, `Builder::build_from_path`;
* noodles-util `src/variant/io/writer/builder.rs` — the same three;
* noodles-util `src/alignment/async/io/writer/builder.rs`, `src/variant/async/io/writer/builder.rs`
  — `build_from_path` (calls the two sync functions) and the async `build_from_writer` (the
  alignment one reports bgzipped CRAM as `InvalidData`, the sync one as `InvalidInput`);
* noodles-util `src/{alignment,variant}/io/reader/builder.rs` and `src/{alignment,variant}/async/
  io/reader/builder.rs` — `build_from_path`: `File::open(path)` then `build_from_reader`; the path
  is NOT looked at, only the content.

A path is a byte string (`OsStr` on Unix); a byte is a `Nat` as in `Detect.lean`.
-/
namespace Noodles.Util

def SLASH : Nat := 0x2f
def DOT : Nat := 0x2e

/-- split at every `sep` (the pieces between separators, empty pieces included) -/
def splitOn (sep : Nat) : Bytes → List Bytes
  | [] => [[]]
  | b :: rest =>
    if b = sep then [] :: splitOn sep rest
    else match splitOn sep rest with
      | [] => [[b]]
      | c :: cs => (b :: c) :: cs

/-- The components `Path::components()` yields as `Normal` or `ParentDir`, in order: repeated
separators and `.` components are skipped (a leading `.` is a `CurDir`, the leading `/` a `RootDir`;
neither is ever the answer of `file_name`). -/
def namedComponents (p : Bytes) : List Bytes :=
  (splitOn SLASH p).filter fun c => c ≠ [] ∧ c ≠ [DOT]

/-- `Path::file_name`: the last component if it is a normal one (`None` for `..`, `/`, `.`, ``). -/
def fileName (p : Bytes) : Option Bytes :=
  match (namedComponents p).getLast? with
  | none => none
  | some c => if c = [DOT, DOT] then none else some c

/-- `slice.rsplitn(2, |b| b == '.')` as (before, after) around the LAST dot; `none`: no dot. -/
def rsplitDot : Bytes → Option (Bytes × Bytes)
  | [] => none
  | b :: rest =>
    match rsplitDot rest with
    | some (bf, af) => some (b :: bf, af)
    | none => if b = DOT then some ([], rest) else none

/-- `rsplit_file_at_dot` → (before, after) -/
def rsplitFileAtDot (file : Bytes) : Option Bytes × Option Bytes :=
  if file = [DOT, DOT] then (some file, none)
  else match rsplitDot file with
    | none => (none, some file)
    | some (bf, af) => if bf = [] then (some file, none) else (some bf, some af)

/-- `Path::extension`: `before.and(after)` -/
def extension (p : Bytes) : Option Bytes :=
  match fileName p with
  | none => none
  | some f => match rsplitFileAtDot f with
    | (some _, a) => a
    | (none, _) => none

/-- `Path::file_stem`: `before.or(after)` -/
def fileStem (p : Bytes) : Option Bytes :=
  match fileName p with
  | none => none
  | some f => match rsplitFileAtDot f with
    | (some b, _) => some b
    | (none, a) => a

def EXT_SAM : Bytes := [0x73, 0x61, 0x6d]
def EXT_BAM : Bytes := [0x62, 0x61, 0x6d]
def EXT_CRAM : Bytes := [0x63, 0x72, 0x61, 0x6d]
def EXT_VCF : Bytes := [0x76, 0x63, 0x66]
def EXT_BCF : Bytes := [0x62, 0x63, 0x66]
def EXT_GZ : Bytes := [0x67, 0x7a]
def EXT_BGZ : Bytes := [0x62, 0x67, 0x7a]

/-- `str::ends_with` on the bytes -/
def endsWith (s suffix : Bytes) : Bool := decide (s.drop (s.length - suffix.length) = suffix)

/-- `OsStr::to_str`: is the byte string valid UTF-8? An external component (`core::str`); nothing
the builders do depends on its answer (`Noodles.Props.C20.stem_check_unobservable`), so it stays a
parameter. -/
abbrev Utf8 := Bytes → Bool

/-- alignment `detect_format_from_path_extension`. (`ext.to_str()` of an extension that is not
UTF-8 is `None`, which is the `_` arm — the same arm a valid but unknown extension takes, because
every literal it is compared with is ASCII.) -/
def aPathFormat (utf8 : Utf8) (p : Bytes) : Option AFormat :=
  match extension p with
  | none => none
  | some e =>
    if e = EXT_SAM then some .sam
    else if e = EXT_BAM then some .bam
    else if e = EXT_CRAM then some .cram
    else if e = EXT_GZ ∨ e = EXT_BGZ then
      match fileStem p with
      | none => none
      | some stem => if utf8 stem then (if endsWith stem EXT_SAM then some .sam else none) else none
    else none

/-- alignment `detect_compression_method_from_path_extension` -/
def aPathComp (p : Bytes) : Comp :=
  match extension p with
  | none => .plain
  | some e => if e = EXT_BAM ∨ e = EXT_GZ ∨ e = EXT_BGZ then .bgzf else .plain

/-- variant `detect_format_from_path_extension` -/
def vPathFormat (utf8 : Utf8) (p : Bytes) : Option VFormat :=
  match extension p with
  | none => none
  | some e =>
    if e = EXT_VCF then some .vcf
    else if e = EXT_BCF then some .bcf
    else if e = EXT_GZ ∨ e = EXT_BGZ then
      match fileStem p with
      | none => none
      | some stem => if utf8 stem then (if endsWith stem EXT_VCF then some .vcf else none) else none
    else none

/-- variant `detect_compression_method_from_path_extension` -/
def vPathComp (p : Bytes) : Comp :=
  match extension p with
  | none => .plain
  | some e => if e = EXT_BCF ∨ e = EXT_GZ ∨ e = EXT_BGZ then .bgzf else .plain

/-- Which of the two alignment writer builders: they differ in the error kind for bgzipped CRAM. -/
inductive Flavour | sync | async
  deriving DecidableEq, Repr

/-- async alignment `build_from_writer`: as `aWriterKind`, but `InvalidData` -/
def aWriterKindFl : Flavour → Option AFormat → Option Comp → Except Err (AFormat × Comp)
  | .sync, fo, co => aWriterKind fo co
  | .async, fo, co =>
    match aWriterKind fo co with
    | .error .invalidInput => .error .invalidData
    | r => r

/-- alignment `writer::Builder::build_from_path` once `File::create(path)` has succeeded: a
compression method that was not set explicitly is ALWAYS taken from the path (so the format's own
default of `build_from_writer` never applies), a format that was not set is taken from the path
when the path has an opinion. -/
def aWriterFromPath (fl : Flavour) (utf8 : Utf8) (fo : Option AFormat) (co : Option Comp) (p : Bytes) :
    Except Err (AFormat × Comp) :=
  let co' : Option Comp := match co with
    | some c => some c
    | none => some (aPathComp p)
  let fo' : Option AFormat := match fo with
    | some f => some f
    | none => aPathFormat utf8 p
  aWriterKindFl fl fo' co'

/-- variant `writer::Builder::build_from_path` (sync and async are the same function) -/
def vWriterFromPath (utf8 : Utf8) (fo : Option VFormat) (co : Option Comp) (p : Bytes) : VFormat × Comp :=
  let co' : Option Comp := match co with
    | some c => some c
    | none => some (vPathComp p)
  let fo' : Option VFormat := match fo with
    | some f => some f
    | none => vPathFormat utf8 p
  vWriterKind fo' co'

/-- What `build_from_path` does to the file system, besides answering: `File::create` runs BEFORE
the (format, compression) pair is validated, so a refused request still creates / truncates the
file. -/
structure PathEffect (α : Type) where
  answer : Except Err α
  created : Bool
  deriving Repr

def aWriterFromPathFs (fl : Flavour) (utf8 : Utf8) (fo : Option AFormat) (co : Option Comp) (p : Bytes)
    (createOk : Bool) : PathEffect (AFormat × Comp) :=
  if createOk then ⟨aWriterFromPath fl utf8 fo co p, true⟩ else ⟨.error .other, false⟩

/-- alignment `reader::Builder::build_from_path` (sync and async): the path is only opened. -/
def aReaderFromPath (fo : Option AFormat) (co : Option Comp) (_p : Bytes) (w : Bytes) (infl : Inflated) :
    Except Err (AFormat × Comp) :=
  aBuildWith fo co w infl

def vReaderFromPath (fo : Option VFormat) (co : Option Comp) (_p : Bytes) (w : Bytes) (infl : Inflated) :
    Except Err (VFormat × Comp) :=
  vBuildWith fo co w infl

/-- the table `path_mapping_total` proves the builders implement, on the extension alone -/
def aExtKind (ext : Option Bytes) : AFormat × Comp :=
  match ext with
  | none => (.sam, .plain)
  | some e =>
    if e = EXT_SAM then (.sam, .plain)
    else if e = EXT_BAM then (.bam, .bgzf)
    else if e = EXT_CRAM then (.cram, .plain)
    else if e = EXT_GZ ∨ e = EXT_BGZ then (.sam, .bgzf)
    else (.sam, .plain)

def vExtKind (ext : Option Bytes) : VFormat × Comp :=
  match ext with
  | none => (.vcf, .plain)
  | some e =>
    if e = EXT_VCF then (.vcf, .plain)
    else if e = EXT_BCF then (.bcf, .bgzf)
    else if e = EXT_GZ ∨ e = EXT_BGZ then (.vcf, .bgzf)
    else (.vcf, .plain)

/-- ASCII string literal → bytes (for witnesses) -/
def ofString (s : String) : Bytes := s.toList.map Char.toNat

end Noodles.Util
