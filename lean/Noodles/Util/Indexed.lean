import Noodles.Util.Path
/-!
# `IndexedReader` builders: the format check and the discovery of the index file (model for C20)

Transcribed from

* noodles-util `src/alignment/io/indexed_reader/builder.rs` — `Builder::build_from_path`,
  `Builder::build_from_reader`, `enum Index { Csi(Box<dyn BinningIndex>), Crai(crai::Index) }`
  (a BAI, a CSI and a tabix index all convert into `Index::Csi`);
* noodles-util `src/variant/io/indexed_reader/builder.rs` — the same two;
* the per-format builders they delegate to: noodles-sam `io/indexed_reader/builder.rs`
  (`<src>.csi`), noodles-bam (`<src>.bai`, on `NotFound` `<src>.csi`), noodles-cram (`<src>.crai`),
  noodles-vcf (`<src>.tbi`, on `NotFound` `<src>.csi`), noodles-bcf (`<src>.csi`); `push_ext`
  APPENDS `.` and the extension to the whole path, it does not replace an extension.

Both builders call the detectors of the plain reader builders (`detect_compression_method`,
`detect_format`, `Detect.lean`) on the first `fill_buf` window of the file.

The file system is a parameter: `fs path` is what `<format>::fs::read(path)` answers for an index
path (each candidate path is only ever read by the reader its extension calls for).
-/
namespace Noodles.Util

/-- the outcome of `bai::fs::read` / `csi::fs::read` / `tabix::fs::read` / `crai::fs::read` -/
inductive FsRead
  | ok
  | notFound
  | failed (e : Err)
  deriving DecidableEq, Repr

abbrev Fs := Bytes → FsRead

def EXT_BAI : Bytes := [0x62, 0x61, 0x69]
def EXT_CSI : Bytes := [0x63, 0x73, 0x69]
def EXT_TBI : Bytes := [0x74, 0x62, 0x69]
def EXT_CRAI : Bytes := [0x63, 0x72, 0x61, 0x69]

/-- `push_ext` -/
def pushExt (p ext : Bytes) : Bytes := p ++ DOT :: ext

/-- where the index the reader ends up with came from -/
inductive IndexSrc
  | given
  | file (path : Bytes)
  deriving DecidableEq, Repr

/-- `<format>::fs::read(path)?` -/
def readIndex (fs : Fs) (path : Bytes) : Except Err IndexSrc :=
  match fs path with
  | .ok => .ok (.file path)
  | .notFound => .error .other           -- `io::ErrorKind::NotFound`
  | .failed e => .error e

/-- noodles-bam / noodles-vcf `read_associated_index`: the first candidate, the second one only
when the first does not exist (`Err(e) if e.kind() == NotFound`); any other failure of the first
candidate is final. -/
def readIndexFallback (fs : Fs) (first second : Bytes) : Except Err IndexSrc :=
  match fs first with
  | .ok => .ok (.file first)
  | .notFound => readIndex fs second
  | .failed e => .error e

/-- The argument of `set_index`, as the alignment builder files it. -/
inductive GivenIndex | csi | crai
  deriving DecidableEq, Repr

/-- `build_from_path` (`some path`) or `build_from_reader` (`none`) of a per-format builder whose
index was not set: look on disk, or `InvalidInput` "missing index". -/
def discover (src : Option Bytes) (find : Bytes → Except Err IndexSrc) : Except Err IndexSrc :=
  match src with
  | some p => find p
  | none => .error .invalidInput

/-- alignment `indexed_reader::Builder::{build_from_path, build_from_reader}`: `w` is the first
window of the file, `src` the path (`none` for `build_from_reader`). A given index of the wrong
family (`Crai` for SAM/BAM, `Csi` for CRAM) is silently dropped: `if let Some(Index::Csi(index))`. -/
def aIndexedBuild (fo : Option AFormat) (co : Option Comp) (given : Option GivenIndex) (fs : Fs)
    (src : Option Bytes) (w : Bytes) (infl : Inflated) : Except Err (AFormat × IndexSrc) := do
  let c := match co with
    | some c => c
    | none => detectCompression w
  let f ← match fo with
    | some f => pure f
    | none => aDetectFormat w infl c
  match f, c with
  | .sam, .plain => .error .invalidData            -- "source not bgzip-compressed"
  | .bam, .plain => .error .invalidData
  | .sam, .bgzf =>
    let idx ← if given = some .csi then pure .given
      else discover src fun p => readIndex fs (pushExt p EXT_CSI)
    pure (.sam, idx)
  | .bam, .bgzf =>
    let idx ← if given = some .csi then pure .given
      else discover src fun p => readIndexFallback fs (pushExt p EXT_BAI) (pushExt p EXT_CSI)
    pure (.bam, idx)
  | .cram, .plain =>
    let idx ← if given = some .crai then pure .given
      else discover src fun p => readIndex fs (pushExt p EXT_CRAI)
    pure (.cram, idx)
  | .cram, .bgzf => .error .invalidData            -- "CRAM cannot be bgzip-compressed"

/-- variant `indexed_reader::Builder::{build_from_path, build_from_reader}`; `given`: an index was
set (any `BinningIndex`). -/
def vIndexedBuild (fo : Option VFormat) (co : Option Comp) (given : Bool) (fs : Fs)
    (src : Option Bytes) (w : Bytes) (infl : Inflated) : Except Err (VFormat × IndexSrc) := do
  let c := match co with
    | some c => c
    | none => detectCompression w
  let f ← match fo with
    | some f => pure f
    | none => vDetectFormat w infl c
  match f, c with
  | .vcf, .bgzf =>
    let idx ← if given then pure .given
      else discover src fun p => readIndexFallback fs (pushExt p EXT_TBI) (pushExt p EXT_CSI)
    pure (.vcf, idx)
  | .bcf, .bgzf =>
    let idx ← if given then pure .given
      else discover src fun p => readIndex fs (pushExt p EXT_CSI)
    pure (.bcf, idx)
  | _, .plain => .error .invalidData               -- "source not bgzip-compressed"

/-- which (format, compression) pairs an indexed reader exists for -/
def aIndexable : AFormat × Comp → Bool
  | (.sam, .bgzf) | (.bam, .bgzf) | (.cram, .plain) => true
  | _ => false

def vIndexable : VFormat × Comp → Bool
  | (_, .bgzf) => true
  | _ => false

end Noodles.Util
