import Noodles.Util.Detect
/-!
# The reader builders as machines over a source: sync `BufReader::fill_buf` and tokio's
# `BufReader::poll_fill_buf` (model for C20, extension: async builders)

Transcribed from

* `std::io::BufReader::fill_buf` (buffer of 8 KiB; when `pos >= filled` ONE `read` of the inner
  reader, otherwise the buffered bytes as they are) and `tokio::io::BufReader::poll_fill_buf`
  (tokio 1.x `src/io/util/buf_reader.rs`: when `pos >= cap` ONE `poll_read`; `Pending` is passed
  up, and `fill_buf().await` polls again with the state unchanged) — external components;
* noodles-util `src/alignment/io/reader/builder.rs` `Builder::build_from_reader`: `fill_buf` inside
  `detect_compression_method`, `fill_buf` again inside `detect_format`, nothing consumed;
* noodles-util `src/alignment/async/io/reader/builder.rs` `Builder::build_from_reader`:
  `reader.fill_buf().await?` and then the SYNC `detect_compression_method(&mut src)` /
  `detect_format(&mut src, …)` with `src : &[u8]` (whose `fill_buf` is the slice itself);
* the two variant builders likewise.

A source is the bytes not yet delivered and a finite script for the inner reader; once the script is
exhausted a read delivers whatever fits. A scripted size `n` delivers `max n 1` bytes (the harness's
`SchedReader` / `AsyncSchedReader` do the same): `Ok(0)` means end of input, as `Read` requires.
-/
namespace Noodles.Util

/-- `BufReader::new`: `DEFAULT_BUF_SIZE` (std and tokio: 8 KiB) -/
def BUF_CAP : Nat := 8192

inductive Poll1
  | ready (n : Nat)
  | pending
  deriving DecidableEq, Repr

structure SyncSrc where
  data : Bytes
  sched : List Nat
  deriving Repr

structure AsyncSrc where
  data : Bytes
  sched : List Poll1
  deriving Repr

/-- one `read` / one ready `poll_read` into the empty 8 KiB buffer -/
def deliver (data : Bytes) (limit : Option Nat) : Bytes × Bytes :=
  let n := match limit with
    | some n => min (max n 1) BUF_CAP
    | none => BUF_CAP
  (data.take n, data.drop n)

/-- `std::io::BufReader::fill_buf`: `buf` is the buffered, unconsumed part -/
def fillBufSync (buf : Bytes) (s : SyncSrc) : Bytes × SyncSrc :=
  if buf ≠ [] then (buf, s)
  else match s.sched with
    | [] => let (w, rest) := deliver s.data none; (w, ⟨rest, []⟩)
    | n :: sched => let (w, rest) := deliver s.data (some n); (w, ⟨rest, sched⟩)

/-- `tokio::io::BufReader::fill_buf().await`: every `Pending` of the inner reader costs one poll
and leaves the state as it was -/
def fillBufAsync (buf : Bytes) (data : Bytes) : List Poll1 → Bytes × AsyncSrc
  | [] => if buf ≠ [] then (buf, ⟨data, []⟩) else let (w, rest) := deliver data none; (w, ⟨rest, []⟩)
  | .pending :: sched => if buf ≠ [] then (buf, ⟨data, .pending :: sched⟩) else fillBufAsync buf data sched
  | .ready n :: sched =>
    if buf ≠ [] then (buf, ⟨data, .ready n :: sched⟩)
    else let (w, rest) := deliver data (some n); (w, ⟨rest, sched⟩)

/-- the last step of both alignment builders -/
def aFinish (f : AFormat) (c : Comp) : Except Err (AFormat × Comp) :=
  match f, c with
  | .cram, .bgzf => .error .invalidData
  | f, c => .ok (f, c)

/-- sync alignment `Builder::build_from_reader` over a scripted reader; `infl` is flate2's
`MultiGzDecoder` over a window (`BgzfLayer.inflate`) -/
def aBuildSync (infl : Bytes → Inflated) (fo : Option AFormat) (co : Option Comp) (s : SyncSrc) :
    Except Err (AFormat × Comp) :=
  let (c, buf, s) : Comp × Bytes × SyncSrc := match co with
    | some c => (c, [], s)
    | none => let (w, s') := fillBufSync [] s; (detectCompression w, w, s')
  match fo with
  | some f => aFinish f c
  | none =>
    let (w, _) := fillBufSync buf s
    match aDetectFormat w (infl w) c with
    | .ok f => aFinish f c
    | .error e => .error e

/-- async alignment `Builder::build_from_reader` -/
def aBuildAsync (infl : Bytes → Inflated) (fo : Option AFormat) (co : Option Comp) (s : AsyncSrc) :
    Except Err (AFormat × Comp) :=
  let (c, buf, s) : Comp × Bytes × AsyncSrc := match co with
    | some c => (c, [], s)
    | none => let (w, s') := fillBufAsync [] s.data s.sched; (detectCompression w, w, s')
  match fo with
  | some f => aFinish f c
  | none =>
    let (w, _) := fillBufAsync buf s.data s.sched
    match aDetectFormat w (infl w) c with
    | .ok f => aFinish f c
    | .error e => .error e

def vBuildSync (infl : Bytes → Inflated) (fo : Option VFormat) (co : Option Comp) (s : SyncSrc) :
    Except Err (VFormat × Comp) :=
  let (c, buf, s) : Comp × Bytes × SyncSrc := match co with
    | some c => (c, [], s)
    | none => let (w, s') := fillBufSync [] s; (detectCompression w, w, s')
  match fo with
  | some f => .ok (f, c)
  | none =>
    let (w, _) := fillBufSync buf s
    match vDetectFormat w (infl w) c with
    | .ok f => .ok (f, c)
    | .error e => .error e

def vBuildAsync (infl : Bytes → Inflated) (fo : Option VFormat) (co : Option Comp) (s : AsyncSrc) :
    Except Err (VFormat × Comp) :=
  let (c, buf, s) : Comp × Bytes × AsyncSrc := match co with
    | some c => (c, [], s)
    | none => let (w, s') := fillBufAsync [] s.data s.sched; (detectCompression w, w, s')
  match fo with
  | some f => .ok (f, c)
  | none =>
    let (w, _) := fillBufAsync buf s.data s.sched
    match vDetectFormat w (infl w) c with
    | .ok f => .ok (f, c)
    | .error e => .error e

/-- the sync script an async script amounts to: the `Pending`s dropped -/
def stripPending : List Poll1 → List Nat
  | [] => []
  | .pending :: s => stripPending s
  | .ready n :: s => n :: stripPending s

/-- the size of the first `fill_buf` window a script leads to -/
def firstWindowSize : List Nat → Nat
  | [] => BUF_CAP
  | n :: _ => min (max n 1) BUF_CAP

end Noodles.Util
