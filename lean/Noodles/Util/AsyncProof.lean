import Noodles.Util.AsyncDetect
import Noodles.Util.Indexed
import Noodles.Util.DetectProof
/-! Helper lemmas for the async / indexed part of `Noodles/Props/C20More.lean`. -/
namespace Noodles.Util

/-! ## async `fill_buf` = sync `fill_buf` on the script without its `Pending`s -/

/-- the async source and the sync source deliver the same bytes in the same sizes -/
def SameSrc (a : AsyncSrc) (s : SyncSrc) : Prop := a.data = s.data ∧ stripPending a.sched = s.sched

theorem fillBufAsync_eq_sync (buf data : Bytes) (sched : List Poll1) :
    (fillBufAsync buf data sched).1 = (fillBufSync buf ⟨data, stripPending sched⟩).1 ∧
    SameSrc (fillBufAsync buf data sched).2 (fillBufSync buf ⟨data, stripPending sched⟩).2 := by
  induction sched with
  | nil =>
    by_cases hb : buf ≠ []
    · simp [fillBufAsync, fillBufSync, stripPending, hb, SameSrc]
    · simp [fillBufAsync, fillBufSync, stripPending, hb, SameSrc]
  | cons x sched ih =>
    cases x with
    | pending =>
      by_cases hb : buf ≠ []
      · simp [fillBufAsync, fillBufSync, stripPending, hb, SameSrc]
      · simp only [fillBufAsync, hb, if_false, stripPending]
        exact ih
    | ready n =>
      by_cases hb : buf ≠ []
      · simp [fillBufAsync, fillBufSync, stripPending, hb, SameSrc]
      · simp [fillBufAsync, fillBufSync, stripPending, hb, SameSrc]

theorem aBuildAsync_eq_sync (infl : Bytes → Inflated) (fo : Option AFormat) (co : Option Comp)
    (data : Bytes) (sched : List Poll1) :
    aBuildAsync infl fo co ⟨data, sched⟩ = aBuildSync infl fo co ⟨data, stripPending sched⟩ := by
  unfold aBuildAsync aBuildSync
  cases co with
  | some c =>
    cases fo with
    | some f => rfl
    | none =>
      simp only
      rw [(fillBufAsync_eq_sync [] data sched).1]
  | none =>
    have h1 := fillBufAsync_eq_sync [] data sched
    cases fo with
    | some f => simp only [h1.1]
    | none =>
      simp only
      obtain ⟨hw, hd, hs⟩ := h1
      have h2 := fillBufAsync_eq_sync (fillBufAsync [] data sched).1 (fillBufAsync [] data sched).2.data
        (fillBufAsync [] data sched).2.sched
      rw [h2.1, hs, hd, hw]

theorem vBuildAsync_eq_sync (infl : Bytes → Inflated) (fo : Option VFormat) (co : Option Comp)
    (data : Bytes) (sched : List Poll1) :
    vBuildAsync infl fo co ⟨data, sched⟩ = vBuildSync infl fo co ⟨data, stripPending sched⟩ := by
  unfold vBuildAsync vBuildSync
  cases co with
  | some c =>
    cases fo with
    | some f => rfl
    | none =>
      simp only
      rw [(fillBufAsync_eq_sync [] data sched).1]
  | none =>
    have h1 := fillBufAsync_eq_sync [] data sched
    cases fo with
    | some f => simp only [h1.1]
    | none =>
      simp only
      obtain ⟨hw, hd, hs⟩ := h1
      have h2 := fillBufAsync_eq_sync (fillBufAsync [] data sched).1 (fillBufAsync [] data sched).2.data
        (fillBufAsync [] data sched).2.sched
      rw [h2.1, hs, hd, hw]

/-! ## the sync machine looks at ONE window -/

theorem firstWindowSize_pos (sched : List Nat) : 1 ≤ firstWindowSize sched := by
  cases sched with
  | nil => simp [firstWindowSize, BUF_CAP]
  | cons n s => simp only [firstWindowSize, BUF_CAP]; omega

/-- the first `fill_buf` of a fresh `BufReader` -/
theorem fillBufSync_first (data : Bytes) (sched : List Nat) :
    (fillBufSync [] ⟨data, sched⟩).1 = data.take (firstWindowSize sched) := by
  cases sched <;> simp [fillBufSync, deliver, firstWindowSize]

/-- a second `fill_buf` without `consume` in between answers the same window: the buffered bytes
when there are any, and when there are none the source was already at its end -/
theorem fillBufSync_again (data : Bytes) (sched : List Nat) :
    (fillBufSync (fillBufSync [] ⟨data, sched⟩).1 (fillBufSync [] ⟨data, sched⟩).2).1
      = (fillBufSync [] ⟨data, sched⟩).1 := by
  by_cases hw : (fillBufSync [] ⟨data, sched⟩).1 = []
  · have hd : data = [] := by
      rw [fillBufSync_first] at hw
      have := firstWindowSize_pos sched
      cases data with
      | nil => rfl
      | cons b rest =>
        obtain ⟨m, hm⟩ : ∃ m, firstWindowSize sched = m + 1 := ⟨firstWindowSize sched - 1, by omega⟩
        rw [hm] at hw
        simp at hw
    subst hd
    rw [hw]
    cases sched with
    | nil => simp [fillBufSync, deliver]
    | cons n s => cases s <;> simp [fillBufSync, deliver]
  · generalize fillBufSync [] ⟨data, sched⟩ = r at hw ⊢
    simp [fillBufSync, hw]

theorem fillBufSync_again' (data : Bytes) (sched : List Nat) :
    (fillBufSync (data.take (firstWindowSize sched)) (fillBufSync [] ⟨data, sched⟩).2).1
      = data.take (firstWindowSize sched) := by
  have := fillBufSync_again data sched
  rwa [fillBufSync_first] at this

theorem aFinish_eq (f : AFormat) (c : Comp) :
    aFinish f c = (match f, c with
      | .cram, .bgzf => (.error .invalidData : Except Err (AFormat × Comp))
      | f, c => .ok (f, c)) := rfl

/-- sync `build_from_reader` over a scripted reader = the one-window function of `Detect.lean` -/
theorem aBuildSync_eq_window (infl : Bytes → Inflated) (fo : Option AFormat) (co : Option Comp)
    (data : Bytes) (sched : List Nat) :
    aBuildSync infl fo co ⟨data, sched⟩
      = aBuildWith fo co (data.take (firstWindowSize sched)) (infl (data.take (firstWindowSize sched))) := by
  unfold aBuildSync aBuildWith
  simp only [bind, Except.bind, pure, Except.pure]
  cases co with
  | some c =>
    cases fo with
    | some f => cases f <;> cases c <;> rfl
    | none =>
      simp only [fillBufSync_first]
      cases aDetectFormat _ _ c with
      | error e => rfl
      | ok f => cases f <;> cases c <;> rfl
  | none =>
    cases fo with
    | some f =>
      simp only [fillBufSync_first]
      cases detectCompression _ <;> cases f <;> rfl
    | none =>
      simp only [fillBufSync_first, fillBufSync_again']
      cases aDetectFormat _ _ _ with
      | error e => rfl
      | ok f => cases detectCompression _ <;> cases f <;> rfl

theorem vBuildSync_eq_window (infl : Bytes → Inflated) (fo : Option VFormat) (co : Option Comp)
    (data : Bytes) (sched : List Nat) :
    vBuildSync infl fo co ⟨data, sched⟩
      = vBuildWith fo co (data.take (firstWindowSize sched)) (infl (data.take (firstWindowSize sched))) := by
  unfold vBuildSync vBuildWith
  simp only [bind, Except.bind, pure, Except.pure]
  cases co with
  | some c =>
    cases fo with
    | some f => rfl
    | none =>
      simp only [fillBufSync_first]
      cases vDetectFormat _ _ c with
      | error e => rfl
      | ok f => rfl
  | none =>
    cases fo with
    | some f =>
      simp only [fillBufSync_first]
    | none =>
      simp only [fillBufSync_first, fillBufSync_again']
      cases vDetectFormat _ _ _ with
      | error e => rfl
      | ok f => rfl

/-! ## indexed reader builders -/

/-- how the alignment indexed builder comes by its index, per format -/
def aIndexFor (f : AFormat) (given : Option GivenIndex) (fs : Fs) (src : Option Bytes) : Except Err IndexSrc :=
  match f with
  | .sam => if given = some .csi then .ok .given else discover src fun p => readIndex fs (pushExt p EXT_CSI)
  | .bam => if given = some .csi then .ok .given
    else discover src fun p => readIndexFallback fs (pushExt p EXT_BAI) (pushExt p EXT_CSI)
  | .cram => if given = some .crai then .ok .given else discover src fun p => readIndex fs (pushExt p EXT_CRAI)

def vIndexFor (f : VFormat) (given : Bool) (fs : Fs) (src : Option Bytes) : Except Err IndexSrc :=
  match f with
  | .vcf => if given then .ok .given
    else discover src fun p => readIndexFallback fs (pushExt p EXT_TBI) (pushExt p EXT_CSI)
  | .bcf => if given then .ok .given else discover src fun p => readIndex fs (pushExt p EXT_CSI)

/-- The alignment indexed builder decides exactly as the plain reader builder does, then refuses
what cannot be indexed and looks for the index. -/
theorem aIndexedBuild_eq (fo : Option AFormat) (co : Option Comp) (given : Option GivenIndex) (fs : Fs)
    (src : Option Bytes) (w : Bytes) (infl : Inflated) :
    aIndexedBuild fo co given fs src w infl =
      (match aBuildWith fo co w infl with
       | .error e => .error e
       | .ok (f, c) =>
         if aIndexable (f, c) then (aIndexFor f given fs src).map fun i => (f, i)
         else .error .invalidData) := by
  unfold aIndexedBuild aBuildWith
  simp only [bind, Except.bind, pure, Except.pure]
  cases co with
  | some c =>
    cases fo with
    | some f =>
      cases f <;> cases c <;> simp only [aIndexable, aIndexFor] <;>
        first | rfl | (split <;> rfl) | skip
    | none =>
      simp only
      cases aDetectFormat w infl c with
      | error e => rfl
      | ok f =>
        cases f <;> cases c <;> simp only [aIndexable, aIndexFor] <;>
          first | rfl | (split <;> rfl) | skip
  | none =>
    simp only
    cases fo with
    | some f =>
      cases f <;> cases detectCompression w <;> simp only [aIndexable, aIndexFor] <;>
        first | rfl | (split <;> rfl) | skip
    | none =>
      simp only
      cases hc : detectCompression w <;>
      (cases aDetectFormat w infl _ with
       | error e => rfl
       | ok f =>
         cases f <;> simp only [aIndexable, aIndexFor] <;>
           first | rfl | (split <;> rfl) | skip)

theorem vIndexedBuild_eq (fo : Option VFormat) (co : Option Comp) (given : Bool) (fs : Fs)
    (src : Option Bytes) (w : Bytes) (infl : Inflated) :
    vIndexedBuild fo co given fs src w infl =
      (match vBuildWith fo co w infl with
       | .error e => .error e
       | .ok (f, c) =>
         if vIndexable (f, c) then (vIndexFor f given fs src).map fun i => (f, i)
         else .error .invalidData) := by
  unfold vIndexedBuild vBuildWith
  simp only [bind, Except.bind, pure, Except.pure]
  cases co with
  | some c =>
    cases fo with
    | some f =>
      cases f <;> cases c <;> simp only [vIndexable, vIndexFor] <;>
        first | rfl | (split <;> rfl) | skip
    | none =>
      simp only
      cases vDetectFormat w infl c with
      | error e => rfl
      | ok f =>
        cases f <;> cases c <;> simp only [vIndexable, vIndexFor] <;>
          first | rfl | (split <;> rfl) | skip
  | none =>
    simp only
    cases fo with
    | some f =>
      cases f <;> cases detectCompression w <;> simp only [vIndexable, vIndexFor] <;>
        first | rfl | (split <;> rfl) | skip
    | none =>
      simp only
      cases hc : detectCompression w <;>
      (cases vDetectFormat w infl _ with
       | error e => rfl
       | ok f =>
         cases f <;> simp only [vIndexable, vIndexFor] <;>
           first | rfl | (split <;> rfl) | skip)

end Noodles.Util
