import Noodles.Util.Detect
import Noodles.Util.DetectProof
/-! Copies of four theorems of `Noodles/Props/C20.lean` (`detect_written_alignment`,
`detect_written_variant`, `generic_read_written`, `generic_read_written_alignment`), under primed
names in `Noodles.Util`: `Props/C20.lean` imports `Props/C20More.lean`, so the extension cannot
import it back. Statements and proofs are verbatim. -/
namespace Noodles.Util

/-- Alignment formats: a stream the generic writer produced for `(f, c)` is recognised as exactly
`(f, c)` from the first window alone. -/
theorem detect_written_alignment' (B : BgzfLayer) (f : AFormat) (c : Comp) (p : APayload) (k : Nat)
    (h : APrefixOK B f c p k) : aDetect B k (aStream B f c p) = .ok (f, c) := by
  unfold aDetect aBuildWith aStream compress
  cases f <;> cases c <;> simp only [APrefixOK] at h
  · -- SAM, uncompressed
    obtain ⟨h1, h2, h3⟩ := h
    simp only [detectCompression_plain _ h1, aDetectFormat_plain_sam _ _ h2 h3]; rfl
  · -- SAM, bgzipped
    obtain ⟨hk, hb⟩ := h
    have hs := aDetectFormat_bgzf_sam ((B.frame (aPlain .sam p)).take k) (B.inflate ((B.frame (aPlain .sam p)).take k))
      (fun hl => by rw [window_take B _ k 4 hl]; exact hb) (B.inflate_stop _ k)
    simp only [detectCompression_bgzf _ (frame_window_magic B _ k hk), hs]; rfl
  · -- BAM, raw
    have h4 : ((aPlain .bam p).take k).take 4 = BAM_MAGIC := by
      rw [take_take_le _ _ _ h]; simp [aPlain, BAM_MAGIC]
    have h2 : ((aPlain .bam p).take k).take 2 ≠ GZIP_MAGIC := by
      rw [take_take_le _ _ _ (by omega)]; simp [aPlain, BAM_MAGIC, GZIP_MAGIC]
    simp only [detectCompression_plain _ h2, aDetectFormat_plain_bam _ _ h4]; rfl
  · -- BAM, bgzipped
    obtain ⟨hk, hl⟩ := h
    have hb := aDetectFormat_bgzf_bam ((B.frame (aPlain .bam p)).take k) (B.inflate ((B.frame (aPlain .bam p)).take k)) hl
      (by rw [window_take B _ k 4 hl]; simp [aPlain, BAM_MAGIC])
    simp only [detectCompression_bgzf _ (frame_window_magic B _ k hk), hb]; rfl
  · -- CRAM
    obtain ⟨hk, hv⟩ := h
    have h4 : ((aPlain .cram p).take k).take 4 = CRAM_MAGIC := by
      rw [take_take_le _ _ _ hk]; simp [aPlain, CRAM_MAGIC]
    have h2 : ((aPlain .cram p).take k).take 2 ≠ GZIP_MAGIC := by
      rw [take_take_le _ _ _ (by omega)]; simp [aPlain, CRAM_MAGIC, GZIP_MAGIC]
    simp only [detectCompression_plain _ h2, aDetectFormat_plain_cram _ _ h4 hv]; rfl

/-- Variant formats: the same, for VCF / VCF.gz / BCF (bgzipped and raw). -/
theorem detect_written_variant' (B : BgzfLayer) (f : VFormat) (c : Comp) (body : Bytes) (k : Nat)
    (h : VPrefixOK B f c body k) : vDetect B k (vStream B f c body) = .ok (f, c) := by
  unfold vDetect vBuildWith vStream compress
  cases f <;> cases c <;> simp only [VPrefixOK] at h
  · -- VCF text: never looks like gzip or BCF, whatever the window
    have h2 : ((vPlain .vcf body).take k).take 2 ≠ GZIP_MAGIC := by
      intro hh
      have hl := length_of_take_eq hh rfl
      rw [List.take_take] at hh
      have : 2 ≤ k := by rw [List.length_take] at hl; omega
      rw [Nat.min_eq_left this] at hh
      simp [vPlain, VCF_LEAD, GZIP_MAGIC] at hh
    have h3 : ((vPlain .vcf body).take k).take 3 ≠ BCF_MAGIC := by
      intro hh
      have hl := length_of_take_eq hh rfl
      rw [List.take_take] at hh
      have : 3 ≤ k := by rw [List.length_take] at hl; omega
      rw [Nat.min_eq_left this] at hh
      simp [vPlain, VCF_LEAD, BCF_MAGIC] at hh
    simp only [detectCompression_plain _ h2, vDetectFormat_plain_vcf _ _ h3]; rfl
  · obtain ⟨hk, hl⟩ := h
    have hv := vDetectFormat_bgzf ((B.frame (vPlain .vcf body)).take k) (B.inflate ((B.frame (vPlain .vcf body)).take k)) hl
    rw [window_take B _ k 3 hl, if_neg (by simp [vPlain, VCF_LEAD, BCF_MAGIC])] at hv
    simp only [detectCompression_bgzf _ (frame_window_magic B _ k hk), hv]; rfl
  · have h3 : ((vPlain .bcf body).take k).take 3 = BCF_MAGIC := by
      rw [take_take_le _ _ _ h]; simp [vPlain, BCF_MAGIC]
    have h2 : ((vPlain .bcf body).take k).take 2 ≠ GZIP_MAGIC := by
      rw [take_take_le _ _ _ (by omega)]; simp [vPlain, BCF_MAGIC, GZIP_MAGIC]
    simp only [detectCompression_plain _ h2, vDetectFormat_plain_bcf _ _ h3]; rfl
  · obtain ⟨hk, hl⟩ := h
    have hv := vDetectFormat_bgzf ((B.frame (vPlain .bcf body)).take k) (B.inflate ((B.frame (vPlain .bcf body)).take k)) hl
    rw [window_take B _ k 3 hl, if_pos (by simp [vPlain, BCF_MAGIC])] at hv
    simp only [detectCompression_bgzf _ (frame_window_magic B _ k hk), hv]; rfl

/-- Write with the generic writer, read with the generic reader that is told nothing: when the
detector's answer is the written `(f, c)`, the result is the format's own round trip. -/
theorem generic_read_written' {F Doc : Type} (B : BgzfLayer) (C : Codecs F Doc)
    (detect : Bytes → Except Err (F × Comp)) (f : F) (c : Comp) (d : Doc)
    (hdet : detect (gWrite B C f c d) = .ok (f, c)) :
    gRead B C detect (gWrite B C f c d) = .ok (C.nf f d) := by
  unfold gRead
  rw [hdet]
  cases c
  · simp only [gWrite, compress]; exact C.roundtrip f d
  · simp only [gWrite, compress, B.unframe_frame]; exact C.roundtrip f d

/-- …instantiated for the alignment family: for every document whose byte stream has the
writers' leading structure and satisfies `PrefixOK`. -/
theorem generic_read_written_alignment' {Doc : Type} (B : BgzfLayer) (C : Codecs AFormat Doc)
    (f : AFormat) (c : Comp) (d : Doc) (p : APayload) (k : Nat)
    (hlead : C.plain f d = aPlain f p) (hok : APrefixOK B f c p k) :
    gRead B C (aDetect B k) (gWrite B C f c d) = .ok (C.nf f d) := by
  apply generic_read_written'
  have := detect_written_alignment' B f c p k hok
  simpa [gWrite, aStream, hlead] using this


end Noodles.Util
