import Noodles.Util.Path
import Noodles.Util.DetectProof
/-! Helper lemmas for the path part of `Noodles/Props/C20More.lean`. -/
namespace Noodles.Util

/-! ## `rsplitDot`: the split at the last dot -/

theorem rsplitDot_none_iff (f : Bytes) : rsplitDot f = none ↔ DOT ∉ f := by
  induction f with
  | nil => simp [rsplitDot]
  | cons b rest ih =>
    unfold rsplitDot
    cases h : rsplitDot rest with
    | some ba =>
      have : DOT ∈ rest := by
        apply Classical.byContradiction
        intro hn
        rw [ih.mpr hn] at h
        cases h
      simp [this]
    | none =>
      have hn := ih.mp h
      by_cases hb : b = DOT
      · simp [hb]
      · simp [hb, hn, Ne.symm hb]

theorem rsplitDot_some (f b a : Bytes) (h : rsplitDot f = some (b, a)) :
    f = b ++ DOT :: a ∧ DOT ∉ a := by
  induction f generalizing b with
  | nil => simp [rsplitDot] at h
  | cons x rest ih =>
    unfold rsplitDot at h
    cases hr : rsplitDot rest with
    | some ba =>
      obtain ⟨bf, af⟩ := ba
      rw [hr] at h
      simp only [Option.some.injEq, Prod.mk.injEq] at h
      obtain ⟨rfl, rfl⟩ := h
      obtain ⟨h1, h2⟩ := ih bf hr
      exact ⟨by rw [h1]; rfl, h2⟩
    | none =>
      rw [hr] at h
      by_cases hx : x = DOT
      · simp only [hx, if_true, Option.some.injEq, Prod.mk.injEq] at h
        obtain ⟨rfl, rfl⟩ := h
        exact ⟨by rw [hx]; rfl, (rsplitDot_none_iff _).mp hr⟩
      · simp [hx] at h

theorem rsplitDot_append (b a : Bytes) (ha : DOT ∉ a) : rsplitDot (b ++ DOT :: a) = some (b, a) := by
  induction b with
  | nil =>
    show rsplitDot (DOT :: a) = _
    unfold rsplitDot
    rw [(rsplitDot_none_iff a).mpr ha]
    simp
  | cons x b ih =>
    show rsplitDot (x :: (b ++ DOT :: a)) = _
    unfold rsplitDot
    rw [ih]

/-! ## `splitOn` / `fileName` -/

theorem splitOn_ne_nil (sep : Nat) (p : Bytes) : splitOn sep p ≠ [] := by
  cases p with
  | nil => simp [splitOn]
  | cons b rest =>
    unfold splitOn
    by_cases h : b = sep
    · simp [h]
    · simp only [h, if_false]
      split <;> simp

theorem splitOn_no_sep (sep : Nat) (c : Bytes) (h : sep ∉ c) : splitOn sep c = [c] := by
  induction c with
  | nil => rfl
  | cons b rest ih =>
    have hb : b ≠ sep := fun e => h (by simp [e])
    have hr : sep ∉ rest := fun e => h (by simp [e])
    unfold splitOn
    simp [hb, ih hr]

theorem splitOn_cons_sep (sep : Nat) (rest : Bytes) : splitOn sep (sep :: rest) = [] :: splitOn sep rest := by
  simp only [splitOn, if_true]

theorem splitOn_cons_ne (sep b : Nat) (rest : Bytes) (h : b ≠ sep) :
    splitOn sep (b :: rest) = match splitOn sep rest with
      | [] => [[b]]
      | c :: cs => (b :: c) :: cs := by
  simp only [splitOn, h, if_false]
  rfl

theorem splitOn_append (sep : Nat) (d c : Bytes) :
    splitOn sep (d ++ sep :: c) = splitOn sep d ++ splitOn sep c := by
  induction d with
  | nil => rw [List.nil_append, splitOn_cons_sep]; rfl
  | cons b rest ih =>
    show splitOn sep (b :: (rest ++ sep :: c)) = _
    by_cases h : b = sep
    · subst h
      rw [splitOn_cons_sep, splitOn_cons_sep, ih]; rfl
    · rw [splitOn_cons_ne _ _ _ h, splitOn_cons_ne _ _ _ h, ih]
      cases hs : splitOn sep rest with
      | nil => exact absurd hs (splitOn_ne_nil _ _)
      | cons x xs => rfl

/-- every piece of `splitOn` is free of the separator -/
theorem mem_splitOn_no_sep (sep : Nat) (p c : Bytes) (h : c ∈ splitOn sep p) : sep ∉ c := by
  induction p generalizing c with
  | nil => simp [splitOn] at h; subst h; simp
  | cons b rest ih =>
    unfold splitOn at h
    by_cases hb : b = sep
    · simp only [hb, if_true, List.mem_cons] at h
      rcases h with rfl | h
      · simp
      · exact ih c h
    · simp only [hb, if_false] at h
      cases hs : splitOn sep rest with
      | nil => exact absurd hs (splitOn_ne_nil _ _)
      | cons x xs =>
        rw [hs] at h
        simp only [List.mem_cons] at h
        rcases h with rfl | h
        · have := ih x (by rw [hs]; simp)
          intro hm
          simp only [List.mem_cons] at hm
          rcases hm with e | hm
          · exact hb e.symm
          · exact this hm
        · exact ih c (by rw [hs]; simp [h])

/-- A normal component: what a file can be called. -/
def NormalName (c : Bytes) : Prop := c ≠ [] ∧ SLASH ∉ c ∧ c ≠ [DOT] ∧ c ≠ [DOT, DOT]

instance (c : Bytes) : Decidable (NormalName c) := by unfold NormalName; infer_instance

theorem fileName_spec (p c : Bytes) (h : fileName p = some c) : NormalName c := by
  unfold fileName at h
  cases hl : (namedComponents p).getLast? with
  | none => rw [hl] at h; cases h
  | some x =>
    rw [hl] at h
    by_cases hx : x = [DOT, DOT]
    · simp [hx] at h
    · simp only [hx, if_false, Option.some.injEq] at h
      subst h
      have hm : x ∈ namedComponents p := List.mem_of_getLast? hl
      unfold namedComponents at hm
      rw [List.mem_filter] at hm
      obtain ⟨hm1, hm2⟩ := hm
      simp only [ne_eq, decide_eq_true_eq] at hm2
      exact ⟨hm2.1, mem_splitOn_no_sep _ _ _ hm1, hm2.2, hx⟩

/-- `dir/name` is called `name`, whatever `dir` is (also with dots in it) -/
theorem fileName_join (dir c : Bytes) (hc : NormalName c) : fileName (dir ++ SLASH :: c) = some c := by
  obtain ⟨h1, h2, h3, h4⟩ := hc
  unfold fileName namedComponents
  rw [splitOn_append, splitOn_no_sep _ _ h2, List.filter_append]
  have : List.filter (fun c => decide (c ≠ [] ∧ c ≠ [DOT])) [c] = [c] := by simp [h1, h3]
  rw [this, List.getLast?_append]
  simp [h4]

/-- a bare file name (no directory part) -/
theorem fileName_bare (c : Bytes) (hc : NormalName c) : fileName c = some c := by
  obtain ⟨h1, h2, h3, h4⟩ := hc
  unfold fileName namedComponents
  rw [splitOn_no_sep _ _ h2]
  have : List.filter (fun c => decide (c ≠ [] ∧ c ≠ [DOT])) [c] = [c] := by simp [h1, h3]
  rw [this]
  simp [h4]

/-! ## `extension` -/

/-- `extension` is the part of the file name after its last dot, provided something other than
nothing precedes that dot -/
theorem extension_eq_some_iff (p e : Bytes) :
    extension p = some e ↔ ∃ b, fileName p = some (b ++ DOT :: e) ∧ b ≠ [] ∧ DOT ∉ e := by
  unfold extension
  cases hf : fileName p with
  | none => simp
  | some f =>
    have hn := fileName_spec p f hf
    have hdd : f ≠ [DOT, DOT] := hn.2.2.2
    simp only [rsplitFileAtDot, hdd, if_false]
    cases hr : rsplitDot f with
    | none =>
      have hnd := (rsplitDot_none_iff f).mp hr
      simp only [Option.some.injEq]
      constructor
      · intro h; cases h
      · rintro ⟨b, hb, _, _⟩
        exact absurd (by rw [hb]; simp) hnd
    | some ba =>
      obtain ⟨bf, af⟩ := ba
      obtain ⟨hfe, hna⟩ := rsplitDot_some f bf af hr
      by_cases hb : bf = []
      · simp only [hb, if_true, Option.some.injEq]
        constructor
        · intro h; cases h
        · rintro ⟨b, hbe, hbn, hne⟩
          rw [hfe, hb] at hbe
          have := rsplitDot_append b e hne
          rw [← hbe] at this
          have h2 := rsplitDot_append [] af hna
          rw [h2] at this
          simp only [Option.some.injEq, Prod.mk.injEq] at this
          exact absurd this.1.symm hbn
      · simp only [hb, if_false, Option.some.injEq]
        constructor
        · intro h; subst h; exact ⟨bf, by rw [hfe], hb, hna⟩
        · rintro ⟨b, hbe, _, hne⟩
          have := rsplitDot_append b e hne
          rw [← hbe, hr] at this
          simp only [Option.some.injEq, Prod.mk.injEq] at this
          exact this.2

/-- `stem.ext` is a normal file name -/
theorem normalName_stem_ext (stem ext : Bytes) (hs : stem ≠ []) (hss : SLASH ∉ stem)
    (hes : SLASH ∉ ext) (hdd : ¬ (stem = [DOT] ∧ ext = [])) : NormalName (stem ++ DOT :: ext) := by
  refine ⟨by simp, ?_, ?_, ?_⟩
  · intro h
    simp only [List.mem_append, List.mem_cons] at h
    rcases h with h | h | h
    · exact hss h
    · simp [SLASH, DOT] at h
    · exact hes h
  · cases stem with
    | nil => exact absurd rfl hs
    | cons x xs => intro h; simp at h
  · cases stem with
    | nil => exact absurd rfl hs
    | cons x xs =>
      intro h
      cases xs with
      | nil =>
        simp only [List.cons_append, List.nil_append, List.cons.injEq] at h
        exact hdd ⟨by rw [h.1], h.2.2⟩
      | cons y ys => simp at h

/-- `dir/stem.ext` has extension `ext` (unless it is `dir/..`) -/
theorem extension_join (dir stem ext : Bytes) (hs : stem ≠ []) (hss : SLASH ∉ stem)
    (he : DOT ∉ ext) (hes : SLASH ∉ ext) (hdd : ¬ (stem = [DOT] ∧ ext = [])) :
    extension (dir ++ SLASH :: (stem ++ DOT :: ext)) = some ext := by
  rw [extension_eq_some_iff]
  exact ⟨stem, fileName_join _ _ (normalName_stem_ext stem ext hs hss hes hdd), hs, he⟩

theorem extension_bare (stem ext : Bytes) (hs : stem ≠ []) (hss : SLASH ∉ stem)
    (he : DOT ∉ ext) (hes : SLASH ∉ ext) (hdd : ¬ (stem = [DOT] ∧ ext = [])) :
    extension (stem ++ DOT :: ext) = some ext := by
  rw [extension_eq_some_iff]
  exact ⟨stem, fileName_bare _ (normalName_stem_ext stem ext hs hss hes hdd), hs, he⟩

/-! ## the writer builders on a path -/

theorem aWriterKindFl_ok (fl : Flavour) (fo : Option AFormat) (co : Option Comp) (r : AFormat × Comp)
    (h : aWriterKind fo co = .ok r) : aWriterKindFl fl fo co = .ok r := by
  cases fl <;> simp [aWriterKindFl, h]

theorem aPathFormat_getD (utf8 : Utf8) (p : Bytes) :
    (aPathFormat utf8 p).getD .sam = (aExtKind (extension p)).1 := by
  unfold aPathFormat aExtKind
  cases extension p with
  | none => rfl
  | some e =>
    simp only
    by_cases h1 : e = EXT_SAM
    · subst h1; rfl
    by_cases h2 : e = EXT_BAM
    · subst h2; rfl
    by_cases h3 : e = EXT_CRAM
    · subst h3; rfl
    by_cases h4 : e = EXT_GZ ∨ e = EXT_BGZ
    · simp only [h1, h2, h3, h4, if_false, if_true]
      cases fileStem p with
      | none => rfl
      | some stem =>
        dsimp only
        cases utf8 stem <;> cases endsWith stem EXT_SAM <;> rfl
    · simp [h1, h2, h3, h4]

theorem aPathComp_eq (p : Bytes) : aPathComp p = (aExtKind (extension p)).2 := by
  unfold aPathComp aExtKind
  cases extension p with
  | none => rfl
  | some e =>
    simp only
    by_cases h1 : e = EXT_SAM
    · subst h1; decide
    by_cases h2 : e = EXT_BAM
    · subst h2; decide
    by_cases h3 : e = EXT_CRAM
    · subst h3; decide
    by_cases h4 : e = EXT_GZ ∨ e = EXT_BGZ
    · rcases h4 with h4 | h4 <;> subst h4 <;> decide
    · have h5 : ¬ (e = EXT_BAM ∨ e = EXT_GZ ∨ e = EXT_BGZ) := by
        intro h; rcases h with h | h | h
        · exact h2 h
        · exact h4 (Or.inl h)
        · exact h4 (Or.inr h)
      simp [h1, h2, h3, h4]

theorem vPathFormat_getD (utf8 : Utf8) (p : Bytes) :
    (vPathFormat utf8 p).getD .vcf = (vExtKind (extension p)).1 := by
  unfold vPathFormat vExtKind
  cases extension p with
  | none => rfl
  | some e =>
    simp only
    by_cases h1 : e = EXT_VCF
    · subst h1; rfl
    by_cases h2 : e = EXT_BCF
    · subst h2; rfl
    by_cases h4 : e = EXT_GZ ∨ e = EXT_BGZ
    · simp only [h1, h2, h4, if_false, if_true]
      cases fileStem p with
      | none => rfl
      | some stem =>
        dsimp only
        cases utf8 stem <;> cases endsWith stem EXT_VCF <;> rfl
    · simp [h1, h2, h4]

theorem vPathComp_eq (p : Bytes) : vPathComp p = (vExtKind (extension p)).2 := by
  unfold vPathComp vExtKind
  cases extension p with
  | none => rfl
  | some e =>
    simp only
    by_cases h1 : e = EXT_VCF
    · subst h1; decide
    by_cases h2 : e = EXT_BCF
    · subst h2; decide
    by_cases h4 : e = EXT_GZ ∨ e = EXT_BGZ
    · rcases h4 with h4 | h4 <;> subst h4 <;> decide
    · have h5 : ¬ (e = EXT_BCF ∨ e = EXT_GZ ∨ e = EXT_BGZ) := by
        intro h; rcases h with h | h | h
        · exact h2 h
        · exact h4 (Or.inl h)
        · exact h4 (Or.inr h)
      simp [h1, h2, h4]

/-- the writer builders never look at the `Option` a path format is, only at its default -/
theorem aWriterKind_getD (fo : Option AFormat) (c : Comp) :
    aWriterKind fo (some c) = aWriterKind (some (fo.getD .sam)) (some c) := by
  cases fo <;> rfl

theorem vWriterKind_getD (fo : Option VFormat) (c : Comp) :
    vWriterKind fo (some c) = vWriterKind (some (fo.getD .vcf)) (some c) := by
  cases fo <;> rfl

theorem aExtKind_writable (ext : Option Bytes) :
    aWriterKind (some (aExtKind ext).1) (some (aExtKind ext).2) = .ok (aExtKind ext) := by
  unfold aExtKind
  cases ext with
  | none => rfl
  | some e =>
    simp only
    split
    · rfl
    split
    · rfl
    split
    · rfl
    split <;> rfl

theorem vExtKind_writable (ext : Option Bytes) :
    vWriterKind (some (vExtKind ext).1) (some (vExtKind ext).2) = vExtKind ext := by
  unfold vExtKind
  cases ext with
  | none => rfl
  | some e =>
    simp only
    split
    · rfl
    split
    · rfl
    split <;> rfl

end Noodles.Util
