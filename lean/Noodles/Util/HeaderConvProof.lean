import Noodles.Util.HeaderConv
import Noodles.Sam.HeaderProof
import Noodles.Sam.BamProof
import Noodles.Props.C09Header
/-! Helper lemmas for the header-conversion part of `Noodles/Props/C20More.lean`. -/
namespace Noodles.Util.HeaderConv
open Noodles.Sam

theorem lookupTag_none (t : Tag) (o : Others) (h : (lookupTag t o).isSome = false) :
    t ∉ o.map (·.1) := by
  unfold lookupTag at h
  intro hm
  rw [List.mem_map] at hm
  obtain ⟨p, hp, rfl⟩ := hm
  cases hf : o.find? (fun q => q.1 == p.1) with
  | some q => rw [hf] at h; simp at h
  | none =>
    rw [List.find?_eq_none] at hf
    exact hf p hp (by simp)

theorem addM5Line_name (md5 : Bytes → Bytes) (l : SqLine) : (addM5Line md5 l).name = l.name := by
  unfold addM5Line; split <;> rfl

theorem addM5Line_len (md5 : Bytes → Bytes) (l : SqLine) : (addM5Line md5 l).len = l.len := by
  unfold addM5Line; split <;> rfl

theorem addM5Line_others_ok (md5 : Bytes → Bytes) (l : SqLine)
    (h : OthersOk (fun t => t == SN || t == LN) l.others) :
    OthersOk (fun t => t == SN || t == LN) (addM5Line md5 l).others := by
  unfold addM5Line
  by_cases hm : (lookupTag M5 l.others).isSome
  · rw [if_pos hm]; exact h
  · rw [if_neg hm]
    have hn := lookupTag_none M5 l.others (by simpa using hm)
    refine ⟨?_, ?_⟩
    · simp only [List.map_append, List.map_cons, List.map_nil]
      rw [List.nodup_append]
      refine ⟨h.nodup, by simp, ?_⟩
      intro a ha b hb
      simp only [List.mem_singleton] at hb
      subst hb
      intro e
      subst e
      exact hn ha
    · intro p hp
      rw [List.mem_append] at hp
      rcases hp with hp | hp
      · exact h.nonstd p hp
      · simp only [List.mem_singleton] at hp
        subst hp
        show ((M5 == SN) || (M5 == LN)) = false
        decide

/-- the CRAM writer's header still satisfies the invariants of a `sam::Header` -/
theorem addM5_wf (md5 : Bytes → Bytes) (h : Hdr) (hwf : HdrWF h) : HdrWF (addM5 md5 h) := by
  refine ⟨hwf.hd, ?_, ?_, hwf.rg, hwf.rgIds, hwf.pg, hwf.pgIds, hwf.co⟩
  · intro l hl
    simp only [addM5, List.mem_map] at hl
    obtain ⟨l0, hl0, rfl⟩ := hl
    obtain ⟨h1, h2⟩ := hwf.sq l0 hl0
    exact ⟨by rw [addM5Line_len]; exact h1, addM5Line_others_ok md5 l0 h2⟩
  · have : (addM5 md5 h).sq.map (·.name) = h.sq.map (·.name) := by
      simp only [addM5, List.map_map]
      apply List.map_congr_left
      intro l _
      exact addM5Line_name md5 l
    rw [this]
    exact hwf.sqNames

theorem lookupTag_append_self (t : Tag) (o : Others) (v : Bytes) :
    (lookupTag t (o ++ [(t, v)])).isSome = true := by
  unfold lookupTag
  rw [Option.isSome_map, List.find?_isSome]
  exact ⟨(t, v), by simp, by simp⟩

theorem addM5Line_of_has (md5 : Bytes → Bytes) (l : SqLine) (h : (lookupTag M5 l.others).isSome = true) :
    addM5Line md5 l = l := by
  simp [addM5Line, h]

theorem addM5Line_idem (md5 : Bytes → Bytes) (l : SqLine) :
    addM5Line md5 (addM5Line md5 l) = addM5Line md5 l := by
  by_cases hm : (lookupTag M5 l.others).isSome
  · simp [addM5Line, hm]
  · have : (lookupTag M5 (addM5Line md5 l).others).isSome = true := by
      simp only [addM5Line, hm]
      exact lookupTag_append_self M5 l.others _
    exact addM5Line_of_has md5 _ this

theorem addM5_idem (md5 : Bytes → Bytes) (h : Hdr) : addM5 md5 (addM5 md5 h) = addM5 md5 h := by
  simp only [addM5, List.map_map]
  congr 1
  apply List.map_congr_left
  intro l _
  exact addM5Line_idem md5 l

/-- one leg: the generic reader returns what the generic writer was given, up to the format's
normal form -/
theorem aHeader_roundtrip (F : TextFraming) (md5 : Bytes → Bytes) (f : Noodles.Util.AFormat) (h : Hdr)
    (hwf : HdrWF h) (b : Bytes) (hw : aWriteHeader F md5 f h = some b) :
    aReadHeader F f b = some (aHeaderNf md5 f h) := by
  cases f with
  | sam =>
    simp only [aWriteHeader] at hw
    cases ht : headerWrite h with
    | error e => rw [ht] at hw; cases hw
    | ok text =>
      rw [ht] at hw
      cases hw
      simp only [aReadHeader, aHeaderNf, headerParse_headerWrite h hwf _ ht]
      rfl
  | bam =>
    simp only [aWriteHeader] at hw
    cases ht : bamHeaderWrite h with
    | error e => rw [ht] at hw; cases hw
    | ok bytes =>
      rw [ht] at hw
      cases hw
      have := bamHeaderRead_bamHeaderWrite h hwf _ ht []
      rw [List.append_nil] at this
      simp only [aReadHeader, aHeaderNf, this]
      rfl
  | cram =>
    simp only [aWriteHeader] at hw
    cases ht : headerWrite (addM5 md5 h) with
    | error e => rw [ht] at hw; cases hw
    | ok text =>
      rw [ht] at hw
      cases hw
      simp only [aReadHeader, aHeaderNf, F.law, Option.bind,
        headerParse_headerWrite _ (addM5_wf md5 h hwf) _ ht]
      rfl

theorem aHeaderNf_wf (md5 : Bytes → Bytes) (f : Noodles.Util.AFormat) (h : Hdr) (hwf : HdrWF h) :
    HdrWF (aHeaderNf md5 f h) := by
  cases f
  · exact hwf
  · exact hwf
  · exact addM5_wf md5 h hwf

open Noodles.Vcf.Header in
theorem vHeader_roundtrip (F : TextFraming) (D : DefTables) (f : Noodles.Util.VFormat) (h : Header)
    (hwf : wfHeader D h = true) :
    ∃ b, vWriteHeader F f h = some b ∧ vReadHeader F D f b = some h := by
  obtain ⟨text, hw, hp⟩ := Noodles.Props.C09.vcf_header_roundtrip D h hwf
  cases f with
  | vcf => exact ⟨text, hw, by simp only [vReadHeader, hp]; rfl⟩
  | bcf =>
    refine ⟨F.wrap text, by simp only [vWriteHeader, hw]; rfl, ?_⟩
    simp only [vReadHeader, F.law, Option.bind, hp]
    rfl

end Noodles.Util.HeaderConv
