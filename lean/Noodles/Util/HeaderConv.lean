import Noodles.Util.Detect
import Noodles.Sam.Header
import Noodles.Sam.Bam
import Noodles.Vcf.HeaderModel
import Noodles.Vcf.HeaderWF
/-!
# `convert` at the level of headers: what the generic writer emits for a header the generic reader
# read (model for C20, extension)

Transcribed from

* noodles-util `src/alignment/io/{reader,writer}/inner.rs` — `read_header` / `write_header`
  dispatch to the format's own reader / writer (nothing else happens there);
* SAM: `sam::io::Writer::write_header` / `sam::io::Reader::read_header` — `Noodles/Sam/Header.lean`
  (C06: `headerWrite`, `headerParse`);
* BAM: `bam::io::writer::header::write_header` (magic, `l_text`, the SAM text, `n_ref`, the binary
  reference list) / `bam::io::reader::header::read_header` — `Noodles/Sam/Bam.lean` (C06:
  `bamHeaderWrite`, `bamHeaderRead`, byte level);
* CRAM: `cram::io::writer::header::write_file_header` = `add_missing_reference_sequence_checksums`
  (an `@SQ` line without `M5` gets `M5:<md5 of the sequence in the repository>` APPENDED to its
  other fields; a line that has one is left alone) and then the SAM text inside the file-header
  container; `cram::io::reader::header` parses that text with the SAM header parser. The
  container around the text (file definition, container header, block, CRC32s) is a parameter with
  a round-trip law (`TextFraming`; C07/C15 model its pieces), and so is MD5 (`md5 : name → digest`
  as 32 hex digits). The writer PANICS (`expect("missing reference sequence")`) when the repository
  lacks a sequence that needs a checksum; the model assumes the repository is complete.
* VCF: `vcf::io::Writer::write_header` / `vcf::io::Reader::read_header` —
  `Noodles/Vcf/HeaderModel.lean` (C09: `writeHeader`, `parseHeader`);
* BCF: `bcf::io::Writer::write_header` writes magic, version, `l_text`, the VCF header text and a
  NUL; `bcf::io::reader::header::read_header` parses the text with the VCF header parser line by
  line. The block around the text is again a `TextFraming` parameter.
-/
namespace Noodles.Util.HeaderConv
open Noodles.Sam

abbrev Bytes := Noodles.Sam.Bytes

/-- a container that carries a text and gives it back: the CRAM file-header container, the BCF
header block -/
structure TextFraming where
  wrap : Bytes → Bytes
  unwrap : Bytes → Option Bytes
  law : ∀ t, unwrap (wrap t) = some t

/-- `M5` -/
def M5 : Tag := (77, 53)

/-- one `@SQ` line through `add_missing_reference_sequence_checksums` (`Entry::Vacant` → insert at
the end of the `IndexMap`) -/
def addM5Line (md5 : Bytes → Bytes) (l : SqLine) : SqLine :=
  if (lookupTag M5 l.others).isSome then l else { l with others := l.others ++ [(M5, md5 l.name)] }

/-- `add_missing_reference_sequence_checksums` -/
def addM5 (md5 : Bytes → Bytes) (h : Hdr) : Hdr := { h with sq := h.sq.map (addM5Line md5) }

open Noodles.Util (AFormat VFormat)

/-- generic alignment writer, `write_header`; `none`: the writer refuses the header -/
def aWriteHeader (F : TextFraming) (md5 : Bytes → Bytes) : AFormat → Hdr → Option Bytes
  | .sam, h => (headerWrite h).toOption
  | .bam, h => (bamHeaderWrite h).toOption
  | .cram, h => (headerWrite (addM5 md5 h)).toOption.map F.wrap

/-- generic alignment reader, `read_header` -/
def aReadHeader (F : TextFraming) : AFormat → Bytes → Option Hdr
  | .sam, b => (headerParse b).toOption
  | .bam, b => (bamHeaderRead b).toOption.map (·.1)
  | .cram, b => (F.unwrap b).bind fun t => (headerParse t).toOption

/-- what a format does to a header: CRAM adds the missing checksums, SAM and BAM nothing -/
def aHeaderNf (md5 : Bytes → Bytes) : AFormat → Hdr → Hdr
  | .cram, h => addM5 md5 h
  | _, h => h

/-- reader(f) piped into writer(g), header only; the result is what reader(g) then sees -/
def aConvertHeader (F : TextFraming) (md5 : Bytes → Bytes) (f g : AFormat) (h : Hdr) : Option Hdr :=
  (aWriteHeader F md5 f h).bind fun b₁ =>
  (aReadHeader F f b₁).bind fun h₁ =>
  (aWriteHeader F md5 g h₁).bind fun b₂ =>
  aReadHeader F g b₂

/-! ## variant headers -/

open Noodles.Vcf.Header in
/-- generic variant writer, `write_header` -/
def vWriteHeader (F : TextFraming) : VFormat → Header → Option Bytes
  | .vcf, h => writeHeader h
  | .bcf, h => (writeHeader h).map F.wrap

open Noodles.Vcf.Header in
/-- generic variant reader, `read_header` -/
def vReadHeader (F : TextFraming) (D : DefTables) : VFormat → Bytes → Option Header
  | .vcf, b => (parseHeader D b).toOption
  | .bcf, b => (F.unwrap b).bind fun t => (parseHeader D t).toOption

open Noodles.Vcf.Header in
def vConvertHeader (F : TextFraming) (D : DefTables) (f g : VFormat) (h : Header) : Option Header :=
  (vWriteHeader F f h).bind fun b₁ =>
  (vReadHeader F D f b₁).bind fun h₁ =>
  (vWriteHeader F g h₁).bind fun b₂ =>
  vReadHeader F D g b₂

open Noodles.Vcf.Header in
/-- The entries `StringMaps::try_from(&Header)` walks for the dictionary of strings, in its order:
every INFO, then every FILTER, then every FORMAT id with its `IDX`. (The BCF writer builds its
dictionary from the header VALUE with this walk, on every `write_header`.) -/
def stringEntries (h : Header) : List (Bytes × Option Nat) :=
  h.infos.map (fun l => (l.id, l.idx)) ++ h.filters.map (fun l => (l.id, l.idx)) ++
    h.formats.map (fun l => (l.id, l.idx))

open Noodles.Vcf.Header in
/-- … and for the dictionary of contigs -/
def contigEntries (h : Header) : List (Bytes × Option Nat) := h.contigs.map fun l => (l.id, l.idx)

end Noodles.Util.HeaderConv
