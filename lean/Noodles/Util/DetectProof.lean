import Noodles.Util.Detect
/-! Helper lemmas for C20 (`Noodles/Props/C20.lean`). -/
namespace Noodles.Util

theorem take_take_le {α : Type} (l : List α) (n k : Nat) (h : n ≤ k) : (l.take k).take n = l.take n := by
  rw [List.take_take, Nat.min_eq_left h]

theorem prefix_take_eq {α : Type} {l₁ l₂ : List α} (h : l₁ <+: l₂) (n : Nat) (hn : n ≤ l₁.length) :
    l₁.take n = l₂.take n := by
  obtain ⟨t, rfl⟩ := h
  rw [List.take_append_of_le_length hn]

theorem length_of_take_eq {α : Type} {l m : List α} {n : Nat} (h : l.take n = m) (hm : m.length = n) :
    n ≤ l.length := by
  have := congrArg List.length h
  rw [List.length_take, hm] at this
  omega

theorem detectCompression_plain (w : Bytes) (h : w.take 2 ≠ GZIP_MAGIC) : detectCompression w = .plain := by
  unfold detectCompression getPrefix
  split
  · next buf hb =>
    split at hb
    · cases hb; rw [if_neg h]
    · cases hb
  · rfl

theorem detectCompression_bgzf (w : Bytes) (h : w.take 2 = GZIP_MAGIC) : detectCompression w = .bgzf := by
  have hl : 2 ≤ w.length := length_of_take_eq h rfl
  unfold detectCompression getPrefix
  rw [if_pos hl]
  simp [h]

/-- the compression decision looks at the first two bytes of the window only -/
theorem detectCompression_take (w : Bytes) (n : Nat) (hn : 2 ≤ n) :
    detectCompression (w.take n) = detectCompression w := by
  by_cases h : w.take 2 = GZIP_MAGIC
  · rw [detectCompression_bgzf w h, detectCompression_bgzf _ (by rw [take_take_le _ _ _ hn]; exact h)]
  · rw [detectCompression_plain w h, detectCompression_plain _ (by rw [take_take_le _ _ _ hn]; exact h)]

theorem aDetectFormat_plain_sam (w : Bytes) (i : Inflated)
    (h2 : w.take 4 ≠ BAM_MAGIC) (h3 : ¬ (w.take 4 = CRAM_MAGIC ∧ cramVersionOK (w.drop 4) = true)) :
    aDetectFormat w i .plain = .ok .sam := by
  by_cases hl : 4 ≤ w.length
  · simp only [aDetectFormat, getPrefix, if_pos hl, if_neg h2, if_neg h3]
  · simp only [aDetectFormat, getPrefix, if_neg hl]

theorem aDetectFormat_plain_bam (w : Bytes) (i : Inflated) (h : w.take 4 = BAM_MAGIC) :
    aDetectFormat w i .plain = .ok .bam := by
  have hl : 4 ≤ w.length := length_of_take_eq h rfl
  unfold aDetectFormat getPrefix
  rw [if_pos hl]
  simp [h]

theorem aDetectFormat_plain_cram (w : Bytes) (i : Inflated) (h : w.take 4 = CRAM_MAGIC)
    (hv : cramVersionOK (w.drop 4) = true) : aDetectFormat w i .plain = .ok .cram := by
  have hl : 4 ≤ w.length := length_of_take_eq h rfl
  unfold aDetectFormat getPrefix
  rw [if_pos hl]
  simp [h, hv, CRAM_MAGIC, BAM_MAGIC]

theorem aDetectFormat_bgzf_bam (w : Bytes) (i : Inflated) (hl : 4 ≤ i.bytes.length)
    (h : i.bytes.take 4 = BAM_MAGIC) : aDetectFormat w i .bgzf = .ok .bam := by
  unfold aDetectFormat Inflated.readExact
  rw [if_pos hl]
  simp [h]

theorem aDetectFormat_bgzf_sam (w : Bytes) (i : Inflated)
    (h : 4 ≤ i.bytes.length → i.bytes.take 4 ≠ BAM_MAGIC)
    (hs : i.stop = none ∨ i.stop = some .eof) : aDetectFormat w i .bgzf = .ok .sam := by
  unfold aDetectFormat Inflated.readExact
  by_cases hl : 4 ≤ i.bytes.length
  · rw [if_pos hl]
    simp [h hl]
  · rw [if_neg hl]
    rcases hs with hs | hs <;> simp [hs]

theorem vDetectFormat_plain_vcf (w : Bytes) (i : Inflated) (h : w.take 3 ≠ BCF_MAGIC) :
    vDetectFormat w i .plain = .ok .vcf := by
  by_cases hl : 3 ≤ w.length
  · simp only [vDetectFormat, getPrefix, if_pos hl, if_neg h]
  · simp only [vDetectFormat, getPrefix, if_neg hl]

theorem vDetectFormat_plain_bcf (w : Bytes) (i : Inflated) (h : w.take 3 = BCF_MAGIC) :
    vDetectFormat w i .plain = .ok .bcf := by
  have hl : 3 ≤ w.length := length_of_take_eq h rfl
  unfold vDetectFormat getPrefix
  rw [if_pos hl]
  simp [h]

theorem vDetectFormat_bgzf (w : Bytes) (i : Inflated) (hl : 3 ≤ i.bytes.length) :
    vDetectFormat w i .bgzf = .ok (if i.bytes.take 3 = BCF_MAGIC then .bcf else .vcf) := by
  unfold vDetectFormat Inflated.readExact
  rw [if_pos hl]

/-- the window of a framed payload starts with the gzip magic number once it has two bytes -/
theorem frame_window_magic (B : BgzfLayer) (x : Bytes) (k : Nat) (hk : 2 ≤ k) :
    ((B.frame x).take k).take 2 = GZIP_MAGIC := by
  rw [take_take_le _ _ _ hk]; exact B.frame_magic x

/-- the inflated window agrees with the payload on its first `n` bytes -/
theorem window_take (B : BgzfLayer) (x : Bytes) (k n : Nat)
    (hn : n ≤ (B.inflate ((B.frame x).take k)).bytes.length) :
    (B.inflate ((B.frame x).take k)).bytes.take n = x.take n :=
  prefix_take_eq (B.inflate_prefix x k) n hn

/-! ### SAM text the SAM writer can produce -/

/-- header lines are arbitrary, read names passed `is_valid` (or are missing) -/
def SamWritable (p : APayload) : Prop := ∀ r ∈ p.recs, ∀ n, r.name = some n → validName n = true

theorem validName_spec {n : Bytes} (h : validName n = true) :
    1 ≤ n.length ∧ ∀ b ∈ n, 0x21 ≤ b := by
  unfold validName at h
  simp only [Bool.and_eq_true, decide_eq_true_eq, List.all_eq_true] at h
  exact ⟨h.1.1.1, fun b hb => (h.2 b hb).1.1⟩

/-- the first bytes of a SAM record line: a non-empty run of bytes `≥ 0x21`, then a tab -/
def NameTab (l : Bytes) : Prop := ∃ n t, l = n ++ TAB :: t ∧ 1 ≤ n.length ∧ ∀ b ∈ n, 0x21 ≤ b

theorem line_nameTab (r : SamRec) (h : ∀ n, r.name = some n → validName n = true) (tail : Bytes) :
    NameTab (r.line ++ tail) := by
  unfold SamRec.line
  cases hn : r.name with
  | none =>
    refine ⟨[STAR], r.rest ++ [LF] ++ tail, by simp, by simp, ?_⟩
    intro b hb; simp [STAR] at hb; omega
  | some n =>
    obtain ⟨h1, h2⟩ := validName_spec (h n hn)
    exact ⟨n, r.rest ++ [LF] ++ tail, by simp, h1, h2⟩

/-- a line that starts `name TAB` is none of the binary magic numbers, at any window size that
shows the fifth byte when the name starts with `CRAM` -/
theorem nameTab_not_magic (l : Bytes) (h : NameTab l) (k : Nat) (hk : 5 ≤ k) :
    (l.take k).take 2 ≠ GZIP_MAGIC ∧ (l.take k).take 4 ≠ BAM_MAGIC ∧
    ¬ ((l.take k).take 4 = CRAM_MAGIC ∧ cramVersionOK ((l.take k).drop 4) = true) := by
  obtain ⟨n, t, rfl, h1, h2⟩ := h
  rw [take_take_le _ _ _ (by omega : 2 ≤ k), take_take_le _ _ _ (by omega : 4 ≤ k)]
  obtain ⟨k', rfl⟩ : ∃ k', k = k' + 5 := ⟨k - 5, by omega⟩
  match n, h1, h2 with
  | [a], _, h2 =>
    have := h2 a (by simp)
    refine ⟨?_, ?_, ?_⟩ <;> simp [GZIP_MAGIC, BAM_MAGIC, CRAM_MAGIC, TAB] <;> omega
  | [a, b], _, h2 =>
    have := h2 a (by simp)
    refine ⟨?_, ?_, ?_⟩ <;> simp [GZIP_MAGIC, BAM_MAGIC, CRAM_MAGIC, TAB] <;> omega
  | [a, b, c], _, h2 =>
    have := h2 a (by simp)
    refine ⟨?_, ?_, ?_⟩ <;> simp [GZIP_MAGIC, BAM_MAGIC, CRAM_MAGIC, TAB] <;> omega
  | [a, b, c, d], _, h2 =>
    have ha := h2 a (by simp)
    have hd := h2 d (by simp)
    refine ⟨?_, ?_, ?_⟩
    · simp [GZIP_MAGIC]; omega
    · simp [BAM_MAGIC]; omega
    · intro ⟨_, hv⟩
      simp [cramVersionOK, MAX_CRAM_VERSION_NUMBER, TAB, List.take_succ_cons] at hv
  | a :: b :: c :: d :: e :: n', _, h2 =>
    have ha := h2 a (by simp)
    have hd := h2 d (by simp)
    have he := h2 e (by simp)
    refine ⟨?_, ?_, ?_⟩
    · simp [GZIP_MAGIC]; omega
    · simp [BAM_MAGIC]; omega
    · intro ⟨_, hv⟩
      simp only [List.cons_append, List.take_succ_cons, List.drop_succ_cons, List.drop_zero, cramVersionOK,
        MAX_CRAM_VERSION_NUMBER] at hv
      rw [List.all_cons, Bool.and_eq_true] at hv
      have h7 : e ≤ 7 := of_decide_eq_true hv.1
      omega

/-- the SAM text of a writable document is empty, starts with `@`, or starts `name TAB` -/
theorem samText_shape (p : APayload) (h : SamWritable p) :
    aPlain .sam p = [] ∨ (∃ t, aPlain .sam p = AT :: t) ∨ NameTab (aPlain .sam p) := by
  obtain ⟨hdr, recs, ver, body⟩ := p
  simp only [aPlain, samText]
  cases hdr with
  | cons l ls => right; left; exact ⟨_, by simp; rfl⟩
  | nil =>
    cases recs with
    | nil => left; simp
    | cons r rs =>
      right; right
      simp only [List.flatMap_nil, List.nil_append, List.flatMap_cons]
      exact line_nameTab r (h r (by simp)) _

end Noodles.Util
