/-!
# Format / compression autodetection of the generic alignment and variant readers, the writer
# builders' dispatch, and the leading bytes every (format, compression) writes (model for C20)

Transcribed from noodles-util

* `src/alignment/io/reader/builder.rs`  — `Builder::build_from_reader`, `detect_compression_method`,
  `detect_format`
* `src/variant/io/reader/builder.rs`    — the same three for VCF / BCF
* `src/alignment/io/writer/builder.rs`, `src/variant/io/writer/builder.rs` — `build_from_writer`
* the leading bytes of the format writers: `sam::io::Writer` (`write_header`, `write_name`),
  `bam::io::writer::header` (`BAM\1`), `cram::io::writer::header` file definition
  (`CRAM`, major, minor), `vcf::io::writer::header` (`##fileformat=`), `bcf` (`BCF`, 2, 2)

The model describes the code AFTER three `fix:` changes (see the comments marked FIX):

1. alignment `detect_format`: a bgzipped stream that inflates to fewer bytes than the BAM magic
   number is SAM text (was: `UnexpectedEof`, so the empty `SAM.gz` the generic writer produces for
   an empty header and no records could not be opened);
2. alignment `detect_format`: the CRAM magic number counts only when the two format version bytes
   that follow it (when the window has them) are small numbers (≤ 7, as htslib does); was: any
   header-less SAM whose first read name starts with `CRAM` was taken for CRAM;
3. variant writer `build_from_writer`: the `(Bcf, None)` / `(Bcf, Some(Bgzf))` arms were swapped
   (BCF asked bgzipped — also the default — came out raw and vice versa).

A byte is a `Nat` here (the driver converts); nothing below depends on the bound `< 256`.

The BGZF layer is a parameter: the window the detector looks at is the result of the first
`BufReader::fill_buf()`; for a gzip-looking window the detector runs flate2's `MultiGzDecoder`
over that window, and what that decoder delivers is the field `inflate` of `BgzfLayer`
(the harness passes the observed value on every request line).
-/
namespace Noodles.Util

abbrev Bytes := List Nat

inductive Comp | plain | bgzf
  deriving DecidableEq, Repr

inductive AFormat | sam | bam | cram
  deriving DecidableEq, Repr

inductive VFormat | vcf | bcf
  deriving DecidableEq, Repr

inductive Err | eof | invalidData | invalidInput | other
  deriving DecidableEq, Repr

instance {ε α : Type} [DecidableEq ε] [DecidableEq α] : DecidableEq (Except ε α)
  | .ok a, .ok b => if h : a = b then isTrue (by rw [h]) else isFalse (by intro e; cases e; exact h rfl)
  | .error a, .error b => if h : a = b then isTrue (by rw [h]) else isFalse (by intro e; cases e; exact h rfl)
  | .ok _, .error _ => isFalse (by intro e; cases e)
  | .error _, .ok _ => isFalse (by intro e; cases e)

def GZIP_MAGIC : Bytes := [0x1f, 0x8b]
def BAM_MAGIC : Bytes := [0x42, 0x41, 0x4d, 0x01]
def CRAM_MAGIC : Bytes := [0x43, 0x52, 0x41, 0x4d]
def BCF_MAGIC : Bytes := [0x42, 0x43, 0x46]

/-- `src.get(..n)`: the first `n` bytes when the slice has that many. -/
def getPrefix (n : Nat) (src : Bytes) : Option Bytes :=
  if n ≤ src.length then some (src.take n) else none

/-- `detect_compression_method` (identical in both builders). -/
def detectCompression (src : Bytes) : Comp :=
  match getPrefix 2 src with
  | some buf => if buf = GZIP_MAGIC then .bgzf else .plain
  | none => .plain

/-- What `MultiGzDecoder::new(window)` delivers: `bytes`, then — when asked for more — the error
`stop` (`none`: a clean end of input, i.e. `Ok(0)`). An external component (flate2). -/
structure Inflated where
  bytes : Bytes
  stop : Option Err
  deriving Repr

/-- `decoder.read_exact(&mut [0; n])` -/
def Inflated.readExact (i : Inflated) (n : Nat) : Except Err Bytes :=
  if n ≤ i.bytes.length then .ok (i.bytes.take n) else .error (i.stop.getD .eof)

/-- FIX 2: the two bytes after the CRAM magic number are the format version (major, minor); bytes
the window does not have are not checked. -/
def MAX_CRAM_VERSION_NUMBER : Nat := 7
def cramVersionOK (rest : Bytes) : Bool := (rest.take 2).all (· ≤ MAX_CRAM_VERSION_NUMBER)

/-- alignment `detect_format` -/
def aDetectFormat (src : Bytes) (infl : Inflated) : Comp → Except Err AFormat
  | .bgzf =>
    match infl.readExact 4 with
    | .ok buf => .ok (if buf = BAM_MAGIC then .bam else .sam)
    | .error .eof => .ok .sam            -- FIX 1
    | .error e => .error e
  | .plain =>
    match getPrefix 4 src with
    | some buf =>
      if buf = BAM_MAGIC then .ok .bam
      else if buf = CRAM_MAGIC ∧ cramVersionOK (src.drop 4) then .ok .cram
      else .ok .sam
    | none => .ok .sam

/-- variant `detect_format` -/
def vDetectFormat (src : Bytes) (infl : Inflated) : Comp → Except Err VFormat
  | .bgzf =>
    match infl.readExact 3 with
    | .ok buf => .ok (if buf = BCF_MAGIC then .bcf else .vcf)
    | .error e => .error e
  | .plain =>
    match getPrefix 3 src with
    | some buf => if buf = BCF_MAGIC then .ok .bcf else .ok .vcf
    | none => .ok .vcf

/-- alignment `Builder::build_from_reader` with the optional overrides `set_format` /
`set_compression_method`; `src` is the first `fill_buf` window. -/
def aBuildWith (fmt : Option AFormat) (comp : Option Comp) (src : Bytes) (infl : Inflated) :
    Except Err (AFormat × Comp) := do
  let c := match comp with
    | some c => c
    | none => detectCompression src
  let f ← match fmt with
    | some f => pure f
    | none => aDetectFormat src infl c
  match f, c with
  | .cram, .bgzf => .error .invalidData
  | f, c => .ok (f, c)

/-- variant `Builder::build_from_reader` -/
def vBuildWith (fmt : Option VFormat) (comp : Option Comp) (src : Bytes) (infl : Inflated) :
    Except Err (VFormat × Comp) := do
  let c := match comp with
    | some c => c
    | none => detectCompression src
  let f ← match fmt with
    | some f => pure f
    | none => vDetectFormat src infl c
  .ok (f, c)

/-! ## writer builders -/

/-- alignment `writer::Builder::build_from_writer`: the (format, compression) of the stream the
chosen `Inner` variant writes (`Sam`→(sam, plain), `SamGz`→(sam, bgzf), `Bam`→(bam, bgzf),
`BamRaw`→(bam, plain), `Cram`→(cram, plain)). -/
def aWriterKind (fmt : Option AFormat) (comp : Option Comp) : Except Err (AFormat × Comp) :=
  let f := fmt.getD .sam
  let c := match comp with
    | some c => c
    | none => match f with
      | .sam | .cram => .plain
      | .bam => .bgzf
  match f, c with
  | .sam, .plain => .ok (.sam, .plain)      -- Inner::Sam(sam::io::Writer<BufWriter<W>>)
  | .sam, .bgzf => .ok (.sam, .bgzf)        -- Inner::SamGz(sam::io::Writer<bgzf::io::Writer<W>>)
  | .bam, .plain => .ok (.bam, .plain)      -- Inner::BamRaw(bam::io::Writer::from(BufWriter))
  | .bam, .bgzf => .ok (.bam, .bgzf)        -- Inner::Bam(bam::io::Writer::new(writer))
  | .cram, .plain => .ok (.cram, .plain)
  | .cram, .bgzf => .error .invalidInput

/-- variant `writer::Builder::build_from_writer` (infallible). FIX 3: `bcf::io::Writer::new` wraps
the sink in a BGZF writer, `bcf::io::Writer::from(BufWriter)` does not. -/
def vWriterKind (fmt : Option VFormat) (comp : Option Comp) : VFormat × Comp :=
  let f := fmt.getD .vcf
  let c := match comp with
    | some c => c
    | none => match f with
      | .vcf => .plain
      | .bcf => .bgzf
  match f, c with
  | .bcf, .plain => (.bcf, .plain)          -- Inner::BcfRaw(bcf::io::Writer::from(BufWriter))
  | .bcf, .bgzf => (.bcf, .bgzf)            -- Inner::Bcf(bcf::io::Writer::new(writer))
  | .vcf, .plain => (.vcf, .plain)
  | .vcf, .bgzf => (.vcf, .bgzf)

/-! ## what the writers put at the start of the stream -/

def TAB : Nat := 0x09
def LF : Nat := 0x0a
def AT : Nat := 0x40
def STAR : Nat := 0x2a

/-- `sam::io::writer::record::name::is_valid`: 1..=254 graphic ASCII bytes, no `@`, not `*`. -/
def validName (n : Bytes) : Bool :=
  decide (1 ≤ n.length) && decide (n.length ≤ 254) && decide (n ≠ [STAR]) &&
    n.all (fun b => decide (0x21 ≤ b) && decide (b ≤ 0x7e) && decide (b ≠ AT))

/-- One SAM record line: the read name (`none` is written `*`) and the rest of the line after
the first tab (ten more fields, optional data; not looked at by the detector). -/
structure SamRec where
  name : Option Bytes
  rest : Bytes
  deriving Repr

def SamRec.line (r : SamRec) : Bytes := r.name.getD [STAR] ++ TAB :: r.rest ++ [LF]

/-- The SAM text of a document: every header line is `@` … `\n`, then the record lines. An empty
header (`sam::Header::default()`) writes nothing. -/
def samText (hdr : List Bytes) (recs : List SamRec) : Bytes :=
  (hdr.flatMap fun l => AT :: l ++ [LF]) ++ recs.flatMap SamRec.line

/-- What a writer is asked to write, as far as the first bytes go. `body` is everything a binary
format puts after its magic number / file definition start. -/
structure APayload where
  hdr : List Bytes := []
  recs : List SamRec := []
  cramVersion : Nat × Nat := (3, 0)
  body : Bytes := []
  deriving Repr

/-- the uncompressed byte stream of each alignment format -/
def aPlain : AFormat → APayload → Bytes
  | .sam, p => samText p.hdr p.recs
  | .bam, p => BAM_MAGIC ++ p.body
  | .cram, p => CRAM_MAGIC ++ p.cramVersion.1 :: p.cramVersion.2 :: p.body

/-- `##fileformat=VCFv` — the VCF writer always starts the header with the file format line. -/
def VCF_LEAD : Bytes := [0x23, 0x23, 0x66, 0x69, 0x6c, 0x65, 0x66, 0x6f, 0x72, 0x6d, 0x61, 0x74, 0x3d, 0x56, 0x43, 0x46, 0x76]

/-- the uncompressed byte stream of each variant format: VCF is the header text (which starts
with `VCF_LEAD`) and the record lines; BCF is `BCF`, major 2, minor 2, l_text, text, records. -/
def vPlain : VFormat → Bytes → Bytes
  | .vcf, body => VCF_LEAD ++ body
  | .bcf, body => BCF_MAGIC ++ 2 :: 2 :: body

/-- The BGZF layer as a parameter, with the three laws the detector relies on. `frame` is what
`bgzf::io::Writer` emits for a payload (any flush pattern, finished by `finish`/`Drop`), `inflate`
is flate2's `MultiGzDecoder` over a window, `unframe` the BGZF reader (C01). -/
structure BgzfLayer where
  frame : Bytes → Bytes
  inflate : Bytes → Inflated
  unframe : Bytes → Except Err Bytes
  /-- every BGZF stream — even the lone EOF marker of an empty payload — starts with `1f 8b` -/
  frame_magic : ∀ x, (frame x).take 2 = GZIP_MAGIC
  /-- whatever the decoder delivers from a window of the stream is a prefix of the payload -/
  inflate_prefix : ∀ x k, (inflate ((frame x).take k)).bytes <+: x
  /-- a window of a well-formed stream ends cleanly or prematurely, never with a data error -/
  inflate_stop : ∀ x k, (inflate ((frame x).take k)).stop = none ∨ (inflate ((frame x).take k)).stop = some .eof
  /-- C01 `bgzf_roundtrip` -/
  unframe_frame : ∀ x, unframe (frame x) = .ok x

/-- the byte stream the generic writer produces -/
def compress (B : BgzfLayer) : Comp → Bytes → Bytes
  | .plain, x => x
  | .bgzf, x => B.frame x

def aStream (B : BgzfLayer) (f : AFormat) (c : Comp) (p : APayload) : Bytes := compress B c (aPlain f p)
def vStream (B : BgzfLayer) (f : VFormat) (c : Comp) (body : Bytes) : Bytes := compress B c (vPlain f body)

/-- The generic alignment reader's choice on a stream whose first `read` delivers `k` bytes
(`BufReader::fill_buf` on an empty buffer issues exactly one `read`; `k ≤ 8192`). -/
def aDetect (B : BgzfLayer) (k : Nat) (s : Bytes) : Except Err (AFormat × Comp) :=
  aBuildWith none none (s.take k) (B.inflate (s.take k))

def vDetect (B : BgzfLayer) (k : Nat) (s : Bytes) : Except Err (VFormat × Comp) :=
  vBuildWith none none (s.take k) (B.inflate (s.take k))

/-! ## `PrefixOK`: exactly what the detector needs of a written stream -/

/-- number of inflated bytes the first window yields -/
def windowInflated (B : BgzfLayer) (k : Nat) (x : Bytes) : Nat := (B.inflate ((B.frame x).take k)).bytes.length

def APrefixOK (B : BgzfLayer) (f : AFormat) (c : Comp) (p : APayload) (k : Nat) : Prop :=
  match f, c with
  | .sam, .plain =>
    let w := (aPlain .sam p).take k
    w.take 2 ≠ GZIP_MAGIC ∧ w.take 4 ≠ BAM_MAGIC ∧ ¬ (w.take 4 = CRAM_MAGIC ∧ cramVersionOK (w.drop 4) = true)
  | .bam, .plain => 4 ≤ k
  | .cram, .plain => 4 ≤ k ∧ cramVersionOK (((aPlain .cram p).take k).drop 4) = true
  | .sam, .bgzf => 2 ≤ k ∧ (aPlain .sam p).take 4 ≠ BAM_MAGIC
  | .bam, .bgzf => 2 ≤ k ∧ 4 ≤ windowInflated B k (aPlain .bam p)
  | .cram, .bgzf => False

instance (B : BgzfLayer) (f : AFormat) (c : Comp) (p : APayload) (k : Nat) : Decidable (APrefixOK B f c p k) := by
  unfold APrefixOK; cases f <;> cases c <;> simp only <;> infer_instance

def VPrefixOK (B : BgzfLayer) (f : VFormat) (c : Comp) (body : Bytes) (k : Nat) : Prop :=
  match f, c with
  | .vcf, .plain => True
  | .bcf, .plain => 3 ≤ k
  | .vcf, .bgzf => 2 ≤ k ∧ 3 ≤ windowInflated B k (vPlain .vcf body)
  | .bcf, .bgzf => 2 ≤ k ∧ 3 ≤ windowInflated B k (vPlain .bcf body)

instance (B : BgzfLayer) (f : VFormat) (c : Comp) (body : Bytes) (k : Nat) : Decidable (VPrefixOK B f c body k) := by
  unfold VPrefixOK; cases f <;> cases c <;> simp only <;> infer_instance

/-- The header-less, uncompressed `BgzfLayer` used for non-vacuity examples and negation
witnesses: `frame` puts the gzip magic number in front, the decoder returns the rest. -/
def storedLayer : BgzfLayer where
  frame x := GZIP_MAGIC ++ x
  inflate w := ⟨w.drop 2, none⟩
  unframe s := .ok (s.drop 2)
  frame_magic x := by simp [GZIP_MAGIC]
  inflate_prefix x k := by
    show ((GZIP_MAGIC ++ x).take k).drop 2 <+: x
    rw [List.drop_take]
    exact List.take_prefix _ _
  inflate_stop _ _ := Or.inl rfl
  unframe_frame x := by simp [GZIP_MAGIC]

/-! ## the generic reader / writer pipeline over abstract per-format codecs -/

/-- The format readers and writers (C05–C10) as parameters: `plain f d` is the uncompressed byte
stream the writer of format `f` emits for document `d`, `read f` the reader of format `f`,
`nf f` the documented normal form of that format (SAM↔BAM upper-case bases, CRAM `=`/`X`→`M`,
BCF typed values …), `roundtrip` the per-format round-trip theorem. -/
structure Codecs (F Doc : Type) where
  plain : F → Doc → Bytes
  read : F → Bytes → Except Err Doc
  nf : F → Doc → Doc
  roundtrip : ∀ f d, read f (plain f d) = .ok (nf f d)

/-- generic writer: explicit format and compression -/
def gWrite {F Doc : Type} (B : BgzfLayer) (C : Codecs F Doc) (f : F) (c : Comp) (d : Doc) : Bytes :=
  compress B c (C.plain f d)

/-- generic reader: detect from the first window, then dispatch (`Inner::…`) -/
def gRead {F Doc : Type} (B : BgzfLayer) (C : Codecs F Doc)
    (detect : Bytes → Except Err (F × Comp)) (s : Bytes) : Except Err Doc :=
  match detect s with
  | .error e => .error e
  | .ok (f, .plain) => C.read f s
  | .ok (f, .bgzf) =>
    match B.unframe s with
    | .error e => .error e
    | .ok x => C.read f x

end Noodles.Util
