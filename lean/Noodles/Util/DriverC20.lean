import Noodles.Basic.Wire
import Noodles.Util.Detect
/-! Line-protocol handler for the autodetection / writer-dispatch model (`c20 …`).

```
c20 adet <fmt|-> <comp|-> <window hex> <inflated hex> <stop|-> <fc|f>   → `sam plain` | `err:eof` …
c20 vdet …                                                              (variant builder)
c20 awr <fmt|-> <comp|->                                               → kind of stream written
c20 vwr <fmt|-> <comp|->
c20 alead sam <0|1 header present> <first read name hex | * | ->        → first bytes of the text
c20 alead bam|cram , c20 vlead vcf|bcf                                  → first bytes of the stream
```
`fc`: format and compression are observable; `f`: only the format is (the compression is
printed `*`). The window and the inflated prefix may be truncated to 16 bytes by the harness
(`Noodles.Props.C20.detect_depends_on_prefix`). -/
namespace Noodles.Util
open Noodles.Wire

def bytesOf (s : String) : Option Bytes := (unhex s).map (·.map UInt8.toNat)
def hexOf (b : Bytes) : String := hex (b.map UInt8.ofNat)

def errStr : Err → String
  | .eof => "err:eof"
  | .invalidData => "err:invalid-data"
  | .invalidInput => "err:invalid-input"
  | .other => "err:other"

def parseStop : String → Option (Option Err)
  | "-" => some none
  | "eof" => some (some .eof)
  | "invalid-data" => some (some .invalidData)
  | "invalid-input" => some (some .invalidInput)
  | "other" => some (some .other)
  | _ => none

def parseComp : String → Option (Option Comp)
  | "-" => some none
  | "plain" => some (some .plain)
  | "bgzf" => some (some .bgzf)
  | _ => none

def parseAFormat : String → Option (Option AFormat)
  | "-" => some none
  | "sam" => some (some .sam)
  | "bam" => some (some .bam)
  | "cram" => some (some .cram)
  | _ => none

def parseVFormat : String → Option (Option VFormat)
  | "-" => some none
  | "vcf" => some (some .vcf)
  | "bcf" => some (some .bcf)
  | _ => none

def compStr : Comp → String
  | .plain => "plain"
  | .bgzf => "bgzf"

def aStr : AFormat → String
  | .sam => "sam"
  | .bam => "bam"
  | .cram => "cram"

def vStr : VFormat → String
  | .vcf => "vcf"
  | .bcf => "bcf"

def showKind (f : String) (c : Comp) (obs : String) : String :=
  if obs = "f" then s!"{f} *" else s!"{f} {compStr c}"

def handleC20 : List String → String
  | ["adet", fo, co, raw, infl, stop, obs] =>
    match parseAFormat fo, parseComp co, bytesOf raw, bytesOf infl, parseStop stop with
    | some fo, some co, some raw, some infl, some stop =>
      match aBuildWith fo co raw ⟨infl, stop⟩ with
      | .ok (f, c) => showKind (aStr f) c obs
      | .error e => errStr e
    | _, _, _, _, _ => "bad-op"
  | ["vdet", fo, co, raw, infl, stop, obs] =>
    match parseVFormat fo, parseComp co, bytesOf raw, bytesOf infl, parseStop stop with
    | some fo, some co, some raw, some infl, some stop =>
      match vBuildWith fo co raw ⟨infl, stop⟩ with
      | .ok (f, c) => showKind (vStr f) c obs
      | .error e => errStr e
    | _, _, _, _, _ => "bad-op"
  | ["awr", fo, co] =>
    match parseAFormat fo, parseComp co with
    | some fo, some co =>
      match aWriterKind fo co with
      | .ok (f, c) => s!"{aStr f} {compStr c}"
      | .error e => errStr e
    | _, _ => "bad-op"
  | ["vwr", fo, co] =>
    match parseVFormat fo, parseComp co with
    | some fo, some co => let (f, c) := vWriterKind fo co; s!"{vStr f} {compStr c}"
    | _, _ => "bad-op"
  | ["alead", "sam", hdr, name] =>
    let hdrLines : List Bytes := if hdr = "1" then [[]] else []
    let recs : Option (List SamRec) :=
      if name = "-" then some []
      else if name = "*" then some [⟨none, []⟩]
      else (bytesOf name).map fun n => [⟨some n, []⟩]
    match recs with
    | some recs =>
      let p : APayload := { hdr := hdrLines, recs := recs }
      -- compared length: the `@`, or the name and its tab (at most six bytes), or nothing
      let n := if hdr = "1" then 1 else match recs with
        | r :: _ => min 6 ((r.name.getD [STAR]).length + 1)
        | [] => 0
      let text := aPlain .sam p
      s!"{hexOf (text.take n)} {if text.isEmpty then "empty" else "nonempty"}"
    | none => "bad-op"
  | ["alead", "bam"] => hexOf ((aPlain .bam {}).take 4)
  | ["alead", "cram"] => hexOf ((aPlain .cram {}).take 6)
  | ["alead", "cram31"] => hexOf ((aPlain .cram { cramVersion := (3, 1) }).take 6)
  | ["vlead", "vcf"] => hexOf ((vPlain .vcf []).take 17)
  | ["vlead", "bcf"] => hexOf ((vPlain .bcf []).take 5)
  | _ => "bad-op"

end Noodles.Util
