import Noodles.Gff.Kit
/-!
# GFF3 lines: writer and reader (model for C18)

Transcribed from noodles-gff

* writer: `io/writer/line.rs`, `line/record.rs`, `line/record/{reference_sequence_name,source,ty,
  position,score,strand,phase}.rs`, `line/record/attributes.rs`, `attributes/field.rs`,
  `attributes/field/{tag,value}.rs`, `line/directive.rs`, `line/directive/value/*.rs`, `line/comment.rs`
* reader: `line.rs` (`Line::kind`), `record.rs`, `record/fields.rs`, `record/fields/bounds.rs`,
  `record/attributes.rs`, `record/attributes/field.rs`, `field/{tag,value}.rs`, `field/value/array.rs`,
  `directive.rs`, `directive_buf.rs`, `directive_buf/value/{gff_version,sequence_region,genome_build}.rs`
* owned record: `feature/record_buf/convert.rs::try_from_feature_record`,
  `feature/record_buf/attributes.rs` (`IndexMap` collection)

The two directions are transcribed separately (writer sets per column, reader decode per accessor).

**Known finding F19 (kept as it is in the code, not repaired):** the writer percent-encodes the
seqid but the lazy accessors `reference_sequence_name()`, `source()`, `ty()` return the raw column,
so a seqid written as `sq%200` is read back as `sq%200`; and source / type are written raw, so a
TAB or LF in them breaks the line. The model transcribes exactly that; `Props/C18.lean` proves the
round trip under the hypotheses this forces and the negation of the unrestricted statement.
-/
namespace Noodles.Gff

open Noodles (Pct.encode Pct.decode)

inductive Strand | none | forward | reverse | unknown
  deriving Repr, DecidableEq

inductive Phase | zero | one | two
  deriving Repr, DecidableEq

/-- `feature::record_buf::attributes::field::Value` -/
inductive Value
  | string (s : Bytes)
  | array (vs : List Bytes)
  deriving Repr, DecidableEq

/-- `Value::iter` -/
def Value.values : Value → List Bytes
  | .string s => [s]
  | .array vs => vs

abbrev Attrs := List (Bytes × Value)

/-- `feature::RecordBuf` (positions as `Nat`; `Position` = non-zero `usize`) -/
structure Record (F : Type) where
  seqid : Bytes
  source : Bytes
  ty : Bytes
  start : Nat
  end_ : Nat
  score : Option F
  strand : Strand
  phase : Option Phase
  attrs : Attrs

/-! ## writer -/

/-- `attributes/field/value.rs::write_value`: values percent-encoded, joined by `,` -/
def writeValue (v : Value) : Bytes :=
  Text.join 44 (v.values.map (Pct.encode attrEsc))

/-- `attributes/field.rs::write_field`: `tag=value` -/
def writeField (tv : Bytes × Value) : Bytes :=
  Pct.encode attrEsc tv.1 ++ 61 :: writeValue tv.2

/-- `attributes.rs::write_attributes`: `.` when empty, else fields joined by `;` -/
def writeAttrs (as : Attrs) : Bytes :=
  if as.isEmpty then MISSING else Text.join 59 (as.map writeField)

def writeStrand : Strand → Bytes
  | .none => MISSING
  | .forward => [43]
  | .reverse => [45]
  | .unknown => [63]

def CDS : Bytes := [67, 68, 83]

/-- `phase.rs::write_phase`: a missing phase on a `CDS` record is rejected -/
def writePhase (ty : Bytes) : Option Phase → Except Err Bytes
  | none => if ty = CDS then .error .invalidInput else .ok MISSING
  | some .zero => .ok [48]
  | some .one => .ok [49]
  | some .two => .ok [50]

/-- `line/record.rs::write_record` (without the newline): the seqid is percent-encoded
(`reference_sequence_name.rs`), source and type are written as they are (`source.rs`, `ty.rs`) -/
def writeRecord {F : Type} (ff : FloatFmt F) (r : Record F) : Except Err Bytes :=
  match writePhase r.ty r.phase with
  | .error e => .error e
  | .ok ph =>
    .ok (joinCols
      [Pct.encode seqidEsc r.seqid, r.source, r.ty,
       Text.printNat r.start, Text.printNat r.end_, writeScore ff r.score, writeStrand r.strand, ph]
      (writeAttrs r.attrs))

/-! ## reader: lazy accessors -/

/-- `record/attributes/field/value.rs::parse_value`: an array iff the raw text contains `,` -/
def parseValue (src : Bytes) : Value :=
  if src.contains 44 then .array ((Text.splitOn 44 src).map Pct.decode)
  else .string (Pct.decode src)

/-- `record/attributes/field.rs::next` iterated until the input is empty or the first error
(`take_tag` = up to the first `=` of the remaining input, `take_value` = up to the first `;` or the
end). `fuel` bounds the number of fields (each consumes at least one byte). -/
def attrFields : Nat → Bytes → Except Err Attrs
  | 0, _ => .ok []
  | fuel + 1, src =>
    if src.isEmpty then .ok []
    else match splitOnce 61 src with
      | none => .error .invalidData
      | some (tag, rest) =>
        match splitOnce 59 rest with
        | some (v, rest') =>
          match attrFields fuel rest' with
          | .ok fs => .ok ((Pct.decode tag, parseValue v) :: fs)
          | .error e => .error e
        | none => .ok [(Pct.decode tag, parseValue rest)]

/-- `record/fields.rs::attributes` + `Attributes::iter`: `.` is the empty list -/
def lazyAttrs (f : Fields) : Except Err Attrs :=
  let src := if f.attrs = MISSING then [] else f.attrs
  attrFields (src.length + 1) src

/-- `record/fields.rs::{reference_sequence_name, source, ty}`: the raw column, no decoding -/
def lazySeqid (f : Fields) : Bytes := f.seqid
def lazySource (f : Fields) : Bytes := f.source
def lazyType (f : Fields) : Bytes := f.ty

def lazyStart (f : Fields) : Except Err Nat := parsePosition f.start
def lazyEnd (f : Fields) : Except Err Nat := parsePosition f.end_
def lazyScore {F : Type} (ff : FloatFmt F) (f : Fields) : Option (Except Err F) := parseScore ff f.score

/-- `record.rs::parse_strand` -/
def parseStrand (s : Bytes) : Except Err Strand :=
  if s = [46] then .ok .none
  else if s = [43] then .ok .forward
  else if s = [45] then .ok .reverse
  else if s = [63] then .ok .unknown
  else .error .invalidData

/-- `record.rs::parse_phase` -/
def parsePhase (s : Bytes) : Option (Except Err Phase) :=
  if s = [46] then none
  else if s = [48] then some (.ok .zero)
  else if s = [49] then some (.ok .one)
  else if s = [50] then some (.ok .two)
  else some (.error .invalidData)

/-! ## reader: owned record -/

/-- `IndexMap::insert` as used by `Attributes::from_iter`: a repeated tag replaces the value and
keeps the first position -/
def imInsert (m : Attrs) (kv : Bytes × Value) : Attrs :=
  if m.any (fun e => e.1 == kv.1) then m.map (fun e => if e.1 == kv.1 then (e.1, kv.2) else e)
  else m ++ [kv]

def collectAttrs (xs : Attrs) : Attrs := xs.foldl imInsert []

/-- `RecordBuf::try_from_feature_record` over the lazy record of a line -/
def readRecord {F : Type} (ff : FloatFmt F) (line : Bytes) : Except Err (Record F) := do
  let f ← bounds line
  let start ← lazyStart f
  let end_ ← lazyEnd f
  let score ← transpose (lazyScore ff f)
  let strand ← parseStrand f.strand
  let phase ← transpose (parsePhase f.phase)
  let attrs ← lazyAttrs f
  pure ⟨lazySeqid f, lazySource f, lazyType f, start, end_, score, strand, phase, collectAttrs attrs⟩

/-! ## directives and comments -/

/-- `directive_buf::Value` (`GffVersion` can only be built by parsing or `Default`, so a patch
number never occurs without a minor number) -/
inductive DValue
  | gffVersion (major : Nat) (minor : Option Nat) (patch : Option Nat)
  | sequenceRegion (name : Bytes) (start end_ : Nat)
  | genomeBuild (source name : Bytes)
  | string (s : Bytes)
  deriving Repr, DecidableEq

structure Directive where
  key : Bytes
  value : Option DValue
  deriving Repr, DecidableEq

def KEY_GFF_VERSION : Bytes := "gff-version".toUTF8.toList
def KEY_SEQUENCE_REGION : Bytes := "sequence-region".toUTF8.toList
def KEY_GENOME_BUILD : Bytes := "genome-build".toUTF8.toList

/-- `directive/value/gff_version.rs::write_gff_version` -/
def writeGffVersion (major : Nat) (minor patch : Option Nat) : Bytes :=
  Text.printNat major ++
    (match minor with
     | none => []
     | some mi => 46 :: Text.printNat mi ++
        (match patch with
         | none => []
         | some p => 46 :: Text.printNat p))

/-- the text after `##key ` for each value kind (`Display` of the parts joined by one space) -/
def writeDValue : DValue → Bytes
  | .gffVersion ma mi p => writeGffVersion ma mi p
  | .sequenceRegion n s e => n ++ 32 :: Text.printNat s ++ 32 :: Text.printNat e
  | .genomeBuild s n => s ++ 32 :: n
  | .string s => s

/-- `line/directive.rs::write_directive`, the `match` on (key, value): a typed value is accepted only
under its own key -/
def keyOk (key : Bytes) : DValue → Bool
  | .gffVersion .. => key == KEY_GFF_VERSION
  | .sequenceRegion .. => key == KEY_SEQUENCE_REGION
  | .genomeBuild .. => key == KEY_GENOME_BUILD
  | .string _ => true

/-- `line/directive.rs::write_directive`: a typed value under a foreign key is `InvalidInput` -/
def writeDirective (d : Directive) : Except Err Bytes :=
  match d.value with
  | none => .ok (35 :: 35 :: d.key)
  | some v =>
    if keyOk d.key v then .ok (35 :: 35 :: d.key ++ 32 :: writeDValue v) else .error .invalidInput

/-- `line/comment.rs::write_comment` -/
def writeComment (s : Bytes) : Bytes := 35 :: s

inductive Kind | directive | comment | record
  deriving Repr, DecidableEq

/-- `line.rs::Line::kind` -/
def lineKind : Bytes → Kind
  | 35 :: 35 :: _ => .directive
  | 35 :: _ => .comment
  | _ => .record

/-- `directive.rs::Directive::new` + `key` + `value` on the text after `##`: the key ends at the
first ASCII whitespace; the value is everything after that one byte (absent when there is none) -/
def parseDirective (src : Bytes) : Bytes × Option Bytes :=
  let key := src.takeWhile (fun b => !isAsciiWs b)
  let rest := src.drop key.length
  (key, match rest with
        | [] => none
        | _ :: v => some v)

/-- `DirectiveBuf::from(Directive)`: the value is always kept as a string -/
def readDirective (line : Bytes) : Directive :=
  let (k, v) := parseDirective (line.drop 2)
  ⟨k, v.map DValue.string⟩

/-- split at every byte satisfying `p` (`slice::split`) -/
def splitWhere (p : UInt8 → Bool) : Bytes → List Bytes
  | [] => [[]]
  | b :: r =>
    if p b then [] :: splitWhere p r
    else match splitWhere p r with
      | [] => [[b]]
      | f :: fs => (b :: f) :: fs

/-- `str::split_ascii_whitespace` -/
def splitWs (s : Bytes) : List Bytes :=
  (splitWhere isAsciiWs s).filter (fun t => !t.isEmpty)

def U32_MAX : Nat := 2 ^ 32 - 1

/-- `str::parse::<u32>` -/
def parseU32 (s : Bytes) : Option Nat :=
  match parseUsize s with
  | some n => if n ≤ U32_MAX then some n else none
  | none => none

/-- `str::splitn(3, '.')` -/
def splitn3Dot (s : Bytes) : List Bytes :=
  match splitOnce 46 s with
  | none => [s]
  | some (a, r) =>
    match splitOnce 46 r with
    | none => [a, r]
    | some (b, c) => [a, b, c]

/-- `GffVersion::from_str` -/
def parseGffVersion (s : Bytes) : Option DValue :=
  if s.isEmpty then none
  else match splitn3Dot s with
    | [a] => (parseU32 a).map (fun ma => .gffVersion ma none none)
    | [a, b] => do
      let ma ← parseU32 a
      let mi ← parseU32 b
      pure (.gffVersion ma (some mi) none)
    | [a, b, c] => do
      let ma ← parseU32 a
      let mi ← parseU32 b
      let p ← parseU32 c
      pure (.gffVersion ma (some mi) (some p))
    | _ => none

/-- `Position::from_str` (`usize::from_str` then non-zero) -/
def parsePositionStr (s : Bytes) : Option Nat :=
  match parseUsize s with
  | some n => if n = 0 then none else some n
  | none => none

/-- `SequenceRegion::from_str`: the first three whitespace-separated tokens -/
def parseSequenceRegion (s : Bytes) : Option DValue :=
  if s.isEmpty then none
  else match splitWs s with
    | n :: a :: b :: _ => do
      let st ← parsePositionStr a
      let en ← parsePositionStr b
      pure (.sequenceRegion n st en)
    | _ => none

/-- `GenomeBuild::from_str`: the first two whitespace-separated tokens -/
def parseGenomeBuild (s : Bytes) : Option DValue :=
  if s.isEmpty then none
  else match splitWs s with
    | a :: b :: _ => some (.genomeBuild a b)
    | _ => none

end Noodles.Gff
