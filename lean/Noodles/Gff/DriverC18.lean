import Noodles.Basic.Wire
import Noodles.Gff.Model
import Noodles.Gff.Gtf
import Noodles.Gff.Bed
/-!
Line-protocol handler for the GFF3 / GTF / BED line models (`c18 …`).

The `f32` score is a parameter of the model (`FloatFmt`); the driver instantiates it with a
one-entry table taken from the request line (`bits:texthex` for formatting, `texthex:bits|err` for
parsing), which the harness fills with the answers of the real formatter / parser.
-/
namespace Noodles.Gff.Driver
open Noodles.Wire Noodles.Gff

def errStr : Err → String
  | .eof => "err:eof"
  | .invalidData => "err:invalid-data"
  | .invalidInput => "err:invalid-input"
  | .panic => "panic"

/-- `~` = none -/
def optHex (s : String) : Option (Option Bytes) :=
  if s = "~" then some none else (unhex s).map some

def fmtOptHex : Option Bytes → String
  | none => "~"
  | some b => hex b

/-- formatting table `bits:texthex` (or `~`) -/
def fmtTable (s : String) : Option (FloatFmt Nat × Option Nat) :=
  if s = "~" then some (⟨fun _ => [], fun _ => none⟩, none) else
  match s.splitOn ":" with
  | [b, t] => do
    let bits ← b.toNat?
    let text ← unhex t
    pure (⟨fun x => if x = bits then text else [], fun _ => none⟩, some bits)
  | _ => none

/-- parsing table `texthex:bits` / `texthex:err` (or `~`) -/
def parseTable (s : String) : Option (FloatFmt Nat) :=
  if s = "~" then some ⟨fun _ => [], fun _ => none⟩ else
  match s.splitOn ":" with
  | [t, r] => do
    let text ← unhex t
    let res ← if r = "err" then some none else r.toNat?.map some
    pure ⟨fun _ => [], fun x => if x = text then res else none⟩
  | _ => none

def parseStrandTok : String → Option Strand
  | "." => some .none
  | "+" => some .forward
  | "-" => some .reverse
  | "?" => some .unknown
  | _ => none

def parsePhaseTok : String → Option (Option Phase)
  | "." => some none
  | "0" => some (some .zero)
  | "1" => some (some .one)
  | "2" => some (some .two)
  | _ => none

def fmtStrand : Strand → String
  | .none => "."
  | .forward => "+"
  | .reverse => "-"
  | .unknown => "?"

def fmtPhase : Option Phase → String
  | none => "."
  | some .zero => "0"
  | some .one => "1"
  | some .two => "2"

/-- `S:hex` or `A:hex,hex,…` (`A:` = empty array) -/
def parseValueTok (s : String) : Option Value :=
  match s.toList with
  | 'S' :: ':' :: r => (unhex (String.ofList r)).map Value.string
  | 'A' :: ':' :: r =>
    if r.isEmpty then some (.array []) else
    ((String.ofList r).splitOn ",").mapM unhex |>.map Value.array
  | _ => none

/-- `taghex=value;…` (`-` = no attributes) -/
def parseAttrsTok (s : String) : Option Attrs :=
  if s = "-" then some [] else
  (s.splitOn ";").mapM fun e =>
    match e.splitOn "=" with
    | [t, v] => do pure ((← unhex t), (← parseValueTok v))
    | _ => none

def fmtValue : Value → String
  | .string s => "S:" ++ hex s
  | .array vs => "A:" ++ ",".intercalate (vs.map hex)

def fmtAttrs (as : Attrs) : String :=
  if as.isEmpty then "-" else ";".intercalate (as.map fun tv => hex tv.1 ++ "=" ++ fmtValue tv.2)

def fmtScore : Option Nat → String
  | none => "~"
  | some b => toString b

def fmtRecord (r : Record Nat) : String :=
  s!"{hex r.seqid} {hex r.source} {hex r.ty} {r.start} {r.end_} {fmtScore r.score} {fmtStrand r.strand} {fmtPhase r.phase} {fmtAttrs r.attrs}"

def parseRecordToks (ff : FloatFmt Nat × Option Nat) :
    List String → Option (Record Nat)
  | [seqid, source, ty, start, end_, strand, phase, attrs] => do
    pure ⟨← unhex seqid, ← unhex source, ← unhex ty, ← start.toNat?, ← end_.toNat?, ff.2,
          ← parseStrandTok strand, ← parsePhaseTok phase, ← parseAttrsTok attrs⟩
  | _ => none

def fmtExcept {α : Type} (f : α → String) : Except Err α → String
  | .ok a => f a
  | .error e => errStr e

def fmtOptExcept {α : Type} (f : α → String) : Option (Except Err α) → String
  | none => "~"
  | some r => fmtExcept f r

/-- first line the gff reader delivers (blank lines skipped) -/
def gffFirstLine (file : Bytes) : Option Bytes := ((fileLines file).filter (fun l => !isBlank l)).head?

def gffReadLine (ff : FloatFmt Nat) (file : Bytes) : String :=
  match gffFirstLine file with
  | none => "eof"
  | some line =>
    match lineKind line with
    | .comment => s!"kind=C {hex (line.drop 1)}"
    | .directive =>
      let d := parseDirective (line.drop 2)
      s!"kind=D key={hex d.1} value={fmtOptHex d.2}"
    | .record =>
      match bounds line with
      | .error e => s!"kind=R {errStr e}"
      | .ok f =>
        let lazy := s!"seqid={hex (lazySeqid f)} source={hex (lazySource f)} type={hex (lazyType f)} start={fmtExcept toString (lazyStart f)} end={fmtExcept toString (lazyEnd f)} score={fmtOptExcept toString (lazyScore ff f)} strand={fmtExcept fmtStrand (parseStrand f.strand)} phase={fmtOptExcept (fun p => fmtPhase (some p)) (parsePhase f.phase)} attrs={fmtExcept fmtAttrs (lazyAttrs f)}"
        s!"kind=R {lazy} owned={fmtExcept fmtRecord (readRecord ff line)}"

def gtfReadLine (ff : FloatFmt Nat) (file : Bytes) : String :=
  match (fileLines file).head? with
  | none => "eof"
  | some line =>
    match Gtf.lineKind line with
    | .comment => s!"kind=C {hex (line.drop 1)}"
    | .record =>
      match Gtf.tryNew line with
      | .error e => s!"kind=R {errStr e}"
      | .ok f =>
        let lazy := s!"seqid={hex f.seqid} source={hex f.source} type={hex f.ty} start={fmtExcept toString (parsePosition f.start)} end={fmtExcept toString (parsePosition f.end_)} score={fmtOptExcept toString (parseScore ff f.score)} strand={fmtExcept fmtStrand (Gtf.parseStrand f.strand)} phase={fmtOptExcept (fun p => fmtPhase (some p)) (parsePhase f.phase)} attrs={fmtExcept fmtAttrs (Gtf.parseAttrs f.attrs)}"
        s!"kind=R {lazy} owned={fmtExcept fmtRecord (Gtf.readRecord ff line)}"

def fmtKinds (gff : Bool) (ls : List Bytes) : String :=
  if ls.isEmpty then "-" else
  " ".intercalate (ls.map fun l =>
    let k := if gff then (match lineKind l with | .directive => "D" | .comment => "C" | .record => "R")
             else (match Gtf.lineKind l with | .comment => "C" | .record => "R")
    s!"{k}:{hex l}")

/-- `V:major:minor|~:patch|~`, `R:namehex:start:end`, `B:srchex:namehex`, `S:hex`, `~` -/
def parseDValueTok (s : String) : Option (Option DValue) :=
  if s = "~" then some none else
  match s.splitOn ":" with
  | ["S", h] => (unhex h).map (fun b => some (.string b))
  | ["V", a, b, c] => do
    let ma ← a.toNat?
    let mi ← if b = "~" then some none else b.toNat?.map some
    let p ← if c = "~" then some none else c.toNat?.map some
    pure (some (.gffVersion ma mi p))
  | ["R", n, a, b] => do pure (some (.sequenceRegion (← unhex n) (← a.toNat?) (← b.toNat?)))
  | ["B", a, b] => do pure (some (.genomeBuild (← unhex a) (← unhex b)))
  | _ => none

def fmtOptNat : Option Nat → String
  | none => "~"
  | some n => toString n

def fmtDValue : DValue → String
  | .string s => "S:" ++ hex s
  | .gffVersion a b c => s!"V:{a}:{fmtOptNat b}:{fmtOptNat c}"
  | .sequenceRegion n a b => s!"R:{hex n}:{a}:{b}"
  | .genomeBuild a b => s!"B:{hex a}:{hex b}"

/-! ### BED -/

def parseOValueTok (s : String) : Option Bed.OValue :=
  match s.toList with
  | 'S' :: ':' :: r => (unhex (String.ofList r)).map Bed.OValue.string
  | 'C' :: ':' :: r => (String.ofList r).toNat?.map (fun n => .char (UInt8.ofNat n))
  | 'U' :: ':' :: r => (String.ofList r).toNat?.map Bed.OValue.uint
  | 'I' :: ':' :: r => (String.ofList r).toInt?.map Bed.OValue.int
  | _ => none

def parseBedStrand : String → Option (Option Bed.Strand)
  | "." => some none
  | "+" => some (some .forward)
  | "-" => some (some .reverse)
  | _ => none

def fmtBedStrand : Option Bed.Strand → String
  | none => "."
  | some .forward => "+"
  | some .reverse => "-"

def fmtOValue : Bed.OValue → String
  | .string s => "S:" ++ hex s
  | .char c => s!"C:{c.toNat}"
  | .uint n => s!"U:{n}"
  | .int n => s!"I:{n}"

def fmtBedRecord (r : Bed.Record) : String :=
  let oth := if r.other.isEmpty then "-" else ",".intercalate (r.other.map fmtOValue)
  s!"{r.n} {hex r.seqid} {r.start} {fmtOptNat r.end_} {fmtOptHex r.name} {r.score} {fmtBedStrand r.strand} {oth}"

def fmtHexList (l : List Bytes) : String := if l.isEmpty then "-" else ",".intercalate (l.map hex)

/-- the lazy accessors of `Record<N>` that exist for `N` -/
def fmtBedLazy (l : Bed.Lazy) : String :=
  let seqid := fmtExcept hex (l.field 0)
  let start := fmtExcept toString ((l.field 1) >>= Bed.parseStart)
  let end_ := match l.field 2 with
    | .ok s => fmtOptExcept toString (Bed.parseEnd s)
    | .error e => errStr e
  let name := if l.n ≥ 4 then " name=" ++ fmtExcept (fun s => fmtOptHex (Bed.parseName s)) (l.field 3) else ""
  let score := if l.n ≥ 5 then " score=" ++ fmtExcept toString ((l.field 4) >>= Bed.parseScore) else ""
  let strand := if l.n ≥ 6 then " strand=" ++ fmtExcept fmtBedStrand ((l.field 5) >>= Bed.parseStrand) else ""
  s!"seqid={seqid} start={start} end={end_}{name}{score}{strand} others={fmtExcept fmtHexList l.others}"

/-- read records until end of input, an error, or `limit` records -/
def bedReadAll (n : Nat) : Nat → Bytes → List String → List String
  | 0, _, acc => acc.reverse
  | limit + 1, input, acc =>
    match Bed.readLazy n input with
    | .error e => (errStr e :: acc).reverse
    | .ok (l, len, rest) =>
      if len = 0 then ("eof" :: acc).reverse
      else bedReadAll n limit rest (s!"len={len} {fmtBedLazy l} owned={fmtExcept fmtBedRecord (Bed.toOwned l)}" :: acc)

def handleC18 : List String → String
  | "gff-write" :: seqid :: source :: ty :: start :: end_ :: score :: rest =>
    match fmtTable score with
    | none => "bad-op"
    | some ff =>
      match parseRecordToks ff (seqid :: source :: ty :: start :: end_ :: rest) with
      | none => "bad-op"
      | some r => fmtExcept (fun b => "ok " ++ hex b) (writeRecord ff.1 r)
  | "gtf-write" :: seqid :: source :: ty :: start :: end_ :: score :: rest =>
    match fmtTable score with
    | none => "bad-op"
    | some ff =>
      match parseRecordToks ff (seqid :: source :: ty :: start :: end_ :: rest) with
      | none => "bad-op"
      | some r => fmtExcept (fun b => "ok " ++ hex b) (Gtf.writeRecord ff.1 r)
  | ["gff-readline", file, tbl] =>
    match unhex file, parseTable tbl with
    | some f, some ff => gffReadLine ff f
    | _, _ => "bad-op"
  | ["gtf-readline", file, tbl] =>
    match unhex file, parseTable tbl with
    | some f, some ff => gtfReadLine ff f
    | _, _ => "bad-op"
  | ["lines", fmt, file] =>
    match unhex file with
    | some f =>
      if fmt = "gff" then fmtKinds true ((fileLines f).filter (fun l => !isBlank l))
      else fmtKinds false (fileLines f)
    | none => "bad-op"
  | ["gff-directive-write", key, value] =>
    match unhex key, parseDValueTok value with
    | some k, some v => fmtExcept (fun b => "ok " ++ hex b) (writeDirective ⟨k, v⟩)
    | _, _ => "bad-op"
  | ["gff-directive-parse", kind, text] =>
    match unhex text with
    | none => "bad-op"
    | some t =>
      let r := if kind = "V" then parseGffVersion t else if kind = "R" then parseSequenceRegion t
               else parseGenomeBuild t
      match r with
      | some v => "ok " ++ fmtDValue v
      | none => "err"
  | ["gff-comment-write", text] =>
    match unhex text with
    | some t => "ok " ++ hex (writeComment t)
    | none => "bad-op"
  | ["bed-write", n, seqid, start, end_, name, score, strand, others] =>
    match n.toNat?, unhex seqid, start.toNat?, (if end_ = "~" then some none else end_.toNat?.map some),
          optHex name, score.toNat?, parseBedStrand strand,
          (if others = "-" then some [] else (others.splitOn ",").mapM parseOValueTok) with
    | some n, some seqid, some start, some end_, some name, some score, some strand, some others =>
      fmtExcept (fun b => "ok " ++ hex b) (Bed.writeRecord ⟨n, seqid, start, end_, name, score, strand, others⟩)
    | _, _, _, _, _, _, _, _ => "bad-op"
  | ["bed-read", n, file] =>
    match n.toNat?, unhex file with
    | some n, some f => " | ".intercalate (bedReadAll n 16 f [])
    | _, _ => "bad-op"
  | _ => "bad-op"

end Noodles.Gff.Driver
