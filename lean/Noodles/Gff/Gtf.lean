import Noodles.Gff.Model
/-!
# GTF lines: writer and reader (model for C18)

Transcribed from noodles-gtf

* writer: `io/writer/line.rs`, `line/record.rs`, `line/record/{reference_sequence_name,source,ty,
  position,score,strand,phase}.rs`, `line/record/attributes.rs`, `attributes/field.rs`,
  `attributes/field/value.rs`
* reader: `line.rs`, `record.rs`, `record/fields.rs`, `record/fields/bounds.rs` (same index as gff),
  `record/attributes.rs` (`parse_attributes`, `escape_decode`, `unescape_string`),
  `record/attributes/field.rs` (`parse_field`, `parse_key`, `parse_value`, `parse_string`,
  `parse_raw_value`, `maybe_consume_terminator`), `line_buf.rs` (`TryFrom<Line>`)

The owned record is `gff::feature::RecordBuf` (`Noodles.Gff.Record`).

**`parseString` describes the code after the `fix:` commit "gtf: the closing quote of an attribute
value is the first unescaped one"** (finding F21): before it, `parse_string` stopped at the first
`"` even when it was escaped, so `gene_id "g\"0";` (what the writer emits for `g"0`) was cut at
`g\` and the rest of the column failed to parse.
-/
namespace Noodles.Gtf
open Noodles.Gff

def BACKSLASH : UInt8 := 92
def QUOTE : UInt8 := 34

/-- `value.rs::write_escaped_string` body: `\` and `"` get a `\` in front -/
def escape : Bytes → Bytes
  | [] => []
  | c :: r => if c = BACKSLASH ∨ c = QUOTE then BACKSLASH :: c :: escape r else c :: escape r

/-- `value.rs::requires_escapes` -/
def requiresEscapes (s : Bytes) : Bool := s.any (fun c => c == BACKSLASH || c == QUOTE)

/-- `value.rs::write_value` -/
def writeValue (v : Bytes) : Bytes :=
  if requiresEscapes v then QUOTE :: escape v ++ [QUOTE] else QUOTE :: v ++ [QUOTE]

/-- `attributes/field.rs::write_field`: `key "v";` once per value, joined by a space -/
def writeField (kv : Bytes × Value) : Bytes :=
  Text.join 32 (kv.2.values.map (fun v => kv.1 ++ 32 :: writeValue v ++ [59]))

/-- `attributes.rs::write_attributes`: fields joined by a space (nothing when empty) -/
def writeAttrs (as : Attrs) : Bytes := Text.join 32 (as.map writeField)

/-- `strand.rs::write_strand`: `Unknown` is rejected -/
def writeStrand : Strand → Except Err Bytes
  | .none => .ok MISSING
  | .forward => .ok [43]
  | .reverse => .ok [45]
  | .unknown => .error .invalidInput

def writePhase : Option Phase → Bytes
  | none => MISSING
  | some .zero => [48]
  | some .one => [49]
  | some .two => [50]

/-- `line/record.rs::write_record` (without the newline): seqid, source, type are written raw -/
def writeRecord {F : Type} (ff : FloatFmt F) (r : Record F) : Except Err Bytes :=
  match writeStrand r.strand with
  | .error e => .error e
  | .ok st =>
    .ok (joinCols
      [r.seqid, r.source, r.ty, Text.printNat r.start, Text.printNat r.end_,
       writeScore ff r.score, st, writePhase r.phase]
      (writeAttrs r.attrs))

/-! ## reader -/

/-- (fix) `field.rs::parse_string` after the opening quote: the position of the first `"` that is
not escaped (`esc` = the closure's `is_escaped`: the previous byte was an unconsumed `\`); returns
the raw text before it and what follows it -/
def parseStringAux : Bool → Bytes → Option (Bytes × Bytes)
  | _, [] => none
  | true, c :: r =>
    match parseStringAux false r with
    | some (b, rest) => some (c :: b, rest)
    | none => none
  | false, c :: r =>
    if c = BACKSLASH then
      match parseStringAux true r with
      | some (b, rest) => some (c :: b, rest)
      | none => none
    else if c = QUOTE then some ([], r)
    else match parseStringAux false r with
      | some (b, rest) => some (c :: b, rest)
      | none => none

def parseString (s : Bytes) : Option (Bytes × Bytes) := parseStringAux false s

/-- `field.rs::parse_raw_value`: up to (not including) the first `;` -/
def parseRawValue (s : Bytes) : Bytes × Bytes :=
  let v := s.takeWhile (· ≠ 59)
  (v, s.drop v.length)

/-- `<[u8]>::trim_ascii_start` -/
def trimStart (s : Bytes) : Bytes := s.dropWhile isAsciiWs

/-- `field.rs::maybe_consume_terminator` -/
def consumeTerminator (s : Bytes) : Bytes :=
  match trimStart s with
  | 59 :: r => trimStart r
  | t => t

/-- `attributes.rs::unescape_string` (`esc` = the previous byte was an unconsumed `\`); a dangling
`\` at the end is dropped silently, as in the code -/
def unescapeAux : Bool → Bytes → Except Err Bytes
  | _, [] => .ok []
  | false, c :: r =>
    if c = BACKSLASH then unescapeAux true r
    else match unescapeAux false r with
      | .ok t => .ok (c :: t)
      | .error e => .error e
  | true, c :: r =>
    if c = BACKSLASH ∨ c = QUOTE then
      match unescapeAux false r with
      | .ok t => .ok (c :: t)
      | .error e => .error e
    else .error .invalidData

/-- `attributes.rs::escape_decode` -/
def escapeDecode (s : Bytes) : Except Err Bytes :=
  if s.contains BACKSLASH then unescapeAux false s else .ok s

/-- `field.rs::parse_field`: key up to the first space, then a quoted or raw value, then the
optional `;` with surrounding whitespace -/
def parseField (src : Bytes) : Except Err ((Bytes × Bytes) × Bytes) :=
  match splitOnce 32 src with
  | none => .error .invalidData
  | some (key, rest) =>
    match rest with
    | 34 :: r =>
      match parseString r with
      | some (v, rest') => .ok ((key, v), consumeTerminator rest')
      | none => .error .invalidData
    | _ =>
      let (v, rest') := parseRawValue rest
      .ok ((key, v), consumeTerminator rest')

/-- `attributes.rs::parse_attributes`, first half: the (key, decoded value) pairs in file order -/
def attrPairs : Nat → Bytes → Except Err (List (Bytes × Bytes))
  | 0, _ => .ok []
  | fuel + 1, src =>
    if src.isEmpty then .ok []
    else match parseField src with
      | .error e => .error e
      | .ok ((k, raw), rest) =>
        match escapeDecode raw with
        | .error e => .error e
        | .ok v =>
          match attrPairs fuel rest with
          | .ok ps => .ok ((k, v) :: ps)
          | .error e => .error e

/-- `Value::push` -/
def pushValue (v : Value) (x : Bytes) : Value :=
  match v with
  | .string s => .array [s, x]
  | .array vs => .array (vs ++ [x])

/-- `attributes.rs::parse_attributes`, second half: `IndexMap::entry` — a new key is appended as a
string, a repeated key pushes onto the existing value -/
def insertPair (m : Attrs) (kv : Bytes × Bytes) : Attrs :=
  if m.any (fun e => e.1 == kv.1) then m.map (fun e => if e.1 == kv.1 then (e.1, pushValue e.2 kv.2) else e)
  else m ++ [(kv.1, .string kv.2)]

def parseAttrs (src : Bytes) : Except Err Attrs :=
  match attrPairs (src.length + 1) src with
  | .ok ps => .ok (ps.foldl insertPair [])
  | .error e => .error e

/-- `record.rs::parse_strand`: no `?` in GTF -/
def parseStrand (s : Bytes) : Except Err Strand :=
  if s = [46] then .ok .none
  else if s = [43] then .ok .forward
  else if s = [45] then .ok .reverse
  else .error .invalidData

/-- `Record::try_new`: the field bounds, then the attribute column is parsed once so that a
malformed one is an error of the line (the trait method `attributes()` cannot report one) -/
def tryNew (line : Bytes) : Except Err Fields := do
  let f ← bounds line
  let _ ← parseAttrs f.attrs
  pure f

/-- `RecordBuf::try_from_feature_record` over the lazy GTF record of a line. The trait method
`attributes()` of the lazy record is `self.attributes().unwrap()`; `try_new` has already parsed the
column, so the `unwrap` (kept as `.panic` here) is not reached. -/
def readRecord {F : Type} (ff : FloatFmt F) (line : Bytes) : Except Err (Record F) := do
  let f ← tryNew line
  let start ← parsePosition f.start
  let end_ ← parsePosition f.end_
  let score ← transpose (parseScore ff f.score)
  let strand ← parseStrand f.strand
  let phase ← transpose (parsePhase f.phase)
  let attrs ← (match parseAttrs f.attrs with
    | .ok a => .ok a
    | .error _ => .error .panic)
  -- `Attributes::from_iter` over the lazy map: keys are already distinct
  pure ⟨f.seqid, f.source, f.ty, start, end_, score, strand, phase, collectAttrs attrs⟩

inductive Kind | comment | record
  deriving Repr, DecidableEq

/-- `line.rs::Line::kind` -/
def lineKind : Bytes → Kind
  | 35 :: _ => .comment
  | _ => .record

end Noodles.Gtf
