import Noodles.Gff.Model
import Noodles.Gff.KitProof
/-! Helper lemmas for the GFF3 model (C18): attributes, `IndexMap` collection, record columns. -/
namespace Noodles.Gff
open Noodles

/-- a value as the reader produces it: a one-element (or empty) array is not a reader value, it is
written exactly like a string -/
def Value.Canonical : Value → Prop
  | .string _ => True
  | .array vs => 2 ≤ vs.length

/-! ### join -/

theorem mem_join (d : UInt8) (fs : List Bytes) (b : UInt8) (h : b ∈ Text.join d fs) :
    b = d ∨ ∃ f ∈ fs, b ∈ f := by
  induction fs with
  | nil => simp [Text.join] at h
  | cons f rest ih =>
    cases rest with
    | nil => simp [Text.join] at h; exact Or.inr ⟨f, by simp, h⟩
    | cons g gs =>
      simp only [Text.join, List.mem_append, List.mem_cons] at h
      rcases h with h | h | h
      · exact Or.inr ⟨f, by simp, h⟩
      · exact Or.inl h
      · rcases ih h with h | ⟨x, hx, hb⟩
        · exact Or.inl h
        · exact Or.inr ⟨x, List.mem_cons_of_mem _ hx, hb⟩

theorem delim_mem_join (d : UInt8) (f g : Bytes) (gs : List Bytes) : d ∈ Text.join d (f :: g :: gs) := by
  simp [Text.join]

theorem join_cons_cons (d : UInt8) (f g : Bytes) (gs : List Bytes) :
    Text.join d (f :: g :: gs) = f ++ d :: Text.join d (g :: gs) := rfl

/-! ### the attribute escape set -/

theorem attr_free (s : Bytes) (d : UInt8) (hd : attrEsc d = true) (hal : isAlnum d = false)
    (h37 : d ≠ 37) : d ∉ Pct.encode attrEsc s := encode_free' attrEsc s d hd hal h37

theorem attrEsc_pct : attrEsc 37 = true := by decide
theorem seqidEsc_pct : seqidEsc 37 = true := by decide

/-- reserved byte `d` (escaped by the attribute set, not `,`) does not occur in a written value -/
theorem writeValue_free (v : Value) (d : UInt8) (hd : attrEsc d = true) (hal : isAlnum d = false)
    (h37 : d ≠ 37) (h44 : d ≠ 44) : d ∉ writeValue v := by
  intro h
  rcases mem_join 44 _ d h with h | ⟨f, hf, hb⟩
  · exact h44 h
  · obtain ⟨s, _, rfl⟩ := List.mem_map.mp hf
    exact attr_free s d hd hal h37 hb

theorem writeField_free (tv : Bytes × Value) (d : UInt8) (hd : attrEsc d = true)
    (hal : isAlnum d = false) (h37 : d ≠ 37) (h44 : d ≠ 44) (h61 : d ≠ 61) : d ∉ writeField tv := by
  intro h
  simp only [writeField, List.mem_append, List.mem_cons] at h
  rcases h with h | h | h
  · exact attr_free _ d hd hal h37 h
  · exact h61 h
  · exact writeValue_free _ d hd hal h37 h44 h

/-! ### one value -/

theorem parseValue_array (src : Bytes) (h : (44 : UInt8) ∈ src) :
    parseValue src = .array ((Text.splitOn 44 src).map Pct.decode) := by
  simp [parseValue, h]

theorem parseValue_string (src : Bytes) (h : (44 : UInt8) ∉ src) :
    parseValue src = .string (Pct.decode src) := by
  simp [parseValue, h]

theorem writeValue_string (s : Bytes) : writeValue (.string s) = Pct.encode attrEsc s := rfl
theorem writeValue_array (vs : List Bytes) :
    writeValue (.array vs) = Text.join 44 (vs.map (Pct.encode attrEsc)) := rfl

theorem map_decode_encode (vs : List Bytes) :
    (vs.map (Pct.encode attrEsc)).map Pct.decode = vs := by
  induction vs with
  | nil => rfl
  | cons a r ih => simp only [List.map]; rw [ih, Pct.decode_encode attrEsc attrEsc_pct]

theorem parseValue_writeValue (v : Value) (hv : v.Canonical) : parseValue (writeValue v) = v := by
  cases v with
  | string s =>
    have h44 : (44 : UInt8) ∉ Pct.encode attrEsc s := attr_free s 44 (by decide) (by decide) (by decide)
    rw [writeValue_string, parseValue_string _ h44, Pct.decode_encode attrEsc attrEsc_pct]
  | array vs =>
    simp only [Value.Canonical] at hv
    match vs, hv with
    | a :: b :: rest, _ =>
      have hmem : (44 : UInt8) ∈ Text.join 44 ((a :: b :: rest).map (Pct.encode attrEsc)) := by
        simp only [List.map]; exact delim_mem_join 44 _ _ _
      rw [writeValue_array, parseValue_array _ hmem, Text.splitOn_join 44 _ (by simp), map_decode_encode]
      intro f hf
      obtain ⟨s, _, rfl⟩ := List.mem_map.mp hf
      exact attr_free s 44 (by decide) (by decide) (by decide)

/-! ### the attribute list -/

theorem eq_mem_writeField (tv : Bytes × Value) : (61 : UInt8) ∈ writeField tv := by
  simp [writeField]

theorem attrFields_last (fuel : Nat) (f : Bytes × Value) (hcan : f.2.Canonical) :
    attrFields (fuel + 1) (writeField f) = .ok [f] := by
  have h61 : (61 : UInt8) ∉ Pct.encode attrEsc f.1 := attr_free _ 61 (by decide) (by decide) (by decide)
  have h59 : (59 : UInt8) ∉ writeValue f.2 :=
    writeValue_free _ 59 (by decide) (by decide) (by decide) (by decide)
  have hdec : Pct.decode (Pct.encode attrEsc f.1) = f.1 := Pct.decode_encode _ attrEsc_pct _
  have hval : parseValue (writeValue f.2) = f.2 := parseValue_writeValue _ hcan
  have hw : writeField f = Pct.encode attrEsc f.1 ++ 61 :: writeValue f.2 := rfl
  rw [hw]
  simp [attrFields, splitOnce_append 61 _ h61, splitOnce_none 59 _ h59, hdec, hval]

theorem attrFields_more (fuel : Nat) (f : Bytes × Value) (hcan : f.2.Canonical) (rest : Bytes) :
    attrFields (fuel + 1) (writeField f ++ 59 :: rest) =
      (match attrFields fuel rest with
       | .ok fs => .ok (f :: fs)
       | .error e => .error e) := by
  have h61 : (61 : UInt8) ∉ Pct.encode attrEsc f.1 := attr_free _ 61 (by decide) (by decide) (by decide)
  have h59 : (59 : UInt8) ∉ writeValue f.2 :=
    writeValue_free _ 59 (by decide) (by decide) (by decide) (by decide)
  have hdec : Pct.decode (Pct.encode attrEsc f.1) = f.1 := Pct.decode_encode _ attrEsc_pct _
  have hval : parseValue (writeValue f.2) = f.2 := parseValue_writeValue _ hcan
  have hw : writeField f ++ 59 :: rest = Pct.encode attrEsc f.1 ++ 61 :: (writeValue f.2 ++ 59 :: rest) := by
    simp [writeField]
  rw [hw]
  simp [attrFields, splitOnce_append 61 _ h61, splitOnce_append 59 _ h59, hdec, hval]
  cases attrFields fuel rest <;> rfl

theorem attrFields_join (as : Attrs) (hne : as ≠ []) (hcan : ∀ tv ∈ as, tv.2.Canonical) (fuel : Nat)
    (hfuel : (Text.join 59 (as.map writeField)).length < fuel) :
    attrFields fuel (Text.join 59 (as.map writeField)) = .ok as := by
  induction as generalizing fuel with
  | nil => exact absurd rfl hne
  | cons f rest ih =>
    cases fuel with
    | zero => omega
    | succ fuel =>
      cases rest with
      | nil =>
        simp only [List.map, Text.join]
        exact attrFields_last fuel f (hcan f (by simp))
      | cons g gs =>
        simp only [List.map, join_cons_cons] at hfuel ⊢
        rw [attrFields_more fuel f (hcan f (by simp))]
        have ih' := ih (by simp) (fun tv h => hcan tv (List.mem_cons_of_mem _ h)) fuel (by
          simp only [List.map, List.length_append, List.length_cons] at hfuel ⊢
          omega)
        simp only [List.map] at ih'
        rw [ih']

theorem writeAttrs_ne_missing (f : Bytes × Value) (fs : Attrs) :
    Text.join 59 ((f :: fs).map writeField) ≠ MISSING := by
  intro h
  have h61 : (61 : UInt8) ∈ Text.join 59 ((f :: fs).map writeField) := by
    cases fs with
    | nil => simp only [List.map, Text.join]; exact eq_mem_writeField f
    | cons g gs =>
      simp only [List.map, join_cons_cons, List.mem_append]
      exact Or.inl (eq_mem_writeField f)
  rw [h] at h61
  simp [MISSING] at h61

/-- the lazy attribute iterator on the written column gives the attributes back -/
theorem lazyAttrs_writeAttrs (f : Fields) (as : Attrs) (hcan : ∀ tv ∈ as, tv.2.Canonical)
    (hf : f.attrs = writeAttrs as) : lazyAttrs f = .ok as := by
  unfold lazyAttrs
  rw [hf]
  cases as with
  | nil => simp [writeAttrs, attrFields]
  | cons a rest =>
    have h1 : writeAttrs (a :: rest) = Text.join 59 ((a :: rest).map writeField) := by
      simp [writeAttrs]
    rw [h1, if_neg (writeAttrs_ne_missing a rest)]
    exact attrFields_join (a :: rest) (by simp) hcan _ (by omega)

/-! ### IndexMap collection -/

theorem imInsert_fresh (m : Attrs) (kv : Bytes × Value) (h : ∀ e ∈ m, e.1 ≠ kv.1) :
    imInsert m kv = m ++ [kv] := by
  unfold imInsert
  have : m.any (fun e => e.1 == kv.1) = false := by
    rw [List.any_eq_false]
    intro e he
    simpa using h e he
  rw [this]; simp

theorem foldl_imInsert (acc xs : Attrs)
    (hnd : ((acc ++ xs).map (·.1)).Nodup) : xs.foldl imInsert acc = acc ++ xs := by
  induction xs generalizing acc with
  | nil => simp
  | cons x rest ih =>
    simp only [List.foldl_cons]
    have hfresh : ∀ e ∈ acc, e.1 ≠ x.1 := by
      intro e he heq
      rw [List.map_append, List.nodup_append] at hnd
      exact hnd.2.2 e.1 (List.mem_map.mpr ⟨e, he, rfl⟩) x.1 (by simp) heq
    rw [imInsert_fresh acc x hfresh, ih (acc ++ [x]) (by simpa using hnd)]
    simp

theorem collectAttrs_nodup (xs : Attrs) (hnd : (xs.map (·.1)).Nodup) : collectAttrs xs = xs := by
  unfold collectAttrs
  rw [foldl_imInsert [] xs (by simpa using hnd)]
  simp

/-! ### small columns -/

theorem parseStrand_writeStrand (s : Strand) : parseStrand (writeStrand s) = .ok s := by
  cases s <;> simp [writeStrand, parseStrand, MISSING]

theorem writeStrand_tabfree (s : Strand) : TAB ∉ writeStrand s := by
  cases s <;> simp [writeStrand, MISSING, TAB]

theorem writePhase_ok (ty : Bytes) (p : Option Phase) (ph : Bytes) (h : writePhase ty p = .ok ph) :
    transpose (parsePhase ph) = .ok p ∧ TAB ∉ ph := by
  cases p with
  | none =>
    simp only [writePhase] at h
    split at h
    · simp at h
    · simp at h; subst h; simp [parsePhase, transpose, MISSING, TAB]
  | some q =>
    cases q <;> simp [writePhase] at h <;> subst h <;> simp [parsePhase, transpose, TAB]

end Noodles.Gff

namespace Noodles.Gff
open Noodles

/-- what the property calls a value the reader can return: positions are `Position`s, tags are
distinct (`IndexMap`), multi-valued attributes have at least two values -/
structure Record.WF {F : Type} (r : Record F) : Prop where
  start_pos : 1 ≤ r.start ∧ r.start ≤ USIZE_MAX
  end_pos : 1 ≤ r.end_ ∧ r.end_ ≤ USIZE_MAX
  tags_nodup : (r.attrs.map (·.1)).Nodup
  canonical : ∀ tv ∈ r.attrs, tv.2.Canonical

theorem tab_not_digit : ¬ isDigit TAB := by unfold isDigit TAB; simp

theorem seqid_tabfree (s : Bytes) : TAB ∉ Pct.encode seqidEsc s :=
  encode_free' seqidEsc s 9 (by decide) (by decide) (by decide)

/-- a seqid without any byte of the writer's escape set is written as it is -/
theorem encode_id (esc : UInt8 → Bool) (s : Bytes) (h : ∀ b ∈ s, esc b = false) : Pct.encode esc s = s := by
  induction s with
  | nil => rfl
  | cons b r ih =>
    have hb := h b (by simp)
    simp [Pct.encode, hb, ih (fun x hx => h x (List.mem_cons_of_mem _ hx))]

/-- the extra hypotheses the code as it stands (finding F19) forces on a record: the seqid contains
no byte the writer percent-encodes (the reader does not decode it), source and type contain no TAB
(they are written raw) -/
structure Record.Plain {F : Type} (r : Record F) : Prop where
  seqid_plain : ∀ b ∈ r.seqid, seqidEsc b = false
  source_tabfree : TAB ∉ r.source
  type_tabfree : TAB ∉ r.ty

/-- what the reader returns for ANY record the writer accepts with TAB-free source and type: the
record with the seqid replaced by its percent-encoded form (so the round trip holds exactly when
encoding leaves the seqid alone) -/
theorem readRecord_writeRecord_encoded {F : Type} (ff : FloatFmt F) (hff : ff.Lawful) (r : Record F)
    (hwf : r.WF) (hs : TAB ∉ r.source) (ht : TAB ∉ r.ty) (line : Bytes)
    (h : writeRecord ff r = .ok line) :
    readRecord ff line = .ok { r with seqid := Pct.encode seqidEsc r.seqid } := by
  unfold writeRecord at h
  cases hph : writePhase r.ty r.phase with
  | error e => rw [hph] at h; simp at h
  | ok ph =>
    rw [hph] at h
    simp only [Except.ok.injEq] at h
    subst h
    obtain ⟨hp1, hp2⟩ := writePhase_ok _ _ _ hph
    have hb := bounds_joinCols (Pct.encode seqidEsc r.seqid) r.source r.ty (Text.printNat r.start)
      (Text.printNat r.end_) (writeScore ff r.score) (writeStrand r.strand) ph (writeAttrs r.attrs) (by
        intro x hx
        simp only [List.mem_cons, List.mem_nil_iff, or_false] at hx
        rcases hx with rfl | rfl | rfl | rfl | rfl | rfl | rfl | rfl
        · exact seqid_tabfree _
        · exact hs
        · exact ht
        · exact printNat_not_mem _ _ tab_not_digit
        · exact printNat_not_mem _ _ tab_not_digit
        · exact (writeScore_tabfree ff hff _).1
        · exact writeStrand_tabfree _
        · exact hp2)
    unfold readRecord
    rw [hb]
    have h1 : lazyStart ⟨Pct.encode seqidEsc r.seqid, r.source, r.ty, Text.printNat r.start,
      Text.printNat r.end_, writeScore ff r.score, writeStrand r.strand, ph, writeAttrs r.attrs⟩
        = .ok r.start := parsePosition_printNat _ hwf.start_pos.1 hwf.start_pos.2
    have h2 : lazyEnd ⟨Pct.encode seqidEsc r.seqid, r.source, r.ty, Text.printNat r.start,
      Text.printNat r.end_, writeScore ff r.score, writeStrand r.strand, ph, writeAttrs r.attrs⟩
        = .ok r.end_ := parsePosition_printNat _ hwf.end_pos.1 hwf.end_pos.2
    have h3 := parseScore_writeScore ff hff r.score
    have h4 := parseStrand_writeStrand r.strand
    have h5 := lazyAttrs_writeAttrs ⟨Pct.encode seqidEsc r.seqid, r.source, r.ty, Text.printNat r.start,
      Text.printNat r.end_, writeScore ff r.score, writeStrand r.strand, ph, writeAttrs r.attrs⟩
      r.attrs hwf.canonical rfl
    simp only [bind, Except.bind, pure, Except.pure, h1, h2, lazyScore, h3, h4, hp1, h5,
      lazySeqid, lazySource, lazyType, collectAttrs_nodup _ hwf.tags_nodup]

theorem readRecord_writeRecord {F : Type} (ff : FloatFmt F) (hff : ff.Lawful) (r : Record F)
    (hwf : r.WF) (hpl : r.Plain) (line : Bytes) (h : writeRecord ff r = .ok line) :
    readRecord ff line = .ok r := by
  rw [readRecord_writeRecord_encoded ff hff r hwf hpl.source_tabfree hpl.type_tabfree line h,
    encode_id _ _ hpl.seqid_plain]

end Noodles.Gff
