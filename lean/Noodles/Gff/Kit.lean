import Noodles.Basic.Pct
import Noodles.Basic.Text
/-!
# Shared pieces of the GFF3 / GTF / BED line models (C18)

* `splitOnce`            — `slice::iter().position` + `split_at` (gff `record/attributes/field.rs::split_once`,
                           `record/fields/bounds.rs::read_field`, gtf `record/attributes/field.rs::parse_key`)
* percent-encode sets    — the `AsciiSet`s as they appear in the noodles-gff writer
* decimal integers       — `lexical_core::write(usize)` / `lexical_core::parse::<usize>` (optional `+`,
                           at least one digit, leading zeros allowed, overflow above `usize::MAX` rejected;
                           observed on the real parser, compared on every run)
* `FloatFmt`             — the `f32` score: `{}` formatting and `lexical_core::parse::<f32>` are a parameter
                           with an assumed law (DESIGN §2), validated by the harness on every run
* line framing           — `read_line` of the gff / gtf readers (`read_until(b'\n')`, strip LF, then one CR)
-/
namespace Noodles.Gff

abbrev Bytes := List UInt8

inductive Err | eof | invalidData | invalidInput | panic
  deriving Repr, DecidableEq

def TAB : UInt8 := 9
def LF : UInt8 := 10
def CR : UInt8 := 13

/-- split at the first occurrence of `d`; the delimiter is dropped -/
def splitOnce (d : UInt8) : Bytes → Option (Bytes × Bytes)
  | [] => none
  | b :: r =>
    if b = d then some ([], r)
    else match splitOnce d r with
      | some (f, rest) => some (b :: f, rest)
      | none => none

/-! ### percent-encode sets -/

def isAlnum (b : UInt8) : Bool :=
  (48 ≤ b && b ≤ 57) || (65 ≤ b && b ≤ 90) || (97 ≤ b && b ≤ 122)

/-- `percent_encoding::CONTROLS`: C0 controls and DEL -/
def isControl (b : UInt8) : Bool := b < 32 || b = 127

/-- `AsciiSet::should_percent_encode`: every non-ASCII byte is encoded whatever the set -/
def nonAscii (b : UInt8) : Bool := 128 ≤ b

/-- `io/writer/line/record/reference_sequence_name.rs::PERCENT_ENCODE_SET`:
`NON_ALPHANUMERIC` minus `. : ^ * $ @ ! + _ ? - |` -/
def seqidEsc (b : UInt8) : Bool :=
  nonAscii b || (!isAlnum b && !([46, 58, 94, 42, 36, 64, 33, 43, 95, 63, 45, 124] : List UInt8).contains b)

/-- `io/writer/line/record/attributes/field.rs::PERCENT_ENCODE_SET`:
`CONTROLS` + TAB LF CR `%` `;` `=` `&` `,` -/
def attrEsc (b : UInt8) : Bool :=
  nonAscii b || isControl b || ([9, 10, 13, 37, 59, 61, 38, 44] : List UInt8).contains b

/-! ### decimal integers -/

def USIZE_MAX : Nat := 2 ^ 64 - 1

/-- an optional leading `+` -/
def stripPlus : Bytes → Bytes
  | 43 :: r => r
  | s => s

/-- `lexical_core::parse::<usize>` / `str::parse::<usize>`: optional leading `+`, then one or more
decimal digits; a value above `usize::MAX` is an overflow error. -/
def parseUsize (s : Bytes) : Option Nat :=
  match Text.parseNat (stripPlus s) with
  | some n => if n ≤ USIZE_MAX then some n else none
  | none => none

/-- `noodles_core::Position`: a non-zero `usize` -/
def parsePosition (s : Bytes) : Except Err Nat :=
  match parseUsize s with
  | some n => if n = 0 then .error .invalidData else .ok n
  | none => .error .invalidData

/-! ### the float score as a parameter -/

/-- `fmt` = `write!(w, "{n}")` for `f32`; `parse` = `lexical_core::parse::<f32>` (`none` = error). -/
structure FloatFmt (F : Type) where
  fmt : F → Bytes
  parse : Bytes → Option F

/-- the assumed law (validated on the real formatter/parser by the harness for every score it
generates): parsing the formatted text gives the value back, the text is not the missing marker
`.` and contains no TAB / LF / CR. `F` excludes NaN (not equal to itself). -/
structure FloatFmt.Lawful {F : Type} (ff : FloatFmt F) : Prop where
  parse_fmt : ∀ x, ff.parse (ff.fmt x) = some x
  fmt_ne_missing : ∀ x, ff.fmt x ≠ [46]
  fmt_clean : ∀ x, ∀ b ∈ ff.fmt x, b ≠ 9 ∧ b ≠ 10 ∧ b ≠ 13

def MISSING : Bytes := [46]

/-- `Option<io::Result<T>>::transpose()?` -/
def transpose {α : Type} : Option (Except Err α) → Except Err (Option α)
  | none => .ok none
  | some (.ok a) => .ok (some a)
  | some (.error e) => .error e

/-- `parse_score` (gff `record.rs`, gtf `record.rs`) -/
def parseScore {F : Type} (ff : FloatFmt F) (s : Bytes) : Option (Except Err F) :=
  if s = MISSING then none
  else match ff.parse s with
    | some x => some (.ok x)
    | none => some (.error .invalidData)

def writeScore {F : Type} (ff : FloatFmt F) : Option F → Bytes
  | some x => ff.fmt x
  | none => MISSING

/-! ### the nine-column bounds index -/

/-- `Bounds::index` (gff and gtf `record/fields/bounds.rs`): `n` TAB-terminated fields, then the
rest of the line; a missing TAB is `UnexpectedEof`. -/
def takeFields : Nat → Bytes → Option (List Bytes × Bytes)
  | 0, s => some ([], s)
  | n + 1, s =>
    match splitOnce TAB s with
    | none => none
    | some (f, rest) =>
      match takeFields n rest with
      | none => none
      | some (fs, r) => some (f :: fs, r)

/-- raw (undecoded) columns of a record line -/
structure Fields where
  seqid : Bytes
  source : Bytes
  ty : Bytes
  start : Bytes
  end_ : Bytes
  score : Bytes
  strand : Bytes
  phase : Bytes
  attrs : Bytes
  deriving Repr, DecidableEq

def bounds (line : Bytes) : Except Err Fields :=
  match takeFields 8 line with
  | some ([a, b, c, d, e, f, g, h], rest) => .ok ⟨a, b, c, d, e, f, g, h, rest⟩
  | _ => .error .eof

/-- the writers' column layout: eight TAB-terminated columns, then the attributes -/
def joinCols (cols : List Bytes) (last : Bytes) : Bytes :=
  cols.foldr (fun f acc => f ++ TAB :: acc) last

/-! ### line framing -/

def stripCR (l : Bytes) : Bytes :=
  if l.getLast? = some CR then l.dropLast else l

/-- the lines the gff / gtf `read_line` delivers for a whole input: split at every LF; a line that
was LF-terminated loses one trailing CR; an unterminated last line is delivered as is (empty = end
of input). -/
def fileLines (file : Bytes) : List Bytes :=
  let parts := Text.splitOn LF file
  (parts.dropLast.map stripCR) ++
    (match parts.getLast? with
     | some [] => []
     | some l => [l]
     | none => [])

/-- `u8::is_ascii_whitespace`: space, TAB, LF, FF, CR -/
def isAsciiWs (b : UInt8) : Bool := b = 32 || b = 9 || b = 10 || b = 12 || b = 13

/-- gff `io/reader/line.rs::is_blank` -/
def isBlank (l : Bytes) : Bool := l.all isAsciiWs

/-- what a writer emits for a list of lines -/
def writeLines (ls : List Bytes) : Bytes := (ls.map (· ++ [LF])).flatten

end Noodles.Gff
