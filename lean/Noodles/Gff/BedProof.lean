import Noodles.Gff.Bed
import Noodles.Gff.KitProof
/-! Helper lemmas for the BED model (C18): the field reader over a written line, the flat buffer
and its bounds, the accessors. -/
namespace Noodles.Bed
open Noodles Noodles.Gff

/-- a field as the writer emits it: no TAB, LF or CR -/
def Clean (f : Bytes) : Prop := TAB ∉ f ∧ LF ∉ f ∧ CR ∉ f

/-- `f1 TAB f2 TAB … fm LF rest` -/
def lineText : List Bytes → Bytes → Bytes
  | [], rest => LF :: rest
  | [f], rest => f ++ LF :: rest
  | f :: g :: fs, rest => f ++ TAB :: lineText (g :: fs) rest

/-- running field ends from a base offset -/
def endsFrom : Nat → List Bytes → List Nat
  | _, [] => []
  | b, f :: fs => (b + f.length) :: endsFrom (b + f.length) fs

theorem takeWhile_clean (f : Bytes) (d : UInt8) (rest : Bytes) (hf : TAB ∉ f ∧ LF ∉ f)
    (hd : d = TAB ∨ d = LF) :
    (f ++ d :: rest).takeWhile (fun b => decide (b ≠ TAB ∧ b ≠ LF)) = f := by
  induction f with
  | nil =>
    have : decide (d ≠ TAB ∧ d ≠ LF) = false := by
      rcases hd with rfl | rfl <;> simp
    simp only [List.nil_append, List.takeWhile_cons, this]
    rfl
  | cons b r ih =>
    have hb1 : b ≠ TAB := fun h => hf.1 (by simp [h])
    have hb2 : b ≠ LF := fun h => hf.2 (by simp [h])
    have ih' := ih ⟨fun h => hf.1 (List.mem_cons_of_mem _ h), fun h => hf.2 (List.mem_cons_of_mem _ h)⟩
    have : decide (b ≠ TAB ∧ b ≠ LF) = true := by simp [hb1, hb2]
    simp only [List.cons_append, List.takeWhile_cons, this, if_true]
    rw [ih']

theorem getLast_ne_cr (s : Bytes) (h : CR ∉ s) : s.getLast? ≠ some CR := by
  intro hl
  exact h (List.mem_of_getLast? hl)

theorem readField_tab (f rest dst : Bytes) (hf : Clean f) :
    readField (f ++ TAB :: rest) dst = (dst ++ f, f.length + 1, false, rest) := by
  unfold readField
  simp only [takeWhile_clean f TAB rest ⟨hf.1, hf.2.1⟩ (Or.inl rfl), List.drop_left]
  have : TAB ≠ LF := by decide
  simp only [if_neg this]

theorem readField_lf (f rest dst : Bytes) (hf : Clean f) (hd : CR ∉ dst) :
    readField (f ++ LF :: rest) dst = (dst ++ f, f.length + 1, true, rest) := by
  unfold readField
  simp only [takeWhile_clean f LF rest ⟨hf.1, hf.2.1⟩ (Or.inr rfl), List.drop_left]
  have : f.getLast? ≠ some CR := getLast_ne_cr _ hf.2.2
  simp only [if_true, if_neg this]

theorem readRequired_step (k : Nat) (src dst : Bytes) (ends : List Nat) (len : Nat) (dst' : Bytes)
    (n : Nat) (rest : Bytes) (h : readField src dst = (dst', n, false, rest)) :
    readRequired (k + 1) src dst ends len = readRequired k rest dst' (ends ++ [dst'.length]) (len + n) := by
  simp [readRequired, h]

theorem readOthers_eol (fuel : Nat) (src dst : Bytes) (ends : List Nat) (len : Nat) (dst' : Bytes)
    (n : Nat) (rest : Bytes) (h : readField src dst = (dst', n + 1, true, rest)) :
    readOthers (fuel + 1) src dst ends len = (dst', ends ++ [dst'.length], len + (n + 1), rest) := by
  simp [readOthers, h]

theorem readOthers_tab (fuel : Nat) (src dst : Bytes) (ends : List Nat) (len : Nat) (dst' : Bytes)
    (n : Nat) (rest : Bytes) (h : readField src dst = (dst', n + 1, false, rest)) :
    readOthers (fuel + 1) src dst ends len =
      readOthers fuel rest dst' (ends ++ [dst'.length]) (len + (n + 1)) := by
  simp [readOthers, h]

theorem lineText_cons2 (f g : Bytes) (fs : List Bytes) (rest : Bytes) :
    lineText (f :: g :: fs) rest = f ++ TAB :: lineText (g :: fs) rest := rfl
theorem lineText_one (f : Bytes) (rest : Bytes) : lineText [f] rest = f ++ LF :: rest := rfl

theorem flatten_no_cr (fs : List Bytes) (h : ∀ f ∈ fs, Clean f) : CR ∉ fs.flatten := by
  intro hm
  obtain ⟨f, hf, hb⟩ := List.mem_flatten.mp hm
  exact (h f hf).2.2 hb

/-- the leading `read_required_field`s over a written line -/
theorem readRequired_lineText (k : Nat) (F : List Bytes) (rest dst : Bytes) (ends : List Nat) (len : Nat)
    (hk : k < F.length) (hF : ∀ f ∈ F, Clean f) :
    ∃ len', readRequired k (lineText F rest) dst ends len =
      .ok (dst ++ (F.take k).flatten, ends ++ endsFrom dst.length (F.take k), len', lineText (F.drop k) rest) := by
  induction k generalizing F dst ends len with
  | zero => exact ⟨len, by simp [readRequired, endsFrom]⟩
  | succ k ih =>
    match F, hk with
    | f :: g :: fs, hk =>
      have hf := hF f (by simp)
      obtain ⟨len', h⟩ := ih (g :: fs) (dst ++ f) (ends ++ [(dst ++ f).length]) (len + (f.length + 1))
        (by simp at hk ⊢; omega) (fun x hx => hF x (List.mem_cons_of_mem _ hx))
      refine ⟨len', ?_⟩
      rw [lineText_cons2, readRequired_step k _ dst ends len _ _ _ (readField_tab f _ dst hf), h]
      simp [endsFrom, List.length_append]

/-- `read_other_fields` over the rest of a written line -/
theorem readOthers_lineText (G : List Bytes) (hne : G ≠ []) (rest dst : Bytes) (ends : List Nat) (len : Nat)
    (hG : ∀ f ∈ G, Clean f) (hd : CR ∉ dst) (fuel : Nat) (hfuel : G.length ≤ fuel) :
    ∃ len', readOthers fuel (lineText G rest) dst ends len =
      (dst ++ G.flatten, ends ++ endsFrom dst.length G, len', rest) := by
  induction G generalizing dst ends len fuel with
  | nil => exact absurd rfl hne
  | cons f fs ih =>
    have hf := hG f (by simp)
    cases fuel with
    | zero => simp at hfuel
    | succ fuel =>
      cases fs with
      | nil =>
        refine ⟨len + (f.length + 1), ?_⟩
        rw [lineText_one, readOthers_eol fuel _ dst ends len _ _ _ (readField_lf f rest dst hf hd)]
        simp [endsFrom]
      | cons g gs =>
        have hd' : CR ∉ dst ++ f := by
          intro h; rcases List.mem_append.mp h with h | h
          · exact hd h
          · exact hf.2.2 h
        obtain ⟨len', h⟩ := ih (by simp) (dst ++ f) (ends ++ [(dst ++ f).length]) (len + (f.length + 1))
          (fun x hx => hG x (List.mem_cons_of_mem _ hx)) hd' fuel (by simp at hfuel ⊢; omega)
        refine ⟨len', ?_⟩
        rw [lineText_cons2, readOthers_tab fuel _ dst ends len _ _ _ (readField_tab f _ dst hf), h]
        simp [endsFrom, List.length_append]

end Noodles.Bed

namespace Noodles.Bed
open Noodles Noodles.Gff

/-! ### the whole record line -/

theorem skipComments_noop (fuel : Nat) (s : Bytes) (h : s.head? ≠ some 35) : skipComments fuel s = s := by
  cases fuel with
  | zero => rfl
  | succ f =>
    unfold skipComments
    split
    · rename_i r
      simp at h
    · rfl

theorem endsFrom_append (b : Nat) (xs ys : List Bytes) :
    endsFrom b (xs ++ ys) = endsFrom b xs ++ endsFrom (b + xs.flatten.length) ys := by
  induction xs generalizing b with
  | nil => simp [endsFrom]
  | cons x r ih => simp [endsFrom, ih, Nat.add_assoc]

theorem lineText_length (G : List Bytes) (rest : Bytes) : G.length ≤ (lineText G rest).length := by
  induction G with
  | nil => simp
  | cons f fs ih =>
    cases fs with
    | nil => simp [lineText]; omega
    | cons g gs =>
      rw [lineText_cons2]
      simp only [List.length_append, List.length_cons] at ih ⊢
      omega

theorem readLazy_lineText (n : Nat) (A : List Bytes) (f : Bytes) (T : List Bytes) (rest : Bytes)
    (hn : A.length + 1 = n) (hF : ∀ x ∈ A ++ f :: T, Clean x)
    (hhead : (lineText (A ++ f :: T) rest).head? ≠ some 35) :
    ∃ len, readLazy n (lineText (A ++ f :: T) rest) =
      .ok (⟨n, (A ++ f :: T).flatten, endsFrom 0 (A ++ f :: T)⟩, len, rest) := by
  unfold readLazy
  rw [skipComments_noop _ _ hhead]
  have hk : n - 1 = A.length := by omega
  obtain ⟨len1, h1⟩ := readRequired_lineText A.length (A ++ f :: T) rest [] [] 0 (by simp) hF
  simp only [hk, h1, List.take_left', List.drop_left', List.nil_append, List.length_nil]
  have hf : Clean f := hF f (by simp)
  have hA : CR ∉ A.flatten := flatten_no_cr A (fun x hx => hF x (by simp [hx]))
  cases T with
  | nil =>
    rw [lineText_one, readField_lf f rest _ hf hA]
    refine ⟨len1 + (f.length + 1), ?_⟩
    simp [endsFrom_append, endsFrom]
  | cons g gs =>
    rw [lineText_cons2, readField_tab f _ _ hf]
    simp only [Bool.false_eq_true, if_false]
    have hAf : CR ∉ A.flatten ++ f := by
      intro h; rcases List.mem_append.mp h with h | h
      · exact hA h
      · exact hf.2.2 h
    obtain ⟨len2, h2⟩ := readOthers_lineText (g :: gs) (by simp) rest (A.flatten ++ f)
      (endsFrom 0 A ++ [(A.flatten ++ f).length]) (len1 + (f.length + 1))
      (fun x hx => hF x (by simp at hx ⊢; right; right; exact hx)) hAf
      ((lineText (g :: gs) rest).length + 1) (by have := lineText_length (g :: gs) rest; omega)
    rw [h2]
    refine ⟨len2, ?_⟩
    simp [endsFrom_append, endsFrom, List.length_append]

/-! ### accessors over the flat buffer -/

theorem endsFrom_get (b : Nat) (F : List Bytes) (i : Nat) (h : i < F.length) :
    (endsFrom b F)[i]? = some (b + (F.take (i + 1)).flatten.length) := by
  induction F generalizing b i with
  | nil => simp at h
  | cons f fs ih =>
    cases i with
    | zero => simp [endsFrom]
    | succ i =>
      simp only [endsFrom, List.getElem?_cons_succ]
      rw [ih (b + f.length) i (by simpa using h)]
      simp [Nat.add_assoc]

theorem endsFrom_length (b : Nat) (F : List Bytes) : (endsFrom b F).length = F.length := by
  induction F generalizing b with
  | nil => rfl
  | cons f fs ih => simp [endsFrom, ih]

theorem flatten_drop (F : List Bytes) (i : Nat) :
    F.flatten.drop (F.take i).flatten.length = (F.drop i).flatten := by
  have : F.flatten = (F.take i).flatten ++ (F.drop i).flatten := by
    rw [← List.flatten_append, List.take_append_drop]
  rw [this, List.drop_left]

theorem slice_mid (P x S : Bytes) :
    slice (P ++ (x ++ S)) P.length (P.length + x.length) = .ok x := by
  unfold slice
  have h : P.length ≤ P.length + x.length ∧ P.length + x.length ≤ (P ++ (x ++ S)).length := by
    simp only [List.length_append]; omega
  rw [if_pos h, List.drop_left, Nat.add_sub_cancel_left, List.take_left]

/-- the accessor of field `i` of a cleanly read line is the written field -/
theorem field_flatten (n : Nat) (F : List Bytes) (i : Nat) (h : i < F.length) :
    Lazy.field ⟨n, F.flatten, endsFrom 0 F⟩ i = .ok F[i] := by
  have htake : F.take (i + 1) = F.take i ++ [F[i]] := by
    rw [List.take_add_one]
    simp [List.getElem?_eq_getElem h]
  have hdrop : F.drop i = F[i] :: F.drop (i + 1) := (List.drop_eq_getElem_cons h)
  have hflat : F.flatten = (F.take i).flatten ++ (F[i] ++ (F.drop (i + 1)).flatten) := by
    have : F = F.take i ++ F.drop i := (List.take_append_drop i F).symm
    conv => lhs; rw [this, hdrop]
    rw [List.flatten_append, List.flatten_cons]
  have hend : (F.take (i + 1)).flatten.length = (F.take i).flatten.length + F[i].length := by
    rw [htake, List.flatten_append, List.length_append]
    simp
  have hstart : (if i = 0 then 0 else (endsFrom 0 F)[i - 1]?.getD 0) = (F.take i).flatten.length := by
    cases i with
    | zero => simp
    | succ j =>
      simp only [Nat.succ_ne_zero, if_false, Nat.add_sub_cancel]
      rw [endsFrom_get 0 F j (by omega)]
      simp only [Option.getD_some, Nat.zero_add]
  unfold Lazy.field
  simp only
  rw [endsFrom_get 0 F i h]
  simp only [Nat.zero_add]
  rw [hstart, hend]
  conv => lhs; rw [hflat]
  exact slice_mid _ _ _

theorem mapM_ok {α β : Type} (f : α → Except Err β) (g : α → β) (l : List α)
    (h : ∀ a ∈ l, f a = .ok (g a)) : l.mapM f = .ok (l.map g) := by
  induction l with
  | nil => rfl
  | cons a r ih =>
    rw [List.mapM_cons, h a (by simp), ih (fun x hx => h x (List.mem_cons_of_mem _ hx))]
    rfl

theorem others_flatten (n : Nat) (F : List Bytes) (hn : n ≤ F.length) :
    Lazy.others ⟨n, F.flatten, endsFrom 0 F⟩ = .ok (F.drop n) := by
  unfold Lazy.others
  simp only [endsFrom_length]
  rw [mapM_ok _ (fun i => F[n + i]?.getD []) _ (by
    intro i hi
    have hi' : n + i < F.length := by have := List.mem_range.mp hi; omega
    rw [field_flatten n F (n + i) hi']
    simp [List.getElem?_eq_getElem hi'])]
  congr 1
  apply List.ext_getElem
  · simp
  · intro i h1 h2
    simp at h1 h2 ⊢
    have : n + i < F.length := by omega
    simp [List.getElem?_eq_getElem this]

end Noodles.Bed

namespace Noodles.Bed
open Noodles Noodles.Gff

/-! ### what the writer emits -/

/-- the text of an optional column -/
def ovText : OValue → Bytes
  | .int n => printInt n
  | .uint n => Text.printNat n
  | .char c => [c]
  | .string s => s

theorem printable_clean (s : Bytes) (h : s.all isPrintable = true) : Clean s := by
  rw [List.all_eq_true] at h
  refine ⟨fun hm => ?_, fun hm => ?_, fun hm => ?_⟩ <;>
  · have := h _ hm
    revert this
    decide

theorem digits_clean (s : Bytes) (h : ∀ b ∈ s, isDigit b) : Clean s := by
  refine ⟨fun hm => ?_, fun hm => ?_, fun hm => ?_⟩ <;>
  · have := h _ hm
    unfold isDigit at this
    revert this
    decide

theorem printNat_clean (n : Nat) : Clean (Text.printNat n) := digits_clean _ (printNat_digits n)

theorem printInt_clean (n : Int) : Clean (printInt n) := by
  cases n with
  | ofNat k => exact printNat_clean k
  | negSucc k =>
    have := printNat_clean (k + 1)
    simp only [printInt]
    refine ⟨fun hm => ?_, fun hm => ?_, fun hm => ?_⟩
    · rcases List.mem_cons.mp hm with h | h
      · revert h; decide
      · exact this.1 h
    · rcases List.mem_cons.mp hm with h | h
      · revert h; decide
      · exact this.2.1 h
    · rcases List.mem_cons.mp hm with h | h
      · revert h; decide
      · exact this.2.2 h

theorem writeOValue_ok (v : OValue) (t : Bytes) (h : writeOValue v = .ok t) : t = ovText v ∧ Clean t := by
  cases v with
  | int n => simp [writeOValue] at h; subst h; exact ⟨rfl, printInt_clean n⟩
  | uint n => simp [writeOValue] at h; subst h; exact ⟨rfl, printNat_clean n⟩
  | char c =>
    simp only [writeOValue] at h
    split at h
    · rename_i hc
      simp at h; subst h
      exact ⟨rfl, printable_clean [c] (by simp [hc])⟩
    · simp at h
  | string s =>
    simp only [writeOValue] at h
    split at h
    · rename_i hs
      simp at h; subst h
      exact ⟨rfl, printable_clean s hs⟩
    · simp at h

theorem writeOthers_ok (vs : List OValue) (b : Bytes) (h : writeOthers vs = .ok b) :
    b = (vs.map ovText).flatMap (fun t => TAB :: t) ∧ ∀ t ∈ vs.map ovText, Clean t := by
  induction vs generalizing b with
  | nil => simp [writeOthers] at h; subst h; simp
  | cons v rest ih =>
    simp only [writeOthers] at h
    cases hv : writeOValue v with
    | error e => rw [hv] at h; simp at h
    | ok a =>
      cases hr : writeOthers rest with
      | error e => rw [hv, hr] at h; simp at h
      | ok c =>
        rw [hv, hr] at h
        simp at h
        subst h
        obtain ⟨ha, hc⟩ := writeOValue_ok v a hv
        obtain ⟨hb, hcl⟩ := ih c hr
        subst ha hb
        refine ⟨by simp, ?_⟩
        intro t ht
        rcases List.mem_cons.mp ht with h | h
        · rw [h]; exact hc
        · exact hcl t h

theorem lineText_flatMap (f : Bytes) (cols : List Bytes) (rest : Bytes) :
    f ++ (cols.flatMap (fun t => TAB :: t) ++ LF :: rest) = lineText (f :: cols) rest := by
  induction cols generalizing f with
  | nil => simp [lineText]
  | cons c cs ih =>
    rw [lineText_cons2, ← ih c]
    simp

/-- `read_record_N` over a written line with at least `n` clean fields -/
theorem readLazy_lineText' (n : Nat) (F : List Bytes) (rest : Bytes) (h1 : 1 ≤ n) (hn : n ≤ F.length)
    (hF : ∀ x ∈ F, Clean x) (hhead : (lineText F rest).head? ≠ some 35) :
    ∃ len, readLazy n (lineText F rest) = .ok (⟨n, F.flatten, endsFrom 0 F⟩, len, rest) := by
  have hlt : n - 1 < F.length := by omega
  have hsplit : F = F.take (n - 1) ++ F[n - 1] :: F.drop n := by
    have := List.drop_eq_getElem_cons hlt
    have h2 : n - 1 + 1 = n := by omega
    rw [h2] at this
    rw [← this, List.take_append_drop]
  have := readLazy_lineText n (F.take (n - 1)) F[n - 1] (F.drop n) rest
    (by rw [List.length_take]; omega) (by rw [← hsplit]; exact hF) (by rw [← hsplit]; exact hhead)
  rw [← hsplit] at this
  exact this

end Noodles.Bed

namespace Noodles.Bed
open Noodles Noodles.Gff

/-- a `RecordBuf<N>` the property quantifies over: N = 3..6, `Position`s, a `u16` score, the
fields beyond N at their defaults, and a name that is not the missing marker `.` itself -/
structure Record.WF (r : Record) : Prop where
  n_range : 3 ≤ r.n ∧ r.n ≤ 6
  start_pos : 1 ≤ r.start ∧ r.start ≤ USIZE_MAX
  end_pos : ∀ e, r.end_ = some e → 1 ≤ e ∧ e ≤ USIZE_MAX
  name_not_missing : r.name ≠ some MISSING
  score_u16 : r.score ≤ 65535
  name_default : r.n < 4 → r.name = none
  score_default : r.n < 5 → r.score = 0
  strand_default : r.n < 6 → r.strand = none

/-- the record read back: every optional column is the string it was written as -/
def expected (r : Record) : Record := { r with other := r.other.map (fun v => .string (ovText v)) }

def nameTxt (r : Record) : Bytes := r.name.getD MISSING

def stdCols (r : Record) : List Bytes :=
  [nameTxt r, Text.printNat r.score, writeStrand r.strand].take (r.n - 3)

theorem writeStrand_clean (s : Option Strand) : Clean (writeStrand s) := by
  cases s with
  | none => simp [writeStrand, Clean, MISSING, TAB, LF, CR]
  | some x => cases x <;> simp [writeStrand, Clean, TAB, LF, CR]

theorem validName_clean (s : Bytes) (h : validName s = true) : Clean s := by
  simp only [validName, Bool.and_eq_true] at h
  exact printable_clean s h.2

theorem writeStd_ok (r : Record) (hn : 3 ≤ r.n ∧ r.n ≤ 6) (std : Bytes) (h : writeStd r = .ok std) :
    std = (stdCols r).flatMap (fun t => TAB :: t) ∧ ∀ c ∈ stdCols r, Clean c := by
  have hcases : r.n = 3 ∨ r.n = 4 ∨ r.n = 5 ∨ r.n = 6 := by omega
  have hname : 4 ≤ r.n → Clean (nameTxt r) ∧ nameCol r.name = .ok (TAB :: nameTxt r) := by
    intro h4
    cases hnm : r.name with
    | none => simp [nameTxt, nameCol, hnm, Clean, MISSING, TAB, LF, CR]
    | some s =>
      simp only [writeStd, hnm, nameCol] at h
      have h3 : ¬ r.n ≤ 3 := by omega
      simp only [h3, if_false] at h
      by_cases hv : validName s = true
      · simp [nameTxt, nameCol, hnm, hv, validName_clean s hv]
      · simp [hv] at h
  rcases hcases with h3 | h4 | h5 | h6
  · simp [writeStd, h3] at h
    subst h
    simp [stdCols, h3]
  · obtain ⟨hc, he⟩ := hname (by omega)
    simp only [writeStd] at h
    rw [he] at h
    simp [h4] at h
    subst h
    simp [stdCols, h4, hc]
  · obtain ⟨hc, he⟩ := hname (by omega)
    simp only [writeStd] at h
    rw [he] at h
    simp [h5] at h
    subst h
    simp [stdCols, h5, hc, printNat_clean]
  · obtain ⟨hc, he⟩ := hname (by omega)
    simp only [writeStd] at h
    rw [he] at h
    simp [h6] at h
    subst h
    simp [stdCols, h6, hc, printNat_clean, writeStrand_clean]

theorem seqid_byte (b : UInt8) (h : (isAlnum b || decide (b = 95)) = true) :
    b ≠ TAB ∧ b ≠ LF ∧ b ≠ CR ∧ b ≠ 35 := by
  refine ⟨?_, ?_, ?_, ?_⟩ <;>
  · intro hb
    subst hb
    revert h
    decide

theorem validSeqid_clean (s : Bytes) (h : validSeqid s = true) :
    Clean s ∧ ∃ b r, s = b :: r ∧ b ≠ 35 := by
  simp only [validSeqid, Bool.and_eq_true, decide_eq_true_eq] at h
  obtain ⟨⟨h1, _⟩, hall⟩ := h
  rw [List.all_eq_true] at hall
  have hb : ∀ b ∈ s, b ≠ TAB ∧ b ≠ LF ∧ b ≠ CR ∧ b ≠ 35 := by
    intro b hb
    exact seqid_byte b (hall b hb)
  refine ⟨⟨fun hm => (hb _ hm).1 rfl, fun hm => (hb _ hm).2.1 rfl, fun hm => (hb _ hm).2.2.1 rfl⟩, ?_⟩
  cases s with
  | nil => simp at h1
  | cons b r => exact ⟨b, r, rfl, (hb b (by simp)).2.2.2⟩

end Noodles.Bed

namespace Noodles.Bed
open Noodles Noodles.Gff

theorem printNat_eq_zero (e : Nat) (h : Text.printNat e = [48]) : e = 0 := by
  have h1 := Text.parse_print e
  rw [h] at h1
  have h2 : Text.parseNat [48] = some 0 := by decide
  rw [h2] at h1
  simpa using h1.symm

theorem endTxt_clean (e : Option Nat) : Clean (endTxt e) := by
  cases e with
  | none => simp [endTxt, Clean, TAB, LF, CR]
  | some e => exact printNat_clean e

theorem parseEnd_endTxt (e : Option Nat) (h : ∀ x, e = some x → 1 ≤ x ∧ x ≤ USIZE_MAX) :
    transpose (parseEnd (endTxt e)) = .ok e := by
  cases e with
  | none => simp [endTxt, parseEnd, transpose]
  | some x =>
    obtain ⟨h1, h2⟩ := h x rfl
    have hne : Text.printNat x ≠ [48] := fun hh => by have := printNat_eq_zero x hh; omega
    have hx : x ≠ 0 := by omega
    simp [endTxt, parseEnd, hne, parseUsize_printNat x h2, hx, transpose]

theorem parseStart_print (s : Nat) (h : 1 ≤ s ∧ s ≤ USIZE_MAX) :
    parseStart (Text.printNat (s - 1)) = .ok s := by
  have h1 : s - 1 ≤ USIZE_MAX := by omega
  have h2 : s - 1 + 1 = s := by omega
  simp [parseStart, parseUsize_printNat _ h1, h2, h.2]

theorem parseName_nameTxt (name : Option Bytes) (h : name ≠ some MISSING) :
    parseName (name.getD MISSING) = name := by
  cases name with
  | none => simp [parseName]
  | some s =>
    have : s ≠ MISSING := fun hh => h (by rw [hh])
    simp [parseName, this]

theorem parseScore_print (s : Nat) (h : s ≤ 65535) : parseScore (Text.printNat s) = .ok s := by
  have h1 : s ≤ USIZE_MAX := by unfold USIZE_MAX; omega
  simp [parseScore, parseUsize_printNat _ h1, h]

theorem parseStrand_write (s : Option Strand) : parseStrand (writeStrand s) = .ok s := by
  cases s with
  | none => simp [parseStrand, writeStrand]
  | some x => cases x <;> simp [parseStrand, writeStrand, MISSING]

theorem stdCols_length (r : Record) (h : 3 ≤ r.n ∧ r.n ≤ 6) : (stdCols r).length = r.n - 3 := by
  simp [stdCols]; omega

/-- the text the writer emits, followed by anything, is the field layout `lineText` -/
theorem text_eq_lineText (seqid s e : Bytes) (cols : List Bytes) (rest : Bytes) :
    seqid ++ TAB :: s ++ TAB :: e ++ cols.flatMap (fun t => TAB :: t) ++ [LF] ++ rest
      = lineText (seqid :: s :: e :: cols) rest := by
  rw [lineText_cons2, lineText_cons2, ← lineText_flatMap e cols rest]
  simp

end Noodles.Bed

namespace Noodles.Bed
open Noodles Noodles.Gff

/-- the owned record built from a cleanly read line whose fields are the written columns -/
theorem toOwned_fields (r : Record) (hwf : r.WF) :
    toOwned ⟨r.n, (r.seqid :: Text.printNat (r.start - 1) :: endTxt r.end_ ::
        (stdCols r ++ r.other.map ovText)).flatten,
      endsFrom 0 (r.seqid :: Text.printNat (r.start - 1) :: endTxt r.end_ ::
        (stdCols r ++ r.other.map ovText))⟩ = .ok (expected r) := by
  obtain ⟨n, seqid, start, end_, name, score, strand, other⟩ := r
  have hn := hwf.n_range
  have hstart := parseStart_print start hwf.start_pos
  have hend := parseEnd_endTxt end_ hwf.end_pos
  have hname := parseName_nameTxt name hwf.name_not_missing
  have hscore := parseScore_print score hwf.score_u16
  have hstrand := parseStrand_write strand
  have hnd := hwf.name_default
  have hsd := hwf.score_default
  have htd := hwf.strand_default
  simp only at hn hnd hsd htd hstart hend hname hscore
  have hcases : n = 3 ∨ n = 4 ∨ n = 5 ∨ n = 6 := by omega
  unfold toOwned Lazy.seqid Lazy.start Lazy.end_ Lazy.name Lazy.score Lazy.strand
  rcases hcases with rfl | rfl | rfl | rfl
  · have hF : stdCols ⟨3, seqid, start, end_, name, score, strand, other⟩ = [] := by simp [stdCols]
    rw [hF]
    simp only [List.nil_append]
    rw [field_flatten 3 _ 0 (by simp), field_flatten 3 _ 1 (by simp), field_flatten 3 _ 2 (by simp),
      others_flatten 3 _ (by simp)]
    simp [bind, Except.bind, pure, Except.pure, hstart, hend, expected, hnd, hsd, htd]
  · have hF : stdCols ⟨4, seqid, start, end_, name, score, strand, other⟩ = [name.getD MISSING] := by
      simp [stdCols, nameTxt]
    rw [hF]
    rw [field_flatten 4 _ 0 (by simp), field_flatten 4 _ 1 (by simp), field_flatten 4 _ 2 (by simp),
      field_flatten 4 _ 3 (by simp), others_flatten 4 _ (by simp)]
    simp [bind, Except.bind, pure, Except.pure, Except.map, hstart, hend, hname, expected, hsd, htd]
  · have hF : stdCols ⟨5, seqid, start, end_, name, score, strand, other⟩
        = [name.getD MISSING, Text.printNat score] := by
      simp [stdCols, nameTxt]
    rw [hF]
    rw [field_flatten 5 _ 0 (by simp), field_flatten 5 _ 1 (by simp), field_flatten 5 _ 2 (by simp),
      field_flatten 5 _ 3 (by simp), field_flatten 5 _ 4 (by simp), others_flatten 5 _ (by simp)]
    simp [bind, Except.bind, pure, Except.pure, Except.map, hstart, hend, hname, hscore, expected, htd]
  · have hF : stdCols ⟨6, seqid, start, end_, name, score, strand, other⟩
        = [name.getD MISSING, Text.printNat score, writeStrand strand] := by
      simp [stdCols, nameTxt]
    rw [hF]
    rw [field_flatten 6 _ 0 (by simp), field_flatten 6 _ 1 (by simp), field_flatten 6 _ 2 (by simp),
      field_flatten 6 _ 3 (by simp), field_flatten 6 _ 4 (by simp), field_flatten 6 _ 5 (by simp),
      others_flatten 6 _ (by simp)]
    simp [bind, Except.bind, pure, Except.pure, Except.map, hstart, hend, hname, hscore, hstrand, expected]

theorem readRecord_writeRecord (r : Record) (hwf : r.WF) (text : Bytes) (h : writeRecord r = .ok text)
    (rest : Bytes) : readRecord r.n (text ++ rest) = .ok (expected r) := by
  unfold writeRecord at h
  by_cases hv : validSeqid r.seqid = true
  · simp only [hv, Bool.not_true, Bool.false_eq_true, if_false] at h
    cases hstd : writeStd r with
    | error e => rw [hstd] at h; cases writeOthers r.other <;> simp at h
    | ok std =>
      cases hoth : writeOthers r.other with
      | error e => rw [hstd, hoth] at h; simp at h
      | ok oth =>
        rw [hstd, hoth] at h
        simp only [Except.ok.injEq] at h
        subst h
        obtain ⟨hs1, hs2⟩ := writeStd_ok r hwf.n_range std hstd
        obtain ⟨ho1, ho2⟩ := writeOthers_ok r.other oth hoth
        obtain ⟨hsc, b, tl, hsq, hb35⟩ := validSeqid_clean r.seqid hv
        have htext : r.seqid ++ TAB :: Text.printNat (r.start - 1) ++ TAB ::
              endTxt r.end_ ++ std ++ oth ++ [LF] ++ rest
            = lineText (r.seqid :: Text.printNat (r.start - 1) :: endTxt r.end_ ::
                (stdCols r ++ r.other.map ovText)) rest := by
          rw [← text_eq_lineText, List.flatMap_append, ← hs1, ← ho1]
          simp
        rw [htext]
        have hlen := stdCols_length r hwf.n_range
        obtain ⟨len, hl⟩ := readLazy_lineText' r.n
          (r.seqid :: Text.printNat (r.start - 1) :: endTxt r.end_ :: (stdCols r ++ r.other.map ovText)) rest
          (by have := hwf.n_range; omega)
          (by have := hwf.n_range; simp only [List.length_cons, List.length_append, hlen]; omega)
          (by
            intro x hx
            simp only [List.mem_cons, List.mem_append] at hx
            rcases hx with rfl | rfl | rfl | hx | hx
            · exact hsc
            · exact printNat_clean _
            · exact endTxt_clean _
            · exact hs2 x hx
            · exact ho2 x hx)
          (by rw [lineText_cons2, hsq]; simpa using hb35)
        unfold readRecord
        rw [hl]
        exact toOwned_fields r hwf
  · simp [hv] at h

end Noodles.Bed
