import Noodles.Gff.Kit
/-! Helper lemmas for the shared kit of the GFF3 / GTF / BED models (C18). -/
namespace Noodles.Gff
open Noodles

/-! ### splitOnce -/

theorem splitOnce_append (d : UInt8) (f : Bytes) (hf : d ∉ f) (rest : Bytes) :
    splitOnce d (f ++ d :: rest) = some (f, rest) := by
  induction f with
  | nil => simp [splitOnce]
  | cons b r ih =>
    have hb : b ≠ d := fun h => hf (by simp [h])
    have hr : d ∉ r := fun h => hf (List.mem_cons_of_mem _ h)
    simp [splitOnce, hb, ih hr]

theorem splitOnce_none (d : UInt8) (f : Bytes) (hf : d ∉ f) : splitOnce d f = none := by
  induction f with
  | nil => simp [splitOnce]
  | cons b r ih =>
    have hb : b ≠ d := fun h => hf (by simp [h])
    have hr : d ∉ r := fun h => hf (List.mem_cons_of_mem _ h)
    simp [splitOnce, hb, ih hr]

/-- what `splitOnce` returns re-assembles to the input, and the head is delimiter-free -/
theorem splitOnce_some (d : UInt8) (s f rest : Bytes) (h : splitOnce d s = some (f, rest)) :
    s = f ++ d :: rest ∧ d ∉ f := by
  induction s generalizing f with
  | nil => simp [splitOnce] at h
  | cons b r ih =>
    unfold splitOnce at h
    split at h
    · rename_i hb
      simp at h
      obtain ⟨rfl, rfl⟩ := h
      simp [hb]
    · rename_i hb
      split at h
      · rename_i f' rest' heq
        simp at h
        obtain ⟨rfl, rfl⟩ := h
        obtain ⟨h1, h2⟩ := ih f' heq
        refine ⟨by simp [h1], ?_⟩
        intro hm
        rcases List.mem_cons.mp hm with h | h
        · exact hb h.symm
        · exact h2 h
      · simp at h

/-! ### hex digits are alphanumeric, so no reserved delimiter ever appears in encoded text -/

theorem hexDigit_alnum : ∀ n, n < 16 → isAlnum (Pct.hexDigit n) = true := by decide

theorem hexDigit_ne (d : UInt8) (hd : isAlnum d = false) : ∀ n, n < 16 → Pct.hexDigit n ≠ d := by
  intro n hn h
  have := hexDigit_alnum n hn
  rw [h, hd] at this
  exact absurd this (by decide)

/-- an escaped, non-alphanumeric byte other than `%` never occurs in the encoded text -/
theorem encode_free' (esc : UInt8 → Bool) (s : Bytes) (d : UInt8) (hd : esc d = true)
    (hal : isAlnum d = false) (h37 : d ≠ 37) : d ∉ Pct.encode esc s :=
  Pct.encode_free esc s d hd h37 (hexDigit_ne d hal)

/-! ### decimal integers -/

def isDigit (b : UInt8) : Prop := 48 ≤ b.toNat ∧ b.toNat ≤ 57

theorem digit_isDigit (n : Nat) : isDigit (Text.digit n) := by
  unfold isDigit; rw [Text.digit_toNat]; omega

theorem printNatAux_digits (fuel n : Nat) (acc : Bytes) (hacc : ∀ b ∈ acc, isDigit b) :
    ∀ b ∈ Text.printNatAux fuel n acc, isDigit b := by
  induction fuel generalizing n acc with
  | zero => simpa [Text.printNatAux] using hacc
  | succ fuel ih =>
    unfold Text.printNatAux
    split
    · intro b hb
      rcases List.mem_cons.mp hb with h | h
      · rw [h]; exact digit_isDigit n
      · exact hacc b h
    · apply ih
      intro b hb
      rcases List.mem_cons.mp hb with h | h
      · rw [h]; exact digit_isDigit n
      · exact hacc b h

theorem printNat_digits (n : Nat) : ∀ b ∈ Text.printNat n, isDigit b :=
  printNatAux_digits _ _ [] (by simp)

theorem printNat_ne_nil (n : Nat) : Text.printNat n ≠ [] :=
  Text.printNatAux_ne_nil _ _ (by omega) _

theorem printNat_not_mem (n : Nat) (d : UInt8) (hd : ¬ isDigit d) : d ∉ Text.printNat n :=
  fun h => hd (printNat_digits n d h)

/-- `parse::<usize>` of the printed number -/
theorem stripPlus_digit (b : UInt8) (r : Bytes) (hb : isDigit b) : stripPlus (b :: r) = b :: r := by
  unfold stripPlus
  split
  · rename_i r' heq
    simp at heq
    rw [heq.1] at hb
    unfold isDigit at hb; simp at hb
  · rfl

/-- `parse::<usize>` of the printed number -/
theorem parseUsize_printNat (n : Nat) (hn : n ≤ USIZE_MAX) : parseUsize (Text.printNat n) = some n := by
  unfold parseUsize
  have hne := printNat_ne_nil n
  have hd := printNat_digits n
  have hs : stripPlus (Text.printNat n) = Text.printNat n := by
    match hp : Text.printNat n with
    | [] => exact absurd hp hne
    | b :: r => exact stripPlus_digit b r (hd b (by rw [hp]; simp))
  rw [hs, Text.parse_print]
  simp [hn]

theorem parsePosition_printNat (n : Nat) (h1 : 1 ≤ n) (hn : n ≤ USIZE_MAX) :
    parsePosition (Text.printNat n) = .ok n := by
  unfold parsePosition
  rw [parseUsize_printNat n hn]
  have : n ≠ 0 := by omega
  simp [this]

/-! ### the column index -/

theorem takeFields_joinCols (cols : List Bytes) (hfree : ∀ f ∈ cols, TAB ∉ f) (last : Bytes) :
    takeFields cols.length (joinCols cols last) = some (cols, last) := by
  induction cols with
  | nil => simp [takeFields, joinCols]
  | cons f fs ih =>
    have hf : TAB ∉ f := hfree f (by simp)
    have ih' := ih (fun g hg => hfree g (List.mem_cons_of_mem _ hg))
    unfold joinCols at ih' ⊢
    simp only [List.foldr_cons, List.length_cons, takeFields]
    rw [splitOnce_append TAB f hf]
    simp [ih']

/-- `Bounds::index` on the writers' column layout recovers the nine columns -/
theorem bounds_joinCols (a b c d e f g h last : Bytes)
    (hfree : ∀ x ∈ [a, b, c, d, e, f, g, h], TAB ∉ x) :
    bounds (joinCols [a, b, c, d, e, f, g, h] last) = .ok ⟨a, b, c, d, e, f, g, h, last⟩ := by
  unfold bounds
  have := takeFields_joinCols [a, b, c, d, e, f, g, h] hfree last
  simp only [List.length] at this
  rw [this]

/-! ### the float parameter -/

theorem parseScore_writeScore {F : Type} (ff : FloatFmt F) (hff : ff.Lawful) (s : Option F) :
    transpose (parseScore ff (writeScore ff s)) = .ok s := by
  cases s with
  | none => simp [writeScore, parseScore, transpose]
  | some x =>
    have h1 : ff.fmt x ≠ MISSING := hff.fmt_ne_missing x
    simp [writeScore, parseScore, h1, hff.parse_fmt x, transpose]

theorem writeScore_tabfree {F : Type} (ff : FloatFmt F) (hff : ff.Lawful) (s : Option F) :
    TAB ∉ writeScore ff s ∧ LF ∉ writeScore ff s ∧ CR ∉ writeScore ff s := by
  cases s with
  | none => simp [writeScore, MISSING, TAB, LF, CR]
  | some x =>
    simp only [writeScore]
    refine ⟨fun h => ?_, fun h => ?_, fun h => ?_⟩
    · exact (hff.fmt_clean x _ h).1 rfl
    · exact (hff.fmt_clean x _ h).2.1 rfl
    · exact (hff.fmt_clean x _ h).2.2 rfl

end Noodles.Gff
