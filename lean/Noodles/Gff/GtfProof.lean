import Noodles.Gff.Gtf
import Noodles.Gff.ModelProof
/-! Helper lemmas for the GTF model (C18): escaping, the attribute column, collection by key. -/
namespace Noodles.Gtf
open Noodles Noodles.Gff

/-! ### escaping -/

theorem escape_id (v : Bytes) (h : requiresEscapes v = false) : escape v = v := by
  induction v with
  | nil => rfl
  | cons c r ih =>
    simp only [requiresEscapes, List.any_cons, Bool.or_eq_false_iff] at h
    have hc : ¬ (c = BACKSLASH ∨ c = QUOTE) := by
      intro hc; rcases hc with hc | hc <;> simp [hc] at h
    unfold escape
    rw [if_neg hc, ih (by simpa [requiresEscapes] using h.2)]

/-- the writer's two branches agree -/
theorem writeValue_eq (v : Bytes) : writeValue v = QUOTE :: escape v ++ [QUOTE] := by
  unfold writeValue
  split
  · rfl
  · rename_i h
    rw [escape_id v (by simpa using h)]

/-- (fix) the closing quote found by `parse_string` is the one the writer appended -/
theorem parseString_escape (v rest : Bytes) :
    parseString (escape v ++ QUOTE :: rest) = some (escape v, rest) := by
  unfold parseString
  induction v with
  | nil => simp [escape, parseStringAux, QUOTE, BACKSLASH]
  | cons c r ih =>
    unfold escape
    split
    · rename_i hc
      simp only [List.cons_append]
      rw [parseStringAux]
      simp only [if_true]
      rw [parseStringAux, ih]
    · rename_i hc
      have h1 : c ≠ BACKSLASH := fun h => hc (Or.inl h)
      have h2 : c ≠ QUOTE := fun h => hc (Or.inr h)
      simp only [List.cons_append]
      rw [parseStringAux]
      simp only [if_neg h1, if_neg h2]
      rw [ih]

theorem unescape_escape (v : Bytes) : unescapeAux false (escape v) = .ok v := by
  induction v with
  | nil => simp [escape, unescapeAux]
  | cons c r ih =>
    unfold escape
    split
    · rename_i hc
      rw [unescapeAux]
      simp only [if_true]
      rw [unescapeAux]
      simp only [if_pos hc, ih]
    · rename_i hc
      have h1 : c ≠ BACKSLASH := fun h => hc (Or.inl h)
      rw [unescapeAux]
      simp only [if_neg h1, ih]

theorem escape_no_backslash (v : Bytes) (h : BACKSLASH ∉ escape v) : escape v = v := by
  induction v with
  | nil => rfl
  | cons c r ih =>
    unfold escape at h ⊢
    split
    · rename_i hc
      rw [if_pos hc] at h
      exact absurd (by simp) h
    · rename_i hc
      rw [if_neg hc] at h
      rw [ih (fun hm => h (List.mem_cons_of_mem _ hm))]

theorem escapeDecode_escape (v : Bytes) : escapeDecode (escape v) = .ok v := by
  unfold escapeDecode
  split
  · exact unescape_escape v
  · rename_i h
    rw [escape_no_backslash v (by simpa using h)]

/-! ### one `key "value";` -/

/-- the text of one key/value pair -/
def pairText (kv : Bytes × Bytes) : Bytes := kv.1 ++ 32 :: writeValue kv.2 ++ [59]

def WsFree (k : Bytes) : Prop := ∀ b ∈ k, isAsciiWs b = false

theorem wsfree_no_space (k : Bytes) (h : WsFree k) : (32 : UInt8) ∉ k := by
  intro hm; have := h 32 hm; simp [isAsciiWs] at this

theorem trimStart_wsfree (k tail : Bytes) (hk : WsFree k) (hne : k ≠ []) :
    trimStart (k ++ tail) = k ++ tail := by
  cases k with
  | nil => exact absurd rfl hne
  | cons b r =>
    have := hk b (by simp)
    simp [trimStart, List.dropWhile, this]

theorem trimStart_space (s : Bytes) : trimStart (32 :: s) = trimStart s := by
  simp [trimStart, List.dropWhile, isAsciiWs]

theorem consumeTerminator_semicolon (s : Bytes) : consumeTerminator (59 :: s) = trimStart s := by
  simp [consumeTerminator, trimStart, List.dropWhile, isAsciiWs]

theorem parseField_pair (kv : Bytes × Bytes) (hk : WsFree kv.1) (tail : Bytes) :
    parseField (kv.1 ++ 32 :: writeValue kv.2 ++ 59 :: tail) =
      .ok ((kv.1, escape kv.2), trimStart tail) := by
  unfold parseField
  have h : kv.1 ++ 32 :: writeValue kv.2 ++ 59 :: tail
      = kv.1 ++ 32 :: (34 :: (escape kv.2 ++ QUOTE :: 59 :: tail)) := by
    rw [writeValue_eq]; simp [QUOTE]
  rw [h, splitOnce_append 32 _ (wsfree_no_space _ hk)]
  simp only
  rw [parseString_escape]
  simp only [consumeTerminator_semicolon]

/-! ### the attribute column as a list of pairs -/

theorem join_pairs_ne_nil (p : Bytes × Bytes) (ps : List (Bytes × Bytes)) :
    Text.join 32 ((p :: ps).map pairText) ≠ [] := by
  cases ps with
  | nil => simp [Text.join, pairText]
  | cons q qs => simp [Text.join, pairText]

theorem join_pairs_head (p : Bytes × Bytes) (ps : List (Bytes × Bytes)) (hk : WsFree p.1) (hne : p.1 ≠ []) :
    trimStart (Text.join 32 ((p :: ps).map pairText)) = Text.join 32 ((p :: ps).map pairText) := by
  cases ps with
  | nil =>
    simp only [List.map, Text.join, pairText, List.append_assoc]
    exact trimStart_wsfree _ _ hk hne
  | cons q qs =>
    simp only [List.map, join_cons_cons, pairText, List.append_assoc]
    exact trimStart_wsfree _ _ hk hne

theorem attrPairs_join (ps : List (Bytes × Bytes)) (hk : ∀ p ∈ ps, WsFree p.1 ∧ p.1 ≠ []) (fuel : Nat)
    (hfuel : (Text.join 32 (ps.map pairText)).length < fuel) :
    attrPairs fuel (Text.join 32 (ps.map pairText)) = .ok ps := by
  induction ps generalizing fuel with
  | nil =>
    cases fuel with
    | zero => rfl
    | succ f => simp [Text.join, attrPairs]
  | cons p rest ih =>
    cases fuel with
    | zero => omega
    | succ fuel =>
      unfold attrPairs
      have hne : (Text.join 32 ((p :: rest).map pairText)).isEmpty = false := by
        simpa using join_pairs_ne_nil p rest
      rw [hne]
      simp only [Bool.false_eq_true, if_false]
      cases rest with
      | nil =>
        have ht : Text.join 32 ([p].map pairText) = p.1 ++ 32 :: writeValue p.2 ++ 59 :: [] := by
          simp [Text.join, pairText]
        rw [ht, parseField_pair p (hk p (by simp)).1 []]
        simp only [escapeDecode_escape]
        cases fuel with
        | zero => simp [trimStart, attrPairs]
        | succ f => simp [trimStart, attrPairs]
      | cons q qs =>
        have ht : Text.join 32 ((p :: q :: qs).map pairText)
            = p.1 ++ 32 :: writeValue p.2 ++ 59 :: (32 :: Text.join 32 ((q :: qs).map pairText)) := by
          simp [List.map, join_cons_cons, pairText]
        rw [ht] at hfuel ⊢
        rw [parseField_pair p (hk p (by simp)).1]
        simp only [escapeDecode_escape]
        have hq := hk q (by simp)
        rw [trimStart_space, join_pairs_head q qs hq.1 hq.2]
        rw [ih (fun x hx => hk x (List.mem_cons_of_mem _ hx)) fuel (by
          simp only [List.length_append, List.length_cons] at hfuel
          omega)]

/-! ### grouping by key -/

/-- the (key, value) pairs a canonical attribute list is written as -/
def flatPairs (as : Attrs) : List (Bytes × Bytes) :=
  as.flatMap (fun kv => kv.2.values.map (fun v => (kv.1, v)))

theorem insertPair_fresh (m : Attrs) (kv : Bytes × Bytes) (h : ∀ e ∈ m, e.1 ≠ kv.1) :
    insertPair m kv = m ++ [(kv.1, .string kv.2)] := by
  unfold insertPair
  have : m.any (fun e => e.1 == kv.1) = false := by
    rw [List.any_eq_false]; intro e he; simpa using h e he
  rw [this]; simp

theorem insertPair_last (m : Attrs) (k : Bytes) (v : Value) (x : Bytes) (h : ∀ e ∈ m, e.1 ≠ k) :
    insertPair (m ++ [(k, v)]) (k, x) = m ++ [(k, pushValue v x)] := by
  unfold insertPair
  have : (m ++ [(k, v)]).any (fun e => e.1 == k) = true := by simp
  simp only [this, if_true, List.map_append, List.map_cons, List.map_nil]
  congr 1
  · rw [List.map_congr_left (g := id)]
    · simp
    · intro e he
      have := h e he
      simp [this]
  · simp

theorem foldl_push (m : Attrs) (k : Bytes) (v : Value) (xs : List Bytes) (h : ∀ e ∈ m, e.1 ≠ k) :
    (xs.map (fun x => (k, x))).foldl insertPair (m ++ [(k, v)]) =
      m ++ [(k, xs.foldl pushValue v)] := by
  induction xs generalizing v with
  | nil => rfl
  | cons x rest ih =>
    simp only [List.map, List.foldl_cons]
    rw [insertPair_last m k v x h, ih]

theorem foldl_pushValue_array (a : List Bytes) (xs : List Bytes) :
    xs.foldl pushValue (.array a) = .array (a ++ xs) := by
  induction xs generalizing a with
  | nil => simp
  | cons x rest ih => simp [List.foldl_cons, pushValue, ih]

/-- one canonical value, pushed element by element, is rebuilt -/
theorem group_value (m : Attrs) (k : Bytes) (v : Value) (hv : v.Canonical) (h : ∀ e ∈ m, e.1 ≠ k) :
    (v.values.map (fun x => (k, x))).foldl insertPair m = m ++ [(k, v)] := by
  cases v with
  | string s =>
    simp only [Value.values, List.map, List.foldl_cons, List.foldl_nil]
    exact insertPair_fresh m (k, s) h
  | array vs =>
    simp only [Value.Canonical] at hv
    match vs, hv with
    | a :: b :: rest, _ =>
      simp only [Value.values, List.map, List.foldl_cons]
      rw [insertPair_fresh m (k, a) h]
      simp only
      rw [insertPair_last m k (.string a) b h]
      rw [foldl_push m k _ rest h]
      simp [pushValue, foldl_pushValue_array]

theorem foldl_insertPair (acc as : Attrs) (hnd : ((acc ++ as).map (·.1)).Nodup)
    (hcan : ∀ tv ∈ as, tv.2.Canonical) :
    (flatPairs as).foldl insertPair acc = acc ++ as := by
  induction as generalizing acc with
  | nil => simp [flatPairs]
  | cons a rest ih =>
    have hfresh : ∀ e ∈ acc, e.1 ≠ a.1 := by
      intro e he heq
      rw [List.map_append, List.nodup_append] at hnd
      exact hnd.2.2 e.1 (List.mem_map.mpr ⟨e, he, rfl⟩) a.1 (by simp) heq
    have : flatPairs (a :: rest) = a.2.values.map (fun x => (a.1, x)) ++ flatPairs rest := by
      simp [flatPairs]
    rw [this, List.foldl_append, group_value acc a.1 a.2 (hcan a (by simp)) hfresh]
    rw [ih (acc ++ [(a.1, a.2)]) (by simpa using hnd) (fun tv h => hcan tv (List.mem_cons_of_mem _ h))]
    simp

end Noodles.Gtf

namespace Noodles.Gtf
open Noodles Noodles.Gff

/-! ### the attribute column -/

theorem join_append (d : UInt8) (xs ys : List Bytes) (hx : xs ≠ []) (hy : ys ≠ []) :
    Text.join d (xs ++ ys) = Text.join d xs ++ d :: Text.join d ys := by
  induction xs with
  | nil => exact absurd rfl hx
  | cons x rest ih =>
    cases rest with
    | nil =>
      cases ys with
      | nil => exact absurd rfl hy
      | cons y ys' => simp [Text.join]
    | cons x' rest' =>
      have := ih (by simp)
      simp only [List.cons_append] at this ⊢
      rw [join_cons_cons, this, join_cons_cons]
      simp

theorem join_join (d : UInt8) (xss : List (List Bytes)) (hne : ∀ xs ∈ xss, xs ≠ []) :
    Text.join d (xss.map (Text.join d)) = Text.join d xss.flatten := by
  induction xss with
  | nil => rfl
  | cons xs rest ih =>
    have ih' := ih (fun x hx => hne x (List.mem_cons_of_mem _ hx))
    cases rest with
    | nil => simp [Text.join]
    | cons ys rest' =>
      have hflat : (ys :: rest').flatten ≠ [] := by
        have := hne ys (by simp)
        cases ys with
        | nil => exact absurd rfl this
        | cons y ys' => simp
      simp only [List.map, List.flatten_cons] at ih' ⊢
      rw [join_cons_cons, ih']
      have hflat' : ys ++ rest'.flatten ≠ [] := by simpa using hflat
      rw [join_append d xs _ (hne xs (by simp)) hflat']

theorem values_ne_nil (v : Value) (hv : v.Canonical) : v.values ≠ [] := by
  cases v with
  | string s => simp [Value.values]
  | array vs =>
    simp only [Value.Canonical] at hv
    cases vs with
    | nil => simp at hv
    | cons a r => simp [Value.values]

theorem writeAttrs_flat (as : Attrs) (hcan : ∀ tv ∈ as, tv.2.Canonical) :
    writeAttrs as = Text.join 32 ((flatPairs as).map pairText) := by
  unfold writeAttrs
  have h1 : as.map writeField
      = (as.map (fun kv => kv.2.values.map (fun v => pairText (kv.1, v)))).map (Text.join 32) := by
    rw [List.map_map]
    apply List.map_congr_left
    intro kv _
    simp [writeField, pairText, Function.comp]
  have h2 : (flatPairs as).map pairText
      = (as.map (fun kv => kv.2.values.map (fun v => pairText (kv.1, v)))).flatten := by
    unfold flatPairs
    rw [List.flatMap_def, List.map_flatten, List.map_map]
    congr 1
    apply List.map_congr_left
    intro kv _
    simp [Function.comp]
  rw [h1, h2]
  apply join_join
  intro xs hxs
  obtain ⟨kv, hkv, rfl⟩ := List.mem_map.mp hxs
  have := values_ne_nil kv.2 (hcan kv hkv)
  simpa using this

theorem parseAttrs_writeAttrs (as : Attrs) (hcan : ∀ tv ∈ as, tv.2.Canonical)
    (hnd : (as.map (·.1)).Nodup) (hk : ∀ tv ∈ as, WsFree tv.1 ∧ tv.1 ≠ []) :
    parseAttrs (writeAttrs as) = .ok as := by
  unfold parseAttrs
  rw [writeAttrs_flat as hcan]
  have hkp : ∀ p ∈ flatPairs as, WsFree p.1 ∧ p.1 ≠ [] := by
    intro p hp
    unfold flatPairs at hp
    obtain ⟨kv, hkv, hp⟩ := List.mem_flatMap.mp hp
    obtain ⟨v, _, rfl⟩ := List.mem_map.mp hp
    exact hk kv hkv
  rw [attrPairs_join (flatPairs as) hkp _ (by omega)]
  simp only
  rw [foldl_insertPair [] as (by simpa using hnd) hcan]
  simp

/-! ### the record -/

theorem writeStrand_ok (s : Strand) (st : Bytes) (h : writeStrand s = .ok st) :
    parseStrand st = .ok s ∧ TAB ∉ st := by
  cases s <;> simp [writeStrand] at h <;> subst h <;> simp [parseStrand, MISSING, TAB]

theorem parsePhase_writePhase (p : Option Phase) :
    transpose (parsePhase (writePhase p)) = .ok p ∧ TAB ∉ writePhase p := by
  cases p with
  | none => simp [writePhase, parsePhase, transpose, MISSING, TAB]
  | some q => cases q <;> simp [writePhase, parsePhase, transpose, TAB]

theorem readRecord_writeRecord {F : Type} (ff : FloatFmt F) (hff : ff.Lawful) (r : Record F)
    (hwf : r.WF) (hcols : TAB ∉ r.seqid ∧ TAB ∉ r.source ∧ TAB ∉ r.ty)
    (hk : ∀ tv ∈ r.attrs, WsFree tv.1 ∧ tv.1 ≠ [])
    (line : Bytes) (h : writeRecord ff r = .ok line) : readRecord ff line = .ok r := by
  unfold writeRecord at h
  cases hst : writeStrand r.strand with
  | error e => rw [hst] at h; simp at h
  | ok st =>
    rw [hst] at h
    simp only [Except.ok.injEq] at h
    subst h
    obtain ⟨hs1, hs2⟩ := writeStrand_ok _ _ hst
    obtain ⟨hp1, hp2⟩ := parsePhase_writePhase r.phase
    have hb := bounds_joinCols r.seqid r.source r.ty (Text.printNat r.start) (Text.printNat r.end_)
      (writeScore ff r.score) st (writePhase r.phase) (writeAttrs r.attrs) (by
        intro x hx
        simp only [List.mem_cons, List.mem_nil_iff, or_false] at hx
        rcases hx with rfl | rfl | rfl | rfl | rfl | rfl | rfl | rfl
        · exact hcols.1
        · exact hcols.2.1
        · exact hcols.2.2
        · exact printNat_not_mem _ _ tab_not_digit
        · exact printNat_not_mem _ _ tab_not_digit
        · exact (writeScore_tabfree ff hff _).1
        · exact hs2
        · exact hp2)
    unfold readRecord tryNew
    rw [hb]
    have h1 := parsePosition_printNat _ hwf.start_pos.1 hwf.start_pos.2
    have h2 := parsePosition_printNat _ hwf.end_pos.1 hwf.end_pos.2
    have h3 := parseScore_writeScore ff hff r.score
    have h5 := parseAttrs_writeAttrs r.attrs hwf.canonical hwf.tags_nodup hk
    simp only [bind, Except.bind, pure, Except.pure, h1, h2, h3, hs1, hp1, h5,
      collectAttrs_nodup _ hwf.tags_nodup]

end Noodles.Gtf

/-! ## no panic: the only `.panic` of the GTF reader model is the `unwrap` in `readRecord` -/

namespace Noodles.Gtf
open Noodles.Gff

theorem parsePosition_ne_panic (b : Bytes) : parsePosition b ≠ .error .panic := by
  unfold parsePosition
  split
  · split <;> simp
  · simp

theorem parseScore_ne_panic {F : Type} (ff : FloatFmt F) (b : Bytes) :
    transpose (parseScore ff b) ≠ .error .panic := by
  unfold parseScore
  split
  · simp [transpose]
  · split <;> simp [transpose]

theorem parsePhase_ne_panic (b : Bytes) : transpose (parsePhase b) ≠ .error .panic := by
  unfold parsePhase
  repeat' split
  all_goals simp [transpose]

theorem bounds_ne_panic (line : Bytes) : bounds line ≠ .error .panic := by
  unfold bounds
  split <;> simp

theorem unescapeAux_ne_panic (e : Bool) (s : Bytes) : unescapeAux e s ≠ .error .panic := by
  fun_induction unescapeAux e s <;> simp_all

theorem escapeDecode_ne_panic (s : Bytes) : escapeDecode s ≠ .error .panic := by
  unfold escapeDecode
  split
  · exact unescapeAux_ne_panic _ _
  · simp

theorem parseField_ne_panic (s : Bytes) : parseField s ≠ .error .panic := by
  unfold parseField
  repeat' split
  all_goals simp

theorem attrPairs_ne_panic (fuel : Nat) (s : Bytes) : attrPairs fuel s ≠ .error .panic := by
  fun_induction attrPairs fuel s <;> simp_all [parseField_ne_panic, escapeDecode_ne_panic]
  all_goals (intro h; subst h; first | exact absurd ‹_› (parseField_ne_panic _) | exact absurd ‹_› (escapeDecode_ne_panic _))

theorem parseAttrs_ne_panic (s : Bytes) : parseAttrs s ≠ .error .panic := by
  unfold parseAttrs
  split
  · simp
  · rename_i e h
    intro h'
    injection h' with h'
    subst h'
    exact attrPairs_ne_panic _ _ h

end Noodles.Gtf
