import Noodles.Gff.GtfProof
/-! Helper lemmas for C18: line framing, directives, typed directive values. -/
namespace Noodles.Gff
open Noodles
open Noodles.Gtf (WsFree)

/-! ### line framing -/

theorem splitOn_writeLines (ls : List Bytes) (h : ∀ l ∈ ls, LF ∉ l) :
    Text.splitOn LF (writeLines ls) = ls ++ [[]] := by
  induction ls with
  | nil => simp [writeLines, Text.splitOn]
  | cons l rest ih =>
    have hl := h l (by simp)
    have : writeLines (l :: rest) = l ++ LF :: writeLines rest := by
      simp [writeLines]
    rw [this, Text.splitOn_append_delim LF l hl, ih (fun x hx => h x (List.mem_cons_of_mem _ hx))]
    simp

theorem stripCR_id (l : Bytes) (h : l.getLast? ≠ some CR) : stripCR l = l := by
  simp [stripCR, h]

/-- reading what was written line by line gives the lines back -/
theorem fileLines_writeLines (ls : List Bytes) (h : ∀ l ∈ ls, LF ∉ l ∧ l.getLast? ≠ some CR) :
    fileLines (writeLines ls) = ls := by
  unfold fileLines
  rw [splitOn_writeLines ls (fun l hl => (h l hl).1)]
  simp only [List.dropLast_concat, List.getLast?_concat, List.append_nil]
  rw [List.map_congr_left (g := id)]
  · simp
  · intro l hl
    exact stripCR_id l (h l hl).2

theorem getLast_of_not_mem (l : Bytes) (h : CR ∉ l) : l.getLast? ≠ some CR :=
  fun hl => h (List.mem_of_getLast? hl)

/-! ### directives -/

theorem takeWhile_wsfree (k : Bytes) (hk : WsFree k) (tail : Bytes)
    (ht : tail = [] ∨ ∃ b r, tail = b :: r ∧ isAsciiWs b = true) :
    (k ++ tail).takeWhile (fun b => !isAsciiWs b) = k := by
  induction k with
  | nil =>
    rcases ht with rfl | ⟨b, r, rfl, hb⟩
    · rfl
    · simp [List.takeWhile_cons, hb]
  | cons c r ih =>
    have hc := hk c (by simp)
    simp only [List.cons_append, List.takeWhile_cons, hc, Bool.not_false, if_true]
    rw [ih (fun x hx => hk x (List.mem_cons_of_mem _ hx))]

theorem parseDirective_key_only (k : Bytes) (hk : WsFree k) : parseDirective k = (k, none) := by
  unfold parseDirective
  have := takeWhile_wsfree k hk [] (Or.inl rfl)
  simp only [List.append_nil] at this
  simp [this]

theorem parseDirective_key_value (k v : Bytes) (hk : WsFree k) :
    parseDirective (k ++ 32 :: v) = (k, some v) := by
  unfold parseDirective
  have := takeWhile_wsfree k hk (32 :: v) (Or.inr ⟨32, v, rfl, by decide⟩)
  simp [this]

/-- what the reader makes of a written directive: same key; the value as the string it was
rendered to -/
theorem readDirective_writeDirective (d : Directive) (hk : WsFree d.key) (line : Bytes)
    (h : writeDirective d = .ok line) :
    lineKind line = .directive ∧
    readDirective line = ⟨d.key, d.value.map (fun v => .string (writeDValue v))⟩ := by
  unfold writeDirective at h
  cases hv : d.value with
  | none =>
    rw [hv] at h
    simp only [Except.ok.injEq] at h
    subst h
    refine ⟨rfl, ?_⟩
    simp [readDirective, parseDirective_key_only d.key hk]
  | some v =>
    rw [hv] at h
    simp only at h
    by_cases hok : keyOk d.key v = true
    · rw [if_pos hok] at h
      simp only [Except.ok.injEq] at h
      subst h
      refine ⟨rfl, ?_⟩
      have : (35 :: 35 :: d.key ++ 32 :: writeDValue v).drop 2 = d.key ++ 32 :: writeDValue v := by
        simp
      simp [readDirective, this, parseDirective_key_value d.key _ hk]
    · rw [if_neg hok] at h
      simp at h

/-! ### typed directive values -/

theorem splitWhere_free (p : UInt8 → Bool) (f : Bytes) (hf : ∀ b ∈ f, p b = false) :
    splitWhere p f = [f] := by
  induction f with
  | nil => rfl
  | cons b r ih =>
    have hb := hf b (by simp)
    simp [splitWhere, hb, ih (fun x hx => hf x (List.mem_cons_of_mem _ hx))]

theorem splitWhere_append (p : UInt8 → Bool) (f : Bytes) (hf : ∀ b ∈ f, p b = false) (d : UInt8)
    (hd : p d = true) (rest : Bytes) : splitWhere p (f ++ d :: rest) = f :: splitWhere p rest := by
  induction f with
  | nil => simp [splitWhere, hd]
  | cons b r ih =>
    have hb := hf b (by simp)
    simp [splitWhere, hb, ih (fun x hx => hf x (List.mem_cons_of_mem _ hx))]

theorem printNat_wsfree (n : Nat) : ∀ b ∈ Text.printNat n, isAsciiWs b = false := by
  intro b hb
  have := printNat_digits n b hb
  unfold isDigit at this
  simp only [isAsciiWs, Bool.or_eq_false_iff, decide_eq_false_iff_not]
  refine ⟨⟨⟨⟨?_, ?_⟩, ?_⟩, ?_⟩, ?_⟩ <;>
  · intro h; rw [h] at this; simp at this

theorem parsePositionStr_print (n : Nat) (h : 1 ≤ n ∧ n ≤ USIZE_MAX) :
    parsePositionStr (Text.printNat n) = some n := by
  have : n ≠ 0 := by omega
  simp [parsePositionStr, parseUsize_printNat n h.2, this]

theorem parseSequenceRegion_write (name : Bytes) (s e : Nat) (hn : WsFree name) (hne : name ≠ [])
    (hs : 1 ≤ s ∧ s ≤ USIZE_MAX) (he : 1 ≤ e ∧ e ≤ USIZE_MAX) :
    parseSequenceRegion (writeDValue (.sequenceRegion name s e)) = some (.sequenceRegion name s e) := by
  have hsplit : splitWs (name ++ 32 :: Text.printNat s ++ 32 :: Text.printNat e)
      = [name, Text.printNat s, Text.printNat e] := by
    unfold splitWs
    have : name ++ 32 :: Text.printNat s ++ 32 :: Text.printNat e
        = name ++ 32 :: (Text.printNat s ++ 32 :: Text.printNat e) := by simp
    rw [this, splitWhere_append isAsciiWs name hn 32 (by decide),
      splitWhere_append isAsciiWs _ (printNat_wsfree s) 32 (by decide),
      splitWhere_free isAsciiWs _ (printNat_wsfree e)]
    simp [hne, printNat_ne_nil]
  have hnil : (name ++ 32 :: Text.printNat s ++ 32 :: Text.printNat e).isEmpty = false := by
    cases name <;> simp
  simp only [writeDValue, parseSequenceRegion, hnil, Bool.false_eq_true, if_false, hsplit]
  simp [parsePositionStr_print s hs, parsePositionStr_print e he]

theorem parseGenomeBuild_write (src name : Bytes) (h1 : WsFree src) (h1' : src ≠ [])
    (h2 : WsFree name) (h2' : name ≠ []) :
    parseGenomeBuild (writeDValue (.genomeBuild src name)) = some (.genomeBuild src name) := by
  have hsplit : splitWs (src ++ 32 :: name) = [src, name] := by
    unfold splitWs
    rw [splitWhere_append isAsciiWs src h1 32 (by decide), splitWhere_free isAsciiWs _ h2]
    simp [h1', h2']
  have hnil : (src ++ 32 :: name).isEmpty = false := by cases src <;> simp
  simp [writeDValue, parseGenomeBuild, hnil, hsplit]

theorem dot_not_digit : ¬ isDigit 46 := by unfold isDigit; simp

theorem parseU32_print (n : Nat) (h : n ≤ U32_MAX) : parseU32 (Text.printNat n) = some n := by
  have : n ≤ USIZE_MAX := by unfold U32_MAX at h; unfold USIZE_MAX; omega
  simp [parseU32, parseUsize_printNat n this, h]

theorem parseGffVersion_write (ma : Nat) (mi p : Option Nat) (hma : ma ≤ U32_MAX)
    (hmi : ∀ x, mi = some x → x ≤ U32_MAX) (hp : ∀ x, p = some x → x ≤ U32_MAX)
    (hnest : mi = none → p = none) :
    parseGffVersion (writeDValue (.gffVersion ma mi p)) = some (.gffVersion ma mi p) := by
  have hd := fun n => printNat_not_mem n 46 dot_not_digit
  cases mi with
  | none =>
    have : p = none := hnest rfl
    subst this
    have hnil : (Text.printNat ma).isEmpty = false := by simpa using printNat_ne_nil ma
    simp [writeDValue, writeGffVersion, parseGffVersion, hnil, splitn3Dot, splitOnce_none 46 _ (hd ma),
      parseU32_print ma hma]
  | some m =>
    have hm := hmi m rfl
    cases p with
    | none =>
      have hnil : (Text.printNat ma ++ 46 :: Text.printNat m).isEmpty = false := by simp
      simp [writeDValue, writeGffVersion, parseGffVersion, hnil, splitn3Dot,
        splitOnce_append 46 _ (hd ma), splitOnce_none 46 _ (hd m), parseU32_print ma hma,
        parseU32_print m hm]
    | some q =>
      have hq := hp q rfl
      have hnil : (Text.printNat ma ++ 46 :: (Text.printNat m ++ 46 :: Text.printNat q)).isEmpty = false := by
        simp
      simp [writeDValue, writeGffVersion, parseGffVersion, hnil, splitn3Dot,
        splitOnce_append 46 _ (hd ma), splitOnce_append 46 _ (hd m), parseU32_print ma hma,
        parseU32_print m hm, parseU32_print q hq]

end Noodles.Gff

namespace Noodles.Gff
open Noodles

/-! ### a written record as a line of a file -/

theorem mem_joinCols (cols : List Bytes) (last : Bytes) (b : UInt8) (h : b ∈ joinCols cols last) :
    b = TAB ∨ (∃ f ∈ cols, b ∈ f) ∨ b ∈ last := by
  induction cols with
  | nil => exact Or.inr (Or.inr h)
  | cons f fs ih =>
    simp only [joinCols, List.foldr_cons, List.mem_append, List.mem_cons] at h
    rcases h with h | h | h
    · exact Or.inr (Or.inl ⟨f, by simp, h⟩)
    · exact Or.inl h
    · rcases ih h with h | ⟨g, hg, hb⟩ | h
      · exact Or.inl h
      · exact Or.inr (Or.inl ⟨g, List.mem_cons_of_mem _ hg, hb⟩)
      · exact Or.inr (Or.inr h)

theorem lineKind_record (l : Bytes) (h : l.head? ≠ some 35) : lineKind l = .record := by
  unfold lineKind
  split
  · simp at h
  · simp at h
  · rfl

theorem isBlank_false (l : Bytes) (b : UInt8) (hb : b ∈ l) (hw : isAsciiWs b = false) : isBlank l = false := by
  unfold isBlank
  rw [List.all_eq_false]
  exact ⟨b, hb, by simp [hw]⟩

theorem writeAttrs_free (as : Attrs) (d : UInt8) (hd : attrEsc d = true) (hal : isAlnum d = false)
    (h37 : d ≠ 37) (h44 : d ≠ 44) (h61 : d ≠ 61) (h59 : d ≠ 59) (h46 : d ≠ 46) : d ∉ writeAttrs as := by
  unfold writeAttrs
  split
  · simp [MISSING]; exact h46
  · intro h
    rcases mem_join 59 _ d h with h | ⟨f, hf, hb⟩
    · exact h59 h
    · obtain ⟨tv, _, rfl⟩ := List.mem_map.mp hf
      exact writeField_free tv d hd hal h37 h44 h61 hb

/-- a written GFF3 record whose (raw) source and type contain no LF / CR is one line of a file: it
is a record line, not blank, and contains neither LF nor CR -/
theorem writeRecord_line {F : Type} (ff : FloatFmt F) (hff : ff.Lawful) (r : Record F)
    (hsrc : LF ∉ r.source ∧ CR ∉ r.source) (hty : LF ∉ r.ty ∧ CR ∉ r.ty) (line : Bytes)
    (h : writeRecord ff r = .ok line) :
    lineKind line = .record ∧ isBlank line = false ∧ LF ∉ line ∧ CR ∉ line := by
  unfold writeRecord at h
  cases hph : writePhase r.ty r.phase with
  | error e => rw [hph] at h; simp at h
  | ok ph =>
    rw [hph] at h
    simp only [Except.ok.injEq] at h
    subst h
    have hphc : ph = MISSING ∨ ph = [48] ∨ ph = [49] ∨ ph = [50] := by
      cases hp : r.phase with
      | none =>
        rw [hp] at hph; simp only [writePhase] at hph
        split at hph
        · simp at hph
        · simp at hph; exact Or.inl hph.symm
      | some q =>
        rw [hp] at hph
        cases q <;> simp [writePhase] at hph <;> simp [← hph]
    have hfree : ∀ d : UInt8, (d = LF ∨ d = CR) →
        d ∉ joinCols [Pct.encode seqidEsc r.seqid, r.source, r.ty,
          Text.printNat r.start, Text.printNat r.end_, writeScore ff r.score, writeStrand r.strand, ph]
          (writeAttrs r.attrs) := by
      intro d hd hm
      have hdig : ¬ isDigit d := by rcases hd with rfl | rfl <;> (unfold isDigit; decide)
      rcases mem_joinCols _ _ d hm with h | ⟨f, hf, hb⟩ | h
      · rcases hd with rfl | rfl <;> exact absurd h (by decide)
      · simp only [List.mem_cons, List.mem_nil_iff, or_false] at hf
        rcases hf with rfl | rfl | rfl | rfl | rfl | rfl | rfl | rfl
        · rcases hd with rfl | rfl <;>
            exact encode_free' seqidEsc _ _ (by decide) (by decide) (by decide) hb
        · rcases hd with rfl | rfl
          · exact hsrc.1 hb
          · exact hsrc.2 hb
        · rcases hd with rfl | rfl
          · exact hty.1 hb
          · exact hty.2 hb
        · exact printNat_not_mem _ _ hdig hb
        · exact printNat_not_mem _ _ hdig hb
        · have := writeScore_tabfree ff hff r.score
          rcases hd with rfl | rfl
          · exact this.2.1 hb
          · exact this.2.2 hb
        · cases hs : r.strand <;> rw [hs] at hb <;> simp [writeStrand, MISSING] at hb <;>
            rcases hd with rfl | rfl <;> exact absurd hb (by decide)
        · rcases hphc with rfl | rfl | rfl | rfl <;> simp [MISSING] at hb <;>
            rcases hd with rfl | rfl <;> exact absurd hb (by decide)
      · rcases hd with rfl | rfl <;>
          exact writeAttrs_free r.attrs _ (by decide) (by decide) (by decide) (by decide) (by decide)
            (by decide) (by decide) h
    refine ⟨?_, ?_, hfree LF (Or.inl rfl), hfree CR (Or.inr rfl)⟩
    · apply lineKind_record
      simp only [joinCols, List.foldr_cons]
      have h35 : (35 : UInt8) ∉ Pct.encode seqidEsc r.seqid :=
        encode_free' seqidEsc _ 35 (by decide) (by decide) (by decide)
      cases he : Pct.encode seqidEsc r.seqid with
      | nil => simp [TAB]
      | cons b t =>
        rw [he] at h35
        simp only [List.cons_append, List.head?_cons, ne_eq, Option.some.injEq]
        intro hb; exact h35 (by simp [hb])
    · -- the start column holds a digit
      obtain ⟨b, hb⟩ := List.exists_mem_of_ne_nil _ (printNat_ne_nil r.start)
      apply isBlank_false _ b
      · simp only [joinCols, List.foldr_cons, List.mem_append, List.mem_cons]
        right; right; right; right; right; right; left; exact hb
      · exact printNat_wsfree r.start b hb

/-- the lines the gff reader delivers for a written file are the written lines -/
theorem readLines_writeLines (ls : List Bytes)
    (h : ∀ l ∈ ls, LF ∉ l ∧ l.getLast? ≠ some CR ∧ isBlank l = false) :
    (fileLines (writeLines ls)).filter (fun l => !isBlank l) = ls := by
  rw [fileLines_writeLines ls (fun l hl => ⟨(h l hl).1, (h l hl).2.1⟩)]
  rw [List.filter_eq_self]
  intro l hl
  simp [(h l hl).2.2]

end Noodles.Gff
