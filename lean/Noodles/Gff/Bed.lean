import Noodles.Gff.Kit
/-!
# BED lines: writer and reader (model for C18)

Transcribed from noodles-bed

* writer: `io/writer/record.rs` (`write_record_3` … `write_record_6`), `record/{reference_sequence_name,
  feature_start,feature_end,name,score,strand,other_fields}.rs`, `other_fields/value{,/character,/string}.rs`
* reader: `io/reader/record.rs` (`read_record_3` … `read_record_6`, `skip_comment_lines`,
  `read_required_field`, `read_field`, `read_other_fields`), `record/fields.rs`,
  `record/fields/bounds.rs`, `record/other_fields.rs`
* owned record: `feature/record_buf/convert.rs`

The reader keeps one flat buffer `buf` of all field bytes (delimiters removed) and the list of field
ends; an accessor slices `buf[ends[i-1] .. ends[i]]`. The model keeps exactly that representation
(the standard-field ends and the other-field ends are one list here). The CR stripped at a line
end is looked for in the bytes of the field that ends there (`dst[start..]`, code after
`text-record-cr.diff`; before it the CR was popped off the whole buffer, whatever field it belonged
to, and the accessors of `sq0<TAB>1<CR><TAB><LF>` sliced out of range).
-/
namespace Noodles.Bed
open Noodles.Gff (Bytes Err TAB LF CR MISSING parseUsize USIZE_MAX)
open Noodles

inductive Strand | forward | reverse
  deriving Repr, DecidableEq

/-- `feature::record_buf::other_fields::Value` without `Float64` (formatting of `f64` is not
modelled); the reader only ever produces `string` -/
inductive OValue
  | int (n : Int)
  | uint (n : Nat)
  | char (c : UInt8)
  | string (s : Bytes)
  deriving Repr, DecidableEq

/-- `feature::RecordBuf<N>` (`n` = number of standard fields, 3..6; fields beyond `n` keep their
defaults `none` / `0` / `none`, they cannot be set through `Builder<N>`) -/
structure Record where
  n : Nat
  seqid : Bytes
  start : Nat            -- 1-based `Position`
  end_ : Option Nat
  name : Option Bytes
  score : Nat
  strand : Option Strand
  other : List OValue
  deriving Repr, DecidableEq

/-! ## writer -/

def isPrintable (b : UInt8) : Bool := 32 ≤ b && b ≤ 126

/-- `reference_sequence_name.rs::is_valid`: `[[:alnum:]_]{1,255}` -/
def validSeqid (s : Bytes) : Bool :=
  1 ≤ s.length && s.length ≤ 255 && s.all (fun b => Gff.isAlnum b || b = 95)

/-- `name.rs::is_valid`: `[\x20-\x7e]{1,255}` -/
def validName (s : Bytes) : Bool :=
  1 ≤ s.length && s.length ≤ 255 && s.all isPrintable

def printInt (n : Int) : Bytes :=
  match n with
  | .ofNat k => Text.printNat k
  | .negSucc k => 45 :: Text.printNat (k + 1)

/-- `other_fields/value.rs::write_value` -/
def writeOValue : OValue → Except Err Bytes
  | .int n => .ok (printInt n)
  | .uint n => .ok (Text.printNat n)
  | .char c => if isPrintable c then .ok [c] else .error .invalidInput
  | .string s => if s.all isPrintable then .ok s else .error .invalidInput

def writeOthers : List OValue → Except Err Bytes
  | [] => .ok []
  | v :: vs =>
    match writeOValue v, writeOthers vs with
    | .ok a, .ok b => .ok (TAB :: a ++ b)
    | .error e, _ => .error e
    | _, .error e => .error e

def writeStrand : Option Strand → Bytes
  | some .forward => [43]
  | some .reverse => [45]
  | none => MISSING

/-- `name.rs::write_name` preceded by the separator -/
def nameCol (name : Option Bytes) : Except Err Bytes :=
  match name with
  | none => .ok (TAB :: MISSING)
  | some s => if validName s then .ok (TAB :: s) else .error .invalidInput

/-- the standard columns after the third, for `N` = 3..6 (`write_record_N`) -/
def writeStd (r : Record) : Except Err Bytes :=
  if r.n ≤ 3 then .ok []
  else match nameCol r.name with
    | .error e => .error e
    | .ok nm =>
      if r.n = 4 then .ok nm
      else
        let sc := TAB :: Text.printNat r.score
        if r.n = 5 then .ok (nm ++ sc)
        else .ok (nm ++ sc ++ TAB :: writeStrand r.strand)

/-- `feature_end.rs::write_feature_end`: a missing end is written as `0` -/
def endTxt (e : Option Nat) : Bytes :=
  match e with
  | some e => Text.printNat e
  | none => [48]

/-- `write_record_N`, newline included: `chromStart` is written 0-based -/
def writeRecord (r : Record) : Except Err Bytes :=
  if !validSeqid r.seqid then .error .invalidInput
  else match writeStd r, writeOthers r.other with
    | .ok std, .ok oth =>
      .ok (r.seqid ++ TAB :: Text.printNat (r.start - 1) ++ TAB ::
           endTxt r.end_ ++ std ++ oth ++ [LF])
    | .error e, _ => .error e
    | _, .error e => .error e

/-! ## reader -/

/-- `read_field`: bytes up to the first TAB or LF (or the end of input) are appended to `dst`;
returns the new buffer, the number of input bytes consumed, whether the delimiter was LF, and the
remaining input. At LF one trailing CR of the field itself is dropped. -/
def readField (src dst : Bytes) : Bytes × Nat × Bool × Bytes :=
  let f := src.takeWhile (fun b => b ≠ TAB ∧ b ≠ LF)
  match src.drop f.length with
  | [] => (dst ++ f, f.length, false, [])
  | d :: rest =>
    let dst' := dst ++ f
    if d = LF then
      ((if f.getLast? = some CR then dst ++ f.dropLast else dst'), f.length + 1, true, rest)
    else (dst', f.length + 1, false, rest)

/-- `skip_comment_lines` + `discard_line`: drop leading lines that start with `#` -/
def skipComments : Nat → Bytes → Bytes
  | 0, s => s
  | fuel + 1, s =>
    match s with
    | 35 :: _ =>
      let l := s.takeWhile (· ≠ LF)
      skipComments fuel ((s.drop l.length).drop 1)
    | _ => s

/-- `read_other_fields` -/
def readOthers : Nat → Bytes → Bytes → List Nat → Nat → Bytes × List Nat × Nat × Bytes
  | 0, src, dst, ends, len => (dst, ends, len, src)
  | fuel + 1, src, dst, ends, len =>
    let (dst', n, eol, rest) := readField src dst
    if n = 0 then (dst', ends, len, rest)
    else if eol then (dst', ends ++ [dst'.length], len + n, rest)
    else readOthers fuel rest dst' (ends ++ [dst'.length]) (len + n)

/-- the `k` leading `read_required_field`s: an LF is "unexpected EOL" (`InvalidData`) -/
def readRequired : Nat → Bytes → Bytes → List Nat → Nat → Except Err (Bytes × List Nat × Nat × Bytes)
  | 0, src, dst, ends, len => .ok (dst, ends, len, src)
  | k + 1, src, dst, ends, len =>
    let (dst', n, eol, rest) := readField src dst
    if eol then .error .invalidData
    else readRequired k rest dst' (ends ++ [dst'.length]) (len + n)

/-- the lazy `Record<N>` after `read_record_N`: the buffer, all field ends (standard then other),
and the byte count returned to the caller -/
structure Lazy where
  n : Nat
  buf : Bytes
  ends : List Nat
  deriving Repr, DecidableEq

/-- `read_record_N` on the remaining input: the lazy record, the returned length, the rest -/
def readLazy (n : Nat) (input : Bytes) : Except Err (Lazy × Nat × Bytes) :=
  let src := skipComments (input.length + 1) input
  match readRequired (n - 1) src [] [] 0 with
  | .error e => .error e
  | .ok (dst, ends, len, rest) =>
    let (dst', k, eol, rest') := readField rest dst
    let ends' := ends ++ [dst'.length]
    if eol then .ok (⟨n, dst', ends'⟩, len + k, rest')
    else
      let (dst'', ends'', len', rest'') := readOthers (rest'.length + 1) rest' dst' ends' (len + k)
      .ok (⟨n, dst'', ends''⟩, len', rest'')

/-- `buf[start..end]`: a reversed or out-of-range range is a slice-index panic -/
def slice (buf : Bytes) (s e : Nat) : Except Err Bytes :=
  if s ≤ e ∧ e ≤ buf.length then .ok ((buf.drop s).take (e - s)) else .error .panic

/-- field `i` (0-based, standard and other fields alike): `ends[i-1] .. ends[i]` -/
def Lazy.field (l : Lazy) (i : Nat) : Except Err Bytes :=
  match l.ends[i]? with
  | none => .error .panic
  | some e => slice l.buf (if i = 0 then 0 else l.ends[i - 1]?.getD 0) e

/-- `fields.rs::parse_feature_start`: 0-based in the file, 1-based `Position` -/
def parseStart (s : Bytes) : Except Err Nat :=
  match parseUsize s with
  | some n => if n + 1 ≤ USIZE_MAX then .ok (n + 1) else .error .invalidData
  | none => .error .invalidData

/-- `fields.rs::parse_feature_end`: `0` is missing -/
def parseEnd (s : Bytes) : Option (Except Err Nat) :=
  if s = [48] then none
  else match parseUsize s with
    | some n => if n = 0 then some (.error .invalidData) else some (.ok n)
    | none => some (.error .invalidData)

def parseName (s : Bytes) : Option Bytes := if s = MISSING then none else some s

/-- `parse_int::<u16>` -/
def parseScore (s : Bytes) : Except Err Nat :=
  match parseUsize s with
  | some n => if n ≤ 65535 then .ok n else .error .invalidData
  | none => .error .invalidData

def parseStrand (s : Bytes) : Except Err (Option Strand) :=
  if s = MISSING then .ok none
  else if s = [43] then .ok (some .forward)
  else if s = [45] then .ok (some .reverse)
  else .error .invalidData

/-- `OtherFields::iter`: fields `n ..` until `get` answers `None` -/
def Lazy.others (l : Lazy) : Except Err (List Bytes) :=
  (List.range (l.ends.length - l.n)).mapM (fun i => l.field (l.n + i))

/-! the accessors of `Record<N>` (`record.rs`, `record/fields.rs`); `name`, `score`, `strand` exist from
`N` = 4, 5, 6 on — below that the owned record keeps its defaults -/

def Lazy.seqid (l : Lazy) : Except Err Bytes := l.field 0
def Lazy.start (l : Lazy) : Except Err Nat := (l.field 1) >>= parseStart
def Lazy.end_ (l : Lazy) : Except Err (Option Nat) := (l.field 2) >>= fun raw => Gff.transpose (parseEnd raw)
def Lazy.name (l : Lazy) : Except Err (Option Bytes) :=
  if l.n ≥ 4 then (l.field 3).map parseName else .ok none
def Lazy.score (l : Lazy) : Except Err Nat :=
  if l.n ≥ 5 then (l.field 4) >>= parseScore else .ok 0
def Lazy.strand (l : Lazy) : Except Err (Option Strand) :=
  if l.n ≥ 6 then (l.field 5) >>= parseStrand else .ok none

/-- `RecordBuf::<N>::try_from_feature_record` over the lazy record -/
def toOwned (l : Lazy) : Except Err Record := do
  let seqid ← l.seqid
  let start ← l.start
  let end_ ← l.end_
  let name ← l.name
  let score ← l.score
  let strand ← l.strand
  let others ← l.others
  pure ⟨l.n, seqid, start, end_, name, score, strand, others.map OValue.string⟩

/-- writer → reader: the owned record built from the first record of `input` -/
def readRecord (n : Nat) (input : Bytes) : Except Err Record :=
  match readLazy n input with
  | .error e => .error e
  | .ok (l, _, _) => toOwned l

end Noodles.Bed
