import Noodles.Csi.Query
import Noodles.Csi.MinOffset
import Noodles.Index.Csi
/-!
# `binning_index::Indexer<I>` (model for C17 "reach")

Transcribed from
* `noodles-csi/src/binning_index/indexer.rs` (`Indexer::{new, set_header, add_record, build,
  add_reference_sequences_until}`),
* `noodles-csi/src/binning_index/index/reference_sequence.rs` (`ReferenceSequence::update`, `reg2bin`),
* `…/reference_sequence/bin.rs` (`Bin::add_chunk` — `Noodles.Csi.addChunkRev`, newest chunk first),
* `…/reference_sequence/index/linear_index.rs` (`LinearIndex::update` — `Noodles.Csi.linUpdate`),
* `…/reference_sequence/index/binned_index.rs` (`BinnedIndex::update` — `Noodles.Csi.binnedUpdate`),
* `…/reference_sequence/metadata.rs` (`Metadata::update`).

`Indexer<I>` is generic in the per-reference index `I` (`LinearIndex` for BAI/tabix, `BinnedIndex`
for CSI). The two `I::update`s do not look at each other or at the bins, so the model carries BOTH
in one state (`RefSt.lin`, `RefSt.binned`) and the three `build…` functions project the one the
format uses; the flag `linear` says whether `I = LinearIndex` (then `lin` is maintained; with
`I = BinnedIndex` it stays empty — a CSI geometry can span 2^30 windows). Virtual positions are `u64` in the code and `Nat` here; nothing in these functions
does arithmetic on them (only `<`, `≤`, `min`, `max`), the record counters are `u64 += 1`.
-/
namespace Noodles.Csi.Reach
open Noodles.Csi
open Noodles.Index (Meta RefLin RefCsi Bai Tabix CsiIndex Header Bins)

/-- one `add_record(alignment_context, chunk)` call; the context is
`Some((reference_sequence_id, start, end, is_mapped))` (positions are `Position`s: 1-based, non-zero) -/
structure Call where
  ctx : Option (Nat × Nat × Nat × Bool)
  chunk : Chunk
deriving Repr

/-- a `ReferenceSequence<I>` under construction: `bins` is the `IndexMap` in insertion order, each
bin's chunk list NEWEST FIRST (`Bin::chunks()` is its reverse) -/
structure RefSt where
  bins : List (Nat × List Chunk)
  lin : List Nat
  binned : Binned
  md : Option Meta
deriving Repr

/-- `ReferenceSequence::new(IndexMap::new(), Default::default(), None)` -/
def RefSt.empty : RefSt := ⟨[], [], [], none⟩

/-- `self.bins.entry(id).or_insert(Bin::new(Vec::new())).add_chunk(chunk)` -/
def binsUpdate (bins : List (Nat × List Chunk)) (id : Nat) (c : Chunk) : List (Nat × List Chunk) :=
  match bins with
  | [] => [(id, addChunkRev c [])]
  | (k, cs) :: rest =>
    if k = id then (k, addChunkRev c cs) :: rest else (k, cs) :: binsUpdate rest id c

/-- `metadata.get_or_insert(Metadata::new(VirtualPosition::MAX, VirtualPosition::MIN, 0, 0))` followed by
`Metadata::update(is_mapped, chunk)` -/
def metaUpdate (md : Option Meta) (mapped : Bool) (c : Chunk) : Meta :=
  let m := md.getD ⟨2^64 - 1, 0, 0, 0⟩
  ⟨if c.s < m.refBeg then c.s else m.refBeg, if m.refEnd < c.e then c.e else m.refEnd,
   if mapped then m.nMapped + 1 else m.nMapped, if mapped then m.nUnmapped else m.nUnmapped + 1⟩

/-- `ReferenceSequence::update(min_shift, depth, start, end, is_mapped, chunk)` -/
def refUpdate (linear : Bool) (ms d s e : Nat) (mapped : Bool) (c : Chunk) (r : RefSt) : RefSt :=
  let id := reg2bin (s - 1) (e - 1) ms d
  ⟨binsUpdate r.bins id c, if linear then linUpdate r.lin e c.s else r.lin, binnedUpdate r.binned id c.s,
   some (metaUpdate r.md mapped c)⟩

/-- `Vec::resize_with(new_len, || ReferenceSequence::new(…))` -/
def resizeWith (refs : List RefSt) (n : Nat) : List RefSt :=
  refs.take n ++ List.replicate (n - refs.length) RefSt.empty

/-- `&mut self.reference_sequences[id]` then `update`; an index out of bounds (a panic in the
code) cannot happen where it is used: `id = len - 1` after the resize -/
def updAt (f : RefSt → RefSt) : Nat → List RefSt → List RefSt
  | _, [] => []
  | 0, r :: rs => f r :: rs
  | i+1, r :: rs => r :: updAt f i rs

/-- the `Indexer` fields that change (`min_shift`, `depth`, `header` are fixed at construction) -/
structure St where
  refs : List RefSt
  unplaced : Nat
deriving Repr

/-- `Indexer::new(min_shift, depth)` -/
def St.init : St := ⟨[], 0⟩

/-- `Indexer::add_record`; `none` = `Err(InvalidInput "invalid reference sequence ID")`, the only
refusal there is: a reference id smaller than the current (last) one. Nothing is changed then. -/
def addRecordCore (linear : Bool) (ms d : Nat) (st : St) (c : Call) : Option St :=
  match c.ctx with
  | none => some { st with unplaced := st.unplaced + 1 }
  | some (rid, s, e, mapped) =>
    let refs := if st.refs.isEmpty then resizeWith st.refs 1 else st.refs
    let cur := refs.length - 1
    if rid < cur then none
    else
      let refs := if cur < rid then resizeWith refs (rid + 1) else refs
      some { st with refs := updAt (refUpdate linear ms d s e mapped c.chunk) rid refs }

/-- the range test of `add_record` (since fix "csi indexer accepted a record beyond the last position of
the binning scheme"): `1usize.checked_shl(min_shift + 3·depth).is_none_or(|n| position < n)` fails for
`start` or `end`. `2^(ms + d·3) - 1` is `maxPos` below (the same bound `resolve_interval` applies to a
query); for a shift of 64 or more `checked_shl` is `None` on a 64-bit target and nothing is refused. -/
def beyond (ms d s e : Nat) : Bool :=
  decide (ms + d*3 < 64) && (decide (2^(ms + d*3) - 1 < s) || decide (2^(ms + d*3) - 1 < e))

/-- `Indexer::add_record`: an unplaced record is counted; a placed one is refused (`InvalidInput`,
nothing changed) when a coordinate lies beyond the geometry, otherwise as `addRecordCore` -/
def addRecord (linear : Bool) (ms d : Nat) (st : St) (c : Call) : Option St :=
  match c.ctx with
  | none => addRecordCore linear ms d st c
  | some (_, s, e, _) => if beyond ms d s e then none else addRecordCore linear ms d st c

/-- a history of `add_record` calls, stopping at the first refusal -/
def run (linear : Bool) (ms d : Nat) : St → List Call → Option St
  | st, [] => some st
  | st, c :: cs => match addRecord linear ms d st c with
    | none => none
    | some st' => run linear ms d st' cs

/-- the padding in `Indexer::build(reference_sequence_count)` -/
def padded (st : St) (nRef : Nat) : List RefSt :=
  if st.refs.length < nRef then resizeWith st.refs (nRef - 1 + 1) else st.refs

/-- `Bin::chunks()` oldest first -/
def outBins (r : RefSt) : Bins := r.bins.map fun b => (b.1, b.2.reverse)

def toRefLin (r : RefSt) : RefLin := ⟨outBins r, r.md, r.lin⟩
def toRefCsi (r : RefSt) : RefCsi := ⟨outBins r, r.binned, r.md⟩

/-- `Indexer::<LinearIndex>::build(n_ref)` seen as a `bai::Index` (the BAI file has no geometry or
header field); `set_unplaced_unmapped_record_count` always makes it `Some` -/
def buildBai (st : St) (nRef : Nat) : Bai := ⟨(padded st nRef).map toRefLin, some st.unplaced⟩

/-- `Indexer::<LinearIndex>::build(n_ref)` with the header of `set_header` (or none) as a `tabix::Index` -/
def buildTabix (hdr : Option Header) (st : St) (nRef : Nat) : Tabix :=
  ⟨hdr, (padded st nRef).map toRefLin, some st.unplaced⟩

/-- `Indexer::<BinnedIndex>::build(n_ref)` as a `csi::Index` -/
def buildCsi (ms d : Nat) (hdr : Option Header) (st : St) (nRef : Nat) : CsiIndex :=
  ⟨ms, d, hdr, (padded st nRef).map toRefCsi, some st.unplaced⟩

/-- largest position of a geometry, `(1 << (min_shift + 3·depth)) - 1` -/
def maxPos (ms d : Nat) : Nat := 2^(ms + d*3) - 1

/-- what the theorems ask of a call: virtual positions are `u64`s, the reference id is below `R`,
and both coordinates are `Position`s (≥ 1) within the geometry. NOT asked: `start ≤ end`, sorted
coordinates, sorted or non-empty chunks. -/
def Call.Valid (ms d R : Nat) (c : Call) : Prop :=
  c.chunk.s < 2^64 ∧ c.chunk.e < 2^64 ∧
  ∀ rid s e m, c.ctx = some (rid, s, e, m) →
    rid < R ∧ 1 ≤ s ∧ s ≤ maxPos ms d ∧ 1 ≤ e ∧ e ≤ maxPos ms d

/-- within the geometry the range test never fires -/
theorem addRecord_eq_core (linear : Bool) (ms d R : Nat) (st : St) (c : Call) (hv : c.Valid ms d R) :
    addRecord linear ms d st c = addRecordCore linear ms d st c := by
  unfold addRecord
  cases hctx : c.ctx with
  | none => rfl
  | some t =>
    obtain ⟨rid, s, e, m⟩ := t
    have h := hv.2.2 rid s e m hctx
    have hs : ¬ (2^(ms + d*3) - 1 < s) := by have := h.2.2.1; unfold maxPos at this; omega
    have he : ¬ (2^(ms + d*3) - 1 < e) := by have := h.2.2.2.2; unfold maxPos at this; omega
    simp [beyond, hs, he]

end Noodles.Csi.Reach
