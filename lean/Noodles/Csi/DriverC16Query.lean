import Noodles.Csi.QueryIo
import Noodles.Bcf.QueryFilter
import Noodles.Bgzf.DriverC02
/-! Line-protocol handler for the query readers (`c16 query …`, `c16 query-cancel …`,
`c16 bcf-filter …`).

* `c16 query <w> <layout> <chunks> <ns> <src> <inf> <sk>` — `chunks` = `sc/su:ec/eu,…` (`-` = none),
  `ns` = consume amounts, `src`/`inf` as for `c16 rd`, `sk` = bits for the source's `poll_complete`.
  Answer: `A <result>… @c/u | S <result>… @c/u` (async query reader under the script; sync query
  reader), results until the first error, then the BGZF reader's virtual position.
* `c16 query-cancel <w> <layout> <chunks0> <polls> <chunks> <ns> <src> <inf> <sk>` — a first query
  over `chunks0` is polled `polls` times and dropped, then the query over `chunks` runs on the same
  reader.  Answer: `A <result>… @c/u`.
* `c16 query-sync <layout> <chunks> <ns>` — the sync side alone: `S <result>… @c/u`.
* `c16 bcf-filter <entries> <indices> <chrom> <start> <end> <rid> <lo> <hi>` -/
namespace Noodles.Csi.QueryIo
open Noodles.Wire Noodles.Bgzf.RM Noodles.Bgzf.Async Noodles.Bgzf.ChunkRead

def parseVPos (s : String) : Option VPos :=
  match s.splitOn "/" with
  | [c, u] => do pure (← c.toNat?, ← u.toNat?)
  | _ => none

def parseChunks (s : String) : Option (List Chunk) :=
  if s = "-" then some [] else
  (s.splitOn ",").mapM fun e =>
    match e.splitOn ":" with
    | [a, b] => do pure ⟨← parseVPos a, ← parseVPos b⟩
    | _ => none

def parseNats (s : String) : Option (List Nat) :=
  if s = "-" then some [] else (s.splitOn ",").mapM String.toNat?

def parseSrcQ (s : String) : Option (List Poll1) :=
  if s = "-" then some [] else
  (s.splitOn ",").mapM fun e => if e = "p" then some Poll1.pending else e.toNat?.map Poll1.ready

def parseBitsQ (s : String) : Option (List Bool) :=
  if s = "-" then some [] else
  s.toList.mapM fun c => if c = '0' then some false else if c = '1' then some true else none

def fmtQOut : QOut UInt8 → String
  | .bytes b => fmtBytes b
  | .err e => errStr e
  | .starved => "starved"
  | .panic => "panic"

def fmtRun (outs : List (QOut UInt8)) (r : R UInt8) : String :=
  let t := tell r
  s!"{" ".intercalate (outs.map fmtQOut)} @{t.1}/{t.2}"

def fmtSeekSt : SeekSt → String
  | .init => "init" | .seek0 => "seek0" | .seek1 c => s!"seek1:{c}"
  | .finish (some k) => s!"finish:{k}" | .finish none => "finish:garbage" | .poisoned => "poisoned"

open Noodles.Bcf.QueryFilter in
def parseOptNat (s : String) : Option (Option Nat) :=
  if s = "." then some none else s.toNat?.map some

open Noodles.Bcf.QueryFilter in
def fmtF : Except FErr Bool → String
  | .ok true => "keep" | .ok false => "skip"
  | .error .invalidData => "err:invalid-data" | .error .invalidInput => "err:invalid-input"
  | .error .other => "err:other"

open Noodles.Bcf.QueryFilter in
def handleC16Query? : List String → Option String
  | ["query", w, layout, chunks, ns, src, inf, sk] =>
    match w.toNat?, parseLayout layout, parseChunks chunks, parseNats ns, parseSrcQ src,
        parseBitsQ inf, parseBitsQ sk with
    | some w, some L, some chunks, some ns, some src, some inf, some sk =>
      if w = 0 then some "bad-op" else
      let ra := runA L w AR.init ⟨⟨src, inf⟩, sk⟩ chunks ns
      let rs := runS L R.init chunks ns
      some s!"A {fmtRun ra.1 ra.2.a.r} | S {fmtRun rs.1 rs.2}"
    | _, _, _, _, _, _, _ => some "bad-op"
  | ["query-sync", layout, chunks, ns] =>
    match parseLayout layout, parseChunks chunks, parseNats ns with
    | some L, some chunks, some ns =>
      let rs := runS L R.init chunks ns
      some s!"S {fmtRun rs.1 rs.2}"
    | _, _, _ => some "bad-op"
  | ["query-cancel", w, layout, chunks0, polls, chunks, ns, src, inf, sk] =>
    match w.toNat?, parseLayout layout, parseChunks chunks0, polls.toNat?, parseChunks chunks,
        parseNats ns, parseSrcQ src, parseBitsQ inf, parseBitsQ sk with
    | some w, some L, some chunks0, some polls, some chunks, some ns, some src, some inf, some sk =>
      if w = 0 then some "bad-op" else
      let x := abandon L w polls (AQ.new ⟨AR.init, .init⟩ chunks0) ⟨⟨src, inf⟩, sk⟩
      let ra := runAQ L w (AQ.new x.1 chunks) x.2 ns
      some s!"A {fmtRun ra.1 ra.2.a.r}"
    | _, _, _, _, _, _, _, _, _ => some "bad-op"
  | ["bcf-filter", entries, indices, chrom, start, fin, rid, lo, hi] =>
    let ents : Option (List (Option Nat)) :=
      if entries = "-" then some [] else (entries.splitOn ",").mapM parseOptNat
    let idx : Option (List (Nat × Nat)) :=
      if indices = "-" then some [] else (indices.splitOn ",").mapM fun e =>
        match e.splitOn "=" with
        | [a, b] => do pure (← a.toNat?, ← b.toNat?)
        | _ => none
    let st : Option (Except FErr (Option Nat)) :=
      if start = "err" then some (.error .invalidData) else (parseOptNat start).map .ok
    let fn : Option (Except FErr Nat) :=
      if fin = "err" then some (.error .invalidData) else fin.toNat?.map .ok
    match ents, idx, chrom.toNat?, st, fn, rid.toNat?, parseOptNat lo, parseOptNat hi with
    | some ents, some idx, some chrom, some st, some fn, some rid, some lo, some hi =>
      let m : ContigMap := ⟨ents, idx⟩
      let r : Rec := ⟨chrom, st, fn⟩
      some s!"S {fmtF (intersectsSync m r rid ⟨lo, hi⟩)} | A {fmtF (intersectsAsync r rid ⟨lo, hi⟩)}"
    | _, _, _, _, _, _, _, _ => some "bad-op"
  | _ => none

end Noodles.Csi.QueryIo
