namespace Noodles.Csi

/-- `reg2bin` loop of noodles-csi, `l` counts down from `depth`. 0-based inclusive [beg, end]. -/
def reg2binLoop (beg end_ : Nat) : (l s t : Nat) → Nat
  | 0, _, _ => 0
  | l+1, s, t =>
    if beg >>> s = end_ >>> s then t + (beg >>> s)
    else reg2binLoop beg end_ l (s+3) (t - (1 <<< (l*3)))

def reg2bin (beg end_ minShift depth : Nat) : Nat :=
  reg2binLoop beg end_ depth minShift (((1 <<< (depth*3)) - 1) / 7)

/-- offset of level `l` -/
def levelOff (l : Nat) : Nat := (8^l - 1) / 7

/-- `reg2bins` as the set of marked ids: level `l` marks `t_l + (beg>>s_l) ..= t_l + (end>>s_l)`. -/
def reg2binsLoop (beg end_ : Nat) : (fuel l s t : Nat) → List (Nat × Nat)
  | 0, _, _, _ => []
  | fuel+1, l, s, t =>
    (t + (beg >>> s), t + (end_ >>> s)) :: reg2binsLoop beg end_ fuel (l+1) (s-3) (t + (1 <<< (l*3)))

def reg2bins (beg end_ minShift depth : Nat) : List (Nat × Nat) :=
  reg2binsLoop beg end_ (depth+1) 0 (minShift + depth*3) 0

def marked (rs : List (Nat × Nat)) (i : Nat) : Prop := ∃ r ∈ rs, r.1 ≤ i ∧ i ≤ r.2

#eval reg2bin 7 15 4 2   -- 9
#eval reg2bin 7 16 4 2   -- 1
#eval reg2bins 35 66 4 2

end Noodles.Csi
