import Noodles.Csi.Binning
/-! `BinnedIndex::min_offset` (noodles-csi, after the F4 fix) and `BinnedIndex::update`. -/
namespace Noodles.Csi

/-- `bin_end`: 1-based end position of the interval of bin `id`; the loop over levels
`0..=depth` with `first_id`/`bin_count` as in the Rust. `fuel` = levels left to try. -/
def binEndLoop (id minShift depth : Nat) : (fuel level first count : Nat) → Option Nat
  | 0, _, _, _ => none
  | fuel+1, level, first, count =>
    if id - first < count then some ((id - first + 1) <<< (minShift + 3 * (depth - level)))
    else binEndLoop id minShift depth fuel (level+1) (first + count) (count * 8)

def binEnd (id minShift depth : Nat) : Option Nat :=
  binEndLoop id minShift depth (depth+1) 0 0 1

/-- the binned index as an association list in insertion order (IndexMap) -/
abbrev Binned := List (Nat × Nat)

def listMin : List Nat → Option Nat
  | [] => none
  | x :: xs => match listMin xs with
    | none => some x
    | some m => some (if x ≤ m then x else m)

/-- `min_offset`: smallest loffset over bins whose interval ends at or after `start`; 0 if none -/
def minOffsetBinned (ix : Binned) (minShift depth start : Nat) : Nat :=
  (listMin ((ix.filter fun p => match binEnd p.1 minShift depth with
      | some e => decide (e ≥ start)
      | none => false).map (·.2))).getD 0

/-- `BinnedIndex::update`: keep the smallest chunk start per bin id -/
def binnedUpdate (ix : Binned) (id cstart : Nat) : Binned :=
  match ix with
  | [] => [(id, cstart)]
  | (k, v) :: rest =>
    if k = id then (k, if cstart < v then cstart else v) :: rest
    else (k, v) :: binnedUpdate rest id cstart

end Noodles.Csi
