import Noodles.Csi.Query
import Noodles.Csi.MinOffset
/-!
# The whole index-and-query pipeline as a function (model for C04)

A file is a list of records `recs` (1-based inclusive reference spans on ONE reference
sequence) with strictly increasing boundary offsets `off`: record `i` occupies the packed
virtual positions `[off i, off (i+1))`.  The indexer folds `ReferenceSequence::update` over
the records (`buildBins`, `buildLin` / `buildBinned`); a query collects the chunks of the
bins marked by `reg2bins`, prunes with `min_offset`, sorts and merges (`optimize`), then the
record reader seeks to each chunk's start and serves records while the position is before the
chunk's end; the format reader finally filters by `intersects`.
-/
namespace Noodles.Csi

/-- fold of `BinnedIndex::update` over records `k, k+1, …` -/
def buildBinned (minShift depth : Nat) (off : Nat → Nat) : Nat → Binned → List Rec → Binned
  | _, ix, [] => ix
  | k, ix, r :: rs =>
    buildBinned minShift depth off (k+1) (binnedUpdate ix (binOf minShift depth r) (off k)) rs

/-- ids of the bins present in the index, in insertion order (IndexMap) -/
def presentIds (minShift depth : Nat) : List Rec → List Nat
  | [] => []
  | r :: rs => binOf minShift depth r :: presentIds minShift depth rs

/-- boolean form of `marked`: the bit of bin `b` is set in the region's bit vector -/
def markedB (rs : List (Nat × Nat)) (b : Nat) : Bool := rs.any fun r => decide (r.1 ≤ b) && decide (b ≤ r.2)

/-- `ReferenceSequence::query` + `flat_map(chunks)`: chunks of the present bins marked by `reg2bins`
(`Bin` chunk lists are stored oldest-first; the model keeps them newest-first, hence `reverse`). -/
def candidates (minShift depth : Nat) (off : Nat → Nat) (recs : List Rec) (qs qe : Nat) : List Chunk :=
  let bins := buildBins minShift depth off 0 (fun _ => []) recs
  let ids := (presentIds minShift depth recs).eraseDups
  (ids.filter fun b => markedB (reg2bins (qs-1) (qe-1) minShift depth) b).flatMap
    fun b => (bins b).reverse

/-- chunks returned by `BinningIndex::query` with a linear index (BAI, tabix) -/
def queryChunksLinear (minShift depth : Nat) (off : Nat → Nat) (recs : List Rec) (qs qe : Nat) : List Chunk :=
  optimize (candidates minShift depth off recs qs qe) (minOffset (buildLin off 0 [] recs) qs)

/-- chunks returned by `BinningIndex::query` with a binned index (CSI) -/
def queryChunksBinned (minShift depth : Nat) (off : Nat → Nat) (recs : List Rec) (qs qe : Nat) : List Chunk :=
  optimize (candidates minShift depth off recs qs qe)
    (minOffsetBinned (buildBinned minShift depth off 0 [] recs) minShift depth qs)

/-- `csi::io::Query` + record reader: for each chunk in order, the records whose start offset lies
in `[c.s, c.e)`, in file order -/
def served (off : Nat → Nat) (n : Nat) (cs : List Chunk) : List Nat :=
  cs.flatMap fun c => (List.range n).filter fun i => decide (c.s ≤ off i ∧ off i < c.e)

def intersects (r : Rec) (qs qe : Nat) : Bool := decide (r.s ≤ qe ∧ qs ≤ r.e)

/-- what the format reader's `query` iterator yields: indices of records, in the order delivered -/
def queryRecs (chunks : List Chunk) (off : Nat → Nat) (recs : List Rec) (qs qe : Nat) : List Nat :=
  (served off recs.length chunks).filter fun i => match recs[i]? with
    | some r => intersects r qs qe
    | none => false

/-- the full scan: indices of the records that intersect the region, in file order -/
def scan (recs : List Rec) (qs qe : Nat) : List Nat :=
  (List.range recs.length).filter fun i => match recs[i]? with
    | some r => intersects r qs qe
    | none => false

/-- the file is valid for geometry `(minShift, depth)`: 1-based starts, `s ≤ e`, ends within range -/
def ValidRecs (minShift depth : Nat) (recs : List Rec) : Prop :=
  ∀ r ∈ recs, 1 ≤ r.s ∧ r.s ≤ r.e ∧ r.e ≤ 2^(minShift + depth*3) - 1

end Noodles.Csi
