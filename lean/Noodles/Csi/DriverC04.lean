import Noodles.Basic.Wire
import Noodles.Csi.QueryModel
import Noodles.Csi.Driver
import Noodles.Span.DriverC04Span
import Noodles.Span.DriverC04Join
/-! Line-protocol handler for the index-and-query pipeline (`c04 …`). -/
namespace Noodles.Csi
open Noodles.Wire

/-- `s:e:off:next,…` -/
def parseRecs (s : String) : Option (List (Nat × Nat × Nat × Nat)) :=
  if s = "-" then some [] else
  (s.splitOn ",").mapM fun e =>
    match e.splitOn ":" with
    | [a, b, c, d] => do pure ((← a.toNat?), (← b.toNat?), (← c.toNat?), (← d.toNat?))
    | _ => none

def fmtIds (l : List Nat) : String := if l.isEmpty then "-" else ",".intercalate (l.map toString)

def handleC04 : List String → String
  | ["query", kind, ms, d, recs, qs, qe] =>
    match ms.toNat?, d.toNat?, parseRecs recs, qs.toNat?, qe.toNat? with
    | some ms, some d, some rs, some qs, some qe =>
      let recs : List Rec := rs.map fun r => ⟨r.1, r.2.1⟩
      let offs : Array Nat := (rs.map fun r => r.2.2.1).toArray
      let endOff : Nat := match rs.getLast? with
        | some r => r.2.2.2
        | none => 0
      let n := rs.length
      let off : Nat → Nat := fun i => if i < n then offs[i]! else endOff + (i - n)
      let chunks := if kind = "lin" then queryChunksLinear ms d off recs qs qe
                    else queryChunksBinned ms d off recs qs qe
      s!"chunks={fmtChunks chunks} recs={fmtIds (queryRecs chunks off recs qs qe)}"
    | _, _, _, _, _ => "bad-op"
  | "join" :: rest => Noodles.Span.DriverJoin.handle rest
  | ws => Noodles.Span.Driver.handle ws

end Noodles.Csi
