import Noodles.Csi.BinningProof
import Noodles.Csi.Chunks
import Noodles.Csi.Linear
namespace Noodles.Csi

/-- `Bin::add_chunk`, chunk list kept newest-first. -/
def addChunkRev (c : Chunk) : List Chunk → List Chunk
  | [] => [c]
  | l :: rest => if c.s ≤ l.e then ⟨l.s, c.e⟩ :: rest else c :: l :: rest

def binOf (minShift depth : Nat) (r : Rec) : Nat := reg2bin (r.s - 1) (r.e - 1) minShift depth

/-- fold of `ReferenceSequence::update` (bins only) over records `k, k+1, …`. -/
def buildBins (minShift depth : Nat) (off : Nat → Nat) :
    Nat → (Nat → List Chunk) → List Rec → (Nat → List Chunk)
  | _, bins, [] => bins
  | k, bins, r :: rs =>
    let b := binOf minShift depth r
    buildBins minShift depth off (k+1)
      (fun b' => if b' = b then addChunkRev ⟨off k, off (k+1)⟩ (bins b) else bins b') rs

structure BinInv (minShift depth : Nat) (off : Nat → Nat) (pre : List Rec)
    (bins : Nat → List Chunk) : Prop where
  ends : ∀ b, ∀ c ∈ bins b, c.e ≤ off pre.length
  cover : ∀ j (hj : j < pre.length), ∃ c ∈ bins (binOf minShift depth pre[j]),
            c.s ≤ off j ∧ off (j+1) ≤ c.e

theorem addChunkRev_cons (c l : Chunk) (rest : List Chunk) :
    addChunkRev c (l :: rest) = if c.s ≤ l.e then ⟨l.s, c.e⟩ :: rest else c :: l :: rest := rfl

theorem addChunkRev_mem_old (c l : Chunk) (cs : List Chunk) (hl : l ∈ cs)
    (hle : ∀ x ∈ cs, x.e ≤ c.e) :
    ∃ l' ∈ addChunkRev c cs, l'.s ≤ l.s ∧ l.e ≤ l'.e := by
  cases cs with
  | nil => cases hl
  | cons h rest =>
    rw [addChunkRev_cons]
    by_cases hcond : c.s ≤ h.e
    · rw [if_pos hcond]
      rcases List.mem_cons.mp hl with rfl | hr
      · exact ⟨⟨l.s, c.e⟩, by simp, Nat.le_refl _, hle l (by simp)⟩
      · exact ⟨l, List.mem_cons_of_mem _ hr, Nat.le_refl _, Nat.le_refl _⟩
    · rw [if_neg hcond]
      exact ⟨l, List.mem_cons_of_mem _ hl, Nat.le_refl _, Nat.le_refl _⟩

theorem addChunkRev_mem_new (c : Chunk) (cs : List Chunk) (hle : ∀ x ∈ cs, x.s ≤ c.s) :
    ∃ l' ∈ addChunkRev c cs, l'.s ≤ c.s ∧ c.e ≤ l'.e := by
  cases cs with
  | nil => exact ⟨c, by simp [addChunkRev], Nat.le_refl _, Nat.le_refl _⟩
  | cons h rest =>
    rw [addChunkRev_cons]
    by_cases hcond : c.s ≤ h.e
    · rw [if_pos hcond]
      exact ⟨⟨h.s, c.e⟩, by simp, hle h (by simp), Nat.le_refl _⟩
    · rw [if_neg hcond]
      exact ⟨c, by simp, Nat.le_refl _, Nat.le_refl _⟩

theorem addChunkRev_ends (c : Chunk) (cs : List Chunk) (n : Nat) (hc : c.e ≤ n)
    (h : ∀ x ∈ cs, x.e ≤ n) : ∀ x ∈ addChunkRev c cs, x.e ≤ n := by
  cases cs with
  | nil => intro x hx; simp [addChunkRev] at hx; subst hx; exact hc
  | cons l rest =>
    intro x hx
    rw [addChunkRev_cons] at hx
    by_cases hcond : c.s ≤ l.e
    · rw [if_pos hcond] at hx
      rcases List.mem_cons.mp hx with rfl | hr
      · exact hc
      · exact h x (List.mem_cons_of_mem _ hr)
    · rw [if_neg hcond] at hx
      rcases List.mem_cons.mp hx with rfl | hr
      · exact hc
      · exact h x hr

/-- starts of stored chunks never exceed the next record's start offset -/
structure BinInv2 (off : Nat → Nat) (k : Nat) (bins : Nat → List Chunk) : Prop where
  starts : ∀ b, ∀ c ∈ bins b, c.s ≤ off k

theorem addChunkRev_starts (c : Chunk) (cs : List Chunk) (n : Nat) (hc : c.s ≤ n)
    (h : ∀ x ∈ cs, x.s ≤ n) : ∀ x ∈ addChunkRev c cs, x.s ≤ n := by
  cases cs with
  | nil => intro x hx; simp [addChunkRev] at hx; subst hx; exact hc
  | cons l rest =>
    intro x hx
    rw [addChunkRev_cons] at hx
    by_cases hcond : c.s ≤ l.e
    · rw [if_pos hcond] at hx
      rcases List.mem_cons.mp hx with rfl | hr
      · exact h l (by simp)
      · exact h x (List.mem_cons_of_mem _ hr)
    · rw [if_neg hcond] at hx
      rcases List.mem_cons.mp hx with rfl | hr
      · exact hc
      · exact h x hr

theorem binInv_step (minShift depth : Nat) (off : Nat → Nat) (hmono : ∀ a b, a < b → off a < off b)
    (pre : List Rec) (bins : Nat → List Chunk) (r : Rec)
    (h : BinInv minShift depth off pre bins) (h2 : BinInv2 off pre.length bins) :
    BinInv minShift depth off (pre ++ [r])
      (fun b' => if b' = binOf minShift depth r
        then addChunkRev ⟨off pre.length, off (pre.length+1)⟩ (bins (binOf minShift depth r))
        else bins b') ∧
    BinInv2 off (pre.length + 1)
      (fun b' => if b' = binOf minShift depth r
        then addChunkRev ⟨off pre.length, off (pre.length+1)⟩ (bins (binOf minShift depth r))
        else bins b') := by
  have hlt : off pre.length < off (pre.length + 1) := hmono _ _ (by omega)
  refine ⟨⟨?_, ?_⟩, ⟨?_⟩⟩
  · intro b c hc
    simp only [List.length_append, List.length_singleton]
    split at hc
    · exact addChunkRev_ends _ _ _ (Nat.le_refl _)
        (fun x hx => Nat.le_trans (h.ends _ x hx) (Nat.le_of_lt hlt)) c hc
    · exact Nat.le_trans (h.ends b c hc) (Nat.le_of_lt hlt)
  · intro j hj
    simp only [List.length_append, List.length_singleton] at hj
    by_cases hjp : j < pre.length
    · have hget : (pre ++ [r])[j] = pre[j] := List.getElem_append_left hjp
      rw [hget]
      obtain ⟨c, hc, h1, h2'⟩ := h.cover j hjp
      by_cases hb : binOf minShift depth pre[j] = binOf minShift depth r
      · simp only [hb, if_true]
        rw [hb] at hc
        obtain ⟨l', hl', ha, hb'⟩ := addChunkRev_mem_old ⟨off pre.length, off (pre.length+1)⟩ c _ hc
          (fun x hx => Nat.le_trans (h.ends _ x hx) (Nat.le_of_lt hlt))
        exact ⟨l', hl', Nat.le_trans ha h1, Nat.le_trans h2' hb'⟩
      · simp only [hb, if_false]
        exact ⟨c, hc, h1, h2'⟩
    · have hje : j = pre.length := by omega
      subst hje
      have hget : (pre ++ [r])[pre.length] = r := by simp
      rw [hget]
      simp only [if_true]
      exact addChunkRev_mem_new _ _ (fun x hx => h2.starts _ x hx)
  · intro b c hc
    split at hc
    · exact addChunkRev_starts _ _ _ (Nat.le_of_lt hlt)
        (fun x hx => Nat.le_trans (h2.starts _ x hx) (Nat.le_of_lt hlt)) c hc
    · exact Nat.le_trans (h2.starts b c hc) (Nat.le_of_lt hlt)

theorem buildBins_inv (minShift depth : Nat) (off : Nat → Nat) (hmono : ∀ a b, a < b → off a < off b) :
    ∀ (rest pre : List Rec) (bins : Nat → List Chunk),
      BinInv minShift depth off pre bins → BinInv2 off pre.length bins →
      BinInv minShift depth off (pre ++ rest) (buildBins minShift depth off pre.length bins rest) := by
  intro rest
  induction rest with
  | nil => intro pre bins h _; simpa [buildBins] using h
  | cons r rs ih =>
    intro pre bins h h2
    obtain ⟨h', h2'⟩ := binInv_step minShift depth off hmono pre bins r h h2
    have := ih (pre ++ [r]) _ h' (by simpa using h2')
    simpa [buildBins] using this

/-- **Completeness of a BAI/tabix (linear-index) query.**  For any record list (monotone offsets,
1-based inclusive coordinates), any geometry and any query region `[qs, qe]`, every record that
intersects the region has its start offset inside one of the chunks the query returns. -/
theorem query_complete_linear (minShift depth : Nat) (off : Nat → Nat)
    (hmono : ∀ a b, a < b → off a < off b) (recs : List Rec) (qs qe : Nat)
    (i : Nat) (hi : i < recs.length)
    (hs1 : 1 ≤ recs[i].s) (hse : recs[i].s ≤ recs[i].e) (hq1 : 1 ≤ qs) (hqq : qs ≤ qe)
    (hmax : recs[i].e - 1 < 2^(minShift + depth*3))
    (hov1 : recs[i].s ≤ qe) (hov2 : qs ≤ recs[i].e)
    (cands : List Chunk)
    (hcands : ∀ b c, marked (reg2bins (qs-1) (qe-1) minShift depth) b →
      c ∈ buildBins minShift depth off 0 (fun _ => []) recs b → c ∈ cands) :
    ∃ c' ∈ optimize cands (minOffset (buildLin off 0 [] recs) qs),
      c'.s ≤ off i ∧ off i < c'.e := by
  have hinv := buildBins_inv minShift depth off hmono recs [] (fun _ => [])
    ⟨by simp, by simp⟩ ⟨by simp⟩
  simp only [List.nil_append, List.length_nil] at hinv
  obtain ⟨c, hc, hcs, hce⟩ := hinv.cover i hi
  have hmark : marked (reg2bins (qs-1) (qe-1) minShift depth) (binOf minShift depth recs[i]) := by
    unfold binOf
    exact reg2bin_mem_reg2bins minShift depth (recs[i].s - 1) (recs[i].e - 1) (qs-1) (qe-1)
      (by omega) (by omega) (by omega) hmax
  have hmem := hcands _ c hmark hc
  have hmin := minOffset_sound off hmono recs qs i hi hov2
  have hlt : off i < off (i+1) := hmono _ _ (by omega)
  obtain ⟨c', hc', hcov⟩ := optimize_keeps_coverage cands (minOffset (buildLin off 0 [] recs) qs) (off i)
    ⟨c, hmem, by omega, ⟨hcs, by omega⟩⟩
  exact ⟨c', hc', hcov.1, hcov.2⟩

#print axioms query_complete_linear
end Noodles.Csi
