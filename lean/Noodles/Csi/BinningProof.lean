import Noodles.Csi.Binning
namespace Noodles.Csi

def lvl : Nat → Nat
  | 0 => 0
  | l+1 => lvl l + 8^l

theorem seven_lvl (l : Nat) : 7 * lvl l + 1 = 8^l := by
  induction l with
  | zero => simp [lvl]
  | succ l ih => simp only [lvl, Nat.pow_succ]; omega

theorem shl_eq (l : Nat) : 1 <<< (l*3) = 8^l := by
  rw [Nat.one_shiftLeft, Nat.mul_comm, Nat.pow_mul]

theorem init_t (d : Nat) : ((1 <<< (d*3)) - 1) / 7 = lvl d := by
  rw [shl_eq]; have := seven_lvl d; omega

theorem shr_mono {a b : Nat} (h : a ≤ b) (s : Nat) : a >>> s ≤ b >>> s := by
  simp only [Nat.shiftRight_eq_div_pow]; exact Nat.div_le_div_right h

/-- result of the loop started at level `l` with shift `s`: either some level `j ≤ l`, `j ≥ 1`,
at which beg and end share a bin, or 0. -/
theorem reg2binLoop_spec (beg end_ : Nat) :
    ∀ l s, (reg2binLoop beg end_ l s (lvl l) = 0) ∨
      ∃ j, 1 ≤ j ∧ j ≤ l ∧ beg >>> (s + 3*(l-j)) = end_ >>> (s + 3*(l-j)) ∧
        reg2binLoop beg end_ l s (lvl l) = lvl j + (beg >>> (s + 3*(l-j))) := by
  intro l
  induction l with
  | zero => intro s; left; rfl
  | succ l ih =>
    intro s
    unfold reg2binLoop
    split
    · rename_i h
      right; exact ⟨l+1, by omega, by omega, by simpa using h, by simp⟩
    · have : lvl (l+1) - 1 <<< (l*3) = lvl l := by rw [shl_eq]; simp [lvl]
      rw [this]
      rcases ih (s+3) with h0 | ⟨j, hj1, hjl, heq, hr⟩
      · left; exact h0
      · right
        refine ⟨j, hj1, by omega, ?_, ?_⟩
        · have : s + 3 * (l + 1 - j) = s + 3 + 3 * (l - j) := by omega
          rw [this]; exact heq
        · have : s + 3 * (l + 1 - j) = s + 3 + 3 * (l - j) := by omega
          rw [this]; exact hr

/-- every level `j ∈ [l, depth]` is marked by the loop started at level `l`. -/
theorem reg2binsLoop_marks (beg end_ : Nat) :
    ∀ fuel l s, ∀ j, l ≤ j → j < l + fuel → 3*(j-l) ≤ s →
      (lvl j + (beg >>> (s - 3*(j-l))), lvl j + (end_ >>> (s - 3*(j-l))))
        ∈ reg2binsLoop beg end_ fuel l s (lvl l) := by
  intro fuel
  induction fuel with
  | zero => intro l s j h1 h2; omega
  | succ fuel ih =>
    intro l s j h1 h2 h3
    unfold reg2binsLoop
    by_cases hj : j = l
    · subst hj; simp
    · have hl : lvl l + 1 <<< (l*3) = lvl (l+1) := by rw [shl_eq]; simp [lvl]
      rw [hl]
      have := ih (l+1) (s-3) j (by omega) (by omega) (by omega)
      have e : s - 3 - 3 * (j - (l + 1)) = s - 3 * (j - l) := by omega
      rw [e] at this
      exact List.mem_cons_of_mem _ this

theorem reg2bin_mem_reg2bins (minShift depth fb fe rb re : Nat)
    (hf : fb ≤ fe) (h1 : fb ≤ re) (h2 : rb ≤ fe)
    (hmax : fe < 2^(minShift + depth*3)) :
    marked (reg2bins rb re minShift depth) (reg2bin fb fe minShift depth) := by
  unfold reg2bin reg2bins
  rw [init_t]
  rcases reg2binLoop_spec fb fe depth minShift with h0 | ⟨j, hj1, hjl, heq, hr⟩
  · rw [h0]
    have hm := reg2binsLoop_marks rb re (depth+1) 0 (minShift + depth*3) 0 (by omega) (by omega) (by omega)
    refine ⟨_, hm, ?_, Nat.zero_le _⟩
    simp only [lvl, Nat.sub_zero, Nat.mul_zero, Nat.zero_add]
    have : fe >>> (minShift + depth*3) = 0 := by
      rw [Nat.shiftRight_eq_div_pow]; exact Nat.div_eq_of_lt hmax
    have := shr_mono h2 (minShift + depth*3)
    omega
  · rw [hr]
    have hm := reg2binsLoop_marks rb re (depth+1) 0 (minShift + depth*3) j (by omega) (by omega) (by omega)
    have e : minShift + depth * 3 - 3 * (j - 0) = minShift + 3 * (depth - j) := by omega
    rw [e] at hm
    refine ⟨_, hm, ?_, ?_⟩
    · have := shr_mono h2 (minShift + 3 * (depth - j)); simp only; omega
    · have := shr_mono h1 (minShift + 3 * (depth - j)); simp only; omega

#print axioms reg2bin_mem_reg2bins
end Noodles.Csi
