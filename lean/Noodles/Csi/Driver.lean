import Noodles.Basic.Wire
import Noodles.Csi.Binning
import Noodles.Csi.Chunks
import Noodles.Csi.Linear
import Noodles.Csi.Query
import Noodles.Csi.MinOffset
/-! Line-protocol handlers for the CSI / binning suites (`c17 …`). -/
namespace Noodles.Csi
open Noodles.Wire

/-- merge sorted disjoint inclusive ranges that touch into maximal runs -/
def mergeRuns : List (Nat × Nat) → List (Nat × Nat)
  | [] => []
  | [r] => [r]
  | a :: b :: rest =>
    if a.2 + 1 = b.1 then mergeRuns ((a.1, b.2) :: rest) else a :: mergeRuns (b :: rest)
termination_by l => l.length

def fmtChunks (l : List Chunk) : String := fmtPairs ":" (l.map fun c => (c.s, c.e))

def handle : List String → String
  | ["reg2bin", ms, d, s, e] =>
    match ms.toNat?, d.toNat?, s.toNat?, e.toNat? with
    | some ms, some d, some s, some e => toString (reg2bin (s - 1) (e - 1) ms d)
    | _, _, _, _ => "bad-op"
  | ["reg2bins", ms, d, s, e] =>
    match ms.toNat?, d.toNat?, s.toNat?, e.toNat? with
    | some ms, some d, some s, some e => fmtPairs "-" (mergeRuns (reg2bins (s - 1) (e - 1) ms d))
    | _, _, _, _ => "bad-op"
  | ["optimize", min, cs] =>
    match min.toNat?, pairs cs with
    | some min, some cs => fmtChunks (optimize (cs.map fun p => ⟨p.1, p.2⟩) min)
    | _, _ => "bad-op"
  | ["addchunks", cs] =>
    match pairs cs with
    | some cs => fmtChunks ((cs.foldl (fun acc p => addChunkRev ⟨p.1, p.2⟩ acc) []).reverse)
    | _ => "bad-op"
  | ["minoffset-binned", ms, d, start, ix] =>
    match ms.toNat?, d.toNat?, start.toNat?, pairs ix with
    | some ms, some d, some start, some ix =>
      -- IndexMap::insert on an existing key overwrites the value and keeps the position
      let m : Binned := ix.foldl (fun acc p =>
        if acc.any (·.1 = p.1) then acc.map (fun q => if q.1 = p.1 then (q.1, p.2) else q) else acc ++ [p]) []
      toString (minOffsetBinned m ms d start)
    | _, _, _, _ => "bad-op"
  | ["minoffset-linear", start, lin] =>
    match start.toNat?, nats lin with
    | some start, some lin => toString (minOffset lin start)
    | _, _ => "bad-op"
  | _ => "bad-op"

end Noodles.Csi
