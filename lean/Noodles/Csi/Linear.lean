namespace Noodles.Csi

structure Rec where
  s : Nat
  e : Nat

def W : Nat := 16384

def linUpdate (lin : List Nat) (e cstart : Nat) : List Nat :=
  if (e - 1) / W + 1 > lin.length then lin ++ List.replicate ((e - 1) / W + 1 - lin.length) cstart
  else lin

/-- fold of `LinearIndex::update` over records `k, k+1, …` whose chunk starts are `off k, …` -/
def buildLin (off : Nat → Nat) : Nat → List Nat → List Rec → List Nat
  | _, lin, [] => lin
  | k, lin, r :: rs => buildLin off (k+1) (linUpdate lin r.e (off k)) rs

def minOffset (lin : List Nat) (qs : Nat) : Nat := (lin[(qs - 1) / W]?).getD 0

/-- invariant after processing the prefix `pre` (length `k`) -/
structure LinInv (off : Nat → Nat) (pre : List Rec) (lin : List Nat) : Prop where
  vals : ∀ v ∈ lin, ∃ j, j < pre.length ∧ v = off j
  cover : ∀ j (hj : j < pre.length), ∀ w, w ≤ (pre[j].e - 1) / W → ∃ v, lin[w]? = some v ∧ v ≤ off j

theorem linInv_step (off : Nat → Nat) (hmono : ∀ a b, a < b → off a < off b)
    (pre : List Rec) (lin : List Nat) (r : Rec) (h : LinInv off pre lin) :
    LinInv off (pre ++ [r]) (linUpdate lin r.e (off pre.length)) := by
  constructor
  · intro v hv
    unfold linUpdate at hv
    split at hv
    · rcases List.mem_append.mp hv with hv | hv
      · obtain ⟨j, hj, rfl⟩ := h.vals v hv
        exact ⟨j, by simp; omega, rfl⟩
      · have := List.eq_of_mem_replicate hv
        exact ⟨pre.length, by simp, this⟩
    · obtain ⟨j, hj, rfl⟩ := h.vals v hv
      exact ⟨j, by simp; omega, rfl⟩
  · intro j hj w hw
    simp only [List.length_append, List.length_singleton] at hj
    by_cases hjp : j < pre.length
    · -- old record: entry unchanged (append only)
      have hw' : w ≤ (pre[j].e - 1) / W := by simpa [List.getElem_append_left hjp] using hw
      obtain ⟨v, hv, hle⟩ := h.cover j hjp w hw'
      refine ⟨v, ?_, hle⟩
      unfold linUpdate
      split
      · have hwl : w < lin.length := by
          rcases Nat.lt_or_ge w lin.length with h' | h'
          · exact h'
          · rw [List.getElem?_eq_none h'] at hv; cases hv
        rw [List.getElem?_append_left hwl]; exact hv
      · exact hv
    · -- the new record
      have hje : j = pre.length := by omega
      subst hje
      have hw' : w ≤ (r.e - 1) / W := by simpa using hw
      unfold linUpdate
      split
      · rename_i hgt
        by_cases hwl : w < lin.length
        · rw [List.getElem?_append_left hwl]
          have := List.getElem?_eq_getElem hwl
          refine ⟨lin[w], this, ?_⟩
          obtain ⟨i, hi, hv⟩ := h.vals lin[w] (List.getElem_mem hwl)
          rw [hv]; exact Nat.le_of_lt (hmono _ _ hi)
        · refine ⟨off pre.length, ?_, Nat.le_refl _⟩
          rw [List.getElem?_append_right (by omega)]
          rw [List.getElem?_replicate]; simp; omega
      · rename_i hng
        have hwl : w < lin.length := by omega
        have := List.getElem?_eq_getElem hwl
        refine ⟨lin[w], this, ?_⟩
        obtain ⟨i, hi, hv⟩ := h.vals lin[w] (List.getElem_mem hwl)
        rw [hv]; exact Nat.le_of_lt (hmono _ _ hi)

theorem buildLin_inv (off : Nat → Nat) (hmono : ∀ a b, a < b → off a < off b) :
    ∀ (rest pre : List Rec) (lin : List Nat), LinInv off pre lin →
      LinInv off (pre ++ rest) (buildLin off pre.length lin rest) := by
  intro rest
  induction rest with
  | nil => intro pre lin h; simpa [buildLin] using h
  | cons r rs ih =>
    intro pre lin h
    have := ih (pre ++ [r]) _ (linInv_step off hmono pre lin r h)
    simpa [buildLin] using this

/-- Soundness of linear-index pruning: every record that ends at or after the query start lies at
or after `min_offset` in the file. No sortedness of coordinates is needed. -/
theorem minOffset_sound (off : Nat → Nat) (hmono : ∀ a b, a < b → off a < off b)
    (recs : List Rec) (qs : Nat) (i : Nat) (hi : i < recs.length) (hov : qs ≤ recs[i].e) :
    minOffset (buildLin off 0 [] recs) qs ≤ off i := by
  have hinv := buildLin_inv off hmono recs [] [] ⟨by simp, by simp⟩
  simp only [List.nil_append, List.length_nil] at hinv
  have hw : (qs - 1) / W ≤ (recs[i].e - 1) / W := Nat.div_le_div_right (by omega)
  obtain ⟨v, hv, hle⟩ := hinv.cover i hi _ hw
  unfold minOffset; rw [hv]; simpa using hle

#print axioms minOffset_sound
end Noodles.Csi
