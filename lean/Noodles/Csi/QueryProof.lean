import Noodles.Csi.QueryModel
/-! Helper lemmas for the C04 theorems. -/
namespace Noodles.Csi

/-! ## Part 1: `mergeGo` / `optimize` -/

/-- every chunk of `mergeGo cur rest` starts at or after `cur.s`, and the result is pairwise
disjoint with gaps -/
theorem mergeGo_disjoint (rest : List Chunk) :
    ∀ cur, (∀ n ∈ rest, cur.s ≤ n.s) → rest.Pairwise (fun a b => a.s ≤ b.s) →
      (∀ c ∈ mergeGo cur rest, cur.s ≤ c.s) ∧
      (mergeGo cur rest).Pairwise (fun a b => a.e < b.s) := by
  induction rest with
  | nil =>
    intro cur _ _
    simp [mergeGo]
  | cons n rest ih =>
    intro cur hle hs
    have hs' := List.pairwise_cons.mp hs
    have hcn : cur.s ≤ n.s := hle n (by simp)
    unfold mergeGo
    split
    · rename_i hgt
      obtain ⟨h1, h2⟩ := ih n (fun k hk => hs'.1 k hk) hs'.2
      refine ⟨?_, ?_⟩
      · intro c hc
        rcases List.mem_cons.mp hc with rfl | hc'
        · exact Nat.le_refl _
        · exact Nat.le_trans hcn (h1 c hc')
      · refine List.pairwise_cons.mpr ⟨?_, h2⟩
        intro c hc
        have := h1 c hc
        omega
    · split
      · obtain ⟨h1, h2⟩ := ih ⟨cur.s, n.e⟩ (fun k hk => hle k (List.mem_cons_of_mem _ hk)) hs'.2
        exact ⟨h1, h2⟩
      · obtain ⟨h1, h2⟩ := ih cur (fun k hk => hle k (List.mem_cons_of_mem _ hk)) hs'.2
        exact ⟨h1, h2⟩

/-- `optimize` output is pairwise disjoint (no well-formedness of the input needed) -/
theorem optimize_disjoint (chunks : List Chunk) (min : Nat) :
    (optimize chunks min).Pairwise (fun a b => a.e < b.s) := by
  unfold optimize
  have hsorted := List.pairwise_mergeSort (le := fun a b : Chunk => decide (a.s ≤ b.s))
      (by intro a b c; simp; omega) (by intro a b; simp; omega) (chunks.filter (fun c => c.e > min))
  generalize (chunks.filter (fun c => c.e > min)).mergeSort (fun a b => decide (a.s ≤ b.s)) = l at *
  match l, hsorted with
  | [], _ => exact List.Pairwise.nil
  | d :: rest, hsorted =>
    have hp := List.pairwise_cons.mp hsorted
    exact (mergeGo_disjoint rest d (fun n hn => by simpa using hp.1 n hn)
      (hp.2.imp (by intro a b h; simpa using h))).2

theorem mergeGo_no_new (rest : List Chunk) :
    ∀ cur x, (∃ c ∈ mergeGo cur rest, c.covers x) → cur.covers x ∨ ∃ n ∈ rest, n.covers x := by
  induction rest with
  | nil =>
    intro cur x h
    obtain ⟨c, hc, hx⟩ := h
    simp [mergeGo] at hc
    subst hc; exact Or.inl hx
  | cons n rest ih =>
    intro cur x h
    unfold mergeGo at h
    split at h
    · obtain ⟨c, hc, hx⟩ := h
      rcases List.mem_cons.mp hc with rfl | hc'
      · exact Or.inl hx
      · rcases ih n x ⟨c, hc', hx⟩ with h' | ⟨m, hm, hmx⟩
        · exact Or.inr ⟨n, by simp, h'⟩
        · exact Or.inr ⟨m, List.mem_cons_of_mem _ hm, hmx⟩
    · rename_i hnd
      split at h
      · rename_i hlt
        rcases ih _ x h with h' | ⟨m, hm, hmx⟩
        · have h1 : cur.s ≤ x := h'.1
          have h2 : x < n.e := h'.2
          by_cases hxc : x < cur.e
          · exact Or.inl ⟨h1, hxc⟩
          · exact Or.inr ⟨n, by simp, ⟨by omega, h2⟩⟩
        · exact Or.inr ⟨m, List.mem_cons_of_mem _ hm, hmx⟩
      · rcases ih _ x h with h' | ⟨m, hm, hmx⟩
        · exact Or.inl h'
        · exact Or.inr ⟨m, List.mem_cons_of_mem _ hm, hmx⟩

theorem optimize_no_new (chunks : List Chunk) (min x : Nat)
    (h : ∃ c' ∈ optimize chunks min, c'.covers x) : ∃ c ∈ chunks, c.e > min ∧ c.covers x := by
  unfold optimize at h
  have hperm := List.mergeSort_perm (chunks.filter (fun c => c.e > min)) (fun a b => decide (a.s ≤ b.s))
  have key : ∃ c ∈ (chunks.filter (fun c => c.e > min)).mergeSort (fun a b => decide (a.s ≤ b.s)),
      c.covers x := by
    generalize (chunks.filter (fun c => c.e > min)).mergeSort (fun a b => decide (a.s ≤ b.s)) = l at *
    match l, h with
    | [], h => obtain ⟨c, hc, _⟩ := h; cases hc
    | d :: rest, h =>
      rcases mergeGo_no_new rest d x h with h' | ⟨m, hm, hmx⟩
      · exact ⟨d, by simp, h'⟩
      · exact ⟨m, List.mem_cons_of_mem _ hm, hmx⟩
  obtain ⟨c, hc, hx⟩ := key
  rw [hperm.mem_iff] at hc
  simp at hc
  exact ⟨c, hc.1, hc.2, hx⟩

/-! ## Part 2: soundness of the binned `min_offset` -/

theorem lvl_succ_le {l j : Nat} (h : l < j) : lvl l + 8^l ≤ lvl j := by
  induction j with
  | zero => omega
  | succ j ih =>
    by_cases hlj : l = j
    · subst hlj; simp [lvl]
    · have := ih (by omega)
      simp only [lvl]; exact Nat.le_trans this (Nat.le_add_right _ _)

theorem binEndLoop_spec (minShift depth j k : Nat) (hk : k < 8^j) :
    ∀ fuel l, l ≤ j → j < l + fuel →
      binEndLoop (lvl j + k) minShift depth fuel l (lvl l) (8^l)
        = some ((k+1) <<< (minShift + 3*(depth - j))) := by
  intro fuel
  induction fuel with
  | zero => intro l h1 h2; omega
  | succ fuel ih =>
    intro l h1 h2
    unfold binEndLoop
    by_cases hlj : l = j
    · subst hlj
      have e : lvl l + k - lvl l = k := by omega
      rw [e, if_pos hk]
    · have hlt : l < j := by omega
      have := lvl_succ_le hlt
      have hneg : ¬ (lvl j + k - lvl l < 8^l) := by omega
      rw [if_neg hneg]
      have e1 : lvl l + 8^l = lvl (l+1) := rfl
      have e2 : 8^l * 8 = 8^(l+1) := (Nat.pow_succ ..).symm
      rw [e1, e2]
      exact ih (l+1) (by omega) (by omega)

theorem binEnd_spec (minShift depth j k : Nat) (hj : j ≤ depth) (hk : k < 8^j) :
    binEnd (lvl j + k) minShift depth = some ((k+1) <<< (minShift + 3*(depth - j))) := by
  have := binEndLoop_spec minShift depth j k hk (depth+1) 0 (by omega) (by omega)
  simpa [binEnd, lvl] using this

theorem binEnd_binOf (minShift depth : Nat) (r : Rec) (h1 : 1 ≤ r.s) (h2 : r.s ≤ r.e)
    (h3 : r.e ≤ 2^(minShift + depth*3) - 1) :
    ∃ en, binEnd (binOf minShift depth r) minShift depth = some en ∧ r.e ≤ en := by
  unfold binOf reg2bin
  rw [init_t]
  rcases reg2binLoop_spec (r.s - 1) (r.e - 1) depth minShift with h0 | ⟨j, hj1, hjl, heq, hr⟩
  · rw [h0]
    have := binEnd_spec minShift depth 0 0 (by omega) (by simp)
    simp only [lvl, Nat.add_zero, Nat.sub_zero, Nat.zero_add] at this
    refine ⟨_, this, ?_⟩
    rw [Nat.one_shiftLeft, Nat.mul_comm 3 depth]
    omega
  · rw [hr, heq]
    generalize hsh : minShift + 3 * (depth - j) = sh
    have hpos : 0 < 2^sh := Nat.two_pow_pos sh
    have hpow : 8^j * 2^sh = 2^(minShift + depth*3) := by
      have : (8:Nat)^j = 2^(3*j) := by rw [Nat.pow_mul]
      rw [this, ← Nat.pow_add]
      congr 1; omega
    have hk : (r.e - 1) >>> sh < 8^j := by
      rw [Nat.shiftRight_eq_div_pow, Nat.div_lt_iff_lt_mul hpos, hpow]
      omega
    refine ⟨_, binEnd_spec minShift depth j _ hjl hk, ?_⟩
    rw [hsh, Nat.shiftLeft_eq, Nat.shiftRight_eq_div_pow, Nat.mul_comm]
    have := Nat.lt_mul_div_succ (r.e - 1) hpos
    omega

theorem binnedUpdate_old (ix : Binned) (id c k v : Nat) (h : (k, v) ∈ ix) :
    ∃ v', v' ≤ v ∧ (k, v') ∈ binnedUpdate ix id c := by
  induction ix with
  | nil => cases h
  | cons p rest ih =>
    obtain ⟨k0, v0⟩ := p
    unfold binnedUpdate
    split
    · rename_i hk0
      rcases List.mem_cons.mp h with heq | hr
      · cases heq
        refine ⟨if c < v then c else v, ?_, by simp⟩
        split <;> omega
      · exact ⟨v, Nat.le_refl _, List.mem_cons_of_mem _ hr⟩
    · rcases List.mem_cons.mp h with heq | hr
      · cases heq
        exact ⟨v, Nat.le_refl _, by simp⟩
      · obtain ⟨v', hv', hm⟩ := ih hr
        exact ⟨v', hv', List.mem_cons_of_mem _ hm⟩

theorem binnedUpdate_new (ix : Binned) (id c : Nat) :
    ∃ v', v' ≤ c ∧ (id, v') ∈ binnedUpdate ix id c := by
  induction ix with
  | nil => exact ⟨c, Nat.le_refl _, by simp [binnedUpdate]⟩
  | cons p rest ih =>
    obtain ⟨k0, v0⟩ := p
    unfold binnedUpdate
    split
    · rename_i hk0
      subst hk0
      refine ⟨if c < v0 then c else v0, ?_, by simp⟩
      split <;> omega
    · obtain ⟨v', hv', hm⟩ := ih
      exact ⟨v', hv', List.mem_cons_of_mem _ hm⟩

theorem buildBinned_old (minShift depth : Nat) (off : Nat → Nat) (rest : List Rec) :
    ∀ k (ix : Binned) key v, (key, v) ∈ ix →
      ∃ v', v' ≤ v ∧ (key, v') ∈ buildBinned minShift depth off k ix rest := by
  induction rest with
  | nil => intro k ix key v h; exact ⟨v, Nat.le_refl _, by simpa [buildBinned] using h⟩
  | cons r rs ih =>
    intro k ix key v h
    obtain ⟨v1, hv1, hm1⟩ := binnedUpdate_old ix (binOf minShift depth r) (off k) key v h
    obtain ⟨v2, hv2, hm2⟩ := ih (k+1) _ key v1 hm1
    exact ⟨v2, by omega, by simpa [buildBinned] using hm2⟩

theorem buildBinned_cover (minShift depth : Nat) (off : Nat → Nat) (rest : List Rec) :
    ∀ k (ix : Binned) j (hj : j < rest.length),
      ∃ v, v ≤ off (k + j) ∧
        (binOf minShift depth rest[j], v) ∈ buildBinned minShift depth off k ix rest := by
  induction rest with
  | nil => intro k ix j hj; simp at hj
  | cons r rs ih =>
    intro k ix j hj
    cases j with
    | zero =>
      obtain ⟨v1, hv1, hm1⟩ := binnedUpdate_new ix (binOf minShift depth r) (off k)
      obtain ⟨v2, hv2, hm2⟩ := buildBinned_old minShift depth off rs (k+1) _ _ v1 hm1
      exact ⟨v2, by simp; omega, by simpa [buildBinned] using hm2⟩
    | succ j =>
      obtain ⟨v, hv, hm⟩ := ih (k+1) (binnedUpdate ix (binOf minShift depth r) (off k)) j
        (by simpa using hj)
      have e : k + 1 + j = k + (j + 1) := by omega
      rw [e] at hv
      exact ⟨v, hv, by simpa [buildBinned] using hm⟩

theorem listMin_le (l : List Nat) : ∀ x ∈ l, ∃ m, listMin l = some m ∧ m ≤ x := by
  induction l with
  | nil => intro x hx; cases hx
  | cons y ys ih =>
    intro x hx
    unfold listMin
    rcases List.mem_cons.mp hx with rfl | hx'
    · split
      · exact ⟨x, rfl, Nat.le_refl _⟩
      · rename_i m _
        refine ⟨_, rfl, ?_⟩
        split <;> omega
    · obtain ⟨m, hm, hle⟩ := ih x hx'
      rw [hm]
      refine ⟨_, rfl, ?_⟩
      split <;> omega

theorem listMin_filter_le (l : List (Nat × Nat)) (p : Nat × Nat → Bool) (key v : Nat)
    (hm : (key, v) ∈ l) (hp : p (key, v) = true) :
    (listMin ((l.filter p).map (·.2))).getD 0 ≤ v := by
  have hmem : v ∈ (l.filter p).map (·.2) :=
    List.mem_map.mpr ⟨_, List.mem_filter.mpr ⟨hm, hp⟩, rfl⟩
  obtain ⟨m, hmin, hmle⟩ := listMin_le _ v hmem
  rw [hmin]
  simpa using hmle

theorem minOffsetBinned_sound' (minShift depth : Nat) (off : Nat → Nat) (recs : List Rec)
    (hvalid : ValidRecs minShift depth recs) (qs : Nat) (i : Nat) (hi : i < recs.length)
    (hov : qs ≤ recs[i].e) :
    minOffsetBinned (buildBinned minShift depth off 0 [] recs) minShift depth qs ≤ off i := by
  obtain ⟨h1, h2, h3⟩ := hvalid recs[i] (List.getElem_mem hi)
  obtain ⟨en, hen, hle⟩ := binEnd_binOf minShift depth recs[i] h1 h2 h3
  obtain ⟨v, hv, hm⟩ := buildBinned_cover minShift depth off recs 0 [] i hi
  rw [Nat.zero_add] at hv
  unfold minOffsetBinned
  refine Nat.le_trans (listMin_filter_le _ _ _ v hm ?_) hv
  simp only [hen]
  simp; omega

/-! ## Part 3: query = scan -/

theorem markedB_iff (rs : List (Nat × Nat)) (b : Nat) : markedB rs b = true ↔ marked rs b := by
  unfold markedB marked
  rw [List.any_eq_true]
  constructor
  · rintro ⟨r, hr, h⟩
    simp at h
    exact ⟨r, hr, h.1, h.2⟩
  · rintro ⟨r, hr, h1, h2⟩
    exact ⟨r, hr, by simp [h1, h2]⟩

theorem buildBins_absent (minShift depth : Nat) (off : Nat → Nat) (recs : List Rec) :
    ∀ k (bins : Nat → List Chunk) b, b ∉ presentIds minShift depth recs →
      buildBins minShift depth off k bins recs b = bins b := by
  induction recs with
  | nil => intro k bins b _; rfl
  | cons r rs ih =>
    intro k bins b hb
    simp only [presentIds, List.mem_cons, not_or] at hb
    simp only [buildBins]
    rw [ih _ _ b hb.2]
    simp [hb.1]

theorem mem_candidates (minShift depth : Nat) (off : Nat → Nat) (recs : List Rec) (qs qe : Nat)
    (b : Nat) (c : Chunk) (hm : marked (reg2bins (qs-1) (qe-1) minShift depth) b)
    (hc : c ∈ buildBins minShift depth off 0 (fun _ => []) recs b) :
    c ∈ candidates minShift depth off recs qs qe := by
  unfold candidates
  simp only [List.mem_flatMap, List.mem_filter, List.mem_reverse]
  refine ⟨b, ⟨?_, (markedB_iff _ _).mpr hm⟩, hc⟩
  rw [List.mem_eraseDups]
  apply Classical.byContradiction
  intro hb
  rw [buildBins_absent minShift depth off recs 0 _ b hb] at hc
  cases hc

/-- the candidate chunks contain one that covers record `i` entirely -/
theorem candidates_cover (minShift depth : Nat) (off : Nat → Nat)
    (hmono : ∀ a b, a < b → off a < off b) (recs : List Rec)
    (hvalid : ValidRecs minShift depth recs) (qs qe : Nat) (hq1 : 1 ≤ qs)
    (i : Nat) (hi : i < recs.length) (hov1 : recs[i].s ≤ qe) (hov2 : qs ≤ recs[i].e) :
    ∃ c ∈ candidates minShift depth off recs qs qe, c.s ≤ off i ∧ off (i+1) ≤ c.e := by
  obtain ⟨h1, h2, h3⟩ := hvalid recs[i] (List.getElem_mem hi)
  have hinv := buildBins_inv minShift depth off hmono recs [] (fun _ => [])
    ⟨by simp, by simp⟩ ⟨by simp⟩
  simp only [List.nil_append, List.length_nil] at hinv
  obtain ⟨c, hc, hcs, hce⟩ := hinv.cover i hi
  have hpos : 0 < 2^(minShift + depth*3) := Nat.two_pow_pos _
  have hmark : marked (reg2bins (qs-1) (qe-1) minShift depth) (binOf minShift depth recs[i]) := by
    unfold binOf
    exact reg2bin_mem_reg2bins minShift depth (recs[i].s - 1) (recs[i].e - 1) (qs-1) (qe-1)
      (by omega) (by omega) (by omega) (by omega)
  exact ⟨c, mem_candidates minShift depth off recs qs qe _ c hmark hc, hcs, hce⟩

/-- completeness given ANY sound pruning bound `m` -/
theorem query_complete_of_min (minShift depth : Nat) (off : Nat → Nat)
    (hmono : ∀ a b, a < b → off a < off b) (recs : List Rec)
    (hvalid : ValidRecs minShift depth recs) (qs qe : Nat) (hq1 : 1 ≤ qs)
    (i : Nat) (hi : i < recs.length) (hov1 : recs[i].s ≤ qe) (hov2 : qs ≤ recs[i].e)
    (m : Nat) (hm : m ≤ off i) :
    ∃ c' ∈ optimize (candidates minShift depth off recs qs qe) m, c'.s ≤ off i ∧ off i < c'.e := by
  obtain ⟨c, hc, hcs, hce⟩ :=
    candidates_cover minShift depth off hmono recs hvalid qs qe hq1 i hi hov1 hov2
  have hlt : off i < off (i+1) := hmono _ _ (by omega)
  obtain ⟨c', hc', hcov⟩ := optimize_keeps_coverage (candidates minShift depth off recs qs qe) m (off i)
    ⟨c, hc, by omega, ⟨hcs, by omega⟩⟩
  exact ⟨c', hc', hcov.1, hcov.2⟩

theorem mem_served (off : Nat → Nat) (n : Nat) (cs : List Chunk) (i : Nat) :
    i ∈ served off n cs ↔ i < n ∧ ∃ c ∈ cs, c.s ≤ off i ∧ off i < c.e := by
  unfold served
  simp only [List.mem_flatMap, List.mem_filter, List.mem_range, decide_eq_true_eq]
  constructor
  · rintro ⟨c, hc, hin, h⟩; exact ⟨hin, c, hc, h⟩
  · rintro ⟨hin, c, hc, h⟩; exact ⟨c, hc, hin, h⟩

theorem served_sorted (off : Nat → Nat) (hmono : ∀ a b, a < b → off a < off b) (n : Nat)
    (cs : List Chunk) (hcs : cs.Pairwise (fun a b => a.e < b.s)) :
    (served off n cs).Pairwise (· < ·) := by
  unfold served
  rw [List.pairwise_flatMap]
  refine ⟨fun c _ => List.Pairwise.filter _ List.pairwise_lt_range, ?_⟩
  refine hcs.imp ?_
  intro a b hab x hx y hy
  simp only [List.mem_filter, List.mem_range, decide_eq_true_eq] at hx hy
  rcases Nat.lt_or_ge x y with h | h
  · exact h
  · exfalso
    rcases Nat.eq_or_lt_of_le h with h' | h'
    · subst h'; omega
    · have := hmono _ _ h'; omega

theorem sorted_ext : ∀ (l1 l2 : List Nat), l1.Pairwise (· < ·) → l2.Pairwise (· < ·) →
    (∀ x, x ∈ l1 ↔ x ∈ l2) → l1 = l2 := by
  intro l1
  induction l1 with
  | nil =>
    intro l2 _ _ h
    cases l2 with
    | nil => rfl
    | cons b bs => exact absurd ((h b).mpr (by simp)) (by simp)
  | cons a as ih =>
    intro l2 h1 h2 h
    cases l2 with
    | nil => exact absurd ((h a).mp (by simp)) (by simp)
    | cons b bs =>
      have p1 := List.pairwise_cons.mp h1
      have p2 := List.pairwise_cons.mp h2
      have hab : a = b := by
        rcases List.mem_cons.mp ((h a).mp (by simp)) with e | ha
        · exact e
        · rcases List.mem_cons.mp ((h b).mpr (by simp)) with e | hb
          · exact e.symm
          · have := p1.1 b hb; have := p2.1 a ha; omega
      subst hab
      congr 1
      apply ih bs p1.2 p2.2
      intro x
      constructor
      · intro hx
        rcases List.mem_cons.mp ((h x).mp (List.mem_cons_of_mem _ hx)) with e | hx'
        · have := p1.1 x hx; omega
        · exact hx'
      · intro hx
        rcases List.mem_cons.mp ((h x).mpr (List.mem_cons_of_mem _ hx)) with e | hx'
        · have := p2.1 x hx; omega
        · exact hx'

/-- query = scan for any pruning bound that is sound for every record overlapping the query -/
theorem query_eq_scan_of_min (minShift depth : Nat) (off : Nat → Nat)
    (hmono : ∀ a b, a < b → off a < off b) (recs : List Rec)
    (hvalid : ValidRecs minShift depth recs) (qs qe : Nat) (hq1 : 1 ≤ qs) (m : Nat)
    (hm : ∀ i (hi : i < recs.length), qs ≤ recs[i].e → m ≤ off i) :
    queryRecs (optimize (candidates minShift depth off recs qs qe) m) off recs qs qe
      = scan recs qs qe := by
  unfold queryRecs scan
  apply sorted_ext
  · exact List.Pairwise.filter _ (served_sorted off hmono _ _ (optimize_disjoint _ _))
  · exact List.Pairwise.filter _ List.pairwise_lt_range
  · intro i
    simp only [List.mem_filter, List.mem_range, mem_served]
    constructor
    · rintro ⟨⟨hi, _⟩, hp⟩; exact ⟨hi, hp⟩
    · rintro ⟨hi, hp⟩
      refine ⟨⟨hi, ?_⟩, hp⟩
      rw [List.getElem?_eq_getElem hi] at hp
      simp only [intersects, decide_eq_true_eq] at hp
      exact query_complete_of_min minShift depth off hmono recs hvalid qs qe hq1 i hi hp.1 hp.2 m
        (hm i hi hp.2)

end Noodles.Csi
