import Noodles.Basic.Wire
import Noodles.Csi.Indexer
/-! Line protocol for `c17 reach …`:
`c17 reach <bai|tbi|csi> <min_shift> <depth> <n_ref> <hdr> <calls>` where `<hdr>` is `-` or `vcf:<k>`
(the VCF tabix header with names `s0 … s(k-1)`) and `<calls>` is `-` or a comma-separated list of
`rid:start:end:mapped:cs:ce` / `u:cs:ce` items. Answer: `refused <k>` (the k-th call was refused) or
the canonical dump of the built index, the writer verdict, and what the reader makes of the bytes. -/
namespace Noodles.Csi.Reach
open Noodles.Wire Noodles.Index Noodles.Csi

def parseCall (s : String) : Option Call :=
  match s.splitOn ":" with
  | ["u", a, b] => do pure ⟨none, ⟨← a.toNat?, ← b.toNat?⟩⟩
  | [r, s, e, m, a, b] => do
    pure ⟨some (← r.toNat?, ← s.toNat?, ← e.toNat?, (← m.toNat?) != 0), ⟨← a.toNat?, ← b.toNat?⟩⟩
  | _ => none

def parseCalls (s : String) : Option (List Call) :=
  if s = "-" then some [] else (s.splitOn ",").mapM parseCall

/-- `header::Builder::vcf()` with names `s0 …` -/
def parseHdr (s : String) : Option (Option Header) :=
  if s = "-" then some none else
  match s.splitOn ":" with
  | ["vcf", k] => do
    let k ← k.toNat?
    pure (some ⟨.vcf, 0, 1, none, 35, 0, (List.range k).map fun i => (s!"s{i}").toUTF8.toList⟩)
  | _ => none

/-- run with the index of the refused call -/
def runIdx (linear : Bool) (ms d : Nat) : Nat → St → List Call → Except Nat St
  | _, st, [] => .ok st
  | k, st, c :: cs => match addRecord linear ms d st c with
    | none => .error k
    | some st' => runIdx linear ms d (k+1) st' cs

def rle : List Nat → List (Nat × Nat)
  | [] => []
  | x :: xs => match rle xs with
    | (y, n) :: rest => if x = y then (y, n+1) :: rest else (x, 1) :: (y, n) :: rest
    | [] => [(x, 1)]

def fmtBins (b : Bins) : String :=
  if b.isEmpty then "-" else
  "+".intercalate (b.map fun p => s!"{p.1}[{";".intercalate (p.2.map fun c => s!"{c.s}:{c.e}")}]")

def fmtMeta : Option Meta → String
  | none => "-"
  | some m => s!"{m.refBeg}:{m.refEnd}:{m.nMapped}:{m.nUnmapped}"

def fmtRefLin (r : RefLin) : String :=
  "{b=" ++ fmtBins r.bins ++ " lin=" ++ fmtPairs "*" (rle r.lin) ++ " md=" ++ fmtMeta r.md ++ "}"

def fmtRefCsi (r : RefCsi) : String :=
  "{b=" ++ fmtBins r.bins ++ " idx=" ++ fmtPairs ":" r.index ++ " md=" ++ fmtMeta r.md ++ "}"

def fmtU : Option Nat → String
  | none => "-"
  | some n => toString n

def handle : List String → String
  | [kind, ms, d, nref, hdr, calls] =>
    match ms.toNat?, d.toNat?, nref.toNat?, parseHdr hdr, parseCalls calls with
    | some ms, some d, some nref, some hdr, some calls =>
      match runIdx (kind != "csi") ms d 0 St.init calls with
      | .error k => s!"refused {k}"
      | .ok st =>
        if kind = "bai" then
          let ix := buildBai st nref
          let dump := s!"n={ix.refs.length} u={fmtU ix.unplaced} " ++ " ".intercalate (ix.refs.map fmtRefLin)
          match writeBai ix with
          | none => dump ++ " w=err"
          | some bytes => match readBai bytes with
            | .ok (ix', []) => dump ++ (if ix' = ix then " w=ok rt=eq" else " w=ok rt=ne")
            | .ok _ => dump ++ " w=ok rt=trailing"
            | .error _ => dump ++ " w=ok rt=err"
        else if kind = "tbi" then
          let ix := buildTabix hdr st nref
          let dump := s!"n={ix.refs.length} u={fmtU ix.unplaced} " ++ " ".intercalate (ix.refs.map fmtRefLin)
          match writeTabix ix with
          | none => dump ++ " w=err"
          | some bytes => match readTabix bytes with
            | .ok (ix', []) => dump ++ (if ix' = ix then " w=ok rt=eq" else " w=ok rt=ne")
            | .ok _ => dump ++ " w=ok rt=trailing"
            | .error _ => dump ++ " w=ok rt=err"
        else if kind = "csi" then
          let ix := buildCsi ms d hdr st nref
          let dump := s!"n={ix.refs.length} u={fmtU ix.unplaced} " ++ " ".intercalate (ix.refs.map fmtRefCsi)
          match writeCsi ix with
          | none => dump ++ " w=err"
          | some bytes => match readCsi bytes with
            | .ok (ix', []) => dump ++ " w=ok rt=" ++ (if ix'.header = ix.header then "h" else "H") ++
                s!" n={ix'.refs.length} u={fmtU ix'.unplaced} " ++ " ".intercalate (ix'.refs.map fmtRefCsi)
            | .ok _ => dump ++ " w=ok rt=trailing"
            | .error _ => dump ++ " w=ok rt=err"
        else "bad-op"
    | _, _, _, _, _ => "bad-op"
  | _ => "bad-op"

end Noodles.Csi.Reach
