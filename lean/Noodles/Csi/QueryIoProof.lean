import Noodles.Csi.QueryIo
import Noodles.Bgzf.AsyncReaderProof
/-!
# Helper lemmas for `Noodles.Props.C16` (query readers): `Noodles/Props/C16Query.lean`

Layer 1: the async query reader's poll machine, under every script, computes the sequential reading
`runSeq` (the sync state machine over `seekA` / `fillBufA`).  Layer 2: `runSeq` simulates the sync
query reader over the sync BGZF reader (`Sim`, with exact positions under `NoAdjacentEmpty`).
-/
namespace Noodles.Csi.QueryIo
open Noodles.Bgzf.RM Noodles.Bgzf.Async Noodles.Bgzf.ChunkRead

variable {α : Type}

/-! ### poll_seek -/

def SeekInv (L : Layout α) (c : Nat) (x : ARS α) : Prop :=
  (x.ss = .init ∧ PInv L x.a.r.next x.a.p) ∨ x.ss = .seek0 ∨ x.ss = .seek1 c ∨
  (x.ss = .finish (memberAt L c) ∧ ∀ k, memberAt L c = some k → PInv L k x.a.p)

def SeekSpec (L : Layout α) (c u : Nat) (r : R α) (m : Nat) (res : ARS α × QSched × PSeek) : Prop :=
  res.2.1.measure ≤ m ∧
  (res.2.2 = .pending → res.2.1.measure < m ∧ SeekInv L c res.1 ∧ res.1.a.r = r) ∧
  (res.2.2 = .ok → res.1.ss = .init ∧ PInv L res.1.a.r.next res.1.a.p ∧
    (res.1.a.r, none) = seekA L r c u) ∧
  (∀ e, res.2.2 = .err e → (res.1.a.r, some e) = seekA L r c u) ∧
  res.2.2 ≠ .panic

theorem SeekSpec.mono {L : Layout α} {c u : Nat} {r : R α} {m m' : Nat}
    {res : ARS α × QSched × PSeek} (h : SeekSpec L c u r m res) (hm : m ≤ m') :
    SeekSpec L c u r m' res := by
  obtain ⟨h1, h2, h3, h4, h5⟩ := h
  exact ⟨by omega, fun hp => ⟨by have := (h2 hp).1; omega, (h2 hp).2⟩, h3, h4, h5⟩

theorem seekA_eq_setBlock (L : Layout α) (r : R α) (c u k : Nat) (hm : memberAt L c = some k) :
    seekA L r c u = setBlock k L[k]? c u := by
  simp only [seekA, setBlock, hm]
  cases L[k]? <;> rfl

theorem setBlock_next_some (k : Nat) (b : Blk α) (c u : Nat) :
    (setBlock k (some b) c u).1.next = k + 1 := by
  unfold setBlock; simp only; split <;> rfl

theorem setBlock_next_none (k : Nat) (c u : Nat) :
    (setBlock (α := α) k none c u).1.next = k := by
  unfold setBlock; simp only; split <;> rfl

theorem pollSeek_finish (L : Layout α) (w : Nat) (hw : 1 ≤ w) (n : Nat) (x : ARS α) (qs : QSched)
    (c u : Nat) (hs : x.ss = .finish (memberAt L c))
    (hp : ∀ k, memberAt L c = some k → PInv L k x.a.p) :
    SeekSpec L c u x.a.r qs.measure (pollSeek L w (n+1) x qs c u) := by
  unfold pollSeek
  rw [hs]
  cases hm : memberAt L c with
  | none =>
    simp only
    refine ⟨Nat.le_refl _, (by intro h; cases h), (by intro h; cases h), ?_, (by intro h; cases h)⟩
    intro e he; cases he
    simp only [seekA, hm]
  | some k =>
    simp only
    have hpk := hp k hm
    have hse := seekA_eq_setBlock L x.a.r c u k hm
    obtain ⟨n1, n2, n3, n4⟩ := pollNext_spec L w k hw x.a.p qs.sd hpk
    generalize pollNext L w k x.a.p qs.sd = res at n1 n2 n3 n4
    obtain ⟨p', sd', pr⟩ := res
    cases pr with
    | pending =>
      simp only at n1 n4 ⊢
      obtain ⟨m1, m2⟩ := n4 trivial
      refine ⟨by simp only [QSched.measure]; omega, fun _ => ⟨by simp only [QSched.measure]; omega,
        Or.inr (Or.inr (Or.inr ⟨by rw [hm], fun k' hk' => ?_⟩)), rfl⟩, (by intro h; cases h),
        (by intro e h; cases h), (by intro h; cases h)⟩
      rw [hm] at hk'; cases hk'; exact m2
    | item b =>
      obtain ⟨m1, m2⟩ := n2 b rfl
      simp only at n1 m1 m2 ⊢
      rw [m1] at hse
      have hnext := setBlock_next_some k b c u
      generalize setBlock k (some b) c u = sb at hse hnext ⊢
      obtain ⟨r', oe⟩ := sb
      simp only at hnext
      cases oe with
      | none =>
        simp only
        refine ⟨by simp only [QSched.measure]; omega, (by intro h; cases h),
          fun _ => ⟨rfl, by rw [hnext]; exact m2, hse.symm⟩, (by intro e h; cases h), (by intro h; cases h)⟩
      | some e =>
        simp only
        refine ⟨by simp only [QSched.measure]; omega, (by intro h; cases h), (by intro h; cases h),
          ?_, (by intro h; cases h)⟩
        intro e' he'; cases he'; exact hse.symm
    | done =>
      obtain ⟨m1, m2⟩ := n3 rfl
      simp only at n1 m1 m2 ⊢
      rw [m1] at hse
      have hnext := setBlock_next_none (α := α) k c u
      generalize setBlock k none c u = sb at hse hnext ⊢
      obtain ⟨r', oe⟩ := sb
      simp only at hnext
      cases oe with
      | none =>
        simp only
        refine ⟨by simp only [QSched.measure]; omega, (by intro h; cases h),
          fun _ => ⟨rfl, by rw [hnext]; exact m2, hse.symm⟩, (by intro e h; cases h), (by intro h; cases h)⟩
      | some e =>
        simp only
        refine ⟨by simp only [QSched.measure]; omega, (by intro h; cases h), (by intro h; cases h),
          ?_, (by intro h; cases h)⟩
        intro e' he'; cases he'; exact hse.symm

theorem pollSeek_seek1 (L : Layout α) (w : Nat) (hw : 1 ≤ w) (n : Nat) (x : ARS α) (qs : QSched)
    (c u : Nat) (hs : x.ss = .seek1 c) :
    SeekSpec L c u x.a.r qs.measure (pollSeek L w (n+2) x qs c u) := by
  unfold pollSeek
  rw [hs]
  simp only
  have hfin : ∀ qs' : QSched, SeekSpec L c u x.a.r qs'.measure (pollSeek L w (n+1)
      ⟨⟨x.a.r, ⟨c, (memberAt L c).getD 0, false⟩⟩, .finish (memberAt L c)⟩ qs' c u) := by
    intro qs'
    exact pollSeek_finish L w hw n ⟨⟨x.a.r, ⟨c, (memberAt L c).getD 0, false⟩⟩, .finish (memberAt L c)⟩
      qs' c u rfl (by intro k hk; rw [hk]; exact ⟨by simp, by simp⟩)
  cases hsk : qs.sk with
  | nil => simp only; exact hfin qs
  | cons b sk' =>
    cases b with
    | false =>
      simp only
      refine ⟨by simp only [QSched.measure, hsk, List.length_cons]; omega,
        fun _ => ⟨by simp only [QSched.measure, hsk, List.length_cons]; omega,
          Or.inr (Or.inr (Or.inl hs)), rfl⟩,
        (by intro h; cases h), (by intro e h; cases h), (by intro h; cases h)⟩
    | true =>
      simp only
      exact (hfin { qs with sk := sk' }).mono (by simp only [QSched.measure, hsk, List.length_cons]; omega)

theorem pollSeek_seek0 (L : Layout α) (w : Nat) (hw : 1 ≤ w) (n : Nat) (x : ARS α) (qs : QSched)
    (c u : Nat) (hs : x.ss = .seek0) :
    SeekSpec L c u x.a.r qs.measure (pollSeek L w (n+3) x qs c u) := by
  unfold pollSeek
  rw [hs]
  simp only
  have hnx : ∀ qs' : QSched, SeekSpec L c u x.a.r qs'.measure (pollSeek L w (n+2)
      { x with ss := .seek1 c } qs' c u) := by
    intro qs'
    exact pollSeek_seek1 L w hw n { x with ss := .seek1 c } qs' c u rfl
  cases hsk : qs.sk with
  | nil => simp only; exact hnx qs
  | cons b sk' =>
    cases b with
    | false =>
      simp only
      refine ⟨by simp only [QSched.measure, hsk, List.length_cons]; omega,
        fun _ => ⟨by simp only [QSched.measure, hsk, List.length_cons]; omega,
          Or.inr (Or.inl hs), rfl⟩,
        (by intro h; cases h), (by intro e h; cases h), (by intro h; cases h)⟩
    | true =>
      simp only
      exact (hnx { qs with sk := sk' }).mono (by simp only [QSched.measure, hsk, List.length_cons]; omega)

theorem pollSeek_init (L : Layout α) (w : Nat) (hw : 1 ≤ w) (n : Nat) (x : ARS α) (qs : QSched)
    (c u : Nat) (hs : x.ss = .init) :
    SeekSpec L c u x.a.r qs.measure (pollSeek L w (n+4) x qs c u) := by
  unfold pollSeek
  rw [hs]
  simp only
  exact pollSeek_seek0 L w hw n { x with ss := .seek0 } qs c u rfl

theorem pollSeek_spec (L : Layout α) (w : Nat) (hw : 1 ≤ w) (x : ARS α) (qs : QSched)
    (c u : Nat) (h : SeekInv L c x) :
    SeekSpec L c u x.a.r qs.measure (pollSeek L w 5 x qs c u) := by
  rcases h with ⟨h, _⟩ | h | h | ⟨h, hp⟩
  · exact pollSeek_init L w hw 1 x qs c u h
  · exact pollSeek_seek0 L w hw 2 x qs c u h
  · exact pollSeek_seek1 L w hw 3 x qs c u h
  · exact pollSeek_finish L w hw 4 x qs c u h hp

/-! ### the chunk-end test across a `Pending` -/

theorem skip_trans (L : Layout α) (s s' s'' : R α) (h1 : Skip L s s') (h2 : Skip L s' s'') :
    Skip L s s'' := by
  induction h1 with
  | refl => exact h2
  | step s b s' hb h0 _ ih => exact Skip.step s b _ hb h0 (ih h2)

theorem skip_vlt (L : Layout α) (s s' : R α) (h : Skip L s s') (hi : Inv L s)
    (hr : hasRemaining s = false) (ce : VPos) (he : EndOk L ce) :
    vlt (tell s') ce = vlt (tell s) ce := by
  induction h with
  | refl s => rfl
  | step s b s' hb h0 _ ih =>
    have hia := absorb_inv L s b hi hb
    have hra := absorb_noRem s b h0
    rw [ih hia hra]
    have t1 : tell s = (coff L s.next, 0) := by
      rw [tell_exhausted L s hi (by simpa [hasRemaining] using hr), hi.pos]
    have t2 : tell (absorb s b) = (coff L (s.next + 1), 0) := by
      rw [tell_exhausted L _ hia (by simpa [hasRemaining] using hra), hia.pos]; rfl
    rw [t1, t2]
    exact (he s.next b hb (by omega)).symm

theorem seekA_inv (L : Layout α) (r : R α) (c u : Nat) (hi : Inv L r) : Inv L (seekA L r c u).1 := by
  unfold seekA
  cases hm : memberAt L c with
  | none => exact hi
  | some k =>
    simp only
    obtain ⟨hk, hc⟩ := memberAt_some L c k hm
    have hi0 : Inv L (⟨k, c, c, 0, [], 0⟩ : R α) :=
      ⟨hc.symm, hk, Nat.le_refl _, rfl, Or.inr rfl⟩
    cases hb : L[k]? with
    | none =>
      simp only
      split
      · exact hi0
      · rename_i hu
        exact setCur_inv L _ u hi0 (by simp only [] at hu ⊢; omega)
    | some b =>
      have hia : Inv L (⟨k + 1, c + b.csize, c, b.csize, b.data, 0⟩ : R α) :=
        absorb_inv L ⟨k, c, c, 0, [], 0⟩ b hi0 (by simpa using hb)
      simp only
      split
      · exact hia
      · rename_i hu
        exact setCur_inv L _ u hia (by simp only [] at hu ⊢; omega)

theorem fillBufA_inv (L : Layout α) (s : R α) (hi : Inv L s) : Inv L (fillBufA L s).1 := by
  unfold fillBufA
  split
  · exact hi
  · exact readBlockA_inv L s hi

/-! ### the sequential state machine: fuel independence -/

def wS : SSt → Nat | .seek => 2 | .read _ => 3 | .done => 1
def wA : ASt → Nat | .seek => 2 | .seeking _ => 4 | .read _ => 3 | .done => 1

theorem fillBufG_fuel (seekF : R α → Nat → Nat → R α × Option Err) (fillF : R α → R α × List α)
    (f1 f2 : Nat) (sq : SQ α) (h1 : 2 * sq.chunks.length + wS sq.st ≤ f1)
    (h2 : 2 * sq.chunks.length + wS sq.st ≤ f2) :
    fillBufG seekF fillF f1 sq = fillBufG seekF fillF f2 sq := by
  induction f1 generalizing f2 sq with
  | zero => cases hst : sq.st <;> rw [hst] at h1 <;> simp only [wS] at h1 <;> omega
  | succ f1 ih =>
    cases f2 with
    | zero => cases hst : sq.st <;> rw [hst] at h2 <;> simp only [wS] at h2 <;> omega
    | succ f2 =>
      obtain ⟨r, chunks, st⟩ := sq
      cases st with
      | seek =>
        cases chunks with
        | nil =>
          simp only [fillBufG]
          apply ih <;> simp only [wS, List.length_nil] at * <;> omega
        | cons c cs =>
          simp only [fillBufG]
          generalize seekF r c.s.1 c.s.2 = sk
          obtain ⟨r', oe⟩ := sk
          cases oe with
          | none =>
            simp only
            apply ih <;> simp only [wS, List.length_cons] at * <;> omega
          | some e => rfl
      | read ce =>
        simp only [fillBufG]
        split
        · rfl
        · apply ih <;> simp only [wS] at * <;> omega
      | done => simp only [fillBufG]

def FS (L : Layout α) (sq : SQ α) : SQ α × Except Err (List α) :=
  fillBufG (seekA L) (fillBufA L) (qFuel sq.chunks) sq

theorem FS_eq (L : Layout α) (sq : SQ α) (f : Nat) (h : 2 * sq.chunks.length + wS sq.st ≤ f) :
    fillBufG (seekA L) (fillBufA L) f sq = FS L sq :=
  fillBufG_fuel _ _ _ _ _ h (by unfold qFuel; cases sq.st <;> simp only [wS] <;> omega)

theorem FS_unfold (L : Layout α) (sq : SQ α) :
    FS L sq = fillBufG (seekA L) (fillBufA L) ((2 * sq.chunks.length + 2) + 1) sq := rfl

theorem FS_seek_nil (L : Layout α) (r : R α) : FS L ⟨r, [], .seek⟩ = FS L ⟨r, [], .done⟩ := by
  rw [FS_unfold, fillBufG]
  simp only
  exact FS_eq L _ _ (by simp only [wS, List.length_nil]; omega)

theorem FS_seek_cons_ok (L : Layout α) (r r' : R α) (c : Chunk) (cs : List Chunk)
    (h : seekA L r c.s.1 c.s.2 = (r', none)) :
    FS L ⟨r, c :: cs, .seek⟩ = FS L ⟨r', cs, .read c.e⟩ := by
  rw [FS_unfold, fillBufG]
  simp only [h]
  exact FS_eq L _ _ (by simp only [wS, List.length_cons]; omega)

theorem FS_seek_cons_err (L : Layout α) (r r' : R α) (c : Chunk) (cs : List Chunk) (e : Err)
    (h : seekA L r c.s.1 c.s.2 = (r', some e)) :
    FS L ⟨r, c :: cs, .seek⟩ = (⟨r', cs, .seek⟩, .error e) := by
  rw [FS_unfold, fillBufG]
  simp only [h]

theorem FS_read_lt (L : Layout α) (r : R α) (cs : List Chunk) (ce : VPos)
    (h : vlt (tell r) ce = true) :
    FS L ⟨r, cs, .read ce⟩ = (⟨(fillBufA L r).1, cs, .read ce⟩, .ok (fillBufA L r).2) := by
  rw [FS_unfold, fillBufG]
  simp only [h, if_true]

theorem FS_read_ge (L : Layout α) (r : R α) (cs : List Chunk) (ce : VPos)
    (h : vlt (tell r) ce = false) :
    FS L ⟨r, cs, .read ce⟩ = FS L ⟨r, cs, .seek⟩ := by
  rw [FS_unfold, fillBufG]
  simp only [h, Bool.false_eq_true, if_false]
  exact FS_eq L _ _ (by simp only [wS]; omega)

theorem FS_done (L : Layout α) (r : R α) (cs : List Chunk) :
    FS L ⟨r, cs, .done⟩ = (⟨r, cs, .done⟩, .ok []) := by
  rw [FS_unfold, fillBufG]

/-! ### one poll of the async query reader against the sequential state machine -/

structure SQOk (L : Layout α) (sq : SQ α) : Prop where
  inv : Inv L sq.r
  ch : ∀ c ∈ sq.chunks, EndOk L c.e
  rd : ∀ ce, sq.st = .read ce → EndOk L ce

def QRel (L : Layout α) (q : AQ α) (sq : SQ α) : Prop :=
  match q.st with
  | .seek => sq.st = .seek ∧ sq.chunks = q.chunks ∧ q.x.a.r = sq.r ∧ q.x.ss = .init ∧
      PInv L q.x.a.r.next q.x.a.p
  | .done => sq.st = .done ∧ sq.chunks = q.chunks ∧ q.x.a.r = sq.r ∧ q.x.ss = .init ∧
      PInv L q.x.a.r.next q.x.a.p
  | .seeking c => sq.st = .seek ∧ sq.chunks = c :: q.chunks ∧ q.x.a.r = sq.r ∧ SeekInv L c.s.1 q.x
  | .read ce => sq.st = .read ce ∧ sq.chunks = q.chunks ∧ q.x.ss = .init ∧
      PInv L q.x.a.r.next q.x.a.p ∧
      (q.x.a.r = sq.r ∨ (hasRemaining sq.r = false ∧ Skip L sq.r q.x.a.r ∧ vlt (tell sq.r) ce = true))

theorem QRel_seek (L : Layout α) (x : ARS α) (cs : List Chunk) (sq : SQ α) :
    QRel L ⟨x, cs, .seek⟩ sq ↔ (sq.st = .seek ∧ sq.chunks = cs ∧ x.a.r = sq.r ∧ x.ss = .init ∧
      PInv L x.a.r.next x.a.p) := Iff.rfl
theorem QRel_done (L : Layout α) (x : ARS α) (cs : List Chunk) (sq : SQ α) :
    QRel L ⟨x, cs, .done⟩ sq ↔ (sq.st = .done ∧ sq.chunks = cs ∧ x.a.r = sq.r ∧ x.ss = .init ∧
      PInv L x.a.r.next x.a.p) := Iff.rfl
theorem QRel_seeking (L : Layout α) (x : ARS α) (cs : List Chunk) (c : Chunk) (sq : SQ α) :
    QRel L ⟨x, cs, .seeking c⟩ sq ↔ (sq.st = .seek ∧ sq.chunks = c :: cs ∧ x.a.r = sq.r ∧
      SeekInv L c.s.1 x) := Iff.rfl
theorem QRel_read (L : Layout α) (x : ARS α) (cs : List Chunk) (ce : VPos) (sq : SQ α) :
    QRel L ⟨x, cs, .read ce⟩ sq ↔ (sq.st = .read ce ∧ sq.chunks = cs ∧ x.ss = .init ∧
      PInv L x.a.r.next x.a.p ∧
      (x.a.r = sq.r ∨ (hasRemaining sq.r = false ∧ Skip L sq.r x.a.r ∧ vlt (tell sq.r) ce = true))) :=
  Iff.rfl

def PollSpec (L : Layout α) (sq : SQ α) (m : Nat) (res : AQ α × QSched × QPoll α) : Prop :=
  res.2.1.measure ≤ m ∧
  (res.2.2 = .pending → res.2.1.measure < m ∧
    ∃ sq', FS L sq' = FS L sq ∧ QRel L res.1 sq' ∧ SQOk L sq') ∧
  (∀ bs, res.2.2 = .ready bs →
    ∃ sq', FS L sq = (sq', .ok bs) ∧ QRel L res.1 sq' ∧ res.1.x.a.r = sq'.r ∧ SQOk L sq') ∧
  (∀ e, res.2.2 = .err e → ∃ sq', FS L sq = (sq', .error e) ∧ res.1.x.a.r = sq'.r) ∧
  res.2.2 ≠ .panic

theorem PollSpec.trans {L : Layout α} {sq sq0 : SQ α} {m m' : Nat} {res : AQ α × QSched × QPoll α}
    (h : PollSpec L sq m res) (he : FS L sq = FS L sq0) (hm : m ≤ m') : PollSpec L sq0 m' res := by
  obtain ⟨h1, h2, h3, h4, h5⟩ := h
  refine ⟨by omega, ?_, ?_, ?_, h5⟩
  · intro hp
    obtain ⟨a, sq', b, c, d⟩ := h2 hp
    exact ⟨by omega, sq', by rw [b, he], c, d⟩
  · intro bs hb
    obtain ⟨sq', a, b⟩ := h3 bs hb
    exact ⟨sq', by rw [← he, a], b⟩
  · intro e hb
    obtain ⟨sq', a, b⟩ := h4 e hb
    exact ⟨sq', by rw [← he, a], b⟩

theorem pollFillQ_spec (L : Layout α) (w : Nat) (hw : 1 ≤ w) (fuel : Nat) (q : AQ α) (qs : QSched)
    (sq : SQ α) (hrel : QRel L q sq) (hok : SQOk L sq)
    (hf : 3 * q.chunks.length + wA q.st ≤ fuel) :
    PollSpec L sq qs.measure (pollFillQ L w fuel q qs) := by
  induction fuel generalizing q qs sq with
  | zero => cases hst : q.st <;> rw [hst] at hf <;> simp only [wA] at hf <;> omega
  | succ fuel ih =>
    obtain ⟨x, chunks', st⟩ := q
    obtain ⟨r, chunks, sst⟩ := sq
    cases st with
    | seek =>
      simp only [QRel] at hrel
      obtain ⟨h1, h2, h3, h4, h5⟩ := hrel
      subst h1 h2 h3
      cases chunks with
      | nil =>
        rw [pollFillQ]
        simp only
        exact (ih ⟨x, [], .done⟩ qs ⟨x.a.r, [], .done⟩
          ((QRel_done L _ _ _).2 ⟨rfl, rfl, rfl, h4, h5⟩)
          ⟨hok.inv, hok.ch, (by intro ce h; cases h)⟩
          (by simp only [wA, List.length_nil] at hf ⊢; omega)).trans
            (FS_seek_nil L _).symm (Nat.le_refl _)
      | cons c cs =>
        rw [pollFillQ]
        simp only
        exact ih ⟨x, cs, .seeking c⟩ qs ⟨x.a.r, c :: cs, .seek⟩
          ((QRel_seeking L _ _ _ _).2 ⟨rfl, rfl, rfl, Or.inl ⟨h4, h5⟩⟩) hok
          (by simp only [wA, List.length_cons] at hf ⊢; omega)
    | seeking c =>
      simp only [QRel] at hrel
      obtain ⟨h1, h2, h3, h4⟩ := hrel
      subst h1 h2 h3
      rw [pollFillQ]
      simp only
      obtain ⟨s1, s2, s3, s4, s5⟩ := pollSeek_spec L w hw x qs c.s.1 c.s.2 h4
      generalize pollSeek L w 5 x qs c.s.1 c.s.2 = res at s1 s2 s3 s4 s5
      obtain ⟨x', qs', pr⟩ := res
      cases pr with
      | pending =>
        simp only at s1 s2 ⊢
        obtain ⟨p1, p2, p3⟩ := s2 trivial
        exact ⟨s1, fun _ => ⟨p1, ⟨x.a.r, c :: chunks', .seek⟩, rfl,
          (QRel_seeking L _ _ _ _).2 ⟨rfl, rfl, p3, p2⟩, hok⟩,
          (by intro bs h; cases h), (by intro e h; cases h), (by intro h; cases h)⟩
      | panic => exact absurd rfl s5
      | err e =>
        simp only at s1 s4 ⊢
        have hs := s4 e rfl
        refine ⟨s1, (by intro h; cases h), (by intro bs h; cases h), ?_, (by intro h; cases h)⟩
        intro e' he'
        cases he'
        exact ⟨⟨x'.a.r, chunks', .seek⟩, FS_seek_cons_err L _ _ _ _ _ hs.symm, rfl⟩
      | ok =>
        simp only at s1 s3 ⊢
        obtain ⟨o1, o2, o3⟩ := s3 trivial
        have hinv : Inv L x'.a.r := by
          have := seekA_inv L x.a.r c.s.1 c.s.2 hok.inv
          rw [← o3] at this
          exact this
        exact (ih ⟨x', chunks', .read c.e⟩ qs' ⟨x'.a.r, chunks', .read c.e⟩
          ((QRel_read L _ _ _ _).2 ⟨rfl, rfl, o1, o2, Or.inl rfl⟩)
          ⟨hinv, fun c' hc' => hok.ch c' (List.mem_cons_of_mem _ hc'),
            by intro ce h; cases h; exact hok.ch c (List.mem_cons_self ..)⟩
          (by simp only [wA] at hf ⊢; omega)).trans
            (FS_seek_cons_ok L _ _ _ _ o3.symm).symm s1
    | read ce =>
      simp only [QRel] at hrel
      obtain ⟨h1, h2, h3, h4, h5⟩ := hrel
      subst h1 h2
      rw [pollFillQ]
      simp only
      have hv : vlt (tell x.a.r) ce = vlt (tell r) ce := by
        rcases h5 with h5 | ⟨a, b, _⟩
        · rw [h5]
        · exact skip_vlt L r x.a.r b hok.inv a ce (hok.rd ce rfl)
      have hfb : vlt (tell r) ce = true → fillBufA L x.a.r = fillBufA L r := by
        intro _
        rcases h5 with h5 | ⟨a, b, _⟩
        · rw [h5]
        · exact skip_fillBufA L r x.a.r b a
      cases hvr : vlt (tell r) ce with
      | true =>
        rw [hv, hvr]
        simp only [if_true]
        obtain ⟨f1, f2, f3, f4⟩ := pollFillBuf_spec L w hw (fbFuel L x.a) x.a qs.sd h4 (fbFuel_ok L x.a)
        generalize pollFillBuf L w (fbFuel L x.a) x.a qs.sd = res at f1 f2 f3 f4
        obtain ⟨a', sd', pr⟩ := res
        cases pr with
        | pending =>
          simp only at f1 f2 f3 ⊢
          obtain ⟨g1, g2, g3⟩ := f3 trivial
          refine ⟨by simp only [QSched.measure]; omega, fun _ => ⟨by simp only [QSched.measure]; omega,
            ⟨r, chunks, .read ce⟩, rfl, ?_, hok⟩,
            (by intro bs h; cases h), (by intro e h; cases h), (by intro h; cases h)⟩
          refine (QRel_read L _ _ _ _).2 ⟨rfl, rfl, h3, f2, Or.inr ?_⟩
          rcases h5 with h5 | ⟨a, b, _⟩
          · rw [← h5]; exact ⟨g2, g3, by rw [h5]; exact hvr⟩
          · exact ⟨a, skip_trans L _ _ _ b g3, hvr⟩
        | ready bs =>
          simp only at f1 f2 f4 ⊢
          have hfa := f4 bs rfl
          rw [hfb hvr] at hfa
          refine ⟨by simp only [QSched.measure]; omega, (by intro h; cases h), ?_,
            (by intro e h; cases h), (by intro h; cases h)⟩
          intro bs' hbs'
          cases hbs'
          have e1 : a'.r = (fillBufA L r).1 := by rw [← hfa]
          have e2 : bs = (fillBufA L r).2 := by rw [← hfa]
          refine ⟨⟨(fillBufA L r).1, chunks, .read ce⟩, ?_, ?_, e1, ?_⟩
          · rw [FS_read_lt L r chunks ce hvr, e2]
          · exact (QRel_read L _ _ _ _).2 ⟨rfl, rfl, h3, f2, Or.inl e1⟩
          · exact ⟨fillBufA_inv L r hok.inv, hok.ch, hok.rd⟩
      | false =>
        rw [hv, hvr]
        simp only [Bool.false_eq_true, if_false]
        rcases h5 with h5 | ⟨_, _, c⟩
        · subst h5
          exact (ih ⟨x, chunks, .seek⟩ qs ⟨x.a.r, chunks, .seek⟩
            ((QRel_seek L _ _ _).2 ⟨rfl, rfl, rfl, h3, h4⟩)
            ⟨hok.inv, hok.ch, (by intro ce h; cases h)⟩
            (by simp only [wA] at hf ⊢; omega)).trans
              (FS_read_ge L _ _ _ hvr).symm (Nat.le_refl _)
        · rw [hvr] at c; cases c
    | done =>
      have hrel' := hrel
      simp only [QRel] at hrel
      obtain ⟨h1, h2, h3, h4, h5⟩ := hrel
      subst h1 h2 h3
      rw [pollFillQ]
      simp only
      refine ⟨Nat.le_refl _, (by intro h; cases h), ?_, (by intro e h; cases h), (by intro h; cases h)⟩
      intro bs h
      cases h
      exact ⟨_, FS_done L _ _, hrel', rfl, hok⟩

/-! ### the future, and the consumer -/

theorem qFuelA_ok (q : AQ α) : 3 * q.chunks.length + wA q.st ≤ qFuelA q.chunks := by
  unfold qFuelA; cases q.st <;> simp only [wA] <;> omega

theorem driveFillQ_spec (L : Layout α) (w : Nat) (hw : 1 ≤ w) (fuel : Nat) (q : AQ α) (qs : QSched)
    (sq : SQ α) (hrel : QRel L q sq) (hok : SQOk L sq) (hf : qs.measure < fuel) :
    (∀ bs, (driveFillQ L w fuel q qs).2.2 = .bytes bs →
      ∃ sq', FS L sq = (sq', .ok bs) ∧ QRel L (driveFillQ L w fuel q qs).1 sq' ∧
        (driveFillQ L w fuel q qs).1.x.a.r = sq'.r ∧ SQOk L sq') ∧
    (∀ e, (driveFillQ L w fuel q qs).2.2 = .err e →
      ∃ sq', FS L sq = (sq', .error e) ∧ (driveFillQ L w fuel q qs).1.x.a.r = sq'.r) ∧
    (driveFillQ L w fuel q qs).2.2 ≠ .panic ∧ (driveFillQ L w fuel q qs).2.2 ≠ .starved := by
  induction fuel generalizing q qs sq with
  | zero => omega
  | succ fuel ih =>
    rw [driveFillQ]
    obtain ⟨s1, s2, s3, s4, s5⟩ := pollFillQ_spec L w hw (qFuelA q.chunks) q qs sq hrel hok (qFuelA_ok q)
    generalize pollFillQ L w (qFuelA q.chunks) q qs = res at s1 s2 s3 s4 s5
    obtain ⟨q', qs', pr⟩ := res
    cases pr with
    | pending =>
      simp only at s1 s2 ⊢
      obtain ⟨p1, sq', p2, p3, p4⟩ := s2 trivial
      have := ih q' qs' sq' p3 p4 (by omega)
      rw [p2] at this
      exact this
    | ready bs =>
      simp only at s3 ⊢
      refine ⟨?_, (by intro e h; cases h), (by intro h; cases h), (by intro h; cases h)⟩
      intro bs' h
      cases h
      exact s3 bs rfl
    | err e =>
      simp only at s4 ⊢
      refine ⟨(by intro bs h; cases h), ?_, (by intro h; cases h), (by intro h; cases h)⟩
      intro e' h
      cases h
      exact s4 e rfl
    | panic => exact absurd rfl s5

theorem SeekInv_consume (L : Layout α) (c n : Nat) (x : ARS α) (h : SeekInv L c x) :
    SeekInv L c ⟨⟨consume n x.a.r, x.a.p⟩, x.ss⟩ := by
  rcases h with ⟨h, hp⟩ | h | h | ⟨h, hp⟩
  · exact Or.inl ⟨h, hp⟩
  · exact Or.inr (Or.inl h)
  · exact Or.inr (Or.inr (Or.inl h))
  · exact Or.inr (Or.inr (Or.inr ⟨h, hp⟩))

theorem QRel_consume (L : Layout α) (n : Nat) (q : AQ α) (sq : SQ α) (h : QRel L q sq)
    (hr : q.x.a.r = sq.r) : QRel L (q.consume n) { sq with r := consume n sq.r } := by
  obtain ⟨x, chunks, st⟩ := q
  obtain ⟨r, sch, sst⟩ := sq
  simp only at hr
  subst hr
  cases st with
  | seek =>
    simp only [QRel] at h
    exact ⟨h.1, h.2.1, rfl, h.2.2.2.1, h.2.2.2.2⟩
  | done =>
    simp only [QRel] at h
    exact ⟨h.1, h.2.1, rfl, h.2.2.2.1, h.2.2.2.2⟩
  | seeking c =>
    simp only [QRel] at h
    exact ⟨h.1, h.2.1, rfl, SeekInv_consume L _ n x h.2.2.2⟩
  | read ce =>
    simp only [QRel] at h
    exact ⟨h.1, h.2.1, h.2.2.1, h.2.2.2.1, Or.inl rfl⟩

theorem runAQ_spec (L : Layout α) (w : Nat) (hw : 1 ≤ w) (ns : List Nat) (q : AQ α) (qs : QSched)
    (sq : SQ α) (hrel : QRel L q sq) (hr : q.x.a.r = sq.r) (hok : SQOk L sq) :
    (runAQ L w q qs ns).1 = (runG (seekA L) (fillBufA L) sq ns).1 ∧
    (runAQ L w q qs ns).2.a.r = (runG (seekA L) (fillBufA L) sq ns).2 := by
  induction ns generalizing q qs sq with
  | nil => exact ⟨rfl, hr⟩
  | cons n ns ih =>
    rw [runAQ, runG]
    obtain ⟨d1, d2, d3, d4⟩ := driveFillQ_spec L w hw (qs.measure + 1) q qs sq hrel hok (by omega)
    generalize driveFillQ L w (qs.measure + 1) q qs = res at d1 d2 d3 d4
    obtain ⟨q', qs', o⟩ := res
    cases o with
    | bytes bs =>
      simp only at d1 ⊢
      obtain ⟨sq', e1, e2, e3, e4⟩ := d1 bs rfl
      have e1' : fillBufG (seekA L) (fillBufA L) (qFuel sq.chunks) sq = (sq', .ok bs) := e1
      rw [e1']
      simp only
      obtain ⟨i1, i2⟩ := ih (q'.consume (min n bs.length)) qs' { sq' with r := consume (min n bs.length) sq'.r }
        (QRel_consume L _ q' sq' e2 e3) (by simp only [AQ.consume]; rw [e3])
        ⟨consume_inv L _ _ e4.inv, e4.ch, e4.rd⟩
      exact ⟨by rw [i1], i2⟩
    | err e =>
      simp only at d2 ⊢
      obtain ⟨sq', e1, e3⟩ := d2 e rfl
      have e1' : fillBufG (seekA L) (fillBufA L) (qFuel sq.chunks) sq = (sq', .error e) := e1
      rw [e1']
      exact ⟨rfl, e3⟩
    | starved => exact absurd rfl d4
    | panic => exact absurd rfl d3

/-- Layer 1 -/
theorem runA_eq_seq (L : Layout α) (w : Nat) (hw : 1 ≤ w) (a : AR α) (hi : Inv L a.r)
    (hp : PInv L a.r.next a.p) (chunks : List Chunk) (hce : ∀ c ∈ chunks, EndOk L c.e)
    (ns : List Nat) (qs : QSched) :
    (runA L w a qs chunks ns).1 = (runSeq L a.r chunks ns).1 ∧
    (runA L w a qs chunks ns).2.a.r = (runSeq L a.r chunks ns).2 := by
  unfold runA runSeq
  exact runAQ_spec L w hw ns (AQ.new ⟨a, .init⟩ chunks) qs (SQ.new a.r chunks)
    ((QRel_seek L _ _ _).2 ⟨rfl, rfl, rfl, rfl, hp⟩) rfl
    ⟨hi, hce, (by intro ce h; cases h)⟩

end Noodles.Csi.QueryIo
