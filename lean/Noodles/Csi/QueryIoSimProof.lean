import Noodles.Csi.QueryIo
import Noodles.Bgzf.AsyncReaderProof
/-!
# Helper lemmas for `Noodles.Props.C16` (query readers): `Noodles/Props/C16Query.lean`

Layer 1: the async query reader's poll machine, under every script, computes the sequential reading
`runSeq` (the sync state machine over `seekA` / `fillBufA`).  Layer 2: `runSeq` simulates the sync
query reader over the sync BGZF reader (`Sim`, with exact positions under `NoAdjacentEmpty`).
-/
namespace Noodles.Csi.QueryIo
open Noodles.Bgzf.RM Noodles.Bgzf.Async Noodles.Bgzf.ChunkRead

variable {α : Type}

/-! ### helpers -/

theorem consume_zero_of_inv (L : Layout α) (x : R α) (hi : Inv L x) : consume 0 x = x := by
  have hc := hi.curLe
  cases x with
  | mk nx po bp bs da cu =>
    simp only at hc
    simp only [consume, Nat.add_zero]
    rw [Nat.min_eq_left hc]

/-- what one `fill_buf` of the query reader leaves behind on both sides -/
def GOut (L : Layout α) (ra rs : SQ α × Except Err (List α)) : Prop :=
  ra.1.chunks = rs.1.chunks ∧ ra.1.st = rs.1.st ∧ StartsValid L ra.1.chunks ∧
  match ra.2, rs.2 with
  | .error e, .error e' => e = e' ∧ Sim L (PX L) ra.1.r rs.1.r
  | .ok b, .ok b' => b = b' ∧
      ∀ n, Sim L (PX L) (consume (min n b.length) ra.1.r) (consume (min n b.length) rs.1.r)
  | _, _ => False

theorem gout_same (L : Layout α) (a s : R α) (h : Sim L (PX L) a s) (chunks : List Chunk)
    (hv : StartsValid L chunks) (st : SSt) :
    GOut L ((⟨a, chunks, st⟩ : SQ α), .ok []) ((⟨s, chunks, st⟩ : SQ α), .ok []) := by
  refine ⟨rfl, rfl, hv, rfl, ?_⟩
  intro n
  simp only [List.length_nil, Nat.min_zero]
  rw [consume_zero_of_inv L a h.ia, consume_zero_of_inv L s h.is]
  exact h

theorem fillBufG_sim (L : Layout α) (hne : NoAdjacentEmpty L) (fuel : Nat) :
    ∀ (a s : R α) (chunks : List Chunk) (st : SSt), Sim L (PX L) a s → StartsValid L chunks →
      GOut L (fillBufG (seekA L) (fillBufA L) fuel ⟨a, chunks, st⟩)
        (fillBufG (Noodles.Bgzf.RM.seek L) (fillBuf L) fuel ⟨s, chunks, st⟩) := by
  have hnoneP : ∀ k, L[k]? = none → PX L k := by
    intro k hk b hb; rw [hk] at hb; cases hb
  have hseekP : ∀ k b, L[k]? = some b → ¬ b.data.length > 0 → PX L (k + 1) := by
    intro k b hb h0 b' hb'; exact hne k b b' hb hb' (by omega)
  induction fuel with
  | zero =>
    intro a s chunks st h hv
    simp only [fillBufG]
    exact gout_same L a s h chunks hv st
  | succ fuel ih =>
    intro a s chunks st h hv
    cases st with
    | seek =>
      cases chunks with
      | nil =>
        simp only [fillBufG]
        exact ih a s [] .done h hv
      | cons c cs =>
        have hvc : SeekValid L (.seek c.s.1 c.s.2) := hv c (by simp)
        have hvs : StartsValid L cs := fun c' hc' => hv c' (List.mem_cons_of_mem _ hc')
        obtain ⟨r1, r2⟩ := seek_sim L (PX L) hseekP a s c.s.1 c.s.2 h hvc
        simp only [fillBufG]
        generalize seekA L a c.s.1 c.s.2 = ra at r1 r2
        generalize Noodles.Bgzf.RM.seek L s c.s.1 c.s.2 = rs at r1 r2
        obtain ⟨a', ea⟩ := ra
        obtain ⟨s', es⟩ := rs
        simp only at r1 r2
        subst r1
        cases ea with
        | none =>
          simp only
          exact ih a' s' cs (.read c.e) r2 hvs
        | some e =>
          simp only
          exact ⟨rfl, rfl, hvs, rfl, r2⟩
    | read ce =>
      simp only [fillBufG]
      rw [tell_exact L a s h]
      by_cases hlt : vlt (tell s) ce = true
      · rw [if_pos hlt, if_pos hlt]
        have hf := fill_sim L (PX L) hnoneP a s h
        refine ⟨rfl, rfl, hv, hf.bytes, ?_⟩
        intro n
        exact consume_sim L (PX L) _ _ _ hf
      · rw [if_neg hlt, if_neg hlt]
        exact ih a s chunks .seek h hv
    | done =>
      simp only [fillBufG]
      exact gout_same L a s h chunks hv .done

theorem runG_sim (L : Layout α) (hne : NoAdjacentEmpty L) (ns : List Nat) :
    ∀ (a s : R α) (chunks : List Chunk) (st : SSt), Sim L (PX L) a s → StartsValid L chunks →
      (runG (seekA L) (fillBufA L) ⟨a, chunks, st⟩ ns).1 =
        (runG (Noodles.Bgzf.RM.seek L) (fillBuf L) ⟨s, chunks, st⟩ ns).1 ∧
      tell (runG (seekA L) (fillBufA L) ⟨a, chunks, st⟩ ns).2 =
        tell (runG (Noodles.Bgzf.RM.seek L) (fillBuf L) ⟨s, chunks, st⟩ ns).2 := by
  induction ns with
  | nil =>
    intro a s chunks st h hv
    simp only [runG]
    exact ⟨trivial, tell_exact L a s h⟩
  | cons n ns ih =>
    intro a s chunks st h hv
    have hg := fillBufG_sim L hne (qFuel chunks) a s chunks st h hv
    simp only [runG]
    generalize fillBufG (seekA L) (fillBufA L) (qFuel chunks) ⟨a, chunks, st⟩ = ra at hg
    generalize fillBufG (Noodles.Bgzf.RM.seek L) (fillBuf L) (qFuel chunks) ⟨s, chunks, st⟩ = rs at hg
    obtain ⟨⟨a', ca, sta⟩, oa⟩ := ra
    obtain ⟨⟨s', cs, sts⟩, os⟩ := rs
    obtain ⟨g1, g2, g3, g4⟩ := hg
    simp only at g1 g2 g3 g4
    subst g1; subst g2
    cases oa with
    | error e =>
      cases os with
      | error e' =>
        simp only at g4 ⊢
        obtain ⟨ge, gs⟩ := g4
        subst ge
        exact ⟨rfl, tell_exact L a' s' gs⟩
      | ok b' => exact absurd g4 (by simp)
    | ok b =>
      cases os with
      | error e' => exact absurd g4 (by simp)
      | ok b' =>
        simp only at g4 ⊢
        obtain ⟨ge, gs⟩ := g4
        subst ge
        obtain ⟨i1, i2⟩ := ih _ _ ca sta (gs n) g3
        exact ⟨by rw [i1], i2⟩

/-- every result of `runG` is `bytes` or `err` -/
theorem runG_outs (seekF : R α → Nat → Nat → R α × Option Err) (fillF : R α → R α × List α)
    (ns : List Nat) : ∀ (q : SQ α), ∀ o ∈ (runG seekF fillF q ns).1,
      (∃ b, o = QOut.bytes b) ∨ (∃ e, o = QOut.err e) := by
  induction ns with
  | nil =>
    intro q o ho
    simp only [runG] at ho
    cases ho
  | cons n ns ih =>
    intro q o ho
    simp only [runG] at ho
    generalize fillBufG seekF fillF (qFuel q.chunks) q = res at ho
    obtain ⟨q', oo⟩ := res
    cases oo with
    | error e =>
      simp only [List.mem_singleton] at ho
      exact Or.inr ⟨e, ho⟩
    | ok bs =>
      simp only [List.mem_cons] at ho
      rcases ho with ho | ho
      · exact Or.inl ⟨bs, ho⟩
      · exact ih _ o ho

/-- Layer 2 -/
theorem runSeq_sim (L : Layout α) (hL : WF L) (hne : NoAdjacentEmpty L) (a s : R α)
    (h : Sim L (PX L) a s) (chunks : List Chunk) (hv : StartsValid L chunks) (ns : List Nat) :
    (runSeq L a chunks ns).1 = (runS L s chunks ns).1 ∧
    tell (runSeq L a chunks ns).2 = tell (runS L s chunks ns).2 := by
  unfold runSeq runS SQ.new
  exact runG_sim L hne ns a s chunks .seek h hv

/-- the first thing a query over a non-empty chunk list does is a seek, and a seek forgets the
reader's state -/
theorem runSeq_fresh (L : Layout α) (r1 r2 : R α) (chunks : List Chunk) (hne : chunks ≠ [])
    (ns : List Nat) :
    (runSeq L r1 chunks ns).1 = (runSeq L r2 chunks ns).1 := by
  cases chunks with
  | nil => exact absurd rfl hne
  | cons c cs =>
    cases ns with
    | nil => simp only [runSeq, runG]
    | cons n ns =>
      simp only [runSeq, runG, SQ.new, qFuel, fillBufG]
      unfold seekA
      cases hm : memberAt L c.s.1 with
      | none => simp only
      | some k => simp only

/-- no result of the sequential reading is `starved` or `panic` -/
theorem runSeq_outs (L : Layout α) (r : R α) (chunks : List Chunk) (ns : List Nat) :
    ∀ o ∈ (runSeq L r chunks ns).1, (∃ b, o = QOut.bytes b) ∨ (∃ e, o = QOut.err e) := by
  unfold runSeq
  exact runG_outs _ _ ns _

end Noodles.Csi.QueryIo
