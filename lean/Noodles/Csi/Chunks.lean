namespace Noodles.Csi

structure Chunk where
  s : Nat
  e : Nat
deriving Repr, DecidableEq

def Chunk.covers (c : Chunk) (x : Nat) : Prop := c.s ≤ x ∧ x < c.e

def mergeGo (cur : Chunk) : List Chunk → List Chunk
  | [] => [cur]
  | n :: rest =>
    if n.s > cur.e then cur :: mergeGo n rest
    else if cur.e < n.e then mergeGo ⟨cur.s, n.e⟩ rest
    else mergeGo cur rest

def optimize (chunks : List Chunk) (min : Nat) : List Chunk :=
  match (chunks.filter (fun c => c.e > min)).mergeSort (fun a b => a.s ≤ b.s) with
  | [] => []
  | c :: rest => mergeGo c rest

theorem mergeGo_covers (rest : List Chunk) :
    ∀ cur, (∀ n ∈ rest, cur.s ≤ n.s) → rest.Pairwise (fun a b => a.s ≤ b.s) →
    ∀ x, (cur.covers x ∨ ∃ n ∈ rest, n.covers x) → ∃ c ∈ mergeGo cur rest, c.covers x := by
  induction rest with
  | nil =>
    intro cur _ _ x h
    rcases h with h | ⟨n, hn, _⟩
    · exact ⟨cur, by simp [mergeGo], h⟩
    · cases hn
  | cons n rest ih =>
    intro cur hle hs x h
    have hs' := (List.pairwise_cons.mp hs)
    unfold mergeGo
    split
    · -- disjoint
      rcases h with h | ⟨m, hm, hx⟩
      · exact ⟨cur, by simp, h⟩
      · have := ih n (fun k hk => hs'.1 k hk) hs'.2 x
            (by rcases List.mem_cons.mp hm with rfl | hm'
                · exact Or.inl hx
                · exact Or.inr ⟨m, hm', hx⟩)
        obtain ⟨c, hc, hcx⟩ := this
        exact ⟨c, List.mem_cons_of_mem _ hc, hcx⟩
    · rename_i hnd
      have hcn : cur.s ≤ n.s := hle n (by simp)
      split
      · rename_i hlt
        apply ih ⟨cur.s, n.e⟩ (fun k hk => hle k (List.mem_cons_of_mem _ hk)) hs'.2 x
        rcases h with h | ⟨m, hm, hx⟩
        · left; exact ⟨h.1, by have := h.2; simp only; omega⟩
        · rcases List.mem_cons.mp hm with rfl | hm'
          · left; exact ⟨by have := hx.1; simp only; omega, hx.2⟩
          · right; exact ⟨m, hm', hx⟩
      · rename_i hge
        apply ih cur (fun k hk => hle k (List.mem_cons_of_mem _ hk)) hs'.2 x
        rcases h with h | ⟨m, hm, hx⟩
        · left; exact h
        · rcases List.mem_cons.mp hm with rfl | hm'
          · left; exact ⟨by have := hx.1; omega, by have := hx.2; omega⟩
          · right; exact ⟨m, hm', hx⟩

theorem optimize_keeps_coverage (chunks : List Chunk) (min x : Nat)
    (h : ∃ c ∈ chunks, c.e > min ∧ c.covers x) : ∃ c' ∈ optimize chunks min, c'.covers x := by
  obtain ⟨c, hc, hmin, hx⟩ := h
  unfold optimize
  have hperm := List.mergeSort_perm (chunks.filter (fun c => c.e > min)) (fun a b => decide (a.s ≤ b.s))
  have hsorted := List.pairwise_mergeSort (le := fun a b : Chunk => decide (a.s ≤ b.s))
      (by intro a b c; simp; omega) (by intro a b; simp; omega) (chunks.filter (fun c => c.e > min))
  have hmem : c ∈ (chunks.filter (fun c => c.e > min)).mergeSort (fun a b => decide (a.s ≤ b.s)) := by
    rw [hperm.mem_iff]; simp [hc, hmin]
  generalize (chunks.filter (fun c => c.e > min)).mergeSort (fun a b => decide (a.s ≤ b.s)) = l at *
  match l, hmem, hsorted with
  | [], hmem, _ => cases hmem
  | d :: rest, hmem, hsorted =>
    have hp := List.pairwise_cons.mp hsorted
    apply mergeGo_covers rest d (fun n hn => by simpa using hp.1 n hn)
      (hp.2.imp (by intro a b h; simpa using h)) x
    rcases List.mem_cons.mp hmem with rfl | hm
    · left; exact hx
    · right; exact ⟨c, hm, hx⟩

#print axioms optimize_keeps_coverage
end Noodles.Csi
