import Noodles.Csi.Indexer
import Noodles.Csi.BinningProof
/-! Helper lemmas for `Props/C17Reach.lean`: the invariant every `add_record` keeps. -/
namespace Noodles.Csi.Reach
open Noodles.Csi
open Noodles.Index (Meta RefLin RefCsi Bai Tabix CsiIndex Header Bins)

theorem lvl_mono {a b : Nat} (h : a ≤ b) : lvl a ≤ lvl b := by
  induction h with
  | refl => exact Nat.le_refl _
  | step _ ih => exact Nat.le_trans ih (by simp [lvl])

/-- `reg2bin` of a start inside the geometry is a real bin id: below `lvl (depth+1)`, the number of
bins. Only the START needs to be in range (and nothing is asked of `end`). -/
theorem reg2bin_lt (ms d beg end_ : Nat) (hb : beg < 2^(ms + d*3)) :
    reg2bin beg end_ ms d < lvl (d+1) := by
  unfold reg2bin
  rw [init_t]
  have hpos : 0 < lvl (d+1) := by
    have h1 := seven_lvl (d+1)
    have h2 : 0 < 8^d := Nat.pow_pos (by decide)
    rw [Nat.pow_succ] at h1; omega
  rcases reg2binLoop_spec beg end_ d ms with h0 | ⟨j, hj1, hjd, _, hr⟩
  · rw [h0]; exact hpos
  · rw [hr]
    have hsh : beg >>> (ms + 3*(d-j)) < 8^j := by
      rw [Nat.shiftRight_eq_div_pow]
      apply Nat.div_lt_of_lt_mul
      have : 2^(ms + 3*(d-j)) * 8^j = 2^(ms + d*3) := by
        have h8 : (8:Nat)^j = 2^(3*j) := by rw [Nat.pow_mul]
        rw [h8, ← Nat.pow_add]
        congr 1; omega
      rw [this]; exact hb
    have hmono : lvl (j+1) ≤ lvl (d+1) := lvl_mono (by omega)
    have : lvl (j+1) = lvl j + 8^j := rfl
    omega

/-! ## the per-reference invariant -/

/-- what holds of a `ReferenceSequence` after at most `N` updates in geometry `(ms, d)` -/
structure RefInv (ms d N : Nat) (r : RefSt) : Prop where
  nodup : (r.bins.map (·.1)).Nodup
  keys : r.binned.map (·.1) = r.bins.map (·.1)
  bin : ∀ b ∈ r.bins, b.1 < lvl (d+1) ∧ b.2 ≠ [] ∧ b.2.length ≤ N ∧ ∀ c ∈ b.2, c.s < 2^64 ∧ c.e < 2^64
  nbins : r.bins.length ≤ N
  off : ∀ p ∈ r.binned, p.2 < 2^64
  linLen : r.lin.length ≤ (maxPos ms d - 1) / W + 1
  linVal : ∀ o ∈ r.lin, o < 2^64
  md : ∀ m, r.md = some m → m.refBeg < 2^64 ∧ m.refEnd < 2^64 ∧ m.nMapped + m.nUnmapped ≤ N

theorem RefInv.mono {ms d N M : Nat} {r : RefSt} (h : RefInv ms d N r) (hNM : N ≤ M) : RefInv ms d M r :=
  { h with
    bin := fun b hb => let ⟨a, b', c, e⟩ := h.bin b hb; ⟨a, b', Nat.le_trans c hNM, e⟩
    nbins := Nat.le_trans h.nbins hNM
    md := fun m hm => let ⟨a, b, c⟩ := h.md m hm; ⟨a, b, Nat.le_trans c hNM⟩ }

theorem RefInv.empty (ms d N : Nat) : RefInv ms d N RefSt.empty :=
  ⟨by simp [RefSt.empty], by simp [RefSt.empty], by simp [RefSt.empty], by simp [RefSt.empty],
   by simp [RefSt.empty], by simp [RefSt.empty], by simp [RefSt.empty], by simp [RefSt.empty]⟩

theorem addChunkRev_props (c : Chunk) (cs : List Chunk) (hc : c.s < 2^64 ∧ c.e < 2^64)
    (h : ∀ x ∈ cs, x.s < 2^64 ∧ x.e < 2^64) :
    addChunkRev c cs ≠ [] ∧ (addChunkRev c cs).length ≤ cs.length + 1 ∧
    ∀ x ∈ addChunkRev c cs, x.s < 2^64 ∧ x.e < 2^64 := by
  cases cs with
  | nil => simp [addChunkRev]; exact hc
  | cons l rest =>
    simp only [addChunkRev]
    split
    · refine ⟨by simp, by simp, ?_⟩
      intro x hx
      rcases List.mem_cons.mp hx with rfl | hx
      · exact ⟨(h l (by simp)).1, hc.2⟩
      · exact h x (List.mem_cons_of_mem _ hx)
    · refine ⟨by simp, by simp, ?_⟩
      intro x hx
      rcases List.mem_cons.mp hx with rfl | hx
      · exact hc
      · exact h x hx

theorem binsUpdate_keys (bins : List (Nat × List Chunk)) (id : Nat) (c : Chunk) :
    (binsUpdate bins id c).map (·.1) =
      if id ∈ bins.map (·.1) then bins.map (·.1) else bins.map (·.1) ++ [id] := by
  induction bins with
  | nil => simp [binsUpdate]
  | cons b rest ih =>
    obtain ⟨k, cs⟩ := b
    unfold binsUpdate
    by_cases hk : k = id
    · subst hk; simp
    · simp only [hk, if_false, List.map_cons, ih]
      have : id ≠ k := fun h => hk h.symm
      by_cases hm : id ∈ rest.map (·.1)
      · simp [hm]
      · simp [hm, this]

theorem binnedUpdate_keys (ix : Binned) (id v : Nat) :
    (binnedUpdate ix id v).map (·.1) =
      if id ∈ ix.map (·.1) then ix.map (·.1) else ix.map (·.1) ++ [id] := by
  induction ix with
  | nil => simp [binnedUpdate]
  | cons b rest ih =>
    obtain ⟨k, w⟩ := b
    unfold binnedUpdate
    by_cases hk : k = id
    · subst hk; simp
    · simp only [hk, if_false, List.map_cons, ih]
      have : id ≠ k := fun h => hk h.symm
      by_cases hm : id ∈ rest.map (·.1)
      · simp [hm]
      · simp [hm, this]

theorem binnedUpdate_vals (ix : Binned) (id v : Nat) (hv : v < 2^64) (h : ∀ p ∈ ix, p.2 < 2^64) :
    ∀ p ∈ binnedUpdate ix id v, p.2 < 2^64 := by
  induction ix with
  | nil => intro p hp; simp [binnedUpdate] at hp; subst hp; exact hv
  | cons b rest ih =>
    obtain ⟨k, w⟩ := b
    intro p hp
    unfold binnedUpdate at hp
    split at hp
    · rcases List.mem_cons.mp hp with rfl | hp
      · have := h (k, w) (by simp); simp only at this ⊢; split <;> assumption
      · exact h p (List.mem_cons_of_mem _ hp)
    · rcases List.mem_cons.mp hp with rfl | hp
      · exact h _ (by simp)
      · exact ih (fun q hq => h q (List.mem_cons_of_mem _ hq)) p hp

theorem binsUpdate_mem (bins : List (Nat × List Chunk)) (id : Nat) (c : Chunk) :
    ∀ b ∈ binsUpdate bins id c, b ∈ bins ∨ (b.1 = id ∧ ∃ cs, b.2 = addChunkRev c cs ∧
      (cs = [] ∨ (id, cs) ∈ bins)) := by
  induction bins with
  | nil => intro b hb; simp [binsUpdate] at hb; subst hb; right; exact ⟨rfl, [], rfl, Or.inl rfl⟩
  | cons x rest ih =>
    obtain ⟨k, cs⟩ := x
    intro b hb
    unfold binsUpdate at hb
    split at hb
    · rename_i hk
      rcases List.mem_cons.mp hb with rfl | hb
      · right; exact ⟨hk, cs, rfl, Or.inr (by simp [hk])⟩
      · left; exact List.mem_cons_of_mem _ hb
    · rcases List.mem_cons.mp hb with rfl | hb
      · left; simp
      · rcases ih b hb with h | ⟨h1, cs', h2, h3⟩
        · left; exact List.mem_cons_of_mem _ h
        · right; refine ⟨h1, cs', h2, ?_⟩
          rcases h3 with h3 | h3
          · exact Or.inl h3
          · exact Or.inr (List.mem_cons_of_mem _ h3)

theorem binsUpdate_length (bins : List (Nat × List Chunk)) (id : Nat) (c : Chunk) :
    (binsUpdate bins id c).length ≤ bins.length + 1 := by
  have := congrArg List.length (binsUpdate_keys bins id c)
  simp only [List.length_map] at this
  rw [this]; split <;> simp

/-- one `ReferenceSequence::update` with in-geometry coordinates and `u64` virtual positions -/
theorem refUpdate_inv (linear : Bool) (ms d N s e : Nat) (mapped : Bool) (c : Chunk) (r : RefSt)
    (h : RefInv ms d N r) (hc : c.s < 2^64 ∧ c.e < 2^64)
    (hs : 1 ≤ s ∧ s ≤ maxPos ms d) (he : 1 ≤ e ∧ e ≤ maxPos ms d) :
    RefInv ms d (N+1) (refUpdate linear ms d s e mapped c r) := by
  have hid : reg2bin (s - 1) (e - 1) ms d < lvl (d+1) :=
    reg2bin_lt ms d (s-1) (e-1) (by unfold maxPos at hs; omega)
  constructor
  · -- nodup
    simp only [refUpdate, binsUpdate_keys]
    split
    · exact h.nodup
    · rename_i hn
      exact List.nodup_append.mpr ⟨h.nodup, by simp, by
        intro a ha b hb; simp at hb; subst hb; intro hab; subst hab; exact hn ha⟩
  · simp only [refUpdate, binsUpdate_keys, binnedUpdate_keys, h.keys]
  · intro b hb
    rcases binsUpdate_mem r.bins _ c b hb with hb | ⟨h1, cs, h2, h3⟩
    · obtain ⟨a1, a2, a3, a4⟩ := h.bin b hb
      exact ⟨a1, a2, by omega, a4⟩
    · have hcs : cs.length ≤ N ∧ ∀ x ∈ cs, x.s < 2^64 ∧ x.e < 2^64 := by
        rcases h3 with rfl | h3
        · simp
        · obtain ⟨_, _, a3, a4⟩ := h.bin _ h3; exact ⟨a3, a4⟩
      obtain ⟨p1, p2, p3⟩ := addChunkRev_props c cs hc hcs.2
      rw [h1, h2]
      exact ⟨hid, p1, by omega, p3⟩
  · have := binsUpdate_length r.bins (reg2bin (s - 1) (e - 1) ms d) c
    have := h.nbins
    simp only [refUpdate]; omega
  · exact binnedUpdate_vals r.binned _ c.s hc.1 h.off
  · cases linear
    · exact h.linLen
    · simp only [refUpdate, linUpdate, if_true]
      split
      · simp only [List.length_append, List.length_replicate]
        have : (e - 1) / W ≤ (maxPos ms d - 1) / W := Nat.div_le_div_right (by omega)
        have := h.linLen
        omega
      · exact h.linLen
  · intro o ho
    cases linear
    · exact h.linVal o ho
    · simp only [refUpdate, linUpdate, if_true] at ho
      split at ho
      · rcases List.mem_append.mp ho with ho | ho
        · exact h.linVal o ho
        · rw [List.eq_of_mem_replicate ho]; exact hc.1
      · exact h.linVal o ho
  · intro m hm
    simp only [refUpdate, Option.some.injEq] at hm
    subst hm
    have hold : ∀ m0, r.md.getD ⟨2^64 - 1, 0, 0, 0⟩ = m0 →
        m0.refBeg < 2^64 ∧ m0.refEnd < 2^64 ∧ m0.nMapped + m0.nUnmapped ≤ N := by
      intro m0 hm0
      cases hmd : r.md with
      | none => rw [hmd] at hm0; simp at hm0; subst hm0; simp
      | some m1 => rw [hmd] at hm0; simp at hm0; subst hm0; exact h.md _ hmd
    obtain ⟨q1, q2, q3⟩ := hold _ rfl
    simp only [metaUpdate]
    generalize r.md.getD ⟨2^64 - 1, 0, 0, 0⟩ = m0 at q1 q2 q3 ⊢
    refine ⟨by split <;> first | exact hc.1 | exact q1, by split <;> first | exact hc.2 | exact q2, ?_⟩
    cases mapped <;> simp <;> omega

/-! ## the indexer invariant -/

/-- after `N` calls with reference ids below `R` -/
structure StInv (ms d N R : Nat) (st : St) : Prop where
  refs : ∀ r ∈ st.refs, RefInv ms d N r
  len : st.refs.length ≤ R
  unplaced : st.unplaced ≤ N

theorem resizeWith_mem (ms d N : Nat) (refs : List RefSt) (n : Nat) (h : ∀ r ∈ refs, RefInv ms d N r) :
    ∀ r ∈ resizeWith refs n, RefInv ms d N r := by
  intro r hr
  rcases List.mem_append.mp hr with hr | hr
  · exact h r (List.mem_of_mem_take hr)
  · rw [List.eq_of_mem_replicate hr]; exact RefInv.empty ms d N

theorem resizeWith_length (refs : List RefSt) (n : Nat) : (resizeWith refs n).length = n := by
  simp [resizeWith, List.length_take]; omega

theorem updAt_mem (f : RefSt → RefSt) : ∀ (i : Nat) (l : List RefSt),
    ∀ x ∈ updAt f i l, x ∈ l ∨ ∃ y ∈ l, x = f y := by
  intro i l
  induction l generalizing i with
  | nil => intro x hx; simp [updAt] at hx
  | cons r rs ih =>
    intro x hx
    cases i with
    | zero =>
      rcases List.mem_cons.mp hx with rfl | hx
      · right; exact ⟨r, by simp, rfl⟩
      · left; exact List.mem_cons_of_mem _ hx
    | succ i =>
      rcases List.mem_cons.mp hx with rfl | hx
      · left; simp
      · rcases ih i x hx with h | ⟨y, hy, rfl⟩
        · left; exact List.mem_cons_of_mem _ h
        · right; exact ⟨y, List.mem_cons_of_mem _ hy, rfl⟩

theorem updAt_length (f : RefSt → RefSt) : ∀ (i : Nat) (l : List RefSt), (updAt f i l).length = l.length := by
  intro i l
  induction l generalizing i with
  | nil => simp [updAt]
  | cons r rs ih => cases i <;> simp [updAt, ih]

theorem addRecord_inv (linear : Bool) (ms d N R : Nat) (st st' : St) (c : Call) (h : StInv ms d N R st)
    (hv : c.Valid ms d R) (hs : addRecord linear ms d st c = some st') : StInv ms d (N+1) R st' := by
  rw [addRecord_eq_core linear ms d R st c hv] at hs
  unfold addRecordCore at hs
  cases hctx : c.ctx with
  | none =>
    rw [hctx] at hs; simp at hs; subst hs
    exact ⟨fun r hr => (h.refs r hr).mono (by omega), h.len, by have := h.unplaced; simp; omega⟩
  | some t =>
    obtain ⟨rid, s, e, mapped⟩ := t
    rw [hctx] at hs
    simp only at hs
    obtain ⟨hcs, hce, hpos⟩ := hv
    obtain ⟨hrid, hs1, hs2, he1, he2⟩ := hpos rid s e mapped hctx
    -- the two resizes keep the invariant and the length bound
    have h1 : (∀ r ∈ (if st.refs.isEmpty then resizeWith st.refs 1 else st.refs), RefInv ms d N r) ∧
        (if st.refs.isEmpty then resizeWith st.refs 1 else st.refs).length ≤ R := by
      split
      · exact ⟨resizeWith_mem ms d N _ _ h.refs, by rw [resizeWith_length]; omega⟩
      · exact ⟨h.refs, h.len⟩
    generalize (if st.refs.isEmpty then resizeWith st.refs 1 else st.refs) = refs1 at h1 hs
    by_cases hlt : rid < refs1.length - 1
    · simp [hlt] at hs
    · simp only [hlt, if_false, Option.some.injEq] at hs
      subst hs
      have h2 : (∀ r ∈ (if refs1.length - 1 < rid then resizeWith refs1 (rid + 1) else refs1), RefInv ms d N r) ∧
          (if refs1.length - 1 < rid then resizeWith refs1 (rid + 1) else refs1).length ≤ R := by
        split
        · exact ⟨resizeWith_mem ms d N _ _ h1.1, by rw [resizeWith_length]; omega⟩
        · exact h1
      generalize (if refs1.length - 1 < rid then resizeWith refs1 (rid + 1) else refs1) = refs2 at h2 ⊢
      refine ⟨?_, by simp only [updAt_length]; exact h2.2, by have := h.unplaced; simp only; omega⟩
      intro r hr
      rcases updAt_mem _ rid refs2 r hr with hr | ⟨y, hy, rfl⟩
      · exact (h2.1 r hr).mono (by omega)
      · exact refUpdate_inv linear ms d N s e mapped c.chunk y (h2.1 y hy) ⟨hcs, hce⟩ ⟨hs1, hs2⟩ ⟨he1, he2⟩

theorem run_inv (linear : Bool) (ms d R : Nat) : ∀ (calls : List Call) (N : Nat) (st st' : St),
    StInv ms d N R st → (∀ c ∈ calls, c.Valid ms d R) → run linear ms d st calls = some st' →
    StInv ms d (N + calls.length) R st' := by
  intro calls
  induction calls with
  | nil => intro N st st' h _ hr; simp [run] at hr; subst hr; simpa using h
  | cons c cs ih =>
    intro N st st' h hv hr
    unfold run at hr
    cases ha : addRecord linear ms d st c with
    | none => rw [ha] at hr; cases hr
    | some st1 =>
      rw [ha] at hr
      have := ih (N+1) st1 st' (addRecord_inv linear ms d N R st st1 c h (hv c (by simp)) ha)
        (fun x hx => hv x (List.mem_cons_of_mem _ hx)) hr
      simpa [Nat.add_assoc, Nat.add_comm 1] using this

theorem init_inv (ms d R : Nat) : StInv ms d 0 R St.init :=
  ⟨by simp [St.init], by simp [St.init], by simp [St.init]⟩

/-- the references of the built index: invariant and count -/
theorem padded_inv (ms d N R : Nat) (st : St) (nRef : Nat) (h : StInv ms d N R st) :
    (∀ r ∈ padded st nRef, RefInv ms d N r) ∧ (padded st nRef).length ≤ max R nRef := by
  unfold padded
  split
  · refine ⟨resizeWith_mem ms d N _ _ h.refs, ?_⟩
    rw [resizeWith_length]; omega
  · exact ⟨h.refs, by have := h.len; omega⟩

end Noodles.Csi.Reach
